// Package paths enumerates the structured paths of a small function body
// (if/else, switch, early return; loops are opaque items the consumer must
// interpret). It is used for "on every path" rules on the hand-written visitor
// methods, which are loop-free apart from range loops over a child list.
package paths

import (
	"fmt"
	"go/ast"
	"go/token"
)

type Item struct {
	Cond   ast.Expr // assumption Cond == Truth
	Truth  bool
	Stmt   ast.Stmt // simple statement
	Loop   ast.Stmt // *ast.RangeStmt or *ast.ForStmt, opaque
	Switch ast.Stmt // *ast.SwitchStmt / *ast.TypeSwitchStmt entered through Clause (nil Clause: no case matched)
	Clause *ast.CaseClause
	Return *ast.ReturnStmt
}

type Path []Item

const Limit = 20000

type enum struct {
	out      []Path
	err      error
	limit    int
	loopBody bool
}

// EnumerateLoop lists every structured path through one iteration of a loop
// body: an unlabelled continue ends the path like falling off the end.
func EnumerateLoop(body *ast.BlockStmt) ([]Path, error) {
	e := &enum{limit: Limit, loopBody: true}
	e.walk(body.List, nil, func(p Path) { e.emit(p) })
	return e.out, e.err
}

// Enumerate lists every structured path through body.
func Enumerate(body *ast.BlockStmt) ([]Path, error) {
	e := &enum{limit: Limit}
	e.walk(body.List, nil, func(p Path) { e.emit(p) })
	return e.out, e.err
}

func (e *enum) emit(p Path) {
	if e.err != nil {
		return
	}
	if len(e.out) >= e.limit {
		e.err = fmt.Errorf("more than %d paths", e.limit)
		return
	}
	cp := make(Path, len(p))
	copy(cp, p)
	e.out = append(e.out, cp)
}

// walk processes stmts with prefix cur; k is called at fall-through end.
// A return statement emits the path directly.
func (e *enum) walk(stmts []ast.Stmt, cur Path, k func(Path)) {
	if e.err != nil {
		return
	}
	if len(stmts) == 0 {
		k(cur)
		return
	}
	s, rest := stmts[0], stmts[1:]
	next := func(p Path) { e.walk(rest, p, k) }
	switch s := s.(type) {
	case *ast.BlockStmt:
		e.walk(s.List, cur, next)
	case *ast.ExprStmt, *ast.AssignStmt, *ast.IncDecStmt, *ast.DeclStmt, *ast.DeferStmt, *ast.GoStmt, *ast.EmptyStmt, *ast.SendStmt:
		next(append(cur, Item{Stmt: s}))
	case *ast.ReturnStmt:
		e.emit(append(cur, Item{Return: s}))
	case *ast.IfStmt:
		p := cur
		if s.Init != nil {
			p = append(p, Item{Stmt: s.Init})
		}
		base := len(p)
		e.walk(s.Body.List, append(p[:base:base], Item{Cond: s.Cond, Truth: true}), next)
		pf := append(p[:base:base], Item{Cond: s.Cond, Truth: false})
		if s.Else != nil {
			e.walk([]ast.Stmt{s.Else}, pf, next)
		} else {
			next(pf)
		}
	case *ast.RangeStmt, *ast.ForStmt:
		next(append(cur, Item{Loop: s}))
	case *ast.SwitchStmt:
		p := cur
		if s.Init != nil {
			p = append(p, Item{Stmt: s.Init})
		}
		e.switchBody(s, s.Body, p, next)
	case *ast.TypeSwitchStmt:
		p := cur
		if s.Init != nil {
			p = append(p, Item{Stmt: s.Init})
		}
		e.switchBody(s, s.Body, p, next)
	case *ast.BranchStmt:
		if s.Tok == token.CONTINUE && s.Label == nil && e.loopBody {
			e.emit(cur)
			return
		}
		if s.Tok == token.BREAK && s.Label == nil {
			// break inside a switch clause: handled by caller of clause bodies
			// through the sentinel below
			k2 := k
			_ = k2
			e.err = fmt.Errorf("unsupported statement: break/continue/goto")
			return
		}
		e.err = fmt.Errorf("unsupported statement: %s", s.Tok)
	default:
		e.err = fmt.Errorf("unsupported statement %T", s)
	}
}

func (e *enum) switchBody(sw ast.Stmt, body *ast.BlockStmt, cur Path, next func(Path)) {
	hasDefault := false
	base := len(cur)
	for _, c := range body.List {
		cc := c.(*ast.CaseClause)
		if cc.List == nil {
			hasDefault = true
		}
		for _, st := range cc.Body {
			if b, ok := st.(*ast.BranchStmt); ok && b.Tok == token.FALLTHROUGH {
				e.err = fmt.Errorf("unsupported statement: fallthrough")
				return
			}
		}
		e.walk(cc.Body, append(cur[:base:base], Item{Switch: sw, Clause: cc}), next)
	}
	if !hasDefault {
		next(append(cur[:base:base], Item{Switch: sw, Clause: nil}))
	}
}
