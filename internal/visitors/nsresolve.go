package visitors

import (
	"fmt"
	"go/ast"
	"go/constant"
	"go/token"
	"go/types"
	"sort"
	"strings"

	"golang.org/x/tools/go/packages"
	"golang.org/x/tools/go/types/typeutil"

	"verif/internal/kinds"
	"verif/internal/load"
	"verif/internal/norm"
	"verif/internal/paths"
	"verif/internal/report"
)

// ---- oracle: where PHP resolves names at compile time -------------------------------

type sinkRule struct {
	mode string // class | function | const | type | none
	via  string // "" = the kind's own method; else "Parent.Field": reached through the parent's method
	why  string
}

// NameSinkOracle: every field into which the grammars can put a Name /
// NameRelative / NameFullyQualified, and how PHP's rules treat it.
var NameSinkOracle = map[string]sinkRule{
	"ExprClassConstFetch.Class":        {"class", "", "static access"},
	"ExprStaticCall.Class":             {"class", "", "static access"},
	"ExprStaticPropertyFetch.Class":    {"class", "", "static access"},
	"ExprInstanceOf.Class":             {"class", "", "instanceof"},
	"ExprNew.Class":                    {"class", "", "new"},
	"StmtCatch.Types":                  {"class", "", "catch"},
	"StmtClass.Extends":                {"class", "", "extends"},
	"StmtClass.Implements":             {"class", "", "implements"},
	"StmtInterface.Extends":            {"class", "", "interface extends"},
	"StmtTraitUse.Traits":              {"class", "", "trait use"},
	"StmtTraitUseAlias.Trait":          {"class", "StmtTraitUse.Adaptations", "trait adaptation"},
	"StmtTraitUsePrecedence.Trait":     {"class", "StmtTraitUse.Adaptations", "trait adaptation"},
	"StmtTraitUsePrecedence.Insteadof": {"class", "StmtTraitUse.Adaptations", "trait adaptation"},
	"ExprFunctionCall.Function":        {"function", "", "function call"},
	"ExprConstFetch.Const":             {"const", "", "constant fetch"},
	"StmtFunction.ReturnType":          {"type", "", "return type"},
	"StmtClassMethod.ReturnType":       {"type", "", "return type"},
	"ExprClosure.ReturnType":           {"type", "", "return type"},
	"ExprArrowFunction.ReturnType":     {"type", "", "return type"},
	"StmtPropertyList.Type":            {"type", "", "property type"},
	"Parameter.Type":                   {"type", "*.Params", "parameter type, resolved by every function-like parent"},
	"Nullable.Expr":                    {"type", "ResolveType", "unwrapped by ResolveType"},
	"StmtNamespace.Name":               {"none", "", "declaration: defines the current namespace"},
	"StmtUse.Use":                      {"none", "", "import: recorded as alias target, already fully qualified"},
	"StmtGroupUseList.Prefix":          {"none", "", "import prefix"},
}

var nameKinds = map[string]bool{"ast.Name": true, "ast.NameRelative": true, "ast.NameFullyQualified": true}

// resolution fact extracted from the resolver
type resFact struct {
	method string // visitor method (kind) it was found in
	slot   string // T.F of the argument
	call   string // ResolveName | ResolveType
	lit    string // alias type literal for ResolveName
	pos    string
}

// NameSinks decides rule name-sinks: the grammar's name positions are exactly
// the oracle's, and each resolvable one is resolved with the right kind.
func NameSinks(p *load.Program, tb *kinds.Table, slotKinds map[string]map[string]bool, rel, recv string) *report.RuleResult {
	res := report.NewResult("name-sinks")
	im, err := FindImpl(p, tb, rel, recv)
	if err != nil {
		res.Unknown("impl", "-", "", "undecided:anchor: "+err.Error())
		return res
	}
	// 1. name positions according to the grammars
	sinks := map[string]bool{}
	typeSlots := map[string]bool{}
	for slot, ks := range slotKinds {
		if !strings.HasPrefix(slot, "ast.") || strings.Contains(slot, "@") {
			continue
		}
		for k := range ks {
			if nameKinds[k] {
				sinks[strings.TrimPrefix(slot, "ast.")] = true
			}
			if k == "ast.Nullable" {
				typeSlots[strings.TrimPrefix(slot, "ast.")] = true
			}
		}
	}
	// slots that hold expressions in general (a Name there is a parse artefact of `new $x` style forms) keep their own rule
	res.Count("grammar-name-slots", len(sinks))
	// 2. what the resolver does
	facts, undec := im.resolverFacts()
	for _, u := range undec {
		res.Unknown("idiom/"+u, "-", "", "undecided:idiom: "+u)
	}
	res.Count("resolver-calls", len(facts))
	im.checkResolveGuards(res)
	bySlot := map[string][]resFact{}
	for _, f := range facts {
		bySlot[f.slot] = append(bySlot[f.slot], f)
	}
	wantLit := map[string]string{"class": "", "function": "function", "const": "const"}
	for _, slot := range sortedKeys(sinks) {
		rule, ok := NameSinkOracle[slot]
		if !ok {
			res.Unknown(slot, "-", "", "undecided:oracle: the grammars can put a name into "+slot+", which the reviewed table of name positions does not list; decide whether PHP resolves it and extend the table")
			continue
		}
		fs := bySlot[slot]
		switch rule.mode {
		case "none":
			if len(fs) > 0 {
				res.Bad(slot, fs[0].pos, fs[0].method, slot+" is a "+rule.why+" and must not be put into the map as a resolved reference")
			} else {
				res.OK(slot, "-", "", "not resolved: "+rule.why)
			}
		case "class", "function", "const":
			if len(fs) == 0 {
				res.Bad(slot, "-", "", fmt.Sprintf("names in %s (%s) are never resolved: no resolver method reaches ResolveName/ResolveType with this slot", slot, rule.why))
				continue
			}
			for _, f := range fs {
				okCall := (f.call == "ResolveName" && f.lit == wantLit[rule.mode]) || (f.call == "ResolveType" && rule.mode == "class")
				k := slot
				if len(fs) > 1 {
					k = slot + "@" + f.method
				}
				if okCall {
					res.OK(k, f.pos, f.method, fmt.Sprintf("%s: resolved as %s name by %s", rule.why, rule.mode, f.method))
				} else {
					res.Bad(k, f.pos, f.method, fmt.Sprintf("%s is a %s position (%s) but is resolved with %s(…, %q)", slot, rule.mode, rule.why, f.call, f.lit))
				}
			}
		case "type":
			if slot == "Nullable.Expr" {
				continue // checked with ResolveType below
			}
			if slot == "Parameter.Type" {
				// every function-like kind with a Params list of parameters
				for _, k := range tb.Kinds {
					if k.Field("Params") == nil {
						continue
					}
					key := "Parameter.Type@" + k.Name
					found := false
					for _, f := range fs {
						if f.method == k.Name {
							found = true
							res.Check(f.call == "ResolveType", key, f.pos, f.method, "parameter types resolved through ResolveType", "parameter types resolved with "+f.call+": nullable types are not unwrapped")
						}
					}
					if !found {
						res.Bad(key, "-", k.Name, "parameter types of "+k.Name+" are never resolved: the resolver has no method for this kind that walks Params")
					}
				}
				continue
			}
			if len(fs) == 0 {
				res.Bad(slot, "-", "", fmt.Sprintf("the %s in %s is never resolved", rule.why, slot))
				continue
			}
			for _, f := range fs {
				if f.call == "ResolveType" {
					res.OK(slot, f.pos, f.method, rule.why+": resolved through ResolveType")
				} else {
					res.Bad(slot, f.pos, f.method, fmt.Sprintf("%s can hold a nullable type but is resolved with ResolveName: `?T` is left unresolved", slot))
				}
			}
		}
	}
	// oracle entries the grammars no longer produce are harmless; facts on slots that are not name sinks are suspicious
	for slot, fs := range bySlot {
		if !sinks[slot] {
			res.Bad("extra/"+slot, fs[0].pos, fs[0].method, "the resolver resolves "+slot+", into which no grammar puts a name")
		}
	}
	// 3. ResolveType unwraps Nullable and forwards the three name kinds as class-like names
	im.checkResolveType(res)
	return res
}

// nsKeep: the functions of the resolver package that its rules interpret themselves.
var nsPrims = map[string]bool{"ResolveName": true, "ResolveType": true, "AddAlias": true, "AddNamespacedName": true, "concatNameParts": true,
	"NewNamespace": true, "ResolveAlias": true, "NewNamespaceResolver": true}

func (im *Impl) nsNorm() {
	if im.nz == nil {
		im.UseNorm(func(fn *types.Func) bool { return nsPrims[fn.Name()] || im.Kinds.ByMethod[fn.Name()] != nil }, norm.Options{})
	}
}

// access path evaluation -------------------------------------------------------------

type apath struct {
	kind  string // node kind the value has ("" unknown)
	slot  string // T.F it was read from ("" if it is the node itself)
	elem  bool
}

func (im *Impl) resolverFacts() (facts []resFact, undec []string) {
	im.nsNorm()
	for _, km := range func() []KM { k, _ := im.KindMethods(); return k }() {
		fd := km.Decl
		if len(fd.Body.List) == 0 {
			continue
		}
		recv := im.recvObj(fd)
		n := im.paramObj(fd, 0)
		env := map[types.Object]apath{n: {kind: km.Kind.Name}}
		im.walkResolver(im.Body(fd), env, recv, km.Kind.Name, &facts, &undec)
	}
	return
}

func (im *Impl) pathOf(e ast.Expr, env map[types.Object]apath) (apath, bool) {
	e = unparen(e)
	switch x := e.(type) {
	case *ast.Ident:
		if o := im.info().Uses[x]; o != nil {
			if p, ok := env[o]; ok {
				return p, true
			}
		}
	case *ast.SelectorExpr:
		base, ok := im.pathOf(x.X, env)
		if ok && base.kind != "" {
			if sel := im.info().Selections[x]; sel != nil && sel.Kind() == types.FieldVal {
				return apath{slot: base.kind + "." + x.Sel.Name}, true
			}
		}
	case *ast.TypeAssertExpr:
		base, ok := im.pathOf(x.X, env)
		if ok && x.Type != nil {
			if n := namedOfType(im.info().Types[x.Type].Type); n != "" {
				return apath{kind: n, slot: base.slot}, true
			}
		}
	}
	return apath{}, false
}

func namedOfType(t types.Type) string {
	if p, ok := t.(*types.Pointer); ok {
		t = p.Elem()
	}
	if n, ok := t.(*types.Named); ok {
		return n.Obj().Name()
	}
	return ""
}

func (im *Impl) walkResolver(node ast.Node, env map[types.Object]apath, recv types.Object, method string, facts *[]resFact, undec *[]string) {
	ast.Inspect(node, func(nd ast.Node) bool {
		switch x := nd.(type) {
		case *ast.AssignStmt:
			if x.Tok == token.DEFINE && len(x.Lhs) == 1 && len(x.Rhs) == 1 {
				if p, ok := im.pathOf(x.Rhs[0], env); ok {
					if id, ok := x.Lhs[0].(*ast.Ident); ok {
						env[im.info().Defs[id]] = p
					}
				}
			}
		case *ast.RangeStmt:
			if p, ok := im.pathOf(x.X, env); ok && x.Value != nil {
				if id, ok := x.Value.(*ast.Ident); ok {
					env[im.info().Defs[id]] = apath{slot: p.slot, elem: true}
				}
			}
		case *ast.TypeSwitchStmt:
			var subj ast.Expr
			if as, ok := x.Assign.(*ast.AssignStmt); ok {
				subj = as.Rhs[0].(*ast.TypeAssertExpr).X
			}
			base, okb := im.pathOf(subj, env)
			for _, c := range x.Body.List {
				cc := c.(*ast.CaseClause)
				if o := im.info().Implicits[cc]; o != nil && len(cc.List) == 1 && okb {
					env[o] = apath{kind: namedOfType(im.info().Types[cc.List[0]].Type), slot: base.slot}
				}
			}
		case *ast.CallExpr:
			name, ok := im.methodCall(x, recv)
			if !ok || (name != "ResolveName" && name != "ResolveType") || len(x.Args) == 0 {
				return true
			}
			p, okp := im.pathOf(x.Args[0], env)
			if !okp || p.slot == "" {
				*undec = append(*undec, fmt.Sprintf("%s: argument %s of %s is not a field of the visited node (%s)", method, exprString(x.Args[0]), name, im.pos(x)))
				return true
			}
			f := resFact{method: method, slot: p.slot, call: name, pos: im.pos(x)}
			if name == "ResolveName" && len(x.Args) == 2 {
				if tv := im.info().Types[x.Args[1]]; tv.Value != nil && tv.Value.Kind() == constant.String {
					f.lit = constant.StringVal(tv.Value)
				} else {
					*undec = append(*undec, fmt.Sprintf("%s: alias type of ResolveName is not a constant (%s)", method, im.pos(x)))
				}
			}
			*facts = append(*facts, f)
		}
		return true
	})
}

// checkResolveType: ResolveType(n) = switch n.(type) { Nullable → ResolveType(nn.Expr); Name|NameRelative|NameFullyQualified → ResolveName(n, "") }
func (im *Impl) checkResolveType(res *report.RuleResult) {
	fd := im.Methods["ResolveType"]
	if fd == nil {
		res.Bad("ResolveType", "-", "", "ResolveType not found")
		return
	}
	// what ResolveType does is decided by evaluation when it can be evaluated (a loop that strips the nullable
	// markers is as good as a recursive call); the shape of its type switch is read otherwise
	if probs, ok := im.resolveTypeByEval(fd); ok {
		for _, k := range []string{"Name", "NameRelative", "NameFullyQualified"} {
			res.Check(probs[k] == "", "ResolveType/"+k, im.pos(fd), "ResolveType", k+" → ResolveName(n, \"\") (evaluated)", "ResolveType does not resolve "+k+" as a class-like name: "+probs[k])
		}
		res.Check(probs["Nullable"] == "", "ResolveType/Nullable", im.pos(fd), "ResolveType", "Nullable → the type it wraps, at any depth (evaluated)", "ResolveType does not unwrap nullable types: "+probs["Nullable"])
		return
	}
	recv := im.recvObj(fd)
	handled := map[string]string{}
	ast.Inspect(fd.Body, func(nd ast.Node) bool {
		ts, ok := nd.(*ast.TypeSwitchStmt)
		if !ok {
			return true
		}
		for _, c := range ts.Body.List {
			cc := c.(*ast.CaseClause)
			for _, te := range cc.List {
				k := namedOfType(im.info().Types[te].Type)
				what := ""
				ast.Inspect(cc, func(n2 ast.Node) bool {
					if call, ok := n2.(*ast.CallExpr); ok {
						if name, ok := im.methodCall(call, recv); ok {
							what = name
							if name == "ResolveName" && len(call.Args) == 2 {
								if tv := im.info().Types[call.Args[1]]; tv.Value != nil {
									what += ":" + constant.StringVal(tv.Value)
								}
							}
							if name == "ResolveType" && len(call.Args) == 1 {
								what += ":" + exprString(call.Args[0])
							}
						}
					}
					return true
				})
				handled[k] = what
			}
		}
		return false
	})
	for _, k := range []string{"Name", "NameRelative", "NameFullyQualified"} {
		res.Check(handled[k] == "ResolveName:", "ResolveType/"+k, im.pos(fd), "ResolveType", k+" → ResolveName(n, \"\")", "ResolveType does not resolve "+k+" as a class-like name (found "+handled[k]+")")
	}
	res.Check(strings.HasPrefix(handled["Nullable"], "ResolveType:") && strings.HasSuffix(handled["Nullable"], ".Expr"), "ResolveType/Nullable", im.pos(fd), "ResolveType", "Nullable → ResolveType(nn.Expr)", "ResolveType does not unwrap nullable types (found "+handled["Nullable"]+")")
}

// ---- declarations, namespace switch, alias keys, special names ------------------------

// Declarations: the five declaration kinds call AddNamespacedName with their own name.
func NsDeclarations(p *load.Program, tb *kinds.Table, rel, recv string) *report.RuleResult {
	res := report.NewResult("ns-declarations")
	im, err := FindImpl(p, tb, rel, recv)
	if err != nil {
		res.Unknown("impl", "-", "", "undecided:anchor: "+err.Error())
		return res
	}
	// kind → where the declared name lives
	want := map[string]string{"StmtClass": "n.Name", "StmtInterface": "n.Name", "StmtTrait": "n.Name", "StmtFunction": "n.Name", "StmtConstList": "elements of n.Consts"}
	for _, kind := range sortedKeysS(want) {
		fd := im.Methods[kind]
		key := kind
		res.Count("declaration-kinds", 1)
		if fd == nil || len(fd.Body.List) == 0 {
			res.Bad(key, "-", kind, "the resolver has no method for "+kind+": declarations of this kind are not mapped to their namespaced name")
			continue
		}
		recvO := im.recvObj(fd)
		found, okArgs := false, false
		im.nsNorm()
		ast.Inspect(im.Body(fd), func(nd ast.Node) bool {
			call, ok := nd.(*ast.CallExpr)
			if !ok {
				return true
			}
			if name, ok := im.methodCall(call, recvO); ok && name == "AddNamespacedName" && len(call.Args) == 2 {
				found = true
				a0, a1 := im.canon(fd, call.Args[0]), im.canon(fd, call.Args[1])
				if kind == "StmtConstList" {
					okArgs = strings.Contains(a1, a0+".(*ast.StmtConstant).Name.(*ast.Identifier).Value")
				} else {
					okArgs = a0 == "p1" && a1 == "string(p1.Name.(*ast.Identifier).Value)"
				}
			}
			return true
		})
		switch {
		case !found:
			res.Bad(key, im.pos(fd), kind, kind+" never calls AddNamespacedName")
		case !okArgs:
			res.Bad(key, im.pos(fd), kind, kind+" calls AddNamespacedName with something other than the node and its own declared name ("+want[kind]+")")
		default:
			res.OK(key, im.pos(fd), kind, "declares "+want[kind]+" under the current namespace")
		}
	}
	// AddNamespacedName: on every path the node is mapped to name (namespace empty) or namespace + "\\" + name
	if fd := im.Methods["AddNamespacedName"]; fd != nil {
		res.Check(im.checkAddNamespacedName(fd) == "", "AddNamespacedName", im.pos(fd), "AddNamespacedName", `name or namespace + "\" + name`, "AddNamespacedName no longer maps the node to [namespace \\] name: "+im.checkAddNamespacedName(fd))
	} else {
		res.Bad("AddNamespacedName", "-", "", "AddNamespacedName not found")
	}
	return res
}

// checkAddNamespacedName: path by path, ResolvedNames[node] receives the bare
// name exactly when the current namespace is empty and namespace\name otherwise.
func (im *Impl) checkAddNamespacedName(fd *ast.FuncDecl) string {
	// here every helper is inlined, including the methods of Namespace
	nz := norm.New(im.Pkg, norm.Options{Keep: func(fn *types.Func) bool { return fn.Name() == "concatNameParts" }})
	ps, err := paths.Enumerate(nz.Body(fd))
	if err != nil {
		return err.Error()
	}
	const nsExpr = "recv.Namespace.Namespace"
	for pi, path := range ps {
		empty := "?"
		var vals []string
		pl := im.newPathLocals(fd)
		for _, it := range path {
			switch {
			case it.Cond != nil:
				c := pl.canon(it.Cond)
				switch c {
				case nsExpr + ` == ""`, `"" == ` + nsExpr, "len(" + nsExpr + ") == 0":
					empty = map[bool]string{true: "yes", false: "no"}[it.Truth]
				case nsExpr + ` != ""`, `"" != ` + nsExpr, "len(" + nsExpr + ") != 0", "len(" + nsExpr + ") > 0":
					empty = map[bool]string{true: "no", false: "yes"}[it.Truth]
				default:
					return "condition " + c
				}
			case it.Stmt != nil:
				if pl.note(it.Stmt) {
					continue
				}
				if as, ok := it.Stmt.(*ast.AssignStmt); ok && len(as.Lhs) == 1 && len(as.Rhs) == 1 {
					if pl.canon(as.Lhs[0]) == "recv.ResolvedNames[p1]" {
						vals = append(vals, pl.canon(as.Rhs[0]))
					}
				}
			}
		}
		if len(vals) != 1 {
			return fmt.Sprintf("path %d stores the node %d times", pi, len(vals))
		}
		switch {
		case empty == "yes" && vals[0] == "p2":
		case empty == "no" && (vals[0] == nsExpr+` + "\\" + p2` || vals[0] == "("+nsExpr+` + "\\") + p2`):
		default:
			return fmt.Sprintf("path %d (namespace empty: %s) stores %s", pi, empty, vals[0])
		}
	}
	return ""
}

func nodeText(im *Impl, n ast.Node) string {
	var sb strings.Builder
	ast.Inspect(n, func(nd ast.Node) bool {
		if e, ok := nd.(ast.Expr); ok {
			sb.WriteString(exprString(e))
			sb.WriteString("\n")
			return false
		}
		return true
	})
	return sb.String()
}

func sortedKeysS(m map[string]string) []string {
	var out []string
	for k := range m {
		out = append(out, k)
	}
	sort.Strings(out)
	return out
}

// NamespaceSwitch: StmtNamespace installs a *fresh* context on every path:
// NewNamespace("") without a name, NewNamespace(<the declared name>) otherwise.
func NamespaceSwitch(p *load.Program, tb *kinds.Table, rel, recv string) *report.RuleResult {
	res := report.NewResult("namespace-switch")
	im, err := FindImpl(p, tb, rel, recv)
	if err != nil {
		res.Unknown("impl", "-", "", "undecided:anchor: "+err.Error())
		return res
	}
	fd := im.Methods["StmtNamespace"]
	if fd == nil {
		res.Bad("StmtNamespace", "-", "", "no StmtNamespace method")
		return res
	}
	im.nsNorm()
	ps, err2 := paths.Enumerate(im.Body(fd))
	if err2 != nil {
		res.Unknown("StmtNamespace", im.pos(fd), "StmtNamespace", "undecided:idiom: "+err2.Error())
		return res
	}
	recvO := im.recvObj(fd)
	for i, path := range ps {
		res.Count("paths", 1)
		key := fmt.Sprintf("StmtNamespace/path%d", i)
		nameNil := "?"
		var assigned ast.Expr
		pl := im.newPathLocals(fd)
		argText := ""
		for _, it := range path {
			if it.Stmt != nil && pl.note(it.Stmt) {
				continue
			}
			if it.Cond != nil {
				if f, neq, ok := im.nilTest(it.Cond, func(e ast.Expr) (string, bool) { return im.fieldOf(e, im.paramObj(fd, 0)) }); ok && f == "Name" {
					isNil := neq != it.Truth
					nameNil = map[bool]string{true: "nil", false: "set"}[isNil]
				} else {
					nameNil = "other:" + exprString(it.Cond)
				}
			}
			if as, ok := it.Stmt.(*ast.AssignStmt); ok && len(as.Lhs) == 1 {
				if f, ok := im.fieldOf(as.Lhs[0], recvO); ok && f == "Namespace" {
					assigned = as.Rhs[0]
					if c, ok := unparen(assigned).(*ast.CallExpr); ok && len(c.Args) == 1 {
						argText = pl.canon(c.Args[0]) // with what the locals hold at this point of the path
					}
				}
			}
		}
		if assigned == nil {
			res.Bad(key, im.pos(fd), "StmtNamespace", "a path through StmtNamespace keeps the previous namespace context (aliases of the previous namespace stay visible)")
			continue
		}
		call, ok := unparen(assigned).(*ast.CallExpr)
		if fnObj, _ := typeutil.Callee(im.info(), call).(*types.Func); !ok || fnObj == nil || fnObj.Name() != "NewNamespace" || len(call.Args) != 1 {
			res.Bad(key, im.pos(assigned), "StmtNamespace", "the namespace context is not a fresh NewNamespace(...): "+exprString(assigned))
			continue
		}
		arg := argText
		switch nameNil {
		case "nil":
			res.Check(arg == `""`, key, im.pos(assigned), "StmtNamespace", "no name: global namespace", "namespace without a name must switch to the global namespace, found "+arg)
		case "set":
			// concatNameParts(n.Name.(*ast.Name).Parts), possibly via a local
			okArg := arg == "concatNameParts(p1.Name.(*ast.Name).Parts)"
			res.Check(okArg, key, im.pos(assigned), "StmtNamespace", "named namespace: fresh context named after the declaration", "the new context is not named after the declared namespace: "+arg)
		default:
			res.Unknown(key, im.pos(fd), "StmtNamespace", "undecided:idiom: condition "+nameNil)
		}
	}
	return res
}

// ---- alias keys ------------------------------------------------------------------------

// aliasAccess: one access `ns.Aliases[T][K]` on a path, normalised.
type aliasAccess struct {
	conds string // path conditions, normalised
	table string // "param" | constant string
	key   string // raw | lower
	write bool
}

// AliasKeyAgreement: the key normalisation applied when an alias is stored
// equals the one applied when it is looked up, per alias type: class and
// function aliases are case-insensitive (lower-cased key), constant aliases
// case-sensitive (raw key), qualified names always use the class table.
func AliasKeyAgreement(p *load.Program, rel string) *report.RuleResult {
	res := report.NewResult("alias-key-agreement")
	pk := p.Pkg(rel)
	if pk == nil {
		res.Unknown("pkg", rel, "", "undecided: package not found")
		return res
	}
	ms := load.Methods(pk, "Namespace")
	add, look := ms["AddAlias"], ms["ResolveAlias"]
	if add == nil || look == nil {
		res.Bad("methods", rel, "", "Namespace.AddAlias / Namespace.ResolveAlias not found")
		return res
	}
	info := pk.TypesInfo
	nz := norm.New(pk, norm.Options{Keep: func(fn *types.Func) bool { return fn.Name() == "concatNameParts" }})
	// evaluate both functions for every (alias type, qualified?) combination over the 2-point domain {raw, lower}
	type outcome struct{ table, key string }
	eval := func(fd *ast.FuncDecl, aliasType string, qualified bool) (outcome, string) {
		ps, err := paths.Enumerate(nz.Body(fd))
		if err != nil {
			return outcome{}, err.Error()
		}
		var results []outcome
		for _, path := range ps {
			// symbolic state: strings are (origin, lowered?) pairs
			type sv struct {
				what  string // "type" (the aliasType param), "name" (the alias / first part), "const:<s>"
				lower bool
			}
			env := map[types.Object]sv{}
			prm := fd.Type.Params.List
			pi := 0
			for _, f := range prm {
				for _, nm := range f.Names {
					o := info.Defs[nm]
					if pi == 0 && fd.Name.Name == "AddAlias" || pi == 1 && fd.Name.Name == "ResolveAlias" {
						env[o] = sv{what: "type"}
					}
					if fd.Name.Name == "AddAlias" && pi == 2 {
						env[o] = sv{what: "name"}
					}
					pi++
				}
			}
			var evalS func(e ast.Expr) (sv, bool)
			evalS = func(e ast.Expr) (sv, bool) {
				e = unparen(e)
				if tv := info.Types[e]; tv.Value != nil && tv.Value.Kind() == constant.String {
					return sv{what: "const:" + constant.StringVal(tv.Value)}, true
				}
				switch x := e.(type) {
				case *ast.Ident:
					if k, ok := info.Uses[x].(*types.Const); ok && k.Val().Kind() == constant.String {
						return sv{what: "const:" + constant.StringVal(k.Val())}, true // a named constant
					}
					v, ok := env[info.Uses[x]]
					return v, ok
				case *ast.CallExpr:
					if fn, ok := typeutil.Callee(info, x).(*types.Func); ok && fn.FullName() == "strings.ToLower" && len(x.Args) == 1 {
						v, ok := evalS(x.Args[0])
						v.lower = true
						return v, ok
					}
					// string(nameParts[0].(*ast.NamePart).Value)
					if len(x.Args) == 1 && strings.Contains(exprString(x.Args[0]), "[0].(*ast.NamePart).Value") {
						return sv{what: "name"}, true
					}
				}
				return sv{}, false
			}
			feasible := true
			var got *outcome
			for _, it := range path {
				if !feasible {
					break
				}
				switch {
				case it.Cond != nil:
					c := exprString(it.Cond)
					be, isBin := unparen(it.Cond).(*ast.BinaryExpr)
					switch {
					case isBin && (be.Op == token.EQL || be.Op == token.NEQ):
						l, okl := evalS(be.X)
						r, okr := evalS(be.Y)
						if okl && okr && strings.HasPrefix(l.what, "const:") && r.what == "type" {
							l, r = r, l // "const" == aliasType
						}
						if okl && okr && (l.what == "type" || strings.HasPrefix(l.what, "const:")) && strings.HasPrefix(r.what, "const:") {
							at := aliasType
							if strings.HasPrefix(l.what, "const:") {
								at = strings.TrimPrefix(l.what, "const:") // the variable was assigned a constant on this path
							}
							if l.lower {
								at = strings.ToLower(at)
							}
							eq := at == strings.TrimPrefix(r.what, "const:")
							if (eq == (be.Op == token.EQL)) != it.Truth {
								feasible = false
							}
						} else {
							return outcome{}, "condition " + c
						}
					case isBin && be.Op == token.GTR && strings.HasPrefix(exprString(be.X), "len(") && exprString(be.Y) == "1":
						if qualified != it.Truth {
							feasible = false
						}
					case isBin && be.Op == token.EQL && strings.HasPrefix(exprString(be.X), "len(") && exprString(be.Y) == "1":
						if qualified == it.Truth {
							feasible = false
						}
					case isBoolLocal(info, it.Cond):
						// lookup result (the ok of a map access): both outcomes are fine
					default:
						return outcome{}, "condition " + c
					}
				case it.Stmt != nil:
					if as, ok := it.Stmt.(*ast.AssignStmt); ok {
						for i, lh := range as.Lhs {
							if i >= len(as.Rhs) && len(as.Rhs) != 1 {
								continue
							}
							rhs := as.Rhs[0]
							if i < len(as.Rhs) {
								rhs = as.Rhs[i]
							}
							// map accesses
							var ix *ast.IndexExpr
							if x, ok := unparen(lh).(*ast.IndexExpr); ok {
								ix = x
							} else if x, ok := unparen(rhs).(*ast.IndexExpr); ok {
								ix = x
							}
							if ix != nil {
								if inner, ok := unparen(ix.X).(*ast.IndexExpr); ok && strings.HasSuffix(exprString(inner.X), ".Aliases") {
									t, okt := evalS(inner.Index)
									k, okk := evalS(ix.Index)
									if !okt || !okk || k.what != "name" {
										return outcome{}, "alias table access " + exprString(ix)
									}
									tbl := strings.TrimPrefix(t.what, "const:")
									if t.what == "type" {
										tbl = aliasType
										if t.lower {
											tbl = strings.ToLower(tbl)
										}
									}
									kk := "raw"
									if k.lower {
										kk = "lower"
									}
									got = &outcome{tbl, kk}
									continue
								}
							}
							if id, ok := unparen(lh).(*ast.Ident); ok {
								o := info.Uses[id]
								if o == nil {
									o = info.Defs[id]
								}
								if v, ok := evalS(rhs); ok {
									env[o] = v
								} else {
									delete(env, o)
								}
							}
						}
					}
				}
			}
			if feasible && got != nil {
				results = append(results, *got)
			}
		}
		if len(results) == 0 {
			return outcome{}, "no alias table access on a feasible path"
		}
		for _, r := range results[1:] {
			if r != results[0] {
				return outcome{}, "paths disagree"
			}
		}
		return results[0], ""
	}
	// oracle
	oracle := map[string]string{"": "lower", "function": "lower", "const": "raw"}
	for _, at := range []string{"", "function", "const"} {
		res.Count("alias-types", 1)
		w, e1 := eval(add, at, false)
		r, e2 := eval(look, at, false)
		q, e3 := eval(look, at, true)
		key := "type:" + map[string]string{"": "class", "function": "function", "const": "const"}[at]
		if e1 != "" || e2 != "" || e3 != "" {
			res.Unknown(key, p.Pos(add.Pos()), "Namespace", "undecided:idiom: "+e1+" "+e2+" "+e3)
			continue
		}
		var bad []string
		if w.table != at || w.key != oracle[at] {
			bad = append(bad, fmt.Sprintf("AddAlias stores %q aliases in table %q under the %s key; PHP wants table %q, %s", at, w.table, w.key, at, oracle[at]))
		}
		if r != w {
			bad = append(bad, fmt.Sprintf("unqualified lookup reads table %q with the %s key but AddAlias wrote table %q with the %s key", r.table, r.key, w.table, w.key))
		}
		if q.table != "" || q.key != "lower" {
			bad = append(bad, fmt.Sprintf("qualified names must use the class/namespace table with a lower-cased first segment; found table %q, %s key", q.table, q.key))
		}
		// the kind keyword reaches AddAlias as it is spelt in the source (`use CONST …`, `use Function …`): the
		// same table and the same key normalisation for every spelling (seed C14-10)
		if at != "" {
			for _, spelt := range []string{strings.ToUpper(at), strings.ToUpper(at[:1]) + at[1:]} {
				res.Count("spellings", 1)
				ws, es := eval(add, spelt, false)
				if es != "" {
					bad = append(bad, fmt.Sprintf("AddAlias cannot be evaluated for the kind keyword spelt %q: %s", spelt, es))
				} else if ws != w {
					bad = append(bad, fmt.Sprintf("AddAlias stores an alias declared with the keyword spelt %q in table %q under the %s key, but one declared with %q in table %q under the %s key: keywords are case-insensitive", spelt, ws.table, ws.key, at, w.table, w.key))
				}
			}
		}
		if len(bad) == 0 {
			res.OK(key, p.Pos(look.Pos()), "Namespace", fmt.Sprintf("stored and looked up in table %q with the %s key; qualified names use the class table, lower-cased", w.table, w.key))
		} else {
			res.Bad(key, p.Pos(look.Pos()), "Namespace", strings.Join(bad, "; "))
		}
	}
	return res
}

// isBoolLocal: e is x or !x for a local boolean variable.
func isBoolLocal(info *types.Info, e ast.Expr) bool {
	e = unparen(e)
	if ue, ok := e.(*ast.UnaryExpr); ok && ue.Op == token.NOT {
		e = unparen(ue.X)
	}
	id, ok := e.(*ast.Ident)
	if !ok {
		return false
	}
	v, ok := info.Uses[id].(*types.Var)
	if !ok || v.IsField() || v.Parent() == nil || v.Parent() == v.Pkg().Scope() {
		return false
	}
	b, ok := v.Type().Underlying().(*types.Basic)
	return ok && b.Kind() == types.Bool
}

// SpecialNames: the names left unqualified.
func SpecialNames(p *load.Program, rel string) *report.RuleResult {
	res := report.NewResult("special-names")
	pk := p.Pkg(rel)
	if pk == nil {
		res.Unknown("pkg", rel, "", "undecided: package not found")
		return res
	}
	fd := load.Methods(pk, "Namespace")["ResolveName"]
	if fd == nil {
		res.Bad("ResolveName", rel, "", "Namespace.ResolveName not found")
		return res
	}
	info := pk.TypesInfo
	nz := norm.New(pk, norm.Options{Keep: func(fn *types.Func) bool { return fn.Name() == "concatNameParts" || fn.Name() == "ResolveAlias" }})
	body := nz.Body(fd)
	names := CanonNames(info, fd)
	canon := func(e ast.Expr) string { return norm.Canon(info, e, names) }
	// collect string constants compared with a lower-cased single part, grouped by the alias-type guard around them
	got := map[string]map[string]bool{"": {}, "const": {}}
	var walk func(n ast.Node, guard string)
	walk = func(n ast.Node, guard string) {
		ast.Inspect(n, func(nd ast.Node) bool {
			switch x := nd.(type) {
			case *ast.IfStmt:
				g := guard
				c := canon(x.Cond)
				if strings.Contains(c, `p2 == "const"`) {
					g = "const"
				} else if strings.Contains(c, `p2 == ""`) {
					g = ""
				}
				if g != guard || strings.Contains(c, "p2") {
					if !strings.Contains(c, "len(p1.Parts) == 1") {
						res.Bad("guard/"+g, p.Pos(x.Pos()), "ResolveName", "special names must only apply to single-part names: "+c)
					}
					walk(x.Body, "in:"+g)
					if x.Else != nil {
						walk(x.Else, guard)
					}
					return false
				}
				if strings.HasPrefix(guard, "in:") {
					// part == "true" || …
					ast.Inspect(x.Cond, func(n2 ast.Node) bool {
						if be, ok := n2.(*ast.BinaryExpr); ok && be.Op == token.EQL {
							if tv := info.Types[be.Y]; tv.Value != nil && tv.Value.Kind() == constant.String {
								got[strings.TrimPrefix(guard, "in:")][constant.StringVal(tv.Value)] = true
							}
						}
						return true
					})
					// reserved[part], `_, ok := reserved[part]; ok`: membership in a set the package keeps in a
					// variable it initialises with a map literal and writes nowhere
					var sets []ast.Node = []ast.Node{x.Cond}
					if x.Init != nil {
						sets = append(sets, x.Init)
					}
					for _, sn := range sets {
						ast.Inspect(sn, func(n2 ast.Node) bool {
							if ix, ok := n2.(*ast.IndexExpr); ok {
								for _, k := range constSetKeys(pk, ix.X) {
									got[strings.TrimPrefix(guard, "in:")][k] = true
								}
							}
							return true
						})
					}
				}
			case *ast.AssignStmt:
				// `_, ok := reserved[part]` ahead of the test of ok (the normaliser hoists the if's init)
				if strings.HasPrefix(guard, "in:") && len(x.Rhs) == 1 && len(x.Lhs) == 2 {
					if ix, ok := unparen(x.Rhs[0]).(*ast.IndexExpr); ok {
						for _, k := range constSetKeys(pk, ix.X) {
							got[strings.TrimPrefix(guard, "in:")][k] = true
						}
					}
				}
			case *ast.CaseClause:
				if strings.HasPrefix(guard, "in:") {
					for _, e := range x.List {
						if tv := info.Types[e]; tv.Value != nil && tv.Value.Kind() == constant.String {
							got[strings.TrimPrefix(guard, "in:")][constant.StringVal(tv.Value)] = true
						}
					}
				}
			}
			return true
		})
	}
	walk(body, "")
	oracle := map[string][]string{
		"":      {"self", "static", "parent", "int", "float", "bool", "string", "void", "iterable", "object"},
		"const": {"true", "false", "null"},
	}
	for _, g := range []string{"", "const"} {
		res.Count("groups", 1)
		want := map[string]bool{}
		for _, w := range oracle[g] {
			want[w] = true
		}
		var missing, extra []string
		for w := range want {
			if !got[g][w] {
				missing = append(missing, w)
			}
		}
		for w := range got[g] {
			if !want[w] {
				extra = append(extra, w)
			}
		}
		sort.Strings(missing)
		sort.Strings(extra)
		key := "group:" + map[string]string{"": "class-like", "const": "const"}[g]
		if len(missing) == 0 && len(extra) == 0 {
			res.OK(key, p.Pos(fd.Pos()), "ResolveName", fmt.Sprintf("exactly %s are left unqualified", strings.Join(oracle[g], ", ")))
		} else if len(got[g]) == 0 {
			// nothing was recognised: the names are tested in a form this reading does not know (or not at all);
			// resolve-spec decides what is computed, and without it this stays undecided, which fails
			res.Unknown(key, p.Pos(fd.Pos()), "ResolveName", "undecided:idiom: no comparison of a single-part name with the special names was recognised in ResolveName")
		} else {
			res.Bad(key, p.Pos(fd.Pos()), "ResolveName", fmt.Sprintf("special names differ from PHP's: missing %v, extra %v", missing, extra))
		}
	}
	// the comparison uses the lower-cased part
	var sb strings.Builder
	ast.Inspect(body, func(nd ast.Node) bool {
		if e, ok := nd.(ast.Expr); ok {
			sb.WriteString(canon(e))
			sb.WriteString("\n")
		}
		return true
	})
	src := sb.String()
	res.Check(strings.Count(src, "strings.ToLower(string(p1.Parts[0].(*ast.NamePart).Value))") >= 2, "lowercase", p.Pos(fd.Pos()), "ResolveName", "special names are matched case-insensitively", "special names are not matched against the lower-cased name part")
	return res
}

func nodeTextAll(n ast.Node) string {
	var sb strings.Builder
	ast.Inspect(n, func(nd ast.Node) bool {
		if e, ok := nd.(ast.Expr); ok {
			sb.WriteString(exprString(e))
			sb.WriteString("\n")
		}
		return true
	})
	return sb.String()
}


// constSetKeys: e names a package-level variable initialised with a map literal whose keys are string
// constants and whose values are all true (or of a struct type), and that is written nowhere in the
// package: the keys are the set it stands for.
func constSetKeys(pk *packages.Package, e ast.Expr) []string {
	id, ok := unparen(e).(*ast.Ident)
	if !ok {
		return nil
	}
	v, ok := pk.TypesInfo.Uses[id].(*types.Var)
	if !ok || v.Pkg() != pk.Types || v.Parent() != pk.Types.Scope() {
		return nil
	}
	if _, isMap := v.Type().Underlying().(*types.Map); !isMap {
		return nil
	}
	var init ast.Expr
	written := false
	is := func(x ast.Expr) bool {
		li, ok := unparen(x).(*ast.Ident)
		return ok && pk.TypesInfo.Uses[li] == v
	}
	for _, f := range pk.Syntax {
		ast.Inspect(f, func(n ast.Node) bool {
			switch x := n.(type) {
			case *ast.ValueSpec:
				for i, nm := range x.Names {
					if pk.TypesInfo.Defs[nm] == v && i < len(x.Values) {
						init = x.Values[i]
					}
				}
			case *ast.AssignStmt:
				for _, l := range x.Lhs {
					if is(l) {
						written = true
					}
					if ix, ok := unparen(l).(*ast.IndexExpr); ok && is(ix.X) {
						written = true
					}
				}
			case *ast.IncDecStmt:
				if ix, ok := unparen(x.X).(*ast.IndexExpr); ok && is(ix.X) {
					written = true
				}
			case *ast.UnaryExpr:
				if x.Op == token.AND && is(x.X) {
					written = true
				}
			case *ast.CallExpr:
				// delete(m, k), clear(m), or the map handed to a function that may write it
				for _, a := range x.Args {
					if is(a) {
						if fid, ok := unparen(x.Fun).(*ast.Ident); !ok || fid.Name != "len" {
							written = true
						}
					}
				}
			}
			return true
		})
	}
	cl, ok := init.(*ast.CompositeLit)
	if !ok || written {
		return nil
	}
	var keys []string
	for _, el := range cl.Elts {
		kv, ok := el.(*ast.KeyValueExpr)
		if !ok {
			return nil
		}
		ktv := pk.TypesInfo.Types[kv.Key]
		if ktv.Value == nil || ktv.Value.Kind() != constant.String {
			return nil
		}
		vtv := pk.TypesInfo.Types[kv.Value]
		if vtv.Value != nil {
			if vtv.Value.Kind() != constant.Bool || !constant.BoolVal(vtv.Value) {
				continue // reserved["x"] = false: not a member of a bool set
			}
		} else if _, isStruct := vtv.Type.Underlying().(*types.Struct); !isStruct {
			return nil
		}
		keys = append(keys, constant.StringVal(ktv.Value))
	}
	return keys
}


// checkResolveGuards: in a resolver method for a node kind, the resolution of the name in slot S may be
// skipped only because S itself is absent. A test of another slot that stands in front of it - an early return
// `if n.Name == nil { return }` ahead of `ResolveName(n.Extends, "")`, or `if n.Name != nil { … resolve n.Extends … }` -
// leaves the names of exactly those nodes unresolved that lack the other slot (anonymous classes; round 7 seed
// C14-21). Obligation per (method, slot): every condition that decides whether the call is reached mentions,
// of the visited node's fields, only the slot that is resolved.
func (im *Impl) checkResolveGuards(res *report.RuleResult) {
	im.nsNorm()
	kms, _ := im.KindMethods()
	for _, km := range kms {
		fd := km.Decl
		if fd.Body == nil || len(fd.Body.List) == 0 {
			continue
		}
		recv := im.recvObj(fd)
		node := im.paramObj(fd, 0)
		if node == nil {
			continue
		}
		body := im.Body(fd)
		// the node's fields an expression reads
		fieldsOf := func(e ast.Node) map[string]bool {
			out := map[string]bool{}
			ast.Inspect(e, func(n ast.Node) bool {
				if se, ok := n.(*ast.SelectorExpr); ok {
					if id, ok := unparen(se.X).(*ast.Ident); ok && im.info().Uses[id] == node {
						if sel := im.info().Selections[se]; sel != nil && sel.Kind() == types.FieldVal {
							out[se.Sel.Name] = true
						}
					}
				}
				return true
			})
			return out
		}
		// the slots resolved by the calls under a node (through locals bound to fields: for _, x := range n.F)
		var slotsUnder func(n ast.Node, env map[types.Object]apath) map[string]bool
		slotsUnder = func(n ast.Node, env map[types.Object]apath) map[string]bool {
			var fs []resFact
			var un []string
			e2 := map[types.Object]apath{}
			for k, v := range env {
				e2[k] = v
			}
			im.walkResolver(n, e2, recv, km.Kind.Name, &fs, &un)
			out := map[string]bool{}
			for _, f := range fs {
				if i := strings.LastIndex(f.slot, "."); i >= 0 {
					out[f.slot[i+1:]] = true
				}
			}
			return out
		}
		env := map[types.Object]apath{node: {kind: km.Kind.Name}}
		reported := map[string]bool{}
		report1 := func(slot, cond, how string, at ast.Node) {
			k := "guard/" + km.Kind.Name + "." + slot
			if reported[k] {
				return
			}
			reported[k] = true
			res.Bad(k, im.pos(at), km.Kind.Name, fmt.Sprintf("the resolution of %s.%s %s `%s`, a test of another slot: nodes for which it fails keep the name unresolved", km.Kind.Name, slot, how, cond))
		}
		var walk func(list []ast.Stmt, early []ast.Expr)
		walk = func(list []ast.Stmt, early []ast.Expr) {
			for _, st := range list {
				// calls in this statement are reached only if none of the earlier early exits was taken
				under := slotsUnder(st, env)
				for slot := range under {
					for _, c := range early {
						fs := fieldsOf(c)
						for f := range fs {
							if f != slot {
								report1(slot, exprString(c), "is skipped by the early exit under", c)
							}
						}
					}
				}
				if ifs, ok := st.(*ast.IfStmt); ok {
					inBody := slotsUnder(ifs.Body, env)
					for slot := range inBody {
						for f := range fieldsOf(ifs.Cond) {
							if f != slot {
								report1(slot, exprString(ifs.Cond), "happens only under", ifs.Cond)
							}
						}
					}
					if ifs.Else != nil {
						for slot := range slotsUnder(ifs.Else, env) {
							for f := range fieldsOf(ifs.Cond) {
								if f != slot {
									report1(slot, exprString(ifs.Cond), "happens only when this fails:", ifs.Cond)
								}
							}
						}
					}
					// an if without else whose body leaves the method
					if ifs.Else == nil && len(ifs.Body.List) > 0 {
						if _, isRet := ifs.Body.List[len(ifs.Body.List)-1].(*ast.ReturnStmt); isRet {
							early = append(early, ifs.Cond)
						}
					}
				}
			}
		}
		walk(body.List, nil)
		if len(slotsUnder(body, env)) > 0 {
			res.Count("guarded-methods", 1)
			if len(reported) == 0 {
				res.OK("guard/"+km.Kind.Name, im.pos(fd), km.Kind.Name, "every resolution in this method is skipped only when its own slot is absent")
			}
		}
	}
}
