// Package visitors implements engine C: rules over the sibling
// implementations of ast.Visitor (traverser, printer, dumper, formatter,
// namespace resolver, visitor.Null).
package visitors

import (
	"fmt"
	"go/ast"
	"go/constant"
	"go/token"
	"go/types"
	"sort"
	"strings"

	"golang.org/x/tools/go/packages"
	"golang.org/x/tools/go/types/typeutil"

	"verif/internal/kinds"
	"verif/internal/load"
	"verif/internal/norm"
)

// Impl is one implementation of ast.Visitor.
type Impl struct {
	Prog    *load.Program
	Pkg     *packages.Package
	Rel     string
	Recv    string // receiver type name
	RecvT   *types.Named
	Kinds   *kinds.Table
	Methods map[string]*ast.FuncDecl // all methods on Recv by name (including those promoted from embedded structs of the package)
	Embedded []*types.Named

	nz *norm.N
	strEnv map[types.Object][]strPart // dumper: local string variables on the current path
}

// UseNorm sets up the normaliser (package norm) for the bodies this
// implementation's rules look at; keep names the methods and functions of the
// package that the rule interprets itself (its primitives).
func (im *Impl) UseNorm(keep func(fn *types.Func) bool, opt norm.Options) {
	opt.Keep = keep
	im.nz = norm.New(im.Pkg, opt)
}

// Body returns the body of fd in canonical shape (see package norm), or the
// body itself when no normaliser was set up.
func (im *Impl) Body(fd *ast.FuncDecl) *ast.BlockStmt {
	if im.nz == nil {
		return fd.Body
	}
	return im.nz.Body(fd)
}

// keepNames builds a keep predicate from a set of function / method names of the package.
func keepNames(names map[string]bool) func(fn *types.Func) bool {
	return func(fn *types.Func) bool { return names[fn.Name()] }
}

// FindImpl locates type recv in package rel and collects its methods.
func FindImpl(p *load.Program, tb *kinds.Table, rel, recv string) (*Impl, error) {
	pk := p.Pkg(rel)
	if pk == nil {
		return nil, fmt.Errorf("package %s not found", rel)
	}
	tn, ok := pk.Types.Scope().Lookup(recv).(*types.TypeName)
	if !ok {
		return nil, fmt.Errorf("type %s.%s not found", rel, recv)
	}
	named, _ := tn.Type().(*types.Named)
	if named == nil {
		return nil, fmt.Errorf("type %s.%s is not a named type", rel, recv)
	}
	if !types.Implements(types.NewPointer(named), tb.Visitor) {
		return nil, fmt.Errorf("*%s.%s does not implement ast.Visitor", rel, recv)
	}
	im := &Impl{Prog: p, Pkg: pk, Rel: rel, Recv: recv, RecvT: named, Kinds: tb, Methods: load.Methods(pk, recv)}
	// methods promoted from structs of the same package embedded in the receiver type (state grouped in
	// an embedded struct, its methods reached by promotion)
	for _, en := range embeddedStructs(named, pk.Types, 0) {
		im.Embedded = append(im.Embedded, en)
		for name, fd := range load.Methods(pk, en.Obj().Name()) {
			if _, shadowed := im.Methods[name]; !shadowed {
				im.Methods[name] = fd
			}
		}
	}
	return im, nil
}

// embeddedStructs: the named struct types of package pkg embedded (by value or pointer) in n, transitively.
func embeddedStructs(n *types.Named, pkg *types.Package, depth int) []*types.Named {
	st, ok := n.Underlying().(*types.Struct)
	if !ok || depth > 3 {
		return nil
	}
	var out []*types.Named
	for i := 0; i < st.NumFields(); i++ {
		f := st.Field(i)
		if !f.Embedded() {
			continue
		}
		t := f.Type()
		if p, ok := t.(*types.Pointer); ok {
			t = p.Elem()
		}
		en, ok := t.(*types.Named)
		if !ok || en.Obj().Pkg() != pkg {
			continue
		}
		if _, isStruct := en.Underlying().(*types.Struct); !isStruct {
			continue
		}
		out = append(out, en)
		out = append(out, embeddedStructs(en, pkg, depth+1)...)
	}
	return out
}

// AllFields: the fields of the receiver type including those of embedded structs of the package.
func (im *Impl) AllFields() []*types.Var {
	var out []*types.Var
	add := func(n *types.Named) {
		if st, ok := n.Underlying().(*types.Struct); ok {
			for i := 0; i < st.NumFields(); i++ {
				if f := st.Field(i); !f.Embedded() {
					out = append(out, f)
				} else if _, isOurs := f.Type().(*types.Named); !isOurs {
					out = append(out, f)
				}
			}
		}
	}
	add(im.RecvT)
	for _, en := range im.Embedded {
		add(en)
	}
	return out
}

// KindMethods yields (kind, method decl) in kind order; missing methods are
// reported (they would be promoted from an embedded type).
func (im *Impl) KindMethods() (out []KM, missing []string) {
	for _, k := range im.Kinds.Kinds {
		fd := im.Methods[k.Method]
		if fd == nil {
			missing = append(missing, k.Method)
			continue
		}
		out = append(out, KM{k, fd})
	}
	return
}

type KM struct {
	Kind *kinds.Kind
	Decl *ast.FuncDecl
}

func (im *Impl) info() *types.Info { return im.Pkg.TypesInfo }

// recvObj / paramObj return the objects of the receiver and first parameter.
func (im *Impl) recvObj(fd *ast.FuncDecl) types.Object {
	if fd.Recv == nil || len(fd.Recv.List) != 1 || len(fd.Recv.List[0].Names) != 1 {
		return nil
	}
	return im.info().Defs[fd.Recv.List[0].Names[0]]
}

func (im *Impl) paramObj(fd *ast.FuncDecl, i int) types.Object {
	k := 0
	for _, f := range fd.Type.Params.List {
		for _, nm := range f.Names {
			if k == i {
				return im.info().Defs[nm]
			}
			k++
		}
	}
	return nil
}

// fieldOf: expr is obj.F → returns F.
func (im *Impl) fieldOf(e ast.Expr, obj types.Object) (string, bool) {
	se, ok := unparen(e).(*ast.SelectorExpr)
	if !ok {
		return "", false
	}
	id, ok := unparen(se.X).(*ast.Ident)
	if !ok || obj == nil || im.info().Uses[id] != obj {
		return "", false
	}
	if sel := im.info().Selections[se]; sel == nil || sel.Kind() != types.FieldVal {
		return "", false
	}
	return se.Sel.Name, true
}

func (im *Impl) isObj(e ast.Expr, obj types.Object) bool {
	id, ok := unparen(e).(*ast.Ident)
	return ok && obj != nil && im.info().Uses[id] == obj
}

func unparen(e ast.Expr) ast.Expr {
	for {
		p, ok := e.(*ast.ParenExpr)
		if !ok {
			return e
		}
		e = p.X
	}
}

// methodCall: call is recv.M(args) where M is a method declared on im.Recv
// (resolved through types); returns M's name.
func (im *Impl) methodCall(call *ast.CallExpr, recv types.Object) (string, bool) {
	se, ok := unparen(call.Fun).(*ast.SelectorExpr)
	if !ok || !im.isObj(se.X, recv) {
		return "", false
	}
	fn, ok := typeutil.Callee(im.info(), call).(*types.Func)
	if !ok {
		return "", false
	}
	sig := fn.Type().(*types.Signature)
	if sig.Recv() == nil {
		return "", false
	}
	rt := sig.Recv().Type()
	if p, ok := rt.(*types.Pointer); ok {
		rt = p.Elem()
	}
	n, ok := rt.(*types.Named)
	if !ok {
		return "", false
	}
	if n.Obj() != im.RecvT.Obj() {
		promoted := false
		for _, en := range im.Embedded {
			if en.Obj() == n.Obj() {
				promoted = true
			}
		}
		if !promoted {
			return "", false
		}
	}
	return fn.Name(), true
}

// acceptCall: call is X.Accept(arg) with Accept the ast.Vertex method.
func (im *Impl) acceptCall(call *ast.CallExpr) (x ast.Expr, arg ast.Expr, ok bool) {
	se, ok2 := unparen(call.Fun).(*ast.SelectorExpr)
	if !ok2 || se.Sel.Name != "Accept" || len(call.Args) != 1 {
		return nil, nil, false
	}
	fn, ok2 := typeutil.Callee(im.info(), call).(*types.Func)
	if !ok2 || fn.Name() != "Accept" {
		return nil, nil, false
	}
	sig := fn.Type().(*types.Signature)
	if sig.Recv() == nil || sig.Params().Len() != 1 {
		return nil, nil, false
	}
	if n, ok3 := sig.Params().At(0).Type().(*types.Named); !ok3 || n.Obj().Name() != "Visitor" || load.Rel(n.Obj().Pkg()) != "pkg/ast" {
		return nil, nil, false
	}
	return se.X, call.Args[0], true
}

// constBytes: e is []byte("lit") (or a constant string) → the bytes.
func (im *Impl) constBytes(e ast.Expr) (string, bool) {
	e = unparen(e)
	if call, ok := e.(*ast.CallExpr); ok && len(call.Args) == 1 {
		if tv, ok := im.info().Types[call.Fun]; ok && tv.IsType() {
			if sl, ok := tv.Type.Underlying().(*types.Slice); ok {
				if b, ok := sl.Elem().(*types.Basic); ok && b.Kind() == types.Byte {
					if av, ok := im.info().Types[call.Args[0]]; ok && av.Value != nil && av.Value.Kind() == constant.String {
						return constant.StringVal(av.Value), true
					}
				}
			}
		}
	}
	if cl, ok := e.(*ast.CompositeLit); ok {
		// []byte{'a', 'b'}
		if tv, ok := im.info().Types[cl]; ok {
			if sl, ok := tv.Type.Underlying().(*types.Slice); ok {
				if b, ok := sl.Elem().(*types.Basic); ok && b.Kind() == types.Byte {
					var sb strings.Builder
					for _, el := range cl.Elts {
						ev, ok := im.info().Types[el]
						if !ok || ev.Value == nil {
							return "", false
						}
						v, ok := constant.Int64Val(constant.ToInt(ev.Value))
						if !ok {
							return "", false
						}
						sb.WriteByte(byte(v))
					}
					return sb.String(), true
				}
			}
		}
	}
	// a package-level variable that is initialised with such a constant and assigned nowhere in the package
	// (var openTag = []byte("<?php ")) stands for the constant
	if id, ok := e.(*ast.Ident); ok {
		if v, ok := im.info().Uses[id].(*types.Var); ok && v.Pkg() == im.Pkg.Types && v.Parent() == im.Pkg.Types.Scope() {
			var init ast.Expr
			assigned := false
			for _, f := range im.Pkg.Syntax {
				ast.Inspect(f, func(n ast.Node) bool {
					switch x := n.(type) {
					case *ast.ValueSpec:
						for i, nm := range x.Names {
							if im.Pkg.TypesInfo.Defs[nm] == v && i < len(x.Values) {
								init = x.Values[i]
							}
						}
					case *ast.AssignStmt:
						for _, l := range x.Lhs {
							if li, ok := unparen(l).(*ast.Ident); ok && im.Pkg.TypesInfo.Uses[li] == v {
								assigned = true
							}
							if ix, ok := unparen(l).(*ast.IndexExpr); ok {
								if li, ok := unparen(ix.X).(*ast.Ident); ok && im.Pkg.TypesInfo.Uses[li] == v {
									assigned = true
								}
							}
						}
					case *ast.UnaryExpr:
						if li, ok := unparen(x.X).(*ast.Ident); ok && x.Op == token.AND && im.Pkg.TypesInfo.Uses[li] == v {
							assigned = true
						}
					}
					return true
				})
			}
			if init != nil && !assigned {
				// the initialiser is judged with the package's own type information
				saved := im.nz
				_ = saved
				return im.constBytesIn(init)
			}
		}
	}
	return "", false
}

// constBytesIn: constBytes for an expression of the package's original syntax (not the normalised body).
func (im *Impl) constBytesIn(e ast.Expr) (string, bool) {
	e = unparen(e)
	info := im.Pkg.TypesInfo
	if call, ok := e.(*ast.CallExpr); ok && len(call.Args) == 1 {
		if tv, ok := info.Types[call.Fun]; ok && tv.IsType() {
			if sl, ok := tv.Type.Underlying().(*types.Slice); ok {
				if b, ok := sl.Elem().(*types.Basic); ok && b.Kind() == types.Byte {
					if av, ok := info.Types[call.Args[0]]; ok && av.Value != nil && av.Value.Kind() == constant.String {
						return constant.StringVal(av.Value), true
					}
				}
			}
		}
	}
	return "", false
}

func (im *Impl) isNil(e ast.Expr) bool {
	tv, ok := im.info().Types[unparen(e)]
	return ok && tv.IsNil()
}

func (im *Impl) pos(n ast.Node) string { return im.Prog.Pos(n.Pos()) }

func exprString(e ast.Expr) string { return types.ExprString(e) }

func sortedKeys(m map[string]bool) []string {
	var out []string
	for k := range m {
		out = append(out, k)
	}
	sort.Strings(out)
	return out
}

var _ = token.NoPos

// lenTest recognises a comparison of len(X) with 0 or 1 that says whether X is
// empty: `len(X) > 0`, `len(X) != 0`, `len(X) >= 1`, `0 < len(X)` (true: non-empty)
// and `len(X) == 0`, `len(X) < 1`, `len(X) <= 0` (true: empty). It returns X and
// whether a true outcome means non-empty.
func (im *Impl) lenTest(cond ast.Expr) (x ast.Expr, nonEmptyWhenTrue bool, ok bool) {
	be, isBin := unparen(cond).(*ast.BinaryExpr)
	if !isBin {
		return nil, false, false
	}
	lenArg := func(e ast.Expr) ast.Expr {
		c, ok := unparen(e).(*ast.CallExpr)
		if !ok || len(c.Args) != 1 {
			return nil
		}
		id, ok := c.Fun.(*ast.Ident)
		if !ok || id.Name != "len" {
			return nil
		}
		if _, isB := im.info().Uses[id].(*types.Builtin); !isB {
			return nil
		}
		return c.Args[0]
	}
	constOf := func(e ast.Expr) (int64, bool) {
		tv, ok := im.info().Types[e]
		if !ok || tv.Value == nil {
			return 0, false
		}
		return constant.Int64Val(constant.ToInt(tv.Value))
	}
	op := be.Op
	l, r := be.X, be.Y
	if lenArg(l) == nil && lenArg(r) != nil {
		l, r = r, l
		op = map[token.Token]token.Token{token.LSS: token.GTR, token.GTR: token.LSS, token.LEQ: token.GEQ, token.GEQ: token.LEQ, token.EQL: token.EQL, token.NEQ: token.NEQ}[op]
	}
	arg := lenArg(l)
	c, isConst := constOf(r)
	if arg == nil || !isConst {
		return nil, false, false
	}
	switch {
	case op == token.GTR && c == 0, op == token.GEQ && c == 1, op == token.NEQ && c == 0:
		return arg, true, true
	case op == token.EQL && c == 0, op == token.LSS && c == 1, op == token.LEQ && c == 0:
		return arg, false, true
	}
	return nil, false, false
}

// canonNames: receiver → "recv", i-th parameter → "p<i>" (1-based).
func (im *Impl) canonNames(fd *ast.FuncDecl) map[types.Object]string {
	return CanonNames(im.info(), fd)
}

func CanonNames(info *types.Info, fd *ast.FuncDecl) map[types.Object]string {
	m := map[types.Object]string{}
	if fd.Recv != nil && len(fd.Recv.List) == 1 && len(fd.Recv.List[0].Names) == 1 {
		if o := info.Defs[fd.Recv.List[0].Names[0]]; o != nil {
			m[o] = "recv"
		}
	}
	i := 0
	for _, f := range fd.Type.Params.List {
		if len(f.Names) == 0 {
			i++
		}
		for _, nm := range f.Names {
			i++
			if o := info.Defs[nm]; o != nil {
				m[o] = fmt.Sprintf("p%d", i)
			}
		}
	}
	// `switch x := p.(type)`: the per-clause objects of x stand for p
	if fd.Body != nil {
		ast.Inspect(fd.Body, func(nd ast.Node) bool {
			ts, ok := nd.(*ast.TypeSwitchStmt)
			if !ok {
				return true
			}
			as, ok := ts.Assign.(*ast.AssignStmt)
			if !ok || len(as.Rhs) != 1 {
				return true
			}
			ta, ok := as.Rhs[0].(*ast.TypeAssertExpr)
			if !ok {
				return true
			}
			id, ok := unparen(ta.X).(*ast.Ident)
			if !ok {
				return true
			}
			nm, ok := m[info.Uses[id]]
			if !ok {
				return true
			}
			for _, c := range ts.Body.List {
				if o := info.Implicits[c]; o != nil {
					m[o] = nm
				}
			}
			return true
		})
	}
	return m
}

// canon renders e independently of how fd names its receiver and parameters and of named constants.
func (im *Impl) canon(fd *ast.FuncDecl, e ast.Expr) string {
	return norm.Canon(im.info(), e, im.canonNames(fd))
}


// pathLocals tracks, along one enumerated path, what the function's local variables hold, as canonical
// text: `x := e` / `x = e` binds x to canon(e) (with earlier locals substituted), so that a value that
// reaches its use through a local reads the same as the value written in place.
type pathLocals struct {
	im    *Impl
	fd    *ast.FuncDecl
	names map[types.Object]string
}

func (im *Impl) newPathLocals(fd *ast.FuncDecl) *pathLocals {
	pl := &pathLocals{im: im, fd: fd, names: map[types.Object]string{}}
	for o, n := range im.canonNames(fd) {
		pl.names[o] = n
	}
	return pl
}

func (pl *pathLocals) canon(e ast.Expr) string { return norm.Canon(pl.im.info(), e, pl.names) }

// note records the local assignments of a simple statement; it reports whether the statement was one.
func (pl *pathLocals) note(st ast.Stmt) bool {
	as, ok := st.(*ast.AssignStmt)
	if !ok || len(as.Lhs) != len(as.Rhs) || (as.Tok != token.DEFINE && as.Tok != token.ASSIGN) {
		if ds, ok := st.(*ast.DeclStmt); ok {
			if gd, ok := ds.Decl.(*ast.GenDecl); ok && gd.Tok == token.VAR {
				for _, sp := range gd.Specs {
					vs := sp.(*ast.ValueSpec)
					for i, nm := range vs.Names {
						if o := pl.im.info().Defs[nm]; o != nil && i < len(vs.Values) {
							pl.names[o] = pl.canon(vs.Values[i])
						}
					}
				}
				return true
			}
		}
		return false
	}
	all := true
	vals := make([]string, len(as.Rhs))
	for i, r := range as.Rhs {
		vals[i] = pl.canon(r)
	}
	for i, l := range as.Lhs {
		id, ok := unparen(l).(*ast.Ident)
		if !ok {
			all = false
			continue
		}
		o := pl.im.info().Defs[id]
		if o == nil {
			o = pl.im.info().Uses[id]
		}
		v, isVar := o.(*types.Var)
		if !isVar || v.IsField() || v.Parent() == nil || v.Parent() == v.Pkg().Scope() {
			all = false
			continue
		}
		pl.names[o] = vals[i]
	}
	return all
}
