package visitors

import (
	"fmt"
	"go/ast"
	"go/types"
	"strings"

	"verif/internal/ceval"
	"verif/internal/load"
	"verif/internal/report"
)

// InsertSpec decides rule insert-spec: the formatter puts statements it generates (the `;` it needs after
// `?>`-less inline HTML, …) into statement lists with a helper of the shape
// `func(list []ast.Vertex, at int, new ...ast.Vertex) []ast.Vertex`. The helper is evaluated from source (package
// ceval, whose slices share backing arrays and have capacities like Go's) on every list of up to four elements
// with zero to two elements of spare capacity, every position and one or two new elements; the result must be
// list[:at] ++ new ++ list[at:] (round 6 seed C17-18: the two `copy` calls of the in-place branch swapped; the
// last statement of a list with spare capacity was overwritten, and a formatted file lost its trailing HTML).
func InsertSpec(p *load.Program, rel string) *report.RuleResult {
	res := report.NewResult("insert-spec")
	pk := p.Pkg(rel)
	if pk == nil {
		res.Unknown(rel, "-", rel, "undecided:anchor: package not found")
		return res
	}
	isVertexSlice := func(t types.Type) bool {
		sl, ok := t.Underlying().(*types.Slice)
		if !ok {
			return false
		}
		n, ok := sl.Elem().(*types.Named)
		return ok && n.Obj().Name() == "Vertex"
	}
	in := ceval.New(pk)
	for _, fd := range load.FuncDecls(pk) {
		if fd.Recv != nil || fd.Type.Results == nil || len(fd.Type.Results.List) != 1 || fd.Type.Params.NumFields() != 3 {
			continue
		}
		ps := fd.Type.Params.List
		if len(ps) != 3 {
			continue
		}
		_, variadic := ps[2].Type.(*ast.Ellipsis)
		if !variadic || !isVertexSlice(pk.TypesInfo.TypeOf(ps[0].Type)) || !isVertexSlice(pk.TypesInfo.TypeOf(fd.Type.Results.List[0].Type)) {
			continue
		}
		if b, ok := pk.TypesInfo.TypeOf(ps[1].Type).Underlying().(*types.Basic); !ok || b.Kind() != types.Int {
			continue
		}
		res.Count("helpers", 1)
		key := rel + "." + fd.Name.Name
		pos := p.Pos(fd.Pos())
		var bad []string
		undec := ""
		n := 0
		for ln := 0; ln <= 4 && undec == ""; ln++ {
			for spare := 0; spare <= 2 && undec == ""; spare++ {
				for at := 0; at <= ln && undec == ""; at++ {
					for nn := 1; nn <= 2; nn++ {
						back := make([]interface{}, ln, ln+spare)
						var want []string
						for i := 0; i < ln; i++ {
							back[i] = ceval.Opaque{What: fmt.Sprintf("s%d", i)}
						}
						var news []interface{}
						for i := 0; i < nn; i++ {
							news = append(news, ceval.Opaque{What: fmt.Sprintf("new%d", i)})
						}
						for i := 0; i < at; i++ {
							want = append(want, fmt.Sprintf("s%d", i))
						}
						for i := 0; i < nn; i++ {
							want = append(want, fmt.Sprintf("new%d", i))
						}
						for i := at; i < ln; i++ {
							want = append(want, fmt.Sprintf("s%d", i))
						}
						args := []interface{}{&ceval.List{Elems: back}, int64(at)}
						args = append(args, news...)
						out, st, why := in.Call(fd, nil, args)
						n++
						desc := fmt.Sprintf("%d element(s), %d spare, insert %d at %d", ln, spare, nn, at)
						switch st {
						case ceval.Unsupported, ceval.Diverged:
							undec = desc + ": " + why
						case ceval.Panic:
							bad = append(bad, desc+": panics: "+why)
						default:
							var got []string
							if len(out) == 1 {
								if l, ok := out[0].(*ceval.List); ok {
									for _, e := range l.Elems {
										if o, ok := e.(ceval.Opaque); ok {
											got = append(got, o.What)
										} else {
											got = append(got, fmt.Sprintf("%v", e))
										}
									}
								}
							}
							if strings.Join(got, " ") != strings.Join(want, " ") {
								bad = append(bad, fmt.Sprintf("%s: result [%s], want [%s]", desc, strings.Join(got, " "), strings.Join(want, " ")))
							}
						}
						if len(bad) >= 3 || undec != "" {
							break
						}
					}
					if len(bad) >= 3 {
						break
					}
				}
				if len(bad) >= 3 {
					break
				}
			}
			if len(bad) >= 3 {
				break
			}
		}
		res.Count("scenarios", n)
		switch {
		case undec != "":
			res.Unknown(key, pos, fd.Name.Name, "undecided:idiom: "+undec)
		case len(bad) > 0:
			res.Bad(key, pos, fd.Name.Name, "the result must be list[:at] ++ new ++ list[at:]; "+strings.Join(bad, "; "))
		default:
			res.OK(key, pos, fd.Name.Name, fmt.Sprintf("list[:at] ++ new ++ list[at:] on all %d combinations of length, spare capacity, position and number of new elements", n))
		}
	}
	return res
}
