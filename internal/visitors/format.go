package visitors

import (
	"fmt"
	"go/ast"
	"go/token"
	"go/types"
	"sort"
	"strings"

	"verif/internal/kinds"
	"verif/internal/load"
	"verif/internal/norm"
	"verif/internal/paths"
	"verif/internal/report"
)

// FieldPresence: what the grammars guarantee about a field of a node kind in parsed trees.
type FieldPresence struct {
	Always   map[string]bool // "Kind.Field": never nil
	NonEmpty map[string]bool // "Kind.Field": list never empty
	NonEmptyIfSet map[string]bool // "Kind.Field": list is nil or non-empty
	Known    map[string]bool // kinds the grammars build at all
	CoSet    map[string]map[string]bool // "Kind.Field" -> fields certainly set whenever Field may be set
}

type fmtEvent struct {
	kind  string // tok-new | tok-nil | tok-ff | tok-semi | list-set | list-nil | list-make | child | child-list | child-stmts | child-loop | pending
	field string
	lit   string
	pos   token.Pos
	arg   string
}

// fmtFacts: nil / emptiness knowledge along one path
type fmtFacts struct {
	nonNil   map[string]bool
	isNil    map[string]bool
	nonEmpty map[string]bool
	empty    map[string]bool
}

// FormatRules decides the C17 rules over every visitor method of the formatter.
func FormatRules(p *load.Program, tb *kinds.Table, pres *FieldPresence, pf *PrintFacts, rel, recv string) (nilSafe, visitsAll, setsAll, once, lexeme *report.RuleResult) {
	nilSafe = report.NewResult("fmt-nil-safe")
	visitsAll = report.NewResult("fmt-visits-all")
	setsAll = report.NewResult("fmt-sets-all-tokens")
	once = report.NewResult("fmt-once")
	lexeme = report.NewResult("fmt-lexeme")
	all := []*report.RuleResult{nilSafe, visitsAll, setsAll, once, lexeme}
	im, err := FindImpl(p, tb, rel, recv)
	if err != nil {
		for _, r := range all {
			r.Unknown("impl", "-", "", "undecided:anchor: "+err.Error())
		}
		return
	}
	// the formatter's primitives (interpreted by fmtStmt) and the per-kind methods are kept; other helpers are inlined
	prim := map[string]bool{"newToken": true, "newSemicolonTkn": true, "formatList": true, "formatStmts": true, "addFreeFloating": true, "addIndent": true, "getFreeFloating": true, "resetFreeFloating": true}
	im.UseNorm(func(fn *types.Func) bool { return prim[fn.Name()] || tb.ByMethod[fn.Name()] != nil }, norm.Options{})
	kms, missing := im.KindMethods()
	for _, mname := range missing {
		visitsAll.Bad(mname, "-", mname, "the formatter has no method for this kind")
	}
	for _, km := range kms {
		k, fd := km.Kind, km.Decl
		for _, r := range all {
			r.Count("methods", 1)
		}
		pos := im.pos(fd)
		recvO := im.recvObj(fd)
		nO := im.paramObj(fd, 0)
		ps, err := paths.Enumerate(im.Body(fd))
		if err != nil {
			for _, r := range all {
				r.Unknown(k.Name, pos, k.Method, "undecided:idiom: "+err.Error())
			}
			continue
		}
		hasValue := k.Field("Value") != nil
		bad := map[*report.RuleResult]map[string]string{}
		add := func(r *report.RuleResult, key, msg string) {
			if bad[r] == nil {
				bad[r] = map[string]string{}
			}
			if _, ok := bad[r][key]; !ok {
				bad[r][key] = msg
			}
		}
		undecided := ""
		for pi, path := range ps {
			facts := fmtFacts{map[string]bool{}, map[string]bool{}, map[string]bool{}, map[string]bool{}}
			var evs []fmtEvent
			for _, it := range path {
				switch {
				case it.Cond != nil:
					im.fmtCond(it.Cond, it.Truth, nO, &facts)
				case it.Stmt != nil:
					if why := im.fmtStmt(it.Stmt, recvO, nO, &evs); why != "" {
						undecided = why
					}
				case it.Loop != nil:
					if why := im.fmtLoop(it.Loop, recvO, nO, &evs); why != "" {
						undecided = why
					}
				case it.Switch != nil:
					// a switch on the dynamic type of a child only selects which brace tokens are written
					if ts, ok := it.Switch.(*ast.TypeSwitchStmt); ok {
						subj := ""
						switch as := ts.Assign.(type) {
						case *ast.ExprStmt:
							if ta, ok := as.X.(*ast.TypeAssertExpr); ok {
								subj, _ = im.fieldOf(ta.X, nO)
							}
						case *ast.AssignStmt:
							if ta, ok := as.Rhs[0].(*ast.TypeAssertExpr); ok {
								subj, _ = im.fieldOf(ta.X, nO)
							}
						}
						if subj == "" {
							undecided = "type switch on something other than a child slot"
						}
					} else {
						undecided = "switch statement in a formatter method"
					}
				}
			}
			_ = pi
			// a loop over all elements but the last followed by a visit of the last one is a loop over the list
			{
				var merged []fmtEvent
				open := map[string]int{}
				for _, ev := range evs {
					switch ev.kind {
					case "child-init":
						open[ev.field] = len(merged)
						ev.kind = "child-loop-open"
						merged = append(merged, ev)
					case "child-last":
						if i, ok := open[ev.field]; ok {
							merged[i].kind = "child-loop"
							delete(open, ev.field)
						} else {
							undecided = "the last element of " + ev.field + " is visited without the elements before it"
						}
					default:
						merged = append(merged, ev)
					}
				}
				for f := range open {
					undecided = "the elements of " + f + " but the last are visited, the last one is not"
				}
				evs = merged
			}
			// ---- nil safety
			for _, ev := range evs {
				f := k.Field(ev.field)
				if f == nil {
					continue
				}
				key := k.Name + "." + ev.field
				switch ev.kind {
				case "child":
					if f.Class == kinds.Node && !facts.nonNil[ev.field] && pres.Known[k.Name] && !pres.Always[key] {
						add(nilSafe, k.Name+"/"+ev.field, fmt.Sprintf("n.%s.Accept(f) is not guarded by a nil test, but the grammars leave %s nil in some trees: formatting such a tree dereferences a nil interface", ev.field, key))
					}
				case "child-list", "list-make":
					guarded := facts.nonEmpty[ev.arg] || (facts.nonNil[ev.arg] && pres.NonEmptyIfSet[k.Name+"."+ev.arg])
					if !guarded && pres.Known[k.Name] && !pres.NonEmpty[k.Name+"."+ev.arg] {
						add(nilSafe, k.Name+"/"+ev.arg, fmt.Sprintf("the separator slice for n.%s is allocated with len-1 elements without testing that the list is non-empty, and the grammars can leave %s.%s empty: make panics with a negative length", ev.arg, k.Name, ev.arg))
					}
				}
			}
			// ---- every present child is formatted
			for _, f := range k.Fields {
				if f.Class != kinds.Node && f.Class != kinds.NodeList {
					continue
				}
				if facts.isNil[f.Name] || facts.empty[f.Name] {
					continue
				}
				n := 0
				for _, ev := range evs {
					if strings.HasPrefix(ev.kind, "child") && (ev.field == f.Name || ev.arg == f.Name) {
						n++
					}
				}
				if n == 0 {
					tied := false
					for g := range pres.CoSet[k.Name+"."+f.Name] {
						if tiedAbsent(pres, facts.isNil, facts.empty, k.Name+"."+f.Name, g) {
							tied = true // the grammars never set this child without g, which is absent on this path
						}
					}
					if tied {
						continue
					}
				}
				if n == 0 {
					add(visitsAll, k.Name+"/"+f.Name, fmt.Sprintf("child slot %s is not formatted on a path where it may be present: its tokens keep the layout of the source", f.Name))
				}
				if n > 1 {
					add(once, k.Name+"/"+f.Name, fmt.Sprintf("child slot %s is formatted %d times on one path", f.Name, n))
				}
			}
			// ---- every token slot is normalised
			for _, f := range k.Fields {
				switch f.Class {
				case kinds.Tok:
					if facts.isNil[f.Name] {
						continue
					}
					var sets []fmtEvent
					for _, ev := range evs {
						if strings.HasPrefix(ev.kind, "tok-") && ev.field == f.Name {
							sets = append(sets, ev)
						}
					}
					fresh := 0
					for _, ev := range sets {
						if ev.kind == "tok-new" || ev.kind == "tok-semi" {
							fresh++
						}
						if ev.kind == "tok-ff" && !hasValue {
							add(setsAll, k.Name+"/"+f.Name, fmt.Sprintf("token %s keeps the text it had in the source (only its free-floating tokens are replaced): the output depends on how the source spelled it", f.Name))
						}
					}
					if len(sets) == 0 {
						// absent together with a child or list that is known to be absent on this path?
						tied := false
						for g := range pres.CoSet[k.Name+"."+f.Name] {
							if tiedAbsent(pres, facts.isNil, facts.empty, k.Name+"."+f.Name, g) {
								tied = true
							}
						}
						if tied {
							continue
						}
						if why, ok := fmtReviewed[k.Name+"/"+f.Name]; ok {
							_ = why
							continue
						}
						add(setsAll, k.Name+"/"+f.Name, fmt.Sprintf("token slot %s is neither replaced by a canonical token nor cleared: whitespace and comments attached to it in the source survive formatting", f.Name))
					}
					if fresh > 1 {
						add(once, k.Name+"/"+f.Name, fmt.Sprintf("token slot %s receives %d fresh tokens on one path: the pending whitespace of the first is lost with it", f.Name, fresh))
					}
				case kinds.TokList:
					n, sets := 0, 0
					for _, ev := range evs {
						if strings.HasPrefix(ev.kind, "list-") && ev.field == f.Name {
							n++
							if ev.kind == "list-set" {
								sets++
							}
						}
					}
					// separators exist only between the items of the list declared just before them
					if n == 0 && f.Index > 0 {
						prev := k.Fields[f.Index-1]
						if prev.Class == kinds.NodeList && (facts.isNil[prev.Name] || facts.empty[prev.Name]) {
							continue
						}
					}
					if n == 0 {
						tied := false
						for g := range pres.CoSet[k.Name+"."+f.Name] {
							if tiedAbsent(pres, facts.isNil, facts.empty, k.Name+"."+f.Name, g) {
								tied = true
							}
						}
						if tied {
							continue
						}
					}
					if sets > 1 {
						add(once, k.Name+"/"+f.Name, fmt.Sprintf("separator tokens %s are built %d times on one path", f.Name, sets))
					}
					if n == 0 {
						add(setsAll, k.Name+"/"+f.Name, fmt.Sprintf("separator tokens %s are not rebuilt: separators keep their source layout", f.Name))
					}

				}
			}
			// ---- a token rebuilt from the node's whole Value replaces every token of the node
			for _, ev := range evs {
				if ev.kind != "tok-new" || ev.arg != "Value" {
					continue
				}
				for _, g := range k.Fields {
					if g.Class != kinds.Tok || g.Name == ev.field || facts.isNil[g.Name] {
						continue
					}
					handled := false
					for _, e2 := range evs {
						if e2.field == g.Name && (e2.kind == "tok-nil" || e2.kind == "tok-new") {
							handled = true
						}
					}
					for tie := range pres.CoSet[k.Name+"."+g.Name] {
						if facts.isNil[tie] {
							handled = true // g only exists together with a token that is absent on this path
						}
					}
					if !handled {
						add(once, k.Name+"/"+ev.field+"+"+g.Name, fmt.Sprintf("%s is rebuilt from the node's whole Value while %s, which holds part of that text in parsed trees, is kept: the text is printed twice", ev.field, g.Name))
					}
				}
			}
			// ---- lexemes agree with the printer's defaults
			for _, ev := range evs {
				if ev.kind != "tok-new" || ev.lit == "" {
					continue
				}
				d, ok := pf.Defaults[k.Name+"."+ev.field]
				if !ok || len(d.Consts) == 0 {
					continue
				}
				lexeme.Count("lexemes", 1)
				match := false
				for _, c := range d.Consts {
					if c == ev.lit || strings.TrimSpace(c) == strings.TrimSpace(ev.lit) {
						match = true
					}
				}
				if !match {
					add(lexeme, k.Name+"/"+ev.field, fmt.Sprintf("the formatter writes %q into %s, the printer's own lexeme for an absent %s is %q", ev.lit, ev.field, ev.field, strings.Join(d.Consts, "|")))
				}
			}
		}
		if undecided != "" {
			for _, r := range all {
				r.Unknown(k.Name, pos, k.Method, "undecided:idiom: "+undecided)
			}
			continue
		}
		for _, r := range all {
			if len(bad[r]) == 0 {
				r.OK(k.Name, pos, k.Method, fmt.Sprintf("%d paths", len(ps)))
				continue
			}
			var ks []string
			for kk := range bad[r] {
				ks = append(ks, kk)
			}
			sort.Strings(ks)
			for _, kk := range ks {
				r.Bad(kk, pos, k.Method, bad[r][kk])
			}
		}
	}
	return
}

func (im *Impl) fmtCond(cond ast.Expr, truth bool, n types.Object, facts *fmtFacts) {
	cond = unparen(cond)
	if ue, ok := cond.(*ast.UnaryExpr); ok && ue.Op == token.NOT {
		im.fmtCond(ue.X, !truth, n, facts)
		return
	}
	x, ok := cond.(*ast.BinaryExpr)
	if !ok {
		return
	}
	switch x.Op {
	case token.LAND:
		if truth {
			im.fmtCond(x.X, true, n, facts)
			im.fmtCond(x.Y, true, n, facts)
		}
		return
	case token.LOR:
		if !truth {
			im.fmtCond(x.X, false, n, facts)
			im.fmtCond(x.Y, false, n, facts)
		}
		return
	}
	if f, neq, ok := im.nilTest(x, func(e ast.Expr) (string, bool) { return im.fieldOf(e, n) }); ok {
		if neq == truth {
			facts.nonNil[f] = true
		} else {
			facts.isNil[f] = true
		}
		return
	}
	if arg, nonEmptyWhenTrue, ok := im.lenTest(x); ok {
		if f, ok := im.fieldOf(arg, n); ok {
			if nonEmptyWhenTrue == truth {
				facts.nonEmpty[f] = true
			} else {
				facts.empty[f] = true
			}
		}
	}
}

// fmtStmt classifies one simple statement of a formatter method.
func (im *Impl) fmtStmt(st ast.Stmt, recv, n types.Object, evs *[]fmtEvent) string {
	switch x := st.(type) {
	case *ast.AssignStmt:
		if len(x.Lhs) != 1 || len(x.Rhs) != 1 {
			return ""
		}
		// n.F = …
		if f, ok := im.fieldOf(x.Lhs[0], n); ok {
			rhs := unparen(x.Rhs[0])
			if im.isNil(rhs) {
				kind := "tok-nil"
				if sel := im.info().Selections[x.Lhs[0].(*ast.SelectorExpr)]; sel != nil {
					if _, isSlice := sel.Type().Underlying().(*types.Slice); isSlice {
						kind = "list-nil"
					}
				}
				*evs = append(*evs, fmtEvent{kind: kind, field: f, pos: st.Pos()})
				return ""
			}
			if call, ok := rhs.(*ast.CallExpr); ok {
				if name, ok := im.methodCall(call, recv); ok {
					switch name {
					case "newToken":
						lit, arg := "", ""
						if len(call.Args) == 2 {
							if c, ok := im.constBytes(call.Args[1]); ok {
								lit = c
							}
							if vf, ok := im.fieldOf(call.Args[1], n); ok && vf == "Value" {
								arg = "Value"
							}
						}
						*evs = append(*evs, fmtEvent{kind: "tok-new", field: f, lit: lit, arg: arg, pos: st.Pos()})
						return ""
					case "newSemicolonTkn":
						*evs = append(*evs, fmtEvent{kind: "tok-semi", field: f, lit: ";", pos: st.Pos()})
						return ""
					case "formatList":
						arg, _ := im.fieldOf(call.Args[0], n)
						*evs = append(*evs, fmtEvent{kind: "list-set", field: f, arg: arg, pos: st.Pos()}, fmtEvent{kind: "child-list", field: arg, arg: arg, pos: st.Pos()})
						return ""
					}
				}
				if id, ok := call.Fun.(*ast.Ident); ok && id.Name == "make" && len(call.Args) >= 2 {
					// make([]*token.Token, len(n.L)-1)
					arg := ""
					ast.Inspect(call.Args[1], func(nd ast.Node) bool {
						if se, ok := nd.(*ast.SelectorExpr); ok {
							if ff, ok := im.fieldOf(se, n); ok {
								arg = ff
							}
						}
						return true
					})
					*evs = append(*evs, fmtEvent{kind: "list-set", field: f, arg: arg, pos: st.Pos()}, fmtEvent{kind: "list-make", field: f, arg: arg, pos: st.Pos()})
					return ""
				}
			}
			return ""
		}
		// n.F.FreeFloating = f.getFreeFloating()
		if se, ok := x.Lhs[0].(*ast.SelectorExpr); ok && se.Sel.Name == "FreeFloating" {
			if f, ok := im.fieldOf(se.X, n); ok {
				*evs = append(*evs, fmtEvent{kind: "tok-ff", field: f, pos: st.Pos()})
				return ""
			}
		}
		// local := make([]*token.Token, len(n.L)-1)  (a separator slice that is never stored)
		if call, ok := unparen(x.Rhs[0]).(*ast.CallExpr); ok {
			if id, ok := call.Fun.(*ast.Ident); ok && id.Name == "make" && len(call.Args) >= 2 {
				arg := ""
				ast.Inspect(call.Args[1], func(nd ast.Node) bool {
					if se, ok := nd.(*ast.SelectorExpr); ok {
						if ff, ok := im.fieldOf(se, n); ok {
							arg = ff
						}
					}
					return true
				})
				if arg != "" {
					*evs = append(*evs, fmtEvent{kind: "list-make", field: "", arg: arg, pos: st.Pos()})
				}
			}
		}
		return ""
	case *ast.ExprStmt:
		call, ok := x.X.(*ast.CallExpr)
		if !ok {
			return ""
		}
		if xe, arg, ok := im.acceptCall(call); ok && im.isObj(arg, recv) {
			if f, ok := im.fieldOf(xe, n); ok {
				*evs = append(*evs, fmtEvent{kind: "child", field: f, pos: st.Pos()})
				return ""
			}
			// the last element of a child list, visited after a loop over the elements before it (the last iteration peeled off)
			if ix, ok := unparen(xe).(*ast.IndexExpr); ok {
				if f, ok := im.fieldOf(ix.X, n); ok && isLenMinusOne(ix.Index, ix.X) {
					*evs = append(*evs, fmtEvent{kind: "child-last", field: f, arg: f, pos: st.Pos()})
					return ""
				}
			}
			return "Accept on " + exprString(xe)
		}
		if name, ok := im.methodCall(call, recv); ok {
			switch name {
			case "formatStmts":
				if ue, ok := unparen(call.Args[0]).(*ast.UnaryExpr); ok {
					if f, ok := im.fieldOf(ue.X, n); ok {
						*evs = append(*evs, fmtEvent{kind: "child-stmts", field: f, arg: f, pos: st.Pos()})
					}
				}
			case "formatList":
				if f, ok := im.fieldOf(call.Args[0], n); ok {
					*evs = append(*evs, fmtEvent{kind: "child-list", field: f, arg: f, pos: st.Pos()})
				}
			case "addFreeFloating", "addIndent":
				*evs = append(*evs, fmtEvent{kind: "pending", pos: st.Pos()})
			}
		}
		return ""
	}
	return ""
}

// fmtLoop: `for _, m := range n.L { m.Accept(f) … }` and the indexed variant with separators.
func (im *Impl) fmtLoop(loop ast.Stmt, recv, n types.Object, evs *[]fmtEvent) string {
	if fs, ok := loop.(*ast.ForStmt); ok {
		// for i := 0; i < len(n.L)-1; i++ { n.L[i].Accept(f) … }: every element but the last; the last one follows the loop
		if f, ok := im.allButLast(fs, recv, n); ok {
			*evs = append(*evs, fmtEvent{kind: "child-init", field: f, arg: f, pos: loop.Pos()})
			return ""
		}
	}
	rs, ok := loop.(*ast.RangeStmt)
	if !ok {
		return "loop that is not a range over a child list"
	}
	f, ok := im.fieldOf(rs.X, n)
	if !ok {
		return "range over " + exprString(rs.X)
	}
	accepted := false
	var sepField string
	ast.Inspect(rs.Body, func(nd ast.Node) bool {
		switch x := nd.(type) {
		case *ast.CallExpr:
			if _, arg, ok := im.acceptCall(x); ok && im.isObj(arg, recv) {
				accepted = true
			}
		case *ast.AssignStmt:
			// n.SeparatorTkns[i] = f.newToken(…)
			if len(x.Lhs) == 1 {
				if ix, ok := x.Lhs[0].(*ast.IndexExpr); ok {
					if sf, ok := im.fieldOf(ix.X, n); ok {
						sepField = sf
					}
				}
			}
		}
		return true
	})
	if accepted {
		*evs = append(*evs, fmtEvent{kind: "child-loop", field: f, arg: f, pos: loop.Pos()})
	}
	_ = sepField
	return ""
}

// isLenMinusOne: e is len(of) - 1.
func isLenMinusOne(e, of ast.Expr) bool {
	b, ok := unparen(e).(*ast.BinaryExpr)
	if !ok || b.Op != token.SUB {
		return false
	}
	if l, ok := unparen(b.Y).(*ast.BasicLit); !ok || l.Value != "1" {
		return false
	}
	c, ok := unparen(b.X).(*ast.CallExpr)
	if !ok || len(c.Args) != 1 {
		return false
	}
	id, ok := c.Fun.(*ast.Ident)
	return ok && id.Name == "len" && exprString(unparen(c.Args[0])) == exprString(unparen(of))
}

// allButLast: the loop walks i from 0 while i < len(n.L)-1 and visits n.L[i].
func (im *Impl) allButLast(fs *ast.ForStmt, recv, n types.Object) (string, bool) {
	init, ok := fs.Init.(*ast.AssignStmt)
	if !ok || len(init.Lhs) != 1 || len(init.Rhs) != 1 {
		return "", false
	}
	iv, ok := init.Lhs[0].(*ast.Ident)
	if !ok {
		return "", false
	}
	if l, ok := unparen(init.Rhs[0]).(*ast.BasicLit); !ok || l.Value != "0" {
		return "", false
	}
	post, ok := fs.Post.(*ast.IncDecStmt)
	if !ok || post.Tok != token.INC || exprString(post.X) != iv.Name {
		return "", false
	}
	cond, ok := unparen(fs.Cond).(*ast.BinaryExpr)
	if !ok || cond.Op != token.LSS || exprString(unparen(cond.X)) != iv.Name {
		return "", false
	}
	field, found := "", false
	ast.Inspect(fs.Body, func(nd ast.Node) bool {
		call, ok := nd.(*ast.CallExpr)
		if !ok {
			return true
		}
		if xe, arg, ok := im.acceptCall(call); ok && im.isObj(arg, recv) {
			if ix, ok := unparen(xe).(*ast.IndexExpr); ok && exprString(unparen(ix.Index)) == iv.Name {
				if f, ok := im.fieldOf(ix.X, n); ok && isLenMinusOne(cond.Y, ix.X) {
					field, found = f, true
				}
			}
		}
		return true
	})
	return field, found
}

// fmtReviewed: token slots whose absence is tied to a property of a child that the path conditions do not express.
var fmtReviewed = map[string]string{
	"ExprVariable/DollarTkn": "the grammars set DollarTkn exactly when Name is not an Identifier (T_VARIABLE yields an Identifier holding '$name' and no DollarTkn); the method assigns it on that branch",
}


// tiedAbsent: field g, which the grammars always populate when slot is
// populated, is known absent on the path. An emptiness test of a list decides
// absence only if the grammars never leave that list empty next to slot (the
// "#nonempty" entries of the co-occurrence sets).
func tiedAbsent(pres *FieldPresence, isNil, empty map[string]bool, slot, g string) bool {
	if strings.HasSuffix(g, "#nonempty") {
		return false
	}
	if isNil[g] {
		return true
	}
	return empty[g] && pres.CoSet[slot][g+"#nonempty"]
}
