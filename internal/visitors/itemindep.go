package visitors

import (
	"fmt"
	"go/ast"
	"go/token"
	"go/types"
	"sort"

	"verif/internal/load"
	"verif/internal/report"
)

// ItemIndependence: the items of a child list are handled independently of each other. In the package,
// a loop must not carry a choice made for one element over to the next ones: a local variable declared
// outside a loop and assigned inside it is accepted only as an accumulator (some assignment in the
// loop computes the new value from the old one: s = s + x, l = append(l, x), n += k). A variable that
// one iteration overwrites with a value of its own (the alias kind of one `use` item, the prefix of one
// name) leaks into the iterations that follow when they do not set it themselves.
func ItemIndependence(p *load.Program, rel string) *report.RuleResult {
	res := report.NewResult("item-independence")
	pk := p.Pkg(rel)
	if pk == nil {
		res.Unknown("pkg", rel, rel, "undecided:anchor: package not found")
		return res
	}
	info := pk.TypesInfo
	for _, fd := range load.FuncDecls(pk) {
		if fd.Body == nil {
			continue
		}
		fname := fd.Name.Name
		if fd.Recv != nil && len(fd.Recv.List) == 1 {
			fname = recvTypeName(fd.Recv.List[0].Type) + "." + fname
		}
		nloop := 0
		ast.Inspect(fd.Body, func(n ast.Node) bool {
			var body *ast.BlockStmt
			switch x := n.(type) {
			case *ast.RangeStmt:
				body = x.Body
			case *ast.ForStmt:
				body = x.Body
			}
			if body == nil {
				return true
			}
			nloop++
			res.Count("loops", 1)
			type asg struct {
				self bool
				pos  token.Pos
			}
			byVar := map[*types.Var][]asg{}
			mentions := func(e ast.Expr, v *types.Var) bool {
				found := false
				ast.Inspect(e, func(m ast.Node) bool {
					if id, ok := m.(*ast.Ident); ok && info.Uses[id] == v {
						found = true
					}
					return true
				})
				return found
			}
			// locals the body defines, with what they are computed from: `nullable, ok := n.(*T); n = nullable.Expr`
			// builds the new n from the old one through nullable
			derived := map[*types.Var][]ast.Expr{}
			ast.Inspect(body, func(m ast.Node) bool {
				if as, ok := m.(*ast.AssignStmt); ok && as.Tok == token.DEFINE {
					for i, l := range as.Lhs {
						if id, ok := l.(*ast.Ident); ok {
							if dv, ok := info.Defs[id].(*types.Var); ok {
								if len(as.Lhs) == len(as.Rhs) {
									derived[dv] = append(derived[dv], as.Rhs[i])
								} else {
									derived[dv] = append(derived[dv], as.Rhs...)
								}
							}
						}
					}
				}
				return true
			})
			direct := mentions
			var mentionsVia func(e ast.Expr, v *types.Var, depth int) bool
			mentionsVia = func(e ast.Expr, v *types.Var, depth int) bool {
				if direct(e, v) {
					return true
				}
				if depth > 4 {
					return false
				}
				found := false
				ast.Inspect(e, func(m ast.Node) bool {
					if id, ok := m.(*ast.Ident); ok && !found {
						if dv, ok := info.Uses[id].(*types.Var); ok {
							for _, src := range derived[dv] {
								if mentionsVia(src, v, depth+1) {
									found = true
								}
							}
						}
					}
					return !found
				})
				return found
			}
			mentions = func(e ast.Expr, v *types.Var) bool { return mentionsVia(e, v, 0) }
			ast.Inspect(body, func(m ast.Node) bool {
				switch as := m.(type) {
				case *ast.AssignStmt:
					if as.Tok == token.DEFINE {
						return true
					}
					for i, l := range as.Lhs {
						id, ok := l.(*ast.Ident)
						if !ok {
							continue
						}
						v, ok := info.Uses[id].(*types.Var)
						if !ok || v.IsField() || v.Parent() == pk.Types.Scope() || !(v.Pos() < n.Pos()) {
							continue
						}
						self := as.Tok != token.ASSIGN // op-assignment
						if !self && len(as.Lhs) == len(as.Rhs) {
							self = mentions(as.Rhs[i], v)
						}
						byVar[v] = append(byVar[v], asg{self, as.Pos()})
					}
				case *ast.IncDecStmt:
					if id, ok := as.X.(*ast.Ident); ok {
						if v, ok := info.Uses[id].(*types.Var); ok && !v.IsField() && v.Pos() < n.Pos() {
							byVar[v] = append(byVar[v], asg{true, as.Pos()})
						}
					}
				}
				return true
			})
			// the loop's own control variables (for i := …; i < n; i++ declared in Init are inside the loop node: v.Pos() >= n.Pos())
			var vars []*types.Var
			for v := range byVar {
				vars = append(vars, v)
			}
			sort.Slice(vars, func(i, j int) bool { return vars[i].Pos() < vars[j].Pos() })
			okLoop := true
			for _, v := range vars {
				// an accumulator may be started inside the loop (if s == "" { s = x } else { s = s + x }): what matters
				// is that some assignment builds on the old value
				acc := false
				for _, a := range byVar[v] {
					if a.self {
						acc = true
					}
				}
				if acc {
					continue
				}
				for _, a := range byVar[v] {
					if !a.self {
						okLoop = false
						res.Bad(fmt.Sprintf("%s/loop#%d/%s", fname, nloop, v.Name()), p.Pos(a.pos), fname,
							fmt.Sprintf("%s is declared before the loop and overwritten inside it with a value that belongs to one element: elements that follow and do not set it themselves are handled with the previous element's value", v.Name()))
						break
					}
				}
			}
			if okLoop {
				res.OK(fmt.Sprintf("%s/loop#%d", fname, nloop), p.Pos(n.Pos()), fname, "no value chosen for one element is carried to the next")
			}
			return true
		})
	}
	return res
}

func recvTypeName(e ast.Expr) string {
	switch x := e.(type) {
	case *ast.StarExpr:
		return recvTypeName(x.X)
	case *ast.Ident:
		return x.Name
	}
	return "?"
}
