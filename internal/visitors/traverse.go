package visitors

import (
	"fmt"
	"go/ast"
	"go/token"
	"go/types"

	"golang.org/x/tools/go/types/typeutil"

	"verif/internal/kinds"
	"verif/internal/load"
	"verif/internal/norm"
	"verif/internal/paths"
	"verif/internal/report"
)

// TraverseSlots decides rule traverse-slots (C12): every Traverser method
// hands the node itself to the wrapped visitor exactly once, first, and then
// descends into every child slot exactly once in declaration order.
func TraverseSlots(p *load.Program, tb *kinds.Table) *report.RuleResult {
	res := report.NewResult("traverse-slots")
	im, err := FindImpl(p, tb, "pkg/visitor/traverser", "Traverser")
	if err != nil {
		res.Unknown("impl", "-", "", "undecided:anchor: "+err.Error())
		return res
	}
	// the wrapped visitor field(s): fields of Traverser of type ast.Visitor
	visitorFields := map[string]bool{}
	for _, f := range im.AllFields() {
		if n, ok := f.Type().(*types.Named); ok && n.Obj().Name() == "Visitor" && load.Rel(n.Obj().Pkg()) == "pkg/ast" {
			visitorFields[f.Name()] = true
		}
	}
	if len(visitorFields) != 1 {
		res.Unknown("impl/visitor-field", "-", "", fmt.Sprintf("undecided:anchor: Traverser has %d fields of type ast.Visitor, expected 1", len(visitorFields)))
		return res
	}
	// helper Traverse(n Vertex): accept iff non-nil
	helperOK := map[string]bool{}
	im.UseNorm(func(*types.Func) bool { return false }, norm.Options{}) // helper bodies in canonical shape (isAbsent(n) → n == nil, early returns)
	for name, fd := range im.Methods {
		if tb.ByMethod[name] != nil {
			continue
		}
		if ok, why := im.isNilGuardedAccept(fd); ok {
			helperOK[name] = true
			res.OK("helper/"+name, im.pos(fd), name, "visits its argument exactly once iff it is non-nil: "+why)
		}
	}
	res.Count("helpers", len(helperOK))
	im.UseNorm(keepNames(helperOK), norm.Options{})

	kms, missing := im.KindMethods()
	for _, m := range missing {
		res.Bad("method/"+m, "-", m, "Traverser does not declare this visitor method itself")
	}
	for _, km := range kms {
		res.Count("methods", 1)
		res.Units = append(res.Units, "Traverser."+km.Kind.Method)
		im.traverseMethod(res, km, visitorFields, helperOK)
	}
	return res
}

// isNilGuardedAccept: func (t *T) X(n ast.Vertex) { if n != nil { n.Accept(t) } }
func (im *Impl) isNilGuardedAccept(fd *ast.FuncDecl) (bool, string) {
	recv := im.recvObj(fd)
	par := im.paramObj(fd, 0)
	if recv == nil || par == nil || fd.Type.Params.NumFields() != 1 || fd.Type.Results != nil {
		return false, ""
	}
	if kinds.Classify(par.Type(), im.Kinds) != kinds.Node {
		return false, ""
	}
	ps, err := paths.Enumerate(im.Body(fd))
	if err != nil {
		return false, ""
	}
	for _, path := range ps {
		nonNil := false
		isNilKnown := false
		accepts := 0
		for _, it := range path {
			switch {
			case it.Cond != nil:
				f, neq, ok := im.nilTest(it.Cond, func(e ast.Expr) (string, bool) {
					if im.isObj(e, par) {
						return "n", true
					}
					return "", false
				})
				if !ok || f != "n" {
					return false, ""
				}
				if neq == it.Truth {
					nonNil = true
				} else {
					isNilKnown = true
				}
			case it.Stmt != nil:
				es, ok := it.Stmt.(*ast.ExprStmt)
				if !ok {
					return false, ""
				}
				call, ok := es.X.(*ast.CallExpr)
				if !ok {
					return false, ""
				}
				x, arg, ok := im.acceptCall(call)
				if !ok || !im.isObj(x, par) || !im.isObj(arg, recv) {
					return false, ""
				}
				if !nonNil {
					return false, ""
				}
				accepts++
			case it.Return != nil:
				if len(it.Return.Results) != 0 {
					return false, ""
				}
			default:
				return false, ""
			}
		}
		if isNilKnown && accepts != 0 {
			return false, ""
		}
		if nonNil && accepts != 1 {
			return false, ""
		}
		if !nonNil && !isNilKnown {
			return false, ""
		}
	}
	return true, fmt.Sprintf("%d paths", len(ps))
}

// nilTest recognises `X != nil` / `X == nil` where name(X) resolves; returns
// the resolved name and whether the operator is !=.
func (im *Impl) nilTest(cond ast.Expr, name func(ast.Expr) (string, bool)) (string, bool, bool) {
	be, ok := unparen(cond).(*ast.BinaryExpr)
	if !ok || (be.Op != token.NEQ && be.Op != token.EQL) {
		return "", false, false
	}
	x, y := be.X, be.Y
	if im.isNil(x) {
		x, y = y, x
	}
	if !im.isNil(y) {
		return "", false, false
	}
	n, ok := name(x)
	if !ok {
		return "", false, false
	}
	return n, be.Op == token.NEQ, true
}

func (im *Impl) traverseMethod(res *report.RuleResult, km KM, visitorFields, helperOK map[string]bool) {
	k, fd := km.Kind, km.Decl
	recv, n := im.recvObj(fd), im.paramObj(fd, 0)
	fn := "Traverser." + k.Method
	pos := im.pos(fd)
	ps, err := paths.Enumerate(im.Body(fd))
	if err != nil {
		res.Unknown(k.Name, pos, fn, "undecided:idiom: "+err.Error())
		return
	}
	var children []kinds.Field
	for _, f := range k.Fields {
		if f.Class == kinds.Node || f.Class == kinds.NodeList {
			children = append(children, f)
		}
	}
	type verdict struct {
		bad    string
		undec  string
	}
	self := verdict{}
	perField := map[string]*verdict{}
	for _, c := range children {
		perField[c.Name] = &verdict{}
	}
	order := verdict{}
	fieldName := func(e ast.Expr) (string, bool) { return im.fieldOf(e, n) }

	for pi, path := range ps {
		nonNil := map[string]bool{}
		isNil := map[string]bool{}
		var seq []string // visited child fields in order
		selfAt := -1
		selfCount := 0
		evIdx := 0
		for _, it := range path {
			switch {
			case it.Cond != nil:
				f, neq, ok := im.nilTest(it.Cond, fieldName)
				if !ok {
					self.undec = fmt.Sprintf("path %d: condition %s is not a nil test of a child slot", pi, exprString(it.Cond))
					continue
				}
				if neq == it.Truth {
					nonNil[f] = true
				} else {
					isNil[f] = true
				}
			case it.Stmt != nil:
				es, ok := it.Stmt.(*ast.ExprStmt)
				var call *ast.CallExpr
				if ok {
					call, ok = es.X.(*ast.CallExpr)
				}
				if !ok {
					self.undec = fmt.Sprintf("path %d: statement at %s is not a call", pi, im.pos(it.Stmt))
					continue
				}
				if x, arg, ok := im.acceptCall(call); ok {
					if im.isObj(x, n) {
						// n.Accept(t.v)
						if vf, ok := im.fieldOf(arg, recv); ok && visitorFields[vf] {
							selfCount++
							if selfAt < 0 {
								selfAt = evIdx
							}
							evIdx++
							continue
						}
						self.bad = fmt.Sprintf("n.Accept is called with %s, not with the wrapped visitor", exprString(arg))
						evIdx++
						continue
					}
					if f, ok := fieldName(x); ok && im.isObj(arg, recv) {
						if v := perField[f]; v != nil && k.Field(f).Class == kinds.Node {
							if !nonNil[f] {
								v.bad = "n." + f + ".Accept(t) is not guarded by a nil test (a nil child panics)"
							}
							seq = append(seq, f)
							evIdx++
							continue
						}
					}
					self.undec = fmt.Sprintf("path %d: unrecognised Accept call %s", pi, exprString(call))
					continue
				}
				if m, ok := im.methodCall(call, recv); ok && helperOK[m] && len(call.Args) == 1 {
					if f, ok := fieldName(call.Args[0]); ok && perField[f] != nil && k.Field(f).Class == kinds.Node {
						seq = append(seq, f)
						evIdx++
						continue
					}
				}
				self.undec = fmt.Sprintf("path %d: unrecognised call %s", pi, exprString(call))
			case it.Loop != nil:
				f, ok := im.listLoop(it.Loop, n, recv, helperOK)
				if !ok || perField[f] == nil || k.Field(f).Class != kinds.NodeList {
					self.undec = fmt.Sprintf("path %d: loop at %s is not `for _, x := range n.List { x.Accept(t) }`", pi, im.pos(it.Loop))
					continue
				}
				seq = append(seq, f)
				evIdx++
			case it.Return != nil:
			default:
				self.undec = fmt.Sprintf("path %d: switch statements are not part of the traverser idiom", pi)
			}
		}
		if selfCount != 1 {
			self.bad = fmt.Sprintf("path %d presents the node itself %d times to the wrapped visitor (want exactly 1)", pi, selfCount)
		} else if selfAt != 0 {
			self.bad = fmt.Sprintf("path %d descends into a child before presenting the node itself (parent must come first)", pi)
		}
		cnt := map[string]int{}
		for _, f := range seq {
			cnt[f]++
		}
		for _, c := range children {
			v := perField[c.Name]
			switch {
			case cnt[c.Name] == 0 && isNil[c.Name]:
				// child known nil on this path: nothing to visit
			case cnt[c.Name] == 0:
				v.bad = fmt.Sprintf("child slot %s is never traversed (path %d)", c.Name, pi)
			case cnt[c.Name] > 1:
				v.bad = fmt.Sprintf("child slot %s is traversed %d times (path %d)", c.Name, cnt[c.Name], pi)
			}
		}
		last := -1
		for _, f := range seq {
			idx := k.Field(f).Index
			if idx < last {
				order.bad = fmt.Sprintf("path %d visits %s after a slot declared later (declaration order is source order)", pi, f)
			}
			last = idx
		}
	}
	emit := func(key string, v verdict, okMsg string) {
		switch {
		case v.undec != "":
			res.Unknown(key, pos, fn, "undecided:idiom: "+v.undec)
		case v.bad != "":
			res.Bad(key, pos, fn, v.bad)
		default:
			res.OK(key, pos, fn, okMsg)
		}
	}
	emit(k.Name+"/self", self, "node presented exactly once, before any child, on every path")
	for _, c := range children {
		emit(k.Name+"/"+c.Name, *perField[c.Name], "child slot traversed exactly once on every path where it can be non-nil")
	}
	emit(k.Name+"/order", order, "children traversed in declaration order")
}

// listLoop recognises `for _, x := range n.F { x.Accept(t) }` and
// `{ t.Traverse(x) }`.
func (im *Impl) listLoop(s ast.Stmt, n, recv types.Object, helperOK map[string]bool) (string, bool) {
	rs, ok := s.(*ast.RangeStmt)
	if !ok || rs.Value == nil || len(rs.Body.List) != 1 {
		return "", false
	}
	if rs.Key != nil {
		if id, ok := rs.Key.(*ast.Ident); !ok || id.Name != "_" {
			return "", false
		}
	}
	f, ok := im.fieldOf(rs.X, n)
	if !ok {
		return "", false
	}
	vid, ok := rs.Value.(*ast.Ident)
	if !ok {
		return "", false
	}
	vobj := im.info().Defs[vid]
	es, ok := rs.Body.List[0].(*ast.ExprStmt)
	if !ok {
		return "", false
	}
	call, ok := es.X.(*ast.CallExpr)
	if !ok {
		return "", false
	}
	if x, arg, ok := im.acceptCall(call); ok && im.isObj(x, vobj) && im.isObj(arg, recv) {
		return f, true
	}
	if m, ok := im.methodCall(call, recv); ok && helperOK[m] && len(call.Args) == 1 && im.isObj(call.Args[0], vobj) {
		return f, true
	}
	return "", false
}

// AcceptDispatch decides rule accept-dispatch (C12): each kind's Accept calls
// exactly one method of the visitor it was given, with itself as argument,
// and kinds and visitor methods are in bijection.
func AcceptDispatch(p *load.Program, tb *kinds.Table) *report.RuleResult {
	res := report.NewResult("accept-dispatch")
	ap := p.Pkg("pkg/ast")
	for _, pr := range tb.Problems {
		res.Bad("table/"+pr, "-", "", pr)
	}
	res.Count("kinds", len(tb.Kinds))
	res.Count("visitor-methods", tb.Visitor.NumMethods())
	res.Check(len(tb.Kinds) == tb.Visitor.NumMethods(), "bijection", "-", "ast.Visitor",
		fmt.Sprintf("%d kinds, %d visitor methods, each kind received by exactly one method", len(tb.Kinds), tb.Visitor.NumMethods()),
		fmt.Sprintf("%d kinds but %d visitor methods", len(tb.Kinds), tb.Visitor.NumMethods()))
	info := ap.TypesInfo
	for _, k := range tb.Kinds {
		fd := load.Methods(ap, k.Name)["Accept"]
		key := k.Name
		if fd == nil {
			res.Bad(key, "-", k.Name+".Accept", "no Accept method declared")
			continue
		}
		pos := p.Pos(fd.Pos())
		fn := k.Name + ".Accept"
		var recvObj, vObj types.Object
		if fd.Recv != nil && len(fd.Recv.List) == 1 && len(fd.Recv.List[0].Names) == 1 {
			recvObj = info.Defs[fd.Recv.List[0].Names[0]]
		}
		if fd.Type.Params.NumFields() == 1 && len(fd.Type.Params.List[0].Names) == 1 {
			vObj = info.Defs[fd.Type.Params.List[0].Names[0]]
		}
		if len(fd.Body.List) != 1 || recvObj == nil || vObj == nil {
			res.Bad(key, pos, fn, fmt.Sprintf("Accept body has %d statements, want exactly one dispatch call", len(fd.Body.List)))
			continue
		}
		es, ok := fd.Body.List[0].(*ast.ExprStmt)
		var call *ast.CallExpr
		if ok {
			call, ok = es.X.(*ast.CallExpr)
		}
		if !ok {
			res.Bad(key, pos, fn, "Accept body is not a single call")
			continue
		}
		se, ok := call.Fun.(*ast.SelectorExpr)
		callee, _ := typeutil.Callee(info, call).(*types.Func)
		if !ok || callee == nil || len(call.Args) != 1 {
			res.Bad(key, pos, fn, "Accept body is not a visitor method call")
			continue
		}
		xid, _ := se.X.(*ast.Ident)
		aid, _ := call.Args[0].(*ast.Ident)
		if xid == nil || aid == nil || info.Uses[xid] != vObj || info.Uses[aid] != recvObj {
			res.Bad(key, pos, fn, "Accept does not call a method of its visitor argument with the receiver")
			continue
		}
		if tb.ByMethod[callee.Name()] != k {
			res.Bad(key, pos, fn, "Accept dispatches to "+callee.Name()+" which receives another kind")
			continue
		}
		res.OK(key, pos, fn, "dispatches to Visitor."+callee.Name()+"(n) and does nothing else")
	}
	return res
}
