package visitors

import (
	"bytes"
	"fmt"
	"go/ast"
	"go/types"
	"strings"

	"verif/internal/ceval"
	"verif/internal/kinds"
	"verif/internal/load"
	"verif/internal/report"
)

// ---- write-spec ----------------------------------------------------------------------------------
//
// Every byte the printer emits goes through one primitive (`write`, found by its role, not its name).
// Its meaning is a small state machine: in HTML mode the first non-empty chunk is preceded by `<?php `
// unless it opens a tag itself (begins with `<?`), and PHP mode is entered; a blank separates two
// chunks when the previous one ends and the next one begins with a label character; an empty chunk
// writes nothing and changes nothing; the chunk itself is written last, unchanged. The rule evaluates
// the primitive from its source (package ceval) on every sequence of up to three chunks from a family
// that contains, for each constant the code compares chunks with, the constant itself, a chunk that
// merely contains it, proper prefixes, and one representative of every class of PHP's label characters,
// starting from a fresh printer and from one put in each mode through its own WithState method, and
// compares the bytes handed to the output with the specification. Sequences make the comparison
// independent of how the primitive remembers the previous chunk.

func isLabelByte(b byte) bool {
	return b >= 'a' && b <= 'z' || b >= 'A' && b <= 'Z' || b >= '0' && b <= '9' || b == '_' || b >= 0x80
}

func specWrite(html bool, chunks [][]byte) []byte {
	var out []byte
	var last []byte
	for _, b := range chunks {
		if len(b) == 0 {
			continue
		}
		if html {
			if !bytes.HasPrefix(b, []byte("<?")) {
				out = append(out, "<?php "...)
			}
			html = false
		}
		if last != nil && isLabelByte(last[len(last)-1]) && isLabelByte(b[0]) {
			out = append(out, ' ')
		}
		out = append(out, b...)
		last = b
	}
	return out
}

func WriteSpec(p *load.Program, tb *kinds.Table) *report.RuleResult {
	return WriteSpecIn(p, tb, "pkg/visitor/printer", "printer")
}

func WriteSpecIn(p *load.Program, tb *kinds.Table, rel, recv string) *report.RuleResult {
	res := report.NewResult("write-spec")
	im, err := FindImpl(p, tb, rel, recv)
	if err != nil {
		res.Unknown("impl", "-", "", "undecided:anchor: "+err.Error())
		return res
	}
	roles, msg := im.findPrintRoles()
	if roles == nil || roles.write == "" {
		res.Unknown("impl/helpers", "-", "", "undecided:anchor: "+msg)
		return res
	}
	fd := im.Methods[roles.write]
	in := ceval.New(im.Pkg)
	var out []byte
	in.Ext = func(fn *types.Func, recv interface{}, args []interface{}) ([]interface{}, bool) {
		// the output: any Write([]byte) on a value the scenario does not model (the io.Writer field)
		if fn.Name() == "Write" && len(args) == 1 {
			if _, isOpaque := recv.(ceval.Opaque); isOpaque {
				if b, ok := args[0].(ceval.Bytes); ok {
					out = append(out, b.B...)
					return []interface{}{int64(len(b.B)), ceval.Nil{}}, true
				}
			}
		}
		if fn.FullName() == "io.WriteString" && len(args) == 2 {
			if s, ok := args[1].(string); ok {
				out = append(out, s...)
				return []interface{}{int64(len(s)), ceval.Nil{}}, true
			}
		}
		return nil, false
	}
	// a fresh printer: every field zero, the writer opaque
	st, ok := im.RecvT.Underlying().(*types.Struct)
	if !ok {
		res.Unknown("impl/struct", "-", "", "undecided:anchor: the printer is not a struct")
		return res
	}
	fresh := func() *ceval.Struct {
		s := &ceval.Struct{Type: recv, Fields: map[string]interface{}{}}
		var fill func(st *types.Struct)
		fill = func(st *types.Struct) {
			for i := 0; i < st.NumFields(); i++ {
				f := st.Field(i)
				if f.Embedded() {
					if es, ok := f.Type().Underlying().(*types.Struct); ok {
						fill(es) // promoted fields are read through the outer value
						continue
					}
				}
				switch u := f.Type().Underlying().(type) {
				case *types.Interface:
					s.Fields[f.Name()] = ceval.Opaque{What: "writer"}
				case *types.Basic:
					switch {
					case u.Info()&types.IsBoolean != 0:
						s.Fields[f.Name()] = false
					case u.Info()&types.IsString != 0:
						s.Fields[f.Name()] = ""
					default:
						s.Fields[f.Name()] = int64(0)
					}
				case *types.Slice:
					s.Fields[f.Name()] = ceval.Bytes{Nil: true}
				default:
					s.Fields[f.Name()] = ceval.Nil{}
				}
			}
		}
		fill(st)
		return s
	}
	// modes: fresh (HTML), and each constant of the state type through the method that sets it
	type start struct {
		name string
		html bool
		prep func(s *ceval.Struct) (ceval.Status, string)
	}
	starts := []start{{"a fresh printer", true, func(*ceval.Struct) (ceval.Status, string) { return ceval.OK, "" }}}
	if ws := im.Methods["WithState"]; ws != nil && ws.Type.Params.NumFields() == 1 {
		pt := im.info().TypeOf(ws.Type.Params.List[0].Type)
		scope := im.Pkg.Types.Scope()
		for _, nm := range scope.Names() {
			c, ok := scope.Lookup(nm).(*types.Const)
			if !ok || !types.Identical(c.Type(), pt) {
				continue
			}
			v, _ := constantInt(c)
			cv := v
			starts = append(starts, start{"WithState(" + nm + ")", cv == 0, func(s *ceval.Struct) (ceval.Status, string) {
				_, st, why := in.Call(ws, s, []interface{}{cv})
				return st, why
			}})
		}
	}
	// chunk family
	chunks := []string{"", "<?php", "<?", "<", "x<?", "a<?b", "a", "Z", "9", "_", "\x80", "\xff", "\x7f", " a", "a ", "$a", ";", "?>", "<?=", "<b>"}
	// constants the code mentions
	ast.Inspect(fd.Body, func(n ast.Node) bool {
		if bl, ok := n.(*ast.BasicLit); ok {
			if tv := im.info().Types[bl]; tv.Value != nil && tv.Value.Kind().String() == "String" {
				s := strings.Trim(tv.Value.ExactString(), "\"")
				if s != "" && len(s) < 8 {
					chunks = append(chunks, s, "x"+s, s+"x", s[:len(s)-1])
				}
			}
		}
		return true
	})
	chunks = dedupeStrings(chunks)
	nScen := 0
	var bad []string
	undec := ""
	var seq func(prefix []string, depth int)
	run := func(cs []string) {
		for _, st0 := range starts {
			if undec != "" || len(bad) >= 4 {
				return
			}
			nScen++
			s := fresh()
			out = out[:0]
			if stt, why := st0.prep(s); stt != ceval.OK {
				undec = fmt.Sprintf("%s cannot be evaluated: %s", st0.name, why)
				return
			}
			var bs [][]byte
			for _, c := range cs {
				b := []byte(c)
				bs = append(bs, b)
				_, stt, why := in.Call(fd, s, []interface{}{ceval.Bytes{B: b}})
				switch stt {
				case ceval.Unsupported, ceval.Diverged:
					undec = fmt.Sprintf("writing %q after %s cannot be evaluated: %s", cs, st0.name, why)
					return
				case ceval.Panic:
					bad = append(bad, fmt.Sprintf("writing the chunks %q on %s panics: %s", cs, st0.name, why))
					return
				}
			}
			want := specWrite(st0.html, bs)
			if !bytes.Equal(out, want) {
				bad = append(bad, fmt.Sprintf("writing the chunks %q on %s hands %q to the output, want %q", cs, st0.name, string(out), string(want)))
			}
		}
	}
	seq = func(prefix []string, depth int) {
		if len(prefix) > 0 {
			run(prefix)
		}
		if depth == 0 {
			return
		}
		for _, c := range chunks {
			if undec != "" || len(bad) >= 4 {
				return
			}
			seq(append(append([]string{}, prefix...), c), depth-1)
		}
	}
	seq(nil, 3)
	res.Count("scenarios", nScen)
	res.Count("chunks", len(chunks))
	key := "write"
	pos := im.pos(fd)
	switch {
	case undec != "":
		res.Unknown(key, pos, roles.write, "undecided:idiom: "+undec)
	case len(bad) > 0:
		res.Bad(key, pos, roles.write, "the printer's output primitive must write `<?php ` before the first chunk in HTML mode unless the chunk begins with `<?`, a blank between two chunks that meet in label characters, nothing for an empty chunk, and then the chunk itself; "+strings.Join(bad, "; "))
	default:
		res.OK(key, pos, roles.write, fmt.Sprintf("equals the specification on all %d sequences of up to three chunks (%d chunk forms, %d starting modes)", nScen, len(chunks), len(starts)))
	}
	return res
}

func constantInt(c *types.Const) (int64, bool) {
	var v int64
	_, err := fmt.Sscanf(c.Val().ExactString(), "%d", &v)
	return v, err == nil
}

func dedupeStrings(ss []string) []string {
	seen := map[string]bool{}
	var out []string
	for _, s := range ss {
		if !seen[s] {
			seen[s] = true
			out = append(out, s)
		}
	}
	return out
}
