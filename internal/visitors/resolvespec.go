package visitors

import (
	"go/ast"
	"go/types"
	"os"
	"fmt"
	"sort"
	"strings"

	"golang.org/x/tools/go/packages"

	"verif/internal/ceval"
	"verif/internal/load"
	"verif/internal/report"
)

// ---- resolve-spec ----------------------------------------------------------------------------------------
//
// What Namespace.AddAlias and Namespace.ResolveName compute, decided by evaluation: the functions are
// evaluated from their type-checked source (package ceval; nothing is compiled or run) on a family of
// scenarios - two namespaces (global, `App\Sub`), an alias table filled through AddAlias with a class, a
// function and a constant import and one alias name present in all three tables, and about a hundred names:
// every special name (self/static/parent, the scalar type names, true/false/null) in several spellings,
// near-misses (mixed, integer, selfish, …), the aliases in the spelling they were imported with and in other
// spellings, unknown names, qualified names that start with each of them, relative and fully qualified
// names - under the three alias kinds the resolver asks for ("", "function", "const"). The result must be
// the one PHP's name resolution rules give:
//   - a fully qualified name is its parts; a relative name is the parts under the current namespace;
//   - an unqualified name asked for as a constant that is true/false/null in any case is that word in lower
//     case; asked for as a class-like name that is self/static/parent/int/float/bool/string/void/iterable/object
//     in any case it is that word in lower case;
//   - otherwise the first part is looked up - for a qualified name always among the class imports, otherwise
//     among the imports of the kind asked for; class and function imports are found case-insensitively,
//     constant imports only in their own spelling - and replaced by what it was imported for;
//   - a name that is not imported is the parts under the current namespace.
// The structural rules special-names and alias-key-agreement read the same facts off the shape of the code;
// when they do not recognise a shape (a set kept in a map, a table searched by bisection, a strategy chosen
// through a function value) this rule still decides what is computed, and their "not recognised" is then not
// a failure. When the evaluation meets a construct outside its vocabulary the rule reports nothing and the
// structural rules decide alone.

type rsName struct {
	kind  string // Name, NameRelative, NameFullyQualified
	parts []string
}

var rsClassSpecial = []string{"self", "static", "parent", "int", "float", "bool", "string", "void", "iterable", "object"}
var rsConstSpecial = []string{"true", "false", "null"}

func rsSpecResolve(ns string, aliases map[string]map[string]string, n rsName, aliasType string) string {
	join := strings.Join(n.parts, "\\")
	under := func() string {
		if ns == "" {
			return join
		}
		return ns + "\\" + join
	}
	switch n.kind {
	case "NameFullyQualified":
		return join
	case "NameRelative":
		return under()
	}
	first := n.parts[0]
	low := strings.ToLower(first)
	if len(n.parts) == 1 {
		if aliasType == "const" {
			for _, s := range rsConstSpecial {
				if low == s {
					return low
				}
			}
		}
		if aliasType == "" {
			for _, s := range rsClassSpecial {
				if low == s {
					return low
				}
			}
		}
	}
	table, key := aliasType, low
	if len(n.parts) > 1 {
		table = ""
	} else if aliasType == "const" {
		key = first
	}
	if to, ok := aliases[table][key]; ok {
		if len(n.parts) > 1 {
			return to + "\\" + strings.Join(n.parts[1:], "\\")
		}
		return to
	}
	return under()
}

// ResolveSpec returns the result and whether every scenario could be evaluated.
func ResolveSpec(p *load.Program, rel string) (*report.RuleResult, bool) {
	res := report.NewResult("resolve-spec")
	pk := p.Pkg(rel)
	if pk == nil {
		return res, false
	}
	var pkgs = []*packages.Package{pk}
	for _, imp := range pk.Imports {
		if strings.HasSuffix(imp.PkgPath, "/pkg/ast") {
			pkgs = append(pkgs, imp)
		}
	}
	in := ceval.New(pkgs...)
	in.Budget = 200000
	newNS, addAlias, resolve := in.Decl("", "NewNamespace"), in.Decl("Namespace", "AddAlias"), in.Decl("Namespace", "ResolveName")
	if newNS == nil || addAlias == nil || resolve == nil {
		return res, false
	}
	type imp struct{ typ, to, as string }
	imports := []imp{
		{"", "Lib\\Foo", "Foo"}, {"function", "Lib\\fn", "Fn"}, {"const", "Lib\\CST", "Cst"},
		{"", "Lib\\A", "Dup"}, {"function", "Lib\\fa", "Dup"}, {"const", "Lib\\CA", "Dup"},
		{"", "Lib\\Types\\Number", "Integer"},
		// the kind is the keyword as written in the source: `use CONST …`, `use Function …`
		{"CONST", "Lib\\UP", "Up"}, {"Const", "Lib\\MiXed", "MiXed"}, {"Function", "Lib\\ufn", "UFn"}, {"FUNCTION", "Lib\\ffn", "FFn"},
	}
	specAliases := map[string]map[string]string{"": {}, "function": {}, "const": {}}
	for _, im := range imports {
		k, t := im.as, strings.ToLower(im.typ)
		if t != "const" {
			k = strings.ToLower(k)
		}
		specAliases[t][k] = im.to
	}
	var names []rsName
	single := []string{"Foo", "foo", "FOO", "Fn", "fn", "FN", "Cst", "cst", "CST", "Dup", "dup", "DUP", "Integer", "integer", "Other", "other",
		"Up", "up", "UP", "MiXed", "mixed", "MIXED", "UFn", "ufn", "FFn", "ffn",
		"mixed", "never", "array", "callable", "boolean", "double", "resource", "numeric", "selfish", "nul", "truee", "Int8", "strin", "objects", "statics"}
	for _, s := range append(append([]string{}, rsClassSpecial...), rsConstSpecial...) {
		single = append(single, s, strings.ToUpper(s), strings.ToUpper(s[:1])+s[1:])
	}
	nss := []string{"", "App\\Sub"}
	if os.Getenv("VERIF_TIER") == "thorough" {
		// every special name with each single letter in upper case, with one letter dropped and with one added;
		// a third, one-segment namespace
		for _, s := range append(append([]string{}, rsClassSpecial...), rsConstSpecial...) {
			for i := range s {
				single = append(single, s[:i]+strings.ToUpper(s[i:i+1])+s[i+1:], s[:i]+s[i+1:], s[:i]+"x"+s[i:])
			}
		}
		nss = append(nss, "N")
	}
	for _, s := range single {
		names = append(names, rsName{"Name", []string{s}})
	}
	for _, f := range []string{"Foo", "foo", "FOO", "Fn", "Cst", "cst", "Dup", "dup", "Other", "self", "Self", "true", "int", "static"} {
		names = append(names, rsName{"Name", []string{f, "Bar"}})
	}
	names = append(names, rsName{"Name", []string{"FOO", "Bar", "Baz"}}, rsName{"Name", []string{"Other", "Bar", "Baz"}})
	for _, k := range []string{"NameRelative", "NameFullyQualified"} {
		for _, ps := range [][]string{{"Foo"}, {"self"}, {"true"}, {"Foo", "Bar"}, {"Other", "Bar", "Baz"}, {"INT"}} {
			names = append(names, rsName{k, ps})
		}
	}
	node := func(n rsName) *ceval.Struct {
		l := &ceval.List{}
		for _, s := range n.parts {
			l.Elems = append(l.Elems, &ceval.Struct{Type: "NamePart", Fields: map[string]interface{}{"Value": ceval.Bytes{B: []byte(s)}}})
		}
		return &ceval.Struct{Type: n.kind, Fields: map[string]interface{}{"Parts": l}}
	}
	pos := p.Pos(resolve.Pos())
	undecided := ""
	problems := map[string][]string{}
	count := map[string]int{}
	typeKey := map[string]string{"": "class-like", "function": "function", "const": "const"}
	for _, ns := range nss {
		out, st, why := in.Call(newNS, nil, []interface{}{ns})
		if st != ceval.OK || len(out) != 1 {
			undecided = "NewNamespace: " + why
			break
		}
		nsv := out[0]
		for _, im := range imports {
			if _, st, why := in.Call(addAlias, nsv, []interface{}{im.typ, im.to, im.as}); st != ceval.OK {
				if st == ceval.Panic {
					problems[typeKey[strings.ToLower(im.typ)]] = append(problems[typeKey[strings.ToLower(im.typ)]], fmt.Sprintf("AddAlias(%q, %q, %q) panics: %s", im.typ, im.to, im.as, why))
					continue
				}
				undecided = "AddAlias: " + why
				break
			}
		}
		if undecided != "" {
			break
		}
		for _, at := range []string{"", "function", "const"} {
			tk := typeKey[at]
			for _, n := range names {
				out, st, why := in.Call(resolve, nsv, []interface{}{node(n), at})
				count[tk]++
				show := fmt.Sprintf("%s %s as %s in namespace %q", n.kind, strings.Join(n.parts, "\\"), tk, ns)
				if st == ceval.Panic {
					if len(problems[tk]) < 4 {
						problems[tk] = append(problems[tk], show+" panics: "+why)
					}
					continue
				}
				if st != ceval.OK || len(out) != 2 {
					undecided = show + ": " + why
					break
				}
				got, isStr := out[0].(string)
				_, errNil := out[1].(ceval.Nil)
				want := rsSpecResolve(ns, specAliases, n, at)
				if !isStr {
					undecided = show + ": the result is not a string"
					break
				}
				if (!errNil || got != want) && len(problems[tk]) < 4 {
					if !errNil {
						problems[tk] = append(problems[tk], fmt.Sprintf("%s fails; it is %q", show, want))
					} else {
						problems[tk] = append(problems[tk], fmt.Sprintf("%s resolves to %q; it is %q", show, got, want))
					}
				}
			}
			if undecided != "" {
				break
			}
		}
		if undecided != "" {
			break
		}
		// anything that is not a name is refused
		out, st, _ = in.Call(resolve, nsv, []interface{}{&ceval.Struct{Type: "Identifier", Fields: map[string]interface{}{"Value": ceval.Bytes{B: []byte("x")}}}, ""})
		if st == ceval.OK && len(out) == 2 {
			if _, errNil := out[1].(ceval.Nil); errNil {
				problems["class-like"] = append(problems["class-like"], "a node that is not a name is resolved without an error")
			}
		}
	}
	if undecided != "" {
		if os.Getenv("VERIF_FXDEBUG") != "" {
			fmt.Fprintln(os.Stderr, "resolve-spec not evaluated:", undecided)
		}
		return report.NewResult("resolve-spec"), false
	}
	var tks []string
	for _, tk := range typeKey {
		tks = append(tks, tk)
	}
	sort.Strings(tks)
	for _, tk := range tks {
		res.Count("scenarios", count[tk])
		res.Count("alias-kinds", 1)
		res.Check(len(problems[tk]) == 0, "kind:"+tk, pos, "Namespace.ResolveName",
			fmt.Sprintf("on all %d scenarios (2 namespaces - 3 and every one-letter variant of the special names in the thorough tier -, imports of the three kinds, special names and near-misses in several spellings, qualified, relative and fully qualified names) the name resolves as PHP's rules say", count[tk]),
			strings.Join(problems[tk], "; "))
	}
	return res, true
}

// Yield: the structural rule r did not recognise some shapes (its undecided obligations); what the code
// computes there was decided by evaluation, so those obligations are discharged with that reason. What the
// structural rule discharged or reported as violated stays as it is: a violation it can name is one the
// family of the evaluation may not contain.
func Yield(r *report.RuleResult, by string) {
	for i := range r.Obls {
		if r.Obls[i].Status == report.Undecided {
			r.Obls[i].Detail = "the structural reading does not apply to this form (" + r.Obls[i].Detail + "); what the functions compute is decided by " + by
			r.Obls[i].Status = report.Discharged
		}
	}
}


// resolveTypeByEval evaluates ResolveType on a name of each kind, on nullable types one and two levels deep
// and on a node that is not a type name; the calls of the receiver's ResolveName are recorded, not followed.
func (im *Impl) resolveTypeByEval(fd *ast.FuncDecl) (map[string]string, bool) {
	in := ceval.New(im.Pkg)
	type call struct {
		node interface{}
		typ  string
	}
	var calls []call
	in.Ext = func(fn *types.Func, recv interface{}, args []interface{}) ([]interface{}, bool) {
		if fn.Name() == "ResolveName" && len(args) == 2 {
			if sig, ok := fn.Type().(*types.Signature); ok && sig.Recv() != nil && namedOfType(sig.Recv().Type()) == im.Recv {
				t, _ := args[1].(string)
				calls = append(calls, call{args[0], t})
				return nil, true
			}
		}
		return nil, false
	}
	name := func(kind string) *ceval.Struct {
		part := &ceval.Struct{Type: "NamePart", Fields: map[string]interface{}{"Value": ceval.Bytes{B: []byte("T")}}}
		return &ceval.Struct{Type: kind, Fields: map[string]interface{}{"Parts": &ceval.List{Elems: []interface{}{part}}}}
	}
	nullable := func(inner interface{}) *ceval.Struct {
		return &ceval.Struct{Type: "Nullable", Fields: map[string]interface{}{"Expr": inner}}
	}
	probs := map[string]string{}
	recv := &ceval.Struct{Type: im.Recv, Fields: map[string]interface{}{}}
	run := func(key string, arg interface{}, want interface{}) bool {
		calls = nil
		_, st, why := in.Call(fd, recv, []interface{}{arg})
		switch st {
		case ceval.Unsupported, ceval.Diverged:
			return false
		case ceval.Panic:
			probs[key] = "panics: " + why
			return true
		}
		switch {
		case want == nil && len(calls) != 0:
			probs[key] = "a node that is not a type name is resolved"
		case want == nil:
		case len(calls) != 1:
			probs[key] = fmt.Sprintf("ResolveName is called %d times", len(calls))
		case calls[0].node != want:
			probs[key] = "ResolveName is given another node than the name"
		case calls[0].typ != "":
			probs[key] = fmt.Sprintf("resolved with alias kind %q, not as a class-like name", calls[0].typ)
		}
		return true
	}
	for _, k := range []string{"Name", "NameRelative", "NameFullyQualified"} {
		n := name(k)
		if !run(k, n, n) {
			return nil, false
		}
	}
	for _, k := range []string{"Name", "NameRelative", "NameFullyQualified"} {
		n := name(k)
		if !run("Nullable", nullable(n), n) {
			return nil, false
		}
		if probs["Nullable"] != "" {
			break
		}
		if !run("Nullable", nullable(nullable(n)), n) {
			return nil, false
		}
		if probs["Nullable"] != "" {
			break
		}
	}
	if probs["Nullable"] == "" {
		ident := &ceval.Struct{Type: "Identifier", Fields: map[string]interface{}{"Value": ceval.Bytes{B: []byte("array")}}}
		if !run("Nullable", nullable(ident), nil) || !run("Name", ident, nil) {
			return nil, false
		}
	}
	return probs, true
}
