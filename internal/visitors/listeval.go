package visitors

import (
	"fmt"
	"go/ast"
	"go/constant"
	"go/token"
	"go/types"
	"strings"
)

// A small evaluator for list helpers of the printer (printSeparatedList written in another shape than
// the single loop the structural check recognises): the helper's source is evaluated on lists of n
// distinct symbolic items and m distinct symbolic separator tokens, for all 0 <= n <= maxN and
// 0 <= m <= maxM, and the sequence of printNode / printToken / write calls is compared with the
// sequence the per-kind methods rely on. This is a bounded argument (all lengths up to the bounds), used
// only when the unbounded structural argument does not apply; the evidence says which one decided.

const sepEvalMaxN, sepEvalMaxM = 5, 6

type lv struct {
	kind   string // int | bool | slice | elem | def | nil | unknown
	i      int
	b      bool
	base   string // slice/elem: "list" | "seps"
	lo, hi int    // slice window into base
}

type lframe struct {
	vars map[types.Object]lv
	recv types.Object
}

type leval struct {
	im     *Impl
	roles  *printRoles
	n, m   int
	events []string
	err    string
	steps  int
	depth  int
}

func (le *leval) fail(why string) lv {
	if le.err == "" {
		le.err = why
	}
	return lv{kind: "unknown"}
}

func (le *leval) baseLen(base string) int {
	if base == "list" {
		return le.n
	}
	return le.m
}

func (le *leval) expr(e ast.Expr, fr *lframe) lv {
	if le.err != "" {
		return lv{kind: "unknown"}
	}
	e = unparen(e)
	info := le.im.info()
	if tv, ok := info.Types[e]; ok {
		if tv.IsNil() {
			return lv{kind: "nil"}
		}
		if tv.Value != nil {
			switch tv.Value.Kind() {
			case constant.Int:
				if v, ok := constant.Int64Val(tv.Value); ok {
					return lv{kind: "int", i: int(v)}
				}
			case constant.Bool:
				return lv{kind: "bool", b: constant.BoolVal(tv.Value)}
			}
		}
	}
	switch x := e.(type) {
	case *ast.Ident:
		if o := info.ObjectOf(x); o != nil {
			if v, ok := fr.vars[o]; ok {
				return v
			}
		}
		return le.fail("value of " + x.Name)
	case *ast.CallExpr:
		if id, ok := x.Fun.(*ast.Ident); ok {
			if b, ok := info.Uses[id].(*types.Builtin); ok {
				switch b.Name() {
				case "len":
					v := le.expr(x.Args[0], fr)
					if v.kind == "slice" {
						return lv{kind: "int", i: v.hi - v.lo}
					}
					if v.kind == "nil" {
						return lv{kind: "int"}
					}
					return le.fail("len of " + exprString(x.Args[0]))
				case "min", "max":
					if len(x.Args) == 2 {
						a, c := le.expr(x.Args[0], fr), le.expr(x.Args[1], fr)
						if a.kind == "int" && c.kind == "int" {
							if (b.Name() == "min") == (a.i < c.i) {
								return a
							}
							return c
						}
					}
				}
			}
		}
		return le.fail("call " + exprString(x) + " in an expression")
	case *ast.IndexExpr:
		s, ix := le.expr(x.X, fr), le.expr(x.Index, fr)
		if s.kind != "slice" || ix.kind != "int" {
			return le.fail("index " + exprString(x))
		}
		if ix.i < 0 || s.lo+ix.i >= s.hi {
			return le.fail(fmt.Sprintf("PANIC: %s is out of range (index %d, length %d)", exprString(x), ix.i, s.hi-s.lo))
		}
		return lv{kind: "elem", base: s.base, i: s.lo + ix.i}
	case *ast.SliceExpr:
		s := le.expr(x.X, fr)
		if s.kind != "slice" || x.Slice3 {
			return le.fail("slice " + exprString(x))
		}
		lo, hi := 0, s.hi-s.lo
		if x.Low != nil {
			v := le.expr(x.Low, fr)
			if v.kind != "int" {
				return le.fail("slice bound " + exprString(x.Low))
			}
			lo = v.i
		}
		if x.High != nil {
			v := le.expr(x.High, fr)
			if v.kind != "int" {
				return le.fail("slice bound " + exprString(x.High))
			}
			hi = v.i
		}
		if lo < 0 || hi < lo || s.lo+hi > le.baseLen(s.base) { // cap = the base's length here
			return le.fail(fmt.Sprintf("PANIC: %s is out of range [%d:%d] of length %d", exprString(x), lo, hi, s.hi-s.lo))
		}
		return lv{kind: "slice", base: s.base, lo: s.lo + lo, hi: s.lo + hi}
	case *ast.UnaryExpr:
		v := le.expr(x.X, fr)
		switch {
		case x.Op == token.NOT && v.kind == "bool":
			return lv{kind: "bool", b: !v.b}
		case x.Op == token.SUB && v.kind == "int":
			return lv{kind: "int", i: -v.i}
		}
	case *ast.BinaryExpr:
		l := le.expr(x.X, fr)
		if x.Op == token.LAND && l.kind == "bool" {
			if !l.b {
				return l
			}
			return le.expr(x.Y, fr)
		}
		if x.Op == token.LOR && l.kind == "bool" {
			if l.b {
				return l
			}
			return le.expr(x.Y, fr)
		}
		r := le.expr(x.Y, fr)
		if l.kind == "int" && r.kind == "int" {
			switch x.Op {
			case token.ADD:
				return lv{kind: "int", i: l.i + r.i}
			case token.SUB:
				return lv{kind: "int", i: l.i - r.i}
			case token.MUL:
				return lv{kind: "int", i: l.i * r.i}
			case token.EQL:
				return lv{kind: "bool", b: l.i == r.i}
			case token.NEQ:
				return lv{kind: "bool", b: l.i != r.i}
			case token.LSS:
				return lv{kind: "bool", b: l.i < r.i}
			case token.LEQ:
				return lv{kind: "bool", b: l.i <= r.i}
			case token.GTR:
				return lv{kind: "bool", b: l.i > r.i}
			case token.GEQ:
				return lv{kind: "bool", b: l.i >= r.i}
			}
		}
		// comparisons with nil: slices (nil iff … unknown: parsed lists may be nil or empty) and elements (never nil here)
		if x.Op == token.EQL || x.Op == token.NEQ {
			isNilCmp := func(a, b lv) (bool, bool) {
				if b.kind != "nil" {
					return false, false
				}
				switch a.kind {
				case "elem", "def":
					return false, true // symbolic items and the default separator stand for non-nil values
				case "nil":
					return true, true
				}
				return false, false
			}
			if v, ok := isNilCmp(l, r); ok {
				return lv{kind: "bool", b: v == (x.Op == token.EQL)}
			}
			if v, ok := isNilCmp(r, l); ok {
				return lv{kind: "bool", b: v == (x.Op == token.EQL)}
			}
		}
	}
	return le.fail("expression " + exprString(e))
}

func (le *leval) call(c *ast.CallExpr, fr *lframe) {
	m, ok := le.im.methodCall(c, fr.recv)
	if !ok {
		le.fail("call " + exprString(c))
		return
	}
	args := make([]lv, len(c.Args))
	for i, a := range c.Args {
		args[i] = le.expr(a, fr)
	}
	if le.err != "" {
		return
	}
	switch {
	case m == le.roles.node && len(args) == 1 && args[0].kind == "elem" && args[0].base == "list":
		le.events = append(le.events, fmt.Sprintf("item%d", args[0].i))
	case m == le.roles.tok && len(args) == 2 && args[0].kind == "elem" && args[0].base == "seps" && args[1].kind == "def":
		le.events = append(le.events, fmt.Sprintf("sep%d", args[0].i))
	case m == le.roles.tok && len(args) == 2 && args[0].kind == "nil" && args[1].kind == "def":
		le.events = append(le.events, "def") // printToken(nil, def) writes the default
	case m == le.roles.write && len(args) == 1 && args[0].kind == "def":
		le.events = append(le.events, "def")
	default:
		// another helper of the printer: evaluate its body
		fd := le.im.Methods[m]
		if fd == nil || le.depth > 3 || m == le.roles.node || m == le.roles.tok || m == le.roles.write {
			le.fail("call " + exprString(c) + " with arguments the list helper must not pass")
			return
		}
		nf := &lframe{vars: map[types.Object]lv{}, recv: le.im.recvObj(fd)}
		i := 0
		for _, f := range fd.Type.Params.List {
			for _, nm := range f.Names {
				if i < len(args) {
					nf.vars[le.im.info().Defs[nm]] = args[i]
				}
				i++
			}
		}
		le.depth++
		le.block(fd.Body.List, nf)
		le.depth--
	}
}

// block returns true when a return statement was executed.
func (le *leval) block(stmts []ast.Stmt, fr *lframe) bool {
	info := le.im.info()
	for _, st := range stmts {
		if le.err != "" {
			return true
		}
		le.steps++
		if le.steps > 20000 {
			le.fail("evaluation does not end")
			return true
		}
		switch x := st.(type) {
		case *ast.ReturnStmt:
			if len(x.Results) > 0 {
				le.fail("return of a value")
			}
			return true
		case *ast.BlockStmt:
			if le.block(x.List, fr) {
				return true
			}
		case *ast.EmptyStmt:
		case *ast.ExprStmt:
			c, ok := x.X.(*ast.CallExpr)
			if !ok {
				le.fail("expression statement")
				return true
			}
			le.call(c, fr)
		case *ast.DeclStmt:
			gd, ok := x.Decl.(*ast.GenDecl)
			if !ok || gd.Tok != token.VAR {
				continue
			}
			for _, sp := range gd.Specs {
				vs := sp.(*ast.ValueSpec)
				for i, nm := range vs.Names {
					o := info.Defs[nm]
					if i < len(vs.Values) {
						fr.vars[o] = le.expr(vs.Values[i], fr)
					} else if b, ok := o.Type().Underlying().(*types.Basic); ok && b.Info()&types.IsInteger != 0 {
						fr.vars[o] = lv{kind: "int"}
					} else if ok && b.Info()&types.IsBoolean != 0 {
						fr.vars[o] = lv{kind: "bool"}
					} else {
						fr.vars[o] = lv{kind: "nil"}
					}
				}
			}
		case *ast.AssignStmt:
			if len(x.Lhs) != len(x.Rhs) {
				le.fail("assignment " + exprString(x.Lhs[0]))
				return true
			}
			vals := make([]lv, len(x.Rhs))
			for i, r := range x.Rhs {
				vals[i] = le.expr(r, fr)
			}
			for i, l := range x.Lhs {
				id, ok := unparen(l).(*ast.Ident)
				if !ok {
					le.fail("assignment to " + exprString(l))
					return true
				}
				if id.Name == "_" {
					continue
				}
				o := info.ObjectOf(id)
				switch x.Tok {
				case token.ASSIGN, token.DEFINE:
					fr.vars[o] = vals[i]
				case token.ADD_ASSIGN:
					fr.vars[o] = lv{kind: "int", i: fr.vars[o].i + vals[i].i}
				case token.SUB_ASSIGN:
					fr.vars[o] = lv{kind: "int", i: fr.vars[o].i - vals[i].i}
				default:
					le.fail("assignment operator")
					return true
				}
			}
		case *ast.IncDecStmt:
			id, ok := unparen(x.X).(*ast.Ident)
			if !ok {
				le.fail("increment of " + exprString(x.X))
				return true
			}
			o := info.ObjectOf(id)
			d := 1
			if x.Tok == token.DEC {
				d = -1
			}
			fr.vars[o] = lv{kind: "int", i: fr.vars[o].i + d}
		case *ast.IfStmt:
			if x.Init != nil && le.block([]ast.Stmt{x.Init}, fr) {
				return true
			}
			c := le.expr(x.Cond, fr)
			if c.kind != "bool" {
				le.fail("condition " + exprString(x.Cond))
				return true
			}
			if c.b {
				if le.block(x.Body.List, fr) {
					return true
				}
			} else if x.Else != nil {
				if le.block([]ast.Stmt{x.Else}, fr) {
					return true
				}
			}
		case *ast.SwitchStmt:
			if x.Tag != nil || x.Init != nil {
				le.fail("switch with a tag")
				return true
			}
			var chosen, deflt *ast.CaseClause
			for _, c := range x.Body.List {
				cc := c.(*ast.CaseClause)
				if cc.List == nil {
					deflt = cc
					continue
				}
				if chosen != nil {
					continue
				}
				for _, ce := range cc.List {
					if v := le.expr(ce, fr); v.kind == "bool" && v.b {
						chosen = cc
					}
				}
			}
			if chosen == nil {
				chosen = deflt
			}
			if chosen != nil && le.block(chosen.Body, fr) {
				return true
			}
		case *ast.ForStmt:
			if x.Init != nil && le.block([]ast.Stmt{x.Init}, fr) {
				return true
			}
			for {
				if x.Cond != nil {
					c := le.expr(x.Cond, fr)
					if c.kind != "bool" {
						le.fail("loop condition " + exprString(x.Cond))
						return true
					}
					if !c.b {
						break
					}
				}
				if r, brk := le.loopBody(x.Body.List, fr); r {
					return true
				} else if brk {
					break
				}
				if x.Post != nil && le.block([]ast.Stmt{x.Post}, fr) {
					return true
				}
				if le.err != "" {
					return true
				}
			}
		case *ast.RangeStmt:
			s := le.expr(x.X, fr)
			if s.kind == "nil" {
				continue
			}
			if s.kind != "slice" {
				le.fail("range over " + exprString(x.X))
				return true
			}
			for k := 0; k < s.hi-s.lo; k++ {
				if id, ok := x.Key.(*ast.Ident); ok && id.Name != "_" {
					fr.vars[info.ObjectOf(id)] = lv{kind: "int", i: k}
				}
				if id, ok := x.Value.(*ast.Ident); ok && id.Name != "_" {
					fr.vars[info.ObjectOf(id)] = lv{kind: "elem", base: s.base, i: s.lo + k}
				}
				if r, brk := le.loopBody(x.Body.List, fr); r {
					return true
				} else if brk {
					break
				}
				if le.err != "" {
					return true
				}
			}
		default:
			le.fail(fmt.Sprintf("statement %T", st))
			return true
		}
	}
	return false
}

// loopBody runs one iteration; continue/break at the top level of the body (or inside ifs) are honoured.
func (le *leval) loopBody(stmts []ast.Stmt, fr *lframe) (returned, broke bool) {
	for _, st := range stmts {
		switch x := st.(type) {
		case *ast.BranchStmt:
			if x.Label != nil {
				le.fail("labelled branch")
				return true, false
			}
			if x.Tok == token.CONTINUE {
				return false, false
			}
			if x.Tok == token.BREAK {
				return false, true
			}
		case *ast.IfStmt:
			// an if whose chosen branch ends in continue/break
			if x.Init == nil {
				c := le.expr(x.Cond, fr)
				if c.kind != "bool" {
					le.fail("condition " + exprString(x.Cond))
					return true, false
				}
				var body []ast.Stmt
				if c.b {
					body = x.Body.List
				} else if blk, ok := x.Else.(*ast.BlockStmt); ok {
					body = blk.List
				} else if x.Else != nil {
					body = []ast.Stmt{x.Else}
				}
				if r, b := le.loopBody(body, fr); r || b {
					return r, b
				} else if endsInContinue(body) {
					return false, false
				}
				continue
			}
		}
		if le.block([]ast.Stmt{st}, fr) {
			return true, false
		}
	}
	return false, false
}

func endsInContinue(body []ast.Stmt) bool {
	if len(body) == 0 {
		return false
	}
	b, ok := body[len(body)-1].(*ast.BranchStmt)
	return ok && b.Tok == token.CONTINUE
}

// evalSepList: "" when the helper emits, for every n and m within the bounds, item k followed by
// separators[k] when it exists and by the default separator otherwise unless k is the last item.
func (im *Impl) evalSepList(fd *ast.FuncDecl, roles *printRoles) string {
	if fd.Type.Params.NumFields() != 3 {
		return "undecided:idiom: the separated-list helper does not take (list, separators, default)"
	}
	for n := 0; n <= sepEvalMaxN; n++ {
		for m := 0; m <= sepEvalMaxM; m++ {
			le := &leval{im: im, roles: roles, n: n, m: m}
			fr := &lframe{vars: map[types.Object]lv{}, recv: im.recvObj(fd)}
			fr.vars[im.paramObj(fd, 0)] = lv{kind: "slice", base: "list", lo: 0, hi: n}
			fr.vars[im.paramObj(fd, 1)] = lv{kind: "slice", base: "seps", lo: 0, hi: m}
			fr.vars[im.paramObj(fd, 2)] = lv{kind: "def"}
			le.block(fd.Body.List, fr)
			if le.err != "" {
				if strings.HasPrefix(le.err, "PANIC") {
					return fmt.Sprintf("with %d items and %d separator tokens: %s", n, m, strings.TrimPrefix(le.err, "PANIC: "))
				}
				return "undecided:idiom: " + le.err
			}
			var want []string
			for k := 0; k < n; k++ {
				want = append(want, fmt.Sprintf("item%d", k))
				if k < m {
					want = append(want, fmt.Sprintf("sep%d", k))
				} else if k < n-1 {
					want = append(want, "def")
				}
			}
			if got, exp := strings.Join(le.events, " "), strings.Join(want, " "); got != exp {
				return fmt.Sprintf("with %d items and %d separator tokens the helper emits [%s], the per-kind methods rely on [%s]", n, m, got, exp)
			}
		}
	}
	return ""
}
