package visitors

import (
	"fmt"
	"go/ast"
	"go/constant"
	"go/token"
	"go/types"
	"sort"
	"strings"

	"golang.org/x/tools/go/types/typeutil"

	"verif/internal/kinds"
	"verif/internal/load"
	"verif/internal/norm"
	"verif/internal/paths"
	"verif/internal/report"
)

type dumpRoles struct {
	vertex, vertexList, tok, tokList, pos, value, print string
}

func (im *Impl) findDumpRoles() (*dumpRoles, string) {
	r := &dumpRoles{}
	var names []string
	for n := range im.Methods {
		names = append(names, n)
	}
	sort.Strings(names)
	isString := func(t types.Type) bool {
		b, ok := t.Underlying().(*types.Basic)
		return ok && b.Kind() == types.String
	}
	isInt := func(t types.Type) bool {
		b, ok := t.Underlying().(*types.Basic)
		return ok && b.Kind() == types.Int
	}
	for _, name := range names {
		if im.Kinds.ByMethod[name] != nil {
			continue
		}
		sig := im.sigOf(im.Methods[name])
		if sig == nil || sig.Results().Len() != 0 {
			continue
		}
		ps := sig.Params()
		var dst *string
		switch {
		case ps.Len() == 2 && isString(ps.At(0).Type()):
			switch kinds.Classify(ps.At(1).Type(), im.Kinds) {
			case kinds.Node:
				dst = &r.vertex
			case kinds.NodeList:
				dst = &r.vertexList
			case kinds.Tok:
				dst = &r.tok
			case kinds.TokList:
				dst = &r.tokList
			case kinds.Bytes:
				dst = &r.value
			}
		case ps.Len() == 1 && kinds.Classify(ps.At(0).Type(), im.Kinds) == kinds.Pos:
			dst = &r.pos
		case ps.Len() == 2 && isInt(ps.At(0).Type()) && isString(ps.At(1).Type()):
			dst = &r.print
		}
		if dst != nil {
			if *dst != "" {
				return nil, "two dumper helpers share the signature of " + *dst + ": " + name
			}
			*dst = name
		}
	}
	if r.vertex == "" || r.vertexList == "" || r.tok == "" || r.tokList == "" || r.pos == "" || r.value == "" || r.print == "" {
		return nil, fmt.Sprintf("dumper helpers not all found by signature: %+v", *r)
	}
	return r, ""
}

// dumpKeep: the dumper's primitives (verified by dump-helpers) and the per-kind methods.
func (im *Impl) dumpKeep(r *dumpRoles) func(fn *types.Func) bool {
	return func(fn *types.Func) bool {
		n := fn.Name()
		return n == r.vertex || n == r.vertexList || n == r.tok || n == r.tokList || n == r.pos || n == r.value || n == r.print || im.Kinds.ByMethod[n] != nil
	}
}

// strPart is one operand of a string concatenation handed to print.
type strPart struct {
	Const   string
	IsConst bool
	Key     bool   // the helper's key parameter
	Field   string // subject.Field, possibly wrapped
	Wrap    string // Quote, Itoa, String, ""
	Other   string
}

func (im *Impl) flatten(e ast.Expr, subject, key types.Object) []strPart {
	parts := im.flatten1(e, subject, key)
	var out []strPart
	for _, p := range parts {
		if p.IsConst && len(out) > 0 && out[len(out)-1].IsConst {
			out[len(out)-1].Const += p.Const
			continue
		}
		out = append(out, p)
	}
	return out
}

func (im *Impl) flatten1(e ast.Expr, subject, key types.Object) []strPart {
	e = unparen(e)
	if id, ok := e.(*ast.Ident); ok && im.strEnv != nil {
		if v, ok := im.strEnv[im.info().Uses[id]]; ok {
			return v
		}
	}
	if tv, ok := im.info().Types[e]; ok && tv.Value != nil && tv.Value.Kind() == constant.String {
		return []strPart{{Const: constant.StringVal(tv.Value), IsConst: true}}
	}
	if be, ok := e.(*ast.BinaryExpr); ok && be.Op == token.ADD {
		return append(im.flatten1(be.X, subject, key), im.flatten1(be.Y, subject, key)...)
	}
	if key != nil && im.isObj(e, key) {
		return []strPart{{Key: true}}
	}
	if call, ok := e.(*ast.CallExpr); ok {
		fn, _ := typeutil.Callee(im.info(), call).(*types.Func)
		if fn != nil && fn.Pkg() != nil && fn.Pkg().Path() == "strconv" && len(call.Args) == 1 && (fn.Name() == "Quote" || fn.Name() == "Itoa") {
			arg := unparen(call.Args[0])
			// string(x.F)
			if conv, ok := arg.(*ast.CallExpr); ok && len(conv.Args) == 1 {
				if tv, ok := im.info().Types[conv.Fun]; ok && tv.IsType() {
					arg = unparen(conv.Args[0])
				}
			}
			if f, ok := im.fieldOf(arg, subject); ok {
				return []strPart{{Field: f, Wrap: fn.Name()}}
			}
			if im.isObj(arg, subject) {
				return []strPart{{Field: ".", Wrap: fn.Name()}}
			}
		}
		// fmt.Sprintf with a constant format of plain verbs: %s is the argument itself, %q what strconv.Quote
		// gives for a string, %d what strconv.Itoa gives for an int
		if fn != nil && fn.Pkg() != nil && fn.Pkg().Path() == "fmt" && fn.Name() == "Sprintf" && len(call.Args) >= 1 && !call.Ellipsis.IsValid() {
			if tv, ok := im.info().Types[call.Args[0]]; ok && tv.Value != nil && tv.Value.Kind() == constant.String {
				if parts, ok := im.sprintfParts(constant.StringVal(tv.Value), call.Args[1:], subject, key); ok {
					return parts
				}
			}
		}
		if fn != nil && fn.Name() == "String" && len(call.Args) == 0 {
			if se, ok := call.Fun.(*ast.SelectorExpr); ok {
				if f, ok := im.fieldOf(se.X, subject); ok {
					return []strPart{{Field: f, Wrap: "String"}}
				}
			}
		}
	}
	return []strPart{{Other: exprString(e)}}
}

func (im *Impl) sprintfParts(format string, args []ast.Expr, subject, key types.Object) ([]strPart, bool) {
	var out []strPart
	lit := ""
	flush := func() {
		if lit != "" {
			out = append(out, strPart{Const: lit, IsConst: true})
			lit = ""
		}
	}
	basicOf := func(e ast.Expr) types.BasicInfo {
		if tv, ok := im.info().Types[e]; ok && tv.Type != nil {
			if b, ok := tv.Type.Underlying().(*types.Basic); ok {
				return b.Info()
			}
		}
		return 0
	}
	wrapped := func(arg ast.Expr, wrap string) ([]strPart, bool) {
		arg = unparen(arg)
		if conv, ok := arg.(*ast.CallExpr); ok && len(conv.Args) == 1 {
			if tv, ok := im.info().Types[conv.Fun]; ok && tv.IsType() {
				arg = unparen(conv.Args[0])
			}
		}
		if f, ok := im.fieldOf(arg, subject); ok {
			return []strPart{{Field: f, Wrap: wrap}}, true
		}
		if im.isObj(arg, subject) {
			return []strPart{{Field: ".", Wrap: wrap}}, true
		}
		return nil, false
	}
	n := 0
	for i := 0; i < len(format); i++ {
		c := format[i]
		if c != '%' {
			lit += string(c)
			continue
		}
		i++
		if i >= len(format) {
			return nil, false
		}
		if format[i] == '%' {
			lit += "%"
			continue
		}
		if n >= len(args) {
			return nil, false
		}
		arg := args[n]
		n++
		switch format[i] {
		case 's':
			if basicOf(arg)&types.IsString == 0 {
				return nil, false
			}
			flush()
			out = append(out, im.flatten1(arg, subject, key)...)
		case 'q':
			if basicOf(arg)&types.IsString == 0 {
				return nil, false
			}
			p, ok := wrapped(arg, "Quote")
			if !ok {
				return nil, false
			}
			flush()
			out = append(out, p...)
		case 'd':
			if tv, ok := im.info().Types[arg]; !ok || tv.Type == nil || !types.Identical(tv.Type.Underlying(), types.Typ[types.Int]) {
				return nil, false
			}
			p, ok := wrapped(arg, "Itoa")
			if !ok {
				return nil, false
			}
			flush()
			out = append(out, p...)
		default:
			return nil, false // flags, widths and other verbs: not a plain rendering
		}
	}
	if n != len(args) {
		return nil, false
	}
	flush()
	return out, true
}

type dumpEvent struct {
	kind   string // print, helper, accept, inc, dec, loop
	parts  []strPart
	indent string // "0", "indent", other
	role   string
	label  strPart
	field  string // subject field passed / accepted
	argVar types.Object
	body   [][]dumpEvent // loop: paths of the body
	loopX  string        // field ranged over or "." for the list param
	pos    token.Pos
	bad    string
}

type dumpCtx struct {
	im      *Impl
	roles   *dumpRoles
	recv    types.Object
	subject types.Object
	key     types.Object
	locals  map[types.Object]bool // loop variables
	indentAlias map[types.Object]bool // locals that hold a copy of the indent
	indentMoved bool                  // the indent changed after a copy was taken
}

// newPath forgets what local string variables held on the previous path.
func (dc *dumpCtx) newPath() {
	dc.im.strEnv = map[types.Object][]strPart{}
	dc.indentAlias, dc.indentMoved = nil, false
}

// stmtEvent: events of kind "local" record a local string variable and are to be skipped by the caller.
func (dc *dumpCtx) stmtEvent(s ast.Stmt) (dumpEvent, bool) {
	im := dc.im
	isStr := func(o types.Object) bool {
		v, ok := o.(*types.Var)
		if !ok || v.IsField() || v.Parent() == nil || v.Parent() == v.Pkg().Scope() {
			return false
		}
		b, ok := v.Type().Underlying().(*types.Basic)
		return ok && b.Kind() == types.String
	}
	switch s := s.(type) {
	case *ast.DeclStmt:
		if gd, ok := s.Decl.(*ast.GenDecl); ok && gd.Tok == token.VAR {
			all := true
			for _, sp := range gd.Specs {
				vs := sp.(*ast.ValueSpec)
				for i, nm := range vs.Names {
					o := im.info().Defs[nm]
					if o == nil || !isStr(o) {
						all = false
						continue
					}
					if im.strEnv == nil {
						im.strEnv = map[types.Object][]strPart{}
					}
					if i < len(vs.Values) {
						im.strEnv[o] = im.flatten(vs.Values[i], dc.subject, dc.key)
					} else {
						im.strEnv[o] = []strPart{{Const: "", IsConst: true}}
					}
				}
			}
			if all {
				return dumpEvent{kind: "local", pos: s.Pos()}, true
			}
		}
	case *ast.AssignStmt:
		if len(s.Lhs) == 1 && len(s.Rhs) == 1 && (s.Tok == token.DEFINE || s.Tok == token.ASSIGN) {
			if id, ok := s.Lhs[0].(*ast.Ident); ok {
				o := im.info().Defs[id]
				if o == nil {
					o = im.info().Uses[id]
				}
				if o != nil && isStr(o) {
					if im.strEnv == nil {
						im.strEnv = map[types.Object][]strPart{}
					}
					im.strEnv[o] = im.flatten(s.Rhs[0], dc.subject, dc.key)
					return dumpEvent{kind: "local", pos: s.Pos()}, true
				}
				// depth := v.indent — a local name for the current indent (valid until the indent changes; the
				// balance rule recomputes the indent of every print from the inc/dec events, so a stale copy
				// shows up there as a print at the wrong depth)
				if f, ok := im.fieldOf(s.Rhs[0], dc.recv); ok && f == "indent" && o != nil && s.Tok == token.DEFINE {
					if dc.indentAlias == nil {
						dc.indentAlias = map[types.Object]bool{}
					}
					dc.indentAlias[o] = true
					return dumpEvent{kind: "local", pos: s.Pos()}, true
				}
			}
		}
	}
	switch s := s.(type) {
	case *ast.IncDecStmt:
		if f, ok := im.fieldOf(s.X, dc.recv); ok && f == "indent" {
			if len(dc.indentAlias) > 0 {
				dc.indentMoved = true
			}
			if s.Tok == token.INC {
				return dumpEvent{kind: "inc", pos: s.Pos()}, true
			}
			return dumpEvent{kind: "dec", pos: s.Pos()}, true
		}
	case *ast.ExprStmt:
		call, ok := s.X.(*ast.CallExpr)
		if !ok {
			return dumpEvent{}, false
		}
		if x, arg, ok := im.acceptCall(call); ok && im.isObj(arg, dc.recv) {
			ev := dumpEvent{kind: "accept", pos: s.Pos()}
			if f, ok := im.fieldOf(x, dc.subject); ok {
				ev.field = f
			} else if im.isObj(x, dc.subject) {
				ev.field = "."
			} else if id, ok := unparen(x).(*ast.Ident); ok && dc.locals[im.info().Uses[id]] {
				ev.argVar = im.info().Uses[id]
			} else {
				return dumpEvent{}, false
			}
			return ev, true
		}
		m, ok := im.methodCall(call, dc.recv)
		if !ok {
			return dumpEvent{}, false
		}
		r := dc.roles
		switch m {
		case r.print:
			ev := dumpEvent{kind: "print", pos: s.Pos(), parts: im.flatten(call.Args[1], dc.subject, dc.key)}
			if tv, ok := im.info().Types[call.Args[0]]; ok && tv.Value != nil && tv.Value.ExactString() == "0" {
				ev.indent = "0"
			} else if f, ok := im.fieldOf(call.Args[0], dc.recv); ok && f == "indent" {
				ev.indent = "indent"
			} else if id, ok := unparen(call.Args[0]).(*ast.Ident); ok && dc.indentAlias[im.info().Uses[id]] && !dc.indentMoved {
				ev.indent = "indent"
			} else {
				ev.indent = exprString(call.Args[0])
			}
			return ev, true
		case r.pos:
			ev := dumpEvent{kind: "helper", role: m, pos: s.Pos()}
			if f, ok := im.fieldOf(call.Args[0], dc.subject); ok {
				ev.field = f
			} else {
				ev.bad = "position argument " + exprString(call.Args[0]) + " is not a field of the value being dumped"
			}
			return ev, true
		case r.vertex, r.vertexList, r.tok, r.tokList, r.value:
			ev := dumpEvent{kind: "helper", role: m, pos: s.Pos()}
			lp := im.flatten(call.Args[0], dc.subject, dc.key)
			if len(lp) == 1 {
				ev.label = lp[0]
			} else {
				ev.bad = "label is not a single constant"
			}
			if f, ok := im.fieldOf(call.Args[1], dc.subject); ok {
				ev.field = f
			} else if id, ok := unparen(call.Args[1]).(*ast.Ident); ok && dc.locals[im.info().Uses[id]] {
				ev.argVar = im.info().Uses[id]
			} else {
				ev.bad = "argument " + exprString(call.Args[1]) + " is not a field of the value being dumped"
			}
			return ev, true
		}
	}
	return dumpEvent{}, false
}

// DumpSlots decides rule dump-slots (C16).
func DumpSlots(p *load.Program, tb *kinds.Table) *report.RuleResult {
	res := report.NewResult("dump-slots")
	im, err := FindImpl(p, tb, "pkg/visitor/dumper", "Dumper")
	if err != nil {
		res.Unknown("impl", "-", "", "undecided:anchor: "+err.Error())
		return res
	}
	roles, msg := im.findDumpRoles()
	if roles == nil {
		res.Unknown("impl/helpers", "-", "", "undecided:anchor: "+msg)
		return res
	}
	im.UseNorm(im.dumpKeep(roles), norm.Options{SplitCond: true})
	kms, missing := im.KindMethods()
	for _, m := range missing {
		res.Bad("method/"+m, "-", m, "Dumper does not declare this visitor method itself")
	}
	helperFor := map[kinds.Class]string{kinds.Node: roles.vertex, kinds.NodeList: roles.vertexList, kinds.Tok: roles.tok, kinds.TokList: roles.tokList, kinds.Bytes: roles.value, kinds.Pos: roles.pos}
	for _, km := range kms {
		res.Count("methods", 1)
		res.Units = append(res.Units, "Dumper."+km.Kind.Method)
		k, fd := km.Kind, km.Decl
		fn := "Dumper." + k.Method
		pos := im.pos(fd)
		dc := &dumpCtx{im: im, roles: roles, recv: im.recvObj(fd), subject: im.paramObj(fd, 0), locals: map[types.Object]bool{}}
		ps, err := paths.Enumerate(im.Body(fd))
		if err != nil {
			res.Unknown(k.Name, pos, fn, "undecided:idiom: "+err.Error())
			continue
		}
		frame, undec := "", ""
		fieldBad := map[string]string{}
		for pi, path := range ps {
			var evs []dumpEvent
			dc.newPath()
			for _, it := range path {
				switch {
				case it.Stmt != nil:
					ev, ok := dc.stmtEvent(it.Stmt)
					if !ok {
						undec = fmt.Sprintf("path %d: unrecognised statement at %s", pi, im.pos(it.Stmt))
						continue
					}
					if ev.kind == "local" {
						continue
					}
					evs = append(evs, ev)
				case it.Return != nil:
				default:
					undec = fmt.Sprintf("path %d: conditions, loops and switches are not part of the per-kind dumper idiom", pi)
				}
			}
			if undec != "" {
				break
			}
			// frame: print("&ast.K{\n"), inc, …, dec, print(indent, "},\n")
			if len(evs) < 4 {
				frame = "method is not framed by `&ast." + k.Name + "{` … `},`"
				continue
			}
			open, close := evs[0], evs[len(evs)-1]
			wantOpen := "&ast." + k.Name + "{\n"
			if open.kind != "print" || len(open.parts) != 1 || open.parts[0].Const != wantOpen {
				frame = fmt.Sprintf("first output is not %q (the literal must bear the node's own type)", wantOpen)
			}
			if close.kind != "print" || len(close.parts) != 1 || close.parts[0].Const != "},\n" || close.indent != "indent" {
				frame = `last output is not "},\n" at the current indent`
			}
			if evs[1].kind != "inc" || evs[len(evs)-2].kind != "dec" {
				frame = "indent is not raised after the opening line and lowered before the closing line"
			}
			cnt := map[string]int{}
			for _, ev := range evs[2 : len(evs)-2] {
				if ev.kind != "helper" {
					frame = "something other than field dumps between the opening and closing lines (" + ev.kind + ")"
					continue
				}
				if ev.bad != "" {
					frame = ev.bad
					continue
				}
				f := k.Field(ev.field)
				if f == nil {
					frame = "dumps " + ev.field + " which is not a field of " + k.Name
					continue
				}
				cnt[f.Name]++
				if helperFor[f.Class] != ev.role {
					fieldBad[f.Name] = fmt.Sprintf("field %s of class %s is dumped through %s", f.Name, f.Class, ev.role)
					continue
				}
				if f.Class == kinds.Pos {
					continue
				}
				wantLabel := f.Name
				if f.Class == kinds.Bytes {
					wantLabel = "Val"
				}
				if !ev.label.IsConst || ev.label.Const != wantLabel {
					got := ev.label.Const
					fieldBad[f.Name] = fmt.Sprintf("field %s is dumped under the label %q, want %q", f.Name, got, wantLabel)
				}
			}
			for _, f := range k.Fields {
				if cnt[f.Name] != 1 && fieldBad[f.Name] == "" {
					fieldBad[f.Name] = fmt.Sprintf("field %s is dumped %d times (want exactly once)", f.Name, cnt[f.Name])
				}
			}
		}
		if undec != "" {
			res.Unknown(k.Name, pos, fn, "undecided:idiom: "+undec)
			continue
		}
		res.Check(frame == "", k.Name+"/frame", pos, fn, "opens with &ast."+k.Name+"{, closes with }, and contains only field dumps", frame)
		for _, f := range k.Fields {
			res.Check(fieldBad[f.Name] == "", k.Name+"/"+f.Name, pos, fn, "dumped exactly once under its own label through the helper for "+f.Class.String(), fieldBad[f.Name])
		}
	}
	return res
}

// DumpHelpers decides rules dump-helpers, dump-brackets and dump-gates (C16).
func DumpHelpers(p *load.Program, tb *kinds.Table) *report.RuleResult {
	return DumpHelpersIn(p, tb, "pkg/visitor/dumper")
}

func DumpHelpersIn(p *load.Program, tb *kinds.Table, rel string) *report.RuleResult {
	res := report.NewResult("dump-helpers")
	im, err := FindImpl(p, tb, rel, "Dumper")
	if err != nil {
		res.Unknown("impl", "-", "", "undecided:anchor: "+err.Error())
		return res
	}
	roles, msg := im.findDumpRoles()
	if roles == nil {
		res.Unknown("impl/helpers", "-", "", "undecided:anchor: "+msg)
		return res
	}
	res.Count("helpers", 7)
	im.UseNorm(im.dumpKeep(roles), norm.Options{SplitCond: true})

	// --- brackets & indent balance on every path of every function of the type
	var names []string
	for n := range im.Methods {
		names = append(names, n)
	}
	sort.Strings(names)
	for _, name := range names {
		fd := im.Methods[name]
		if name == roles.print {
			continue
		}
		if o, ok := im.info().Defs[fd.Name].(*types.Func); ok && !im.dumpKeep(roles)(o) {
			continue // not a primitive: inlined into its callers, where the balance is checked
		}
		res.Count("functions", 1)
		why := im.dumpBalance(fd, roles)
		res.Check(why == "", "brackets/"+name, im.pos(fd), "Dumper."+name, "brackets in emitted constants balance and the indent returns to its entry value on every path; loops are neutral", why)
	}
	// --- no value is ever used as a format: every printf-style call in the package has a constant format
	// (seed C16-11: print() collapsed into Fprintf(w, tabs+str); a '%' in a token or string is then read as a verb)
	if im.Pkg != nil {
		info := im.info()
		for _, fd := range load.FuncDecls(im.Pkg) {
			fname := fd.Name.Name
			ast.Inspect(fd.Body, func(x ast.Node) bool {
				call, ok := x.(*ast.CallExpr)
				if !ok {
					return true
				}
				fn, _ := typeutil.Callee(info, call).(*types.Func)
				if fn == nil {
					return true
				}
				sig, _ := fn.Type().(*types.Signature)
				if sig == nil {
					return true
				}
				for i := 0; i < sig.Params().Len() && i < len(call.Args); i++ {
					prm := sig.Params().At(i)
					if prm.Name() != "format" {
						continue
					}
					if b, ok := prm.Type().Underlying().(*types.Basic); !ok || b.Kind() != types.String {
						continue
					}
					res.Count("format-calls", 1)
					key := "format/" + fname + "/" + fn.Name()
					if tv := info.Types[call.Args[i]]; tv.Value != nil {
						res.OK(key, im.pos(call), fname, "constant format string")
					} else {
						res.Bad(key, im.pos(call), fname, fmt.Sprintf("%s is called with the computed format %s: text of the tree that contains '%%' is interpreted as formatting verbs instead of being written as it is", fn.FullName(), exprString(call.Args[i])))
					}
				}
				return true
			})
		}
	}
	// --- gates: which functions read withTokens / withPositions
	for _, name := range names {
		fd := im.Methods[name]
		recv := im.recvObj(fd)
		ast.Inspect(fd.Body, func(x ast.Node) bool {
			se, ok := x.(*ast.SelectorExpr)
			if !ok {
				return true
			}
			f, ok := im.fieldOf(se, recv)
			if !ok {
				return true
			}
			switch f {
			case "withTokens":
				okGate := name == roles.tok || name == roles.tokList || isSetter(fd, se)
				res.Check(okGate, "gate/withTokens/"+name, im.pos(se), "Dumper."+name, "token gate read only by the token helpers", "withTokens is consulted outside the token helpers: output other than tokens would depend on the token option")
			case "withPositions":
				okGate := name == roles.pos || isSetter(fd, se)
				res.Check(okGate, "gate/withPositions/"+name, im.pos(se), "Dumper."+name, "position gate read only by dumpPosition", "withPositions is consulted outside dumpPosition")
			}
			return true
		})
	}
	// --- content of each helper
	emit := func(role, name, why string) {
		fd := im.Methods[name]
		res.Check(why == "", "content/"+role, im.pos(fd), "Dumper."+name, "helper prints its key and visits every element/field once", why)
	}
	emit("dumpVertex", roles.vertex, im.checkDumpVertex(roles))
	emit("dumpVertexList", roles.vertexList, im.checkDumpList(roles, roles.vertexList, "[]ast.Vertex{", true))
	emit("dumpTokenList", roles.tokList, im.checkDumpList(roles, roles.tokList, "[]*token.Token{", false))
	emit("dumpToken", roles.tok, im.checkDumpStruct(roles, roles.tok, tb.TokenT, "&token.Token{", "withTokens", true))
	emit("dumpPosition", roles.pos, im.checkDumpStruct(roles, roles.pos, tb.PositionT, "&position.Position{", "withPositions", false))
	emit("dumpValue", roles.value, im.checkDumpValue(roles))
	return res
}

func isSetter(fd *ast.FuncDecl, se *ast.SelectorExpr) bool {
	found := false
	ast.Inspect(fd.Body, func(x ast.Node) bool {
		if as, ok := x.(*ast.AssignStmt); ok {
			for _, l := range as.Lhs {
				if l == ast.Expr(se) {
					found = true
				}
			}
		}
		return true
	})
	return found
}

func bracketDelta(s string) (net int, minPrefix int) {
	for _, c := range s {
		switch c {
		case '{', '(', '[':
			net++
		case '}', ')', ']':
			net--
		}
		if net < minPrefix {
			minPrefix = net
		}
	}
	return
}

// dumpBalance: on every path, constants' brackets balance and inc/dec of the
// indent cancel; loop bodies must be neutral too.
func (im *Impl) dumpBalance(fd *ast.FuncDecl, roles *dumpRoles) string {
	recv := im.recvObj(fd)
	dc := &dumpCtx{im: im, roles: roles, recv: recv, locals: map[types.Object]bool{}}
	var check func(body *ast.BlockStmt, what string) string
	check = func(body *ast.BlockStmt, what string) string {
		ps, err := paths.Enumerate(body)
		if err != nil {
			return "undecidable: " + err.Error()
		}
		for pi, path := range ps {
			net, ind := 0, 0
			dc.newPath()
			for _, it := range path {
				switch {
				case it.Stmt != nil:
					switch it.Stmt.(type) {
					case *ast.AssignStmt, *ast.DeclStmt:
						dc.stmtEvent(it.Stmt) // local string variables
						continue
					}
					if ids, ok := it.Stmt.(*ast.IncDecStmt); ok {
						if f, ok := im.fieldOf(ids.X, recv); ok && f == "indent" {
							if ids.Tok == token.INC {
								ind++
							} else {
								ind--
							}
						}
						continue
					}
					call := im.callOf(it.Stmt)
					if call == nil {
						continue
					}
					if m, ok := im.methodCall(call, recv); ok && m == roles.print {
						for _, part := range im.flatten(call.Args[1], nil, nil) {
							if part.IsConst {
								d, mn := bracketDelta(part.Const)
								if net+mn < 0 {
									return fmt.Sprintf("%s path %d closes a bracket that was not opened (%q)", what, pi, part.Const)
								}
								net += d
							}
						}
					}
				case it.Loop != nil:
					var b *ast.BlockStmt
					switch l := it.Loop.(type) {
					case *ast.RangeStmt:
						b = l.Body
					case *ast.ForStmt:
						b = l.Body
					}
					if why := check(b, what+" loop body"); why != "" {
						return why
					}
				}
			}
			if net != 0 {
				return fmt.Sprintf("%s path %d leaves %d bracket(s) unbalanced", what, pi, net)
			}
			if ind != 0 {
				return fmt.Sprintf("%s path %d changes the indent by %d", what, pi, ind)
			}
		}
		return ""
	}
	return check(im.Body(fd), "function")
}

func (im *Impl) checkDumpVertex(roles *dumpRoles) string {
	fd := im.Methods[roles.vertex]
	dc := &dumpCtx{im: im, roles: roles, recv: im.recvObj(fd), key: im.paramObj(fd, 0), subject: nil, locals: map[types.Object]bool{im.paramObj(fd, 1): true}}
	node := im.paramObj(fd, 1)
	ps, err := paths.Enumerate(im.Body(fd))
	if err != nil {
		return "undecidable: " + err.Error()
	}
	for pi, path := range ps {
		know := map[string]int{}
		var seq []string
		dc.newPath()
		for _, it := range path {
			switch {
			case it.Cond != nil:
				im.learnNil(it.Cond, it.Truth, func(e ast.Expr) (string, bool) { return "n", im.isObj(e, node) }, know)
			case it.Stmt != nil:
				ev, ok := dc.stmtEvent(it.Stmt)
				if !ok {
					return "unrecognised statement"
				}
				switch {
				case ev.kind == "local":
				case ev.kind == "print" && len(ev.parts) == 2 && ev.parts[0].Key && ev.parts[1].Const == ": " && ev.indent == "indent":
					seq = append(seq, "key")
				case ev.kind == "accept" && ev.argVar == node:
					seq = append(seq, "accept")
				default:
					return "unexpected output in dumpVertex"
				}
			case it.Return != nil:
			default:
				return "unexpected control flow"
			}
		}
		s := fmt.Sprint(seq)
		switch know["n"] {
		case 1:
			if s != "[]" {
				return fmt.Sprintf("path %d prints something for a nil child", pi)
			}
		case 2:
			if s != "[key accept]" {
				return fmt.Sprintf("path %d (child present) does %s, want the key then the child once", pi, s)
			}
		default:
			return "nil-ness of the child is not tested"
		}
	}
	return ""
}

// checkDumpList: nil → nothing; empty → key: T{}; else key: T{ + each element once + }.
func (im *Impl) checkDumpList(roles *dumpRoles, name, open string, vertex bool) string {
	fd := im.Methods[name]
	list := im.paramObj(fd, 1)
	dc := &dumpCtx{im: im, roles: roles, recv: im.recvObj(fd), key: im.paramObj(fd, 0), locals: map[types.Object]bool{}}
	ps, err := paths.Enumerate(im.Body(fd))
	if err != nil {
		return "undecidable: " + err.Error()
	}
	sawFull := false
	for pi, path := range ps {
		var seq []string
		state := "" // nil / empty / full as learnt
		gateOff := false
		dc.newPath()
		for _, it := range path {
			switch {
			case it.Cond != nil:
				c := unparen(it.Cond)
				if ue, ok := c.(*ast.UnaryExpr); ok && ue.Op == token.NOT {
					if f, ok := im.fieldOf(ue.X, dc.recv); ok && f == "withTokens" && it.Truth {
						gateOff = true
					}
					continue
				}
				if _, neq, ok := im.nilTest(c, func(e ast.Expr) (string, bool) { return "l", im.isObj(e, list) }); ok {
					if neq != it.Truth {
						state = "nil"
					}
					continue
				}
				if be, ok := c.(*ast.BinaryExpr); ok && be.Op == token.EQL {
					if lc, ok := unparen(be.X).(*ast.CallExpr); ok && len(lc.Args) == 1 && im.isObj(lc.Args[0], list) {
						if it.Truth {
							state = "empty"
						} else {
							state = "full"
						}
						continue
					}
				}
				return "unrecognised condition " + exprString(c)
			case it.Stmt != nil:
				ev, ok := dc.stmtEvent(it.Stmt)
				if !ok {
					return "unrecognised statement"
				}
				switch ev.kind {
				case "local":
				case "print":
					var sb strings.Builder
					for _, p := range ev.parts {
						switch {
						case p.Key:
							sb.WriteString("<key>")
						case p.IsConst:
							sb.WriteString(p.Const)
						default:
							return "list helper prints a computed string"
						}
					}
					seq = append(seq, sb.String())
				case "inc", "dec":
					seq = append(seq, ev.kind)
				default:
					return "unexpected " + ev.kind
				}
			case it.Loop != nil:
				rs, ok := it.Loop.(*ast.RangeStmt)
				if !ok || !im.isObj(rs.X, list) || rs.Value == nil {
					return "loop does not range over the list"
				}
				if rs.Key != nil {
					if id, ok := rs.Key.(*ast.Ident); !ok || id.Name != "_" {
						return "loop uses the index"
					}
				}
				v := im.info().Defs[rs.Value.(*ast.Ident)]
				dc.locals[v] = true
				var body []string
				for _, st := range rs.Body.List {
					ev, ok := dc.stmtEvent(st)
					if !ok {
						return "unrecognised statement in loop"
					}
					switch {
					case ev.kind == "local":
					case ev.kind == "print" && len(ev.parts) == 1 && ev.parts[0].Const == "" && ev.indent == "indent":
						body = append(body, "indent")
					case ev.kind == "accept" && ev.argVar == v:
						body = append(body, "elem")
					case ev.kind == "helper" && ev.role == roles.tok && ev.argVar == v && ev.label.IsConst && ev.label.Const == "":
						body = append(body, "elem")
					default:
						return "loop body does something other than dumping the element"
					}
				}
				want := "[elem]"
				if vertex {
					want = "[indent elem]"
				}
				if fmt.Sprint(body) != want {
					return fmt.Sprintf("loop body is %v, want each element dumped exactly once", body)
				}
				seq = append(seq, "loop")
			case it.Return != nil:
			default:
				return "unexpected control flow"
			}
		}
		s := strings.Join(seq, "|")
		switch {
		case gateOff || state == "nil":
			if s != "" {
				return fmt.Sprintf("path %d prints for a nil list / disabled option", pi)
			}
		case state == "empty":
			if s != "<key>: "+open+"},\n" {
				return fmt.Sprintf("path %d (empty list) prints %q", pi, s)
			}
		case state == "full":
			sawFull = true
			if s != "<key>: "+open+"\n|inc|loop|dec|},\n" {
				return fmt.Sprintf("path %d (non-empty list) does %q", pi, s)
			}
		default:
			return "list state not established on path"
		}
	}
	if !sawFull {
		return "no path handles a non-empty list"
	}
	return ""
}

// checkDumpStruct treats token.Token / position.Position like a kind: each
// field printed once under its own name (Val for []byte).
func (im *Impl) checkDumpStruct(roles *dumpRoles, name string, T *types.Named, open, gate string, hasKey bool) string {
	fd := im.Methods[name]
	if T == nil {
		return "type not found"
	}
	st := T.Underlying().(*types.Struct)
	var subject, key types.Object
	if hasKey {
		key, subject = im.paramObj(fd, 0), im.paramObj(fd, 1)
	} else {
		subject = im.paramObj(fd, 0)
	}
	dc := &dumpCtx{im: im, roles: roles, recv: im.recvObj(fd), subject: subject, key: key, locals: map[types.Object]bool{}}
	ps, err := paths.Enumerate(im.Body(fd))
	if err != nil {
		return "undecidable: " + err.Error()
	}
	sawPresent := false
	for pi, path := range ps {
		know := map[string]int{}
		gateOff := false
		skipped := map[string]bool{} // fields known zero on this path
		cnt := map[string]int{}
		var frame []string
		dc.newPath()
		for _, it := range path {
			switch {
			case it.Cond != nil:
				c := unparen(it.Cond)
				if ue, ok := c.(*ast.UnaryExpr); ok && ue.Op == token.NOT {
					if f, ok := im.fieldOf(ue.X, dc.recv); ok && f == gate && it.Truth {
						gateOff = true
					}
					continue
				}
				if _, _, ok := im.nilTest(c, func(e ast.Expr) (string, bool) { return "s", im.isObj(e, subject) }); ok {
					im.learnNil(c, it.Truth, func(e ast.Expr) (string, bool) { return "s", im.isObj(e, subject) }, know)
					continue
				}
				// key == ""
				if be, ok := c.(*ast.BinaryExpr); ok && key != nil && im.isObj(be.X, key) {
					continue
				}
				// subject.F > 0 / subject.F != nil : field presence test
				if be, ok := c.(*ast.BinaryExpr); ok {
					if f, ok := im.fieldOf(be.X, subject); ok {
						// F > 0, F != nil: present when true; F <= 0, F == nil, F == 0: absent when true
						presentWhenTrue := be.Op == token.GTR || be.Op == token.NEQ || be.Op == token.GEQ
						if it.Truth != presentWhenTrue {
							skipped[f] = true
						}
						continue
					}
				}
				return "unrecognised condition " + exprString(c)
			case it.Stmt != nil:
				ev, ok := dc.stmtEvent(it.Stmt)
				if !ok {
					return "unrecognised statement at " + im.pos(it.Stmt)
				}
				switch ev.kind {
				case "local":
				case "inc", "dec":
					frame = append(frame, ev.kind)
				case "helper":
					if ev.bad != "" {
						return ev.bad
					}
					cnt[ev.field]++
					if ev.role != roles.pos {
						want := ev.field
						if ev.field == "Value" {
							want = "Val" // the label the byte-value helper is given for every Value field
						}
						if !ev.label.IsConst || ev.label.Const != want {
							return fmt.Sprintf("field %s dumped under label %q", ev.field, ev.label.Const)
						}
					}
				case "print":
					var fields []strPart
					text := ""
					for _, p := range ev.parts {
						switch {
						case p.Field != "":
							fields = append(fields, p)
						case p.IsConst:
							text += p.Const
						case p.Key:
							text += "<key>"
						default:
							return "prints computed text " + p.Other
						}
					}
					if len(fields) == 0 {
						frame = append(frame, text)
						continue
					}
					if len(fields) != 1 {
						return "one line prints several fields"
					}
					f := fields[0].Field
					cnt[f]++
					label := strings.TrimSpace(strings.SplitN(text, ":", 2)[0])
					want := f
					if f == "Value" {
						want = "Val"
					}
					if label != want {
						return fmt.Sprintf("field %s printed under label %q, want %q", f, label, want)
					}
				default:
					return "unexpected " + ev.kind
				}
			case it.Return != nil:
			default:
				return "unexpected control flow"
			}
		}
		if gateOff || know["s"] == 1 {
			if len(frame) != 0 || len(cnt) != 0 {
				return fmt.Sprintf("path %d prints for a nil value / disabled option", pi)
			}
			continue
		}
		if know["s"] != 2 {
			return "nil-ness of the value is not tested before use"
		}
		sawPresent = true
		fs := strings.Join(frame, "|")
		okFrame := false
		for _, o := range []string{"<key>: " + open + "\n", "{\n", strings.TrimPrefix(open, "&") + "\n", "Position: " + open + "\n"} {
			if fs == o+"|inc|dec|},\n" {
				okFrame = true
			}
		}
		if !okFrame {
			return fmt.Sprintf("path %d frame is %q", pi, fs)
		}
		for i := 0; i < st.NumFields(); i++ {
			f := st.Field(i).Name()
			want := 1
			if skipped[f] {
				want = 0
			}
			if cnt[f] != want {
				return fmt.Sprintf("path %d dumps field %s %d times, want %d", pi, f, cnt[f], want)
			}
		}
	}
	if !sawPresent {
		return "no path handles a present value"
	}
	return ""
}

func (im *Impl) checkDumpValue(roles *dumpRoles) string {
	fd := im.Methods[roles.value]
	key, val := im.paramObj(fd, 0), im.paramObj(fd, 1)
	dc := &dumpCtx{im: im, roles: roles, recv: im.recvObj(fd), key: key, subject: val, locals: map[types.Object]bool{}}
	ps, err := paths.Enumerate(im.Body(fd))
	if err != nil {
		return "undecidable: " + err.Error()
	}
	for pi, path := range ps {
		know := map[string]int{}
		n := 0
		dc.newPath()
		for _, it := range path {
			switch {
			case it.Cond != nil:
				im.learnNil(it.Cond, it.Truth, func(e ast.Expr) (string, bool) { return "v", im.isObj(e, val) }, know)
			case it.Stmt != nil:
				ev, ok := dc.stmtEvent(it.Stmt)
				if ok && ev.kind == "local" {
					continue
				}
				if !ok || ev.kind != "print" {
					return "unrecognised statement"
				}
				p := ev.parts
				if len(p) == 4 && p[0].Key && p[1].Const == ": []byte(" && p[2].Field == "." && p[2].Wrap == "Quote" && p[3].Const == "),\n" {
					n++
				} else {
					return "value is not printed as key: []byte(<quoted>),"
				}
			case it.Return != nil:
			default:
				return "unexpected control flow"
			}
		}
		if know["v"] == 1 && n != 0 {
			return fmt.Sprintf("path %d prints a nil value", pi)
		}
		if know["v"] == 2 && n != 1 {
			return fmt.Sprintf("path %d prints the value %d times", pi, n)
		}
		if know["v"] == 0 {
			return "nil-ness of the value is not tested"
		}
	}
	return ""
}
