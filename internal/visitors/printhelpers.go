package visitors

import (
	"fmt"
	"go/ast"
	"go/token"
	"go/types"

	"golang.org/x/tools/go/types/typeutil"

	"verif/internal/kinds"
	"verif/internal/load"
	"verif/internal/norm"
	"verif/internal/paths"
	"verif/internal/report"
)

// PrintHelpers decides rule print-helpers (C15, C02): the five printer helpers
// do exactly what the per-kind methods rely on.
func PrintHelpers(p *load.Program, tb *kinds.Table) *report.RuleResult {
	return PrintHelpersIn(p, tb, "pkg/visitor/printer")
}

func PrintHelpersIn(p *load.Program, tb *kinds.Table, rel string) *report.RuleResult {
	res := report.NewResult("print-helpers")
	im, err := FindImpl(p, tb, rel, "printer")
	if err != nil {
		res.Unknown("impl", "-", "", "undecided:anchor: "+err.Error())
		return res
	}
	roles, msg := im.findPrintRoles()
	if roles == nil {
		res.Unknown("impl/helpers", "-", "", "undecided:anchor: "+msg)
		return res
	}
	res.Count("helpers", 5+len(roles.selectors))
	im.UseNorm(im.printKeep(roles), norm.Options{})
	emit := func(name, role, why string) {
		fd := im.Methods[name]
		if why == "" {
			res.OK(role, im.pos(fd), "printer."+name, "helper has the behaviour the per-kind methods rely on")
		} else {
			res.Bad(role, im.pos(fd), "printer."+name, why)
		}
	}
	// printNode
	if ok, _ := im.isNilGuardedAccept(im.Methods[roles.node]); ok {
		emit(roles.node, "printNode", "")
	} else {
		emit(roles.node, "printNode", "does not visit its argument exactly once iff non-nil")
	}
	emit(roles.list, "printList", im.checkPrintList(im.Methods[roles.list], roles))
	emit(roles.tok, "printToken", im.checkPrintToken(im.Methods[roles.tok], roles))
	if why := im.checkSepList(im.Methods[roles.seplist], roles); why == "" {
		emit(roles.seplist, "printSeparatedList", "")
	} else if why2 := im.evalSepList(im.Methods[roles.seplist], roles); why2 == "" {
		// not the single loop the structural argument is about: decided by evaluating the helper's source for every
		// list length up to the bounds
		res.Count("bounded-evaluations", 1)
		res.OK("printSeparatedList", im.pos(im.Methods[roles.seplist]), "printer."+roles.seplist, fmt.Sprintf("item k, then separators[k] if it exists, else the default separator unless k is last: evaluated from source for all lists of up to %d items with up to %d separator tokens (a bounded argument; the single-loop shape that gives the unbounded one was not found: %s)", sepEvalMaxN, sepEvalMaxM, why))
	} else {
		emit(roles.seplist, "printSeparatedList", why+"; "+why2)
	}
	emit(roles.write, "write", im.checkWrite(im.Methods[roles.write]))
	for name := range roles.selectors {
		emit(name, "selector/"+name, im.checkSelector(im.Methods[name]))
	}
	return res
}

func (im *Impl) callOf(s ast.Stmt) *ast.CallExpr {
	es, ok := s.(*ast.ExprStmt)
	if !ok {
		return nil
	}
	c, _ := es.X.(*ast.CallExpr)
	return c
}

// checkPrintList: for _, x := range list { printNode(x) }  (or nil-guarded Accept)
func (im *Impl) checkPrintList(fd *ast.FuncDecl, roles *printRoles) string {
	recv, list := im.recvObj(fd), im.paramObj(fd, 0)
	body := im.Body(fd)
	if len(body.List) != 1 {
		return "body is not a single loop over the list"
	}
	rs, ok := body.List[0].(*ast.RangeStmt)
	if !ok || !im.isObj(rs.X, list) || rs.Value == nil || len(rs.Body.List) != 1 {
		return "body is not `for _, x := range list { printNode(x) }`"
	}
	if rs.Key != nil {
		if id, ok := rs.Key.(*ast.Ident); !ok || id.Name != "_" {
			return "loop uses the index"
		}
	}
	v := im.info().Defs[rs.Value.(*ast.Ident)]
	call := im.callOf(rs.Body.List[0])
	if call == nil {
		return "loop body is not a call"
	}
	if m, ok := im.methodCall(call, recv); ok && m == roles.node && len(call.Args) == 1 && im.isObj(call.Args[0], v) {
		return ""
	}
	return "loop body does not print the element"
}

func (im *Impl) checkPrintToken(fd *ast.FuncDecl, roles *printRoles) string {
	recv, t, def := im.recvObj(fd), im.paramObj(fd, 0), im.paramObj(fd, 1)
	ps, err := paths.Enumerate(im.Body(fd))
	if err != nil {
		return "undecidable body: " + err.Error()
	}
	name := func(e ast.Expr) (string, bool) {
		if im.isObj(e, t) {
			return "t", true
		}
		if im.isObj(e, def) {
			return "def", true
		}
		return "", false
	}
	for pi, path := range ps {
		know := map[string]int{} // 1 nil, 2 non-nil
		var evs []string
		for _, it := range path {
			switch {
			case it.Cond != nil:
				im.learnNil(it.Cond, it.Truth, name, know)
			case it.Stmt != nil:
				call := im.callOf(it.Stmt)
				if call == nil {
					return fmt.Sprintf("path %d: unexpected statement", pi)
				}
				m, ok := im.methodCall(call, recv)
				if !ok || m != roles.write || len(call.Args) != 1 {
					return fmt.Sprintf("path %d: unexpected call %s", pi, exprString(call))
				}
				a := call.Args[0]
				switch {
				case im.isObj(a, def):
					evs = append(evs, "def")
				default:
					if f, ok := im.fieldOf(a, t); ok && f == "Value" {
						evs = append(evs, "value")
					} else {
						return fmt.Sprintf("path %d: writes %s", pi, exprString(a))
					}
				}
			case it.Loop != nil:
				rs, ok := it.Loop.(*ast.RangeStmt)
				if !ok || rs.Value == nil || len(rs.Body.List) != 1 {
					return "unexpected loop"
				}
				if rs.Key != nil {
					if id, ok := rs.Key.(*ast.Ident); !ok || id.Name != "_" {
						return "free-floating loop uses the index"
					}
				}
				if f, ok := im.fieldOf(rs.X, t); !ok || f != "FreeFloating" {
					return "loop does not range over the token's free-floating list"
				}
				v := im.info().Defs[rs.Value.(*ast.Ident)]
				call := im.callOf(rs.Body.List[0])
				if call == nil {
					return "free-floating loop body is not a call"
				}
				m, ok := im.methodCall(call, recv)
				if !ok || m != roles.write || len(call.Args) != 1 {
					return "free-floating loop body does not write"
				}
				if f, ok := im.fieldOf(call.Args[0], v); !ok || f != "Value" {
					return "free-floating loop does not write each free-floating token's own value"
				}
				evs = append(evs, "ff")
			case it.Return != nil:
			default:
				return "unexpected switch"
			}
		}
		seq := fmt.Sprint(evs)
		switch know["t"] {
		case 1:
			if !(seq == "[def]" || (seq == "[]" && know["def"] == 1)) {
				return fmt.Sprintf("path %d (token absent): emits %s, want the default only (or nothing when the default is nil)", pi, seq)
			}
		case 2:
			if seq != "[ff value]" {
				return fmt.Sprintf("path %d (token present): emits %s, want the free-floating values in order followed by the token's own value", pi, seq)
			}
		default:
			return fmt.Sprintf("path %d: nil-ness of the token is not established before use", pi)
		}
	}
	return ""
}

// learnNil updates know from a condition built from nil tests with && / ||.
func (im *Impl) learnNil(cond ast.Expr, truth bool, name func(ast.Expr) (string, bool), know map[string]int) {
	cond = unparen(cond)
	if be, ok := cond.(*ast.BinaryExpr); ok {
		if (be.Op == token.LAND && truth) || (be.Op == token.LOR && !truth) {
			im.learnNil(be.X, truth, name, know)
			im.learnNil(be.Y, truth, name, know)
			return
		}
		if be.Op == token.LAND || be.Op == token.LOR {
			return // nothing certain
		}
	}
	if ue, ok := cond.(*ast.UnaryExpr); ok && ue.Op == token.NOT {
		im.learnNil(ue.X, !truth, name, know)
		return
	}
	if n, neq, ok := im.nilTest(cond, name); ok {
		if neq == truth {
			know[n] = 2
		} else {
			know[n] = 1
		}
	}
}

func (im *Impl) checkSepList(fd *ast.FuncDecl, roles *printRoles) string {
	recv, list, seps, def := im.recvObj(fd), im.paramObj(fd, 0), im.paramObj(fd, 1), im.paramObj(fd, 2)
	body := im.Body(fd)
	if len(body.List) != 1 {
		return "body is not a single loop over the list"
	}
	rs, ok := body.List[0].(*ast.RangeStmt)
	if !ok || !im.isObj(rs.X, list) || rs.Value == nil || rs.Key == nil {
		return "body is not `for k, x := range list {…}`"
	}
	kid, ok1 := rs.Key.(*ast.Ident)
	vid, ok2 := rs.Value.(*ast.Ident)
	if !ok1 || !ok2 {
		return "unexpected loop variables"
	}
	k, v := im.info().Defs[kid], im.info().Defs[vid]
	ps, err := paths.EnumerateLoop(rs.Body)
	if err != nil {
		return "undecidable loop body: " + err.Error()
	}
	lenOf := func(e ast.Expr, o types.Object) bool {
		c, ok := unparen(e).(*ast.CallExpr)
		if !ok || len(c.Args) != 1 {
			return false
		}
		id, ok := c.Fun.(*ast.Ident)
		if !ok {
			return false
		}
		if b, ok := im.info().Uses[id].(*types.Builtin); !ok || b.Name() != "len" {
			return false
		}
		return im.isObj(c.Args[0], o)
	}
	isOne := func(e ast.Expr) bool {
		tv, ok := im.info().Types[e]
		return ok && tv.Value != nil && tv.Value.ExactString() == "1"
	}
	// classify a condition: "hasSep" (k < len(seps)), "notLast" (k < len(list)-1)
	classify := func(c ast.Expr) string {
		be, ok := unparen(c).(*ast.BinaryExpr)
		if !ok {
			return ""
		}
		if be.Op == token.LSS && im.isObj(be.X, k) && lenOf(be.Y, seps) {
			return "hasSep"
		}
		if be.Op == token.GTR && im.isObj(be.Y, k) && lenOf(be.X, seps) {
			return "hasSep"
		}
		if (be.Op == token.LSS || be.Op == token.NEQ) && im.isObj(be.X, k) {
			if sub, ok := unparen(be.Y).(*ast.BinaryExpr); ok && sub.Op == token.SUB && lenOf(sub.X, list) && isOne(sub.Y) {
				return "notLast"
			}
		}
		if be.Op == token.LSS && lenOf(be.Y, list) {
			if add, ok := unparen(be.X).(*ast.BinaryExpr); ok && add.Op == token.ADD && im.isObj(add.X, k) && isOne(add.Y) {
				return "notLast"
			}
		}
		return ""
	}
	for pi, path := range ps {
		facts := map[string]bool{}
		known := map[string]bool{}
		var evs []string
		for _, it := range path {
			switch {
			case it.Cond != nil:
				c := classify(it.Cond)
				if c == "" {
					return fmt.Sprintf("path %d: unrecognised condition %s", pi, exprString(it.Cond))
				}
				facts[c] = it.Truth
				known[c] = true
			case it.Stmt != nil:
				call := im.callOf(it.Stmt)
				if call == nil {
					return "unexpected statement in loop"
				}
				m, ok := im.methodCall(call, recv)
				if !ok {
					return "unexpected call " + exprString(call)
				}
				switch {
				case m == roles.node && len(call.Args) == 1 && im.isObj(call.Args[0], v):
					evs = append(evs, "item")
				case m == roles.tok && len(call.Args) == 2 && im.isObj(call.Args[1], def):
					ix, ok := unparen(call.Args[0]).(*ast.IndexExpr)
					if !ok || !im.isObj(ix.X, seps) || !im.isObj(ix.Index, k) {
						return "separator printed is not separators[k]"
					}
					evs = append(evs, "sep")
				case m == roles.write && len(call.Args) == 1 && im.isObj(call.Args[0], def):
					evs = append(evs, "def")
				default:
					return "unexpected call " + exprString(call)
				}
			default:
				return "unexpected control flow in loop body"
			}
		}
		seq := fmt.Sprint(evs)
		switch {
		case known["hasSep"] && facts["hasSep"]:
			if seq != "[item sep]" {
				return fmt.Sprintf("path %d (separator k exists): emits %s, want item then separators[k]", pi, seq)
			}
		case known["hasSep"] && known["notLast"] && facts["notLast"]:
			if seq != "[item def]" {
				return fmt.Sprintf("path %d (no separator token, not last item): emits %s, want item then the default separator", pi, seq)
			}
		case known["hasSep"] && known["notLast"]:
			if seq != "[item]" {
				return fmt.Sprintf("path %d (last item, no separator token): emits %s, want the item only", pi, seq)
			}
		default:
			return fmt.Sprintf("path %d: separator handling does not distinguish the three cases", pi)
		}
	}
	return ""
}

// checkWrite: the byte slice given is written exactly once, last, on every
// path that writes anything; other writes are constants (reported by
// print-inserts).
func (im *Impl) checkWrite(fd *ast.FuncDecl) string {
	b := im.paramObj(fd, 0)
	ps, err := paths.Enumerate(im.Body(fd))
	if err != nil {
		return "undecidable body: " + err.Error()
	}
	for pi, path := range ps {
		var evs []string
		empty := false
		for _, it := range path {
			switch {
			case it.Cond != nil:
				// len(b) == 0 true → empty
				if be, ok := unparen(it.Cond).(*ast.BinaryExpr); ok && be.Op == token.EQL && it.Truth {
					if c, ok := unparen(be.X).(*ast.CallExpr); ok && len(c.Args) == 1 && im.isObj(c.Args[0], b) {
						if tv, ok := im.info().Types[be.Y]; ok && tv.Value != nil && tv.Value.ExactString() == "0" {
							empty = true
						}
					}
				}
			case it.Stmt != nil:
				call := im.callOf(it.Stmt)
				if call == nil {
					continue // state assignments
				}
				fn, _ := typeutil.Callee(im.info(), call).(*types.Func)
				if fn == nil || fn.Name() != "Write" || len(call.Args) != 1 {
					return "unexpected call " + exprString(call)
				}
				if im.isObj(call.Args[0], b) {
					evs = append(evs, "b")
				} else if _, ok := im.constBytes(call.Args[0]); ok {
					evs = append(evs, "const")
				} else {
					return "writes " + exprString(call.Args[0]) + ", neither its argument nor a constant"
				}
			case it.Return != nil:
			default:
				return "unexpected control flow"
			}
		}
		nb := 0
		for _, e := range evs {
			if e == "b" {
				nb++
			}
		}
		if empty {
			if len(evs) != 0 {
				return fmt.Sprintf("path %d writes something for an empty argument", pi)
			}
			continue
		}
		if nb != 1 || evs[len(evs)-1] != "b" {
			return fmt.Sprintf("path %d: the argument is written %d times / not last (%v)", pi, nb, evs)
		}
	}
	return ""
}

// checkSelector: returns only its []byte parameters or nil, chosen by nil
// tests of its first parameter.
func (im *Impl) checkSelector(fd *ast.FuncDecl) string {
	sig := im.sigOf(fd)
	params := map[types.Object]bool{}
	for i := 1; i < sig.Params().Len(); i++ {
		params[im.paramObj(fd, i)] = true
	}
	first := im.paramObj(fd, 0)
	ps, err := paths.Enumerate(im.Body(fd))
	if err != nil {
		return "undecidable body: " + err.Error()
	}
	for _, path := range ps {
		for _, it := range path {
			switch {
			case it.Cond != nil:
				if _, _, ok := im.nilTest(it.Cond, func(e ast.Expr) (string, bool) { return "x", im.isObj(e, first) }); !ok {
					return "condition is not a nil test of the first parameter"
				}
			case it.Return != nil:
				if len(it.Return.Results) != 1 {
					return "unexpected return"
				}
				r := it.Return.Results[0]
				if im.isNil(r) {
					continue
				}
				id, ok := unparen(r).(*ast.Ident)
				if !ok || !params[im.info().Uses[id]] {
					return "returns " + exprString(r) + ", not one of its lexeme parameters"
				}
			default:
				return "unexpected statement"
			}
		}
	}
	return ""
}
