package visitors

import (
	"fmt"
	"go/ast"
	"go/token"
	"go/types"
	"sort"
	"strings"

	"golang.org/x/tools/go/types/typeutil"

	"verif/internal/kinds"
	"verif/internal/load"
	"verif/internal/norm"
	"verif/internal/paths"
	"verif/internal/report"
)

// helper roles of the printer, identified by signature and verified by
// PrintHelpers.
type printRoles struct {
	tok, node, list, seplist, write string
	selectors                       map[string]bool // ifNode, ifToken, …: return one of their []byte args
}

func (im *Impl) sigOf(fd *ast.FuncDecl) *types.Signature {
	if o, ok := im.info().Defs[fd.Name].(*types.Func); ok {
		return o.Type().(*types.Signature)
	}
	return nil
}

func (im *Impl) classes(sig *types.Signature) []kinds.Class {
	var out []kinds.Class
	for i := 0; i < sig.Params().Len(); i++ {
		out = append(out, kinds.Classify(sig.Params().At(i).Type(), im.Kinds))
	}
	return out
}

func classesEq(a []kinds.Class, b ...kinds.Class) bool {
	if len(a) != len(b) {
		return false
	}
	for i := range a {
		if a[i] != b[i] {
			return false
		}
	}
	return true
}

func (im *Impl) findPrintRoles() (*printRoles, string) {
	r := &printRoles{selectors: map[string]bool{}}
	cands := map[string][]string{} // role → helpers with that role's signature
	var names []string
	for n := range im.Methods {
		names = append(names, n)
	}
	sort.Strings(names)
	for _, name := range names {
		fd := im.Methods[name]
		if im.Kinds.ByMethod[name] != nil {
			continue
		}
		sig := im.sigOf(fd)
		if sig == nil {
			continue
		}
		cl := im.classes(sig)
		switch {
		case sig.Results().Len() == 0 && classesEq(cl, kinds.Tok, kinds.Bytes):
			cands["printToken"] = append(cands["printToken"], name)
		case sig.Results().Len() == 0 && classesEq(cl, kinds.Node):
			cands["printNode"] = append(cands["printNode"], name)
		case sig.Results().Len() == 0 && classesEq(cl, kinds.NodeList):
			cands["printList"] = append(cands["printList"], name)
		case sig.Results().Len() == 0 && classesEq(cl, kinds.NodeList, kinds.TokList, kinds.Bytes):
			cands["printSeparatedList"] = append(cands["printSeparatedList"], name)
		case sig.Results().Len() == 0 && classesEq(cl, kinds.Bytes):
			cands["write"] = append(cands["write"], name)
		case sig.Results().Len() == 1 && kinds.Classify(sig.Results().At(0).Type(), im.Kinds) == kinds.Bytes && len(cl) >= 2:
			r.selectors[name] = true
		}
	}
	// several helpers with one role's signature: the role belongs to the one that is called from outside
	// the group (a helper only its namesakes call is a piece split off from them and is inlined by the
	// path extraction)
	callers := func(name string) map[string]bool {
		out := map[string]bool{}
		for caller, fd := range im.Methods {
			if fd.Body == nil || caller == name {
				continue
			}
			ast.Inspect(fd.Body, func(n ast.Node) bool {
				if c, ok := n.(*ast.CallExpr); ok {
					if se, ok := c.Fun.(*ast.SelectorExpr); ok && se.Sel.Name == name {
						if fn, ok := im.info().Uses[se.Sel].(*types.Func); ok && fn == im.info().Defs[im.Methods[name].Name] {
							out[caller] = true
						}
					}
				}
				return true
			})
		}
		return out
	}
	for role, dst := range map[string]*string{"printToken": &r.tok, "printNode": &r.node, "printList": &r.list, "printSeparatedList": &r.seplist, "write": &r.write} {
		cs := cands[role]
		if len(cs) > 1 {
			group := map[string]bool{}
			for _, c := range cs {
				group[c] = true
			}
			var roots []string
			for _, c := range cs {
				for caller := range callers(c) {
					if !group[caller] {
						roots = append(roots, c)
						break
					}
				}
			}
			if len(roots) != 1 {
				sort.Strings(cs)
				return nil, fmt.Sprintf("several helpers with the signature of %s: %s", role, strings.Join(cs, ", "))
			}
			cs = roots
		}
		if len(cs) == 1 {
			*dst = cs[0]
		}
	}
	if r.tok == "" || r.node == "" || r.list == "" || r.seplist == "" || r.write == "" {
		return nil, fmt.Sprintf("printer helpers not all found by signature: token=%q node=%q list=%q separated=%q write=%q", r.tok, r.node, r.list, r.seplist, r.write)
	}
	return r, ""
}

// Default describes the second argument of a printToken call.
type Default struct {
	Nil    bool
	Consts []string // possible constant lexemes
	Value  bool     // n.Value
	CondOn []string // fields whose nil-ness selects the default
	Bad    string
}

// slotEvent is one print event on a path.
type slotEvent struct {
	field  string // primary field
	sep    string // separator field for separated lists
	helper string
	def    Default
	alias  bool // event belongs to the aliased child
	pos    token.Pos
}

type PrintInsert struct {
	Func  string
	Const string
	Pos   string
}

type PrintFacts struct {
	Defaults map[string]Default // "Kind.Field" -> default lexeme info
	SepDef   map[string]Default // "Kind.ListField" -> default separator
	Inserts  []PrintInsert
}

// PrintSlots decides rule print-slots and print-local (C15): every printer
// method emits every token slot and child slot exactly once in declaration
// order on every path, using the helper that fits the slot's type, and refers
// to nothing but its own node.
func PrintSlots(p *load.Program, tb *kinds.Table) *report.RuleResult {
	res, _ := PrintSlotsFacts(p, tb)
	return res
}

func PrintSlotsFacts(p *load.Program, tb *kinds.Table) (*report.RuleResult, *PrintFacts) {
	res := report.NewResult("print-slots")
	facts := &PrintFacts{Defaults: map[string]Default{}, SepDef: map[string]Default{}}
	im, err := FindImpl(p, tb, "pkg/visitor/printer", "printer")
	if err != nil {
		res.Unknown("impl", "-", "", "undecided:anchor: "+err.Error())
		return res, facts
	}
	roles, msg := im.findPrintRoles()
	if roles == nil {
		res.Unknown("impl/helpers", "-", "", "undecided:anchor: "+msg)
		return res, facts
	}
	im.UseNorm(im.printKeep(roles), norm.Options{})
	kms, missing := im.KindMethods()
	for _, m := range missing {
		res.Bad("method/"+m, "-", m, "printer does not declare this visitor method itself")
	}
	for _, km := range kms {
		res.Count("methods", 1)
		res.Units = append(res.Units, "printer."+km.Kind.Method)
		im.printMethod(res, facts, roles, km)
	}
	return res, facts
}

// printKeep: the printer's primitives (verified by print-helpers) and the
// per-kind methods; every other function of the package is inlined.
func (im *Impl) printKeep(roles *printRoles) func(fn *types.Func) bool {
	return func(fn *types.Func) bool {
		n := fn.Name()
		return n == roles.tok || n == roles.node || n == roles.list || n == roles.seplist || n == roles.write || roles.selectors[n] || im.Kinds.ByMethod[n] != nil
	}
}

func (im *Impl) parseDefault(e ast.Expr, n, recv types.Object, roles *printRoles, env map[types.Object]Default) Default {
	var d Default
	if id, ok := unparen(e).(*ast.Ident); ok {
		if v, ok := env[im.info().Uses[id]]; ok {
			return v
		}
	}
	if im.isNil(e) {
		d.Nil = true
		return d
	}
	if s, ok := im.constBytes(e); ok {
		d.Consts = []string{s}
		return d
	}
	if f, ok := im.fieldOf(e, n); ok {
		if f == "Value" {
			d.Value = true
			return d
		}
		d.Bad = "default is the field " + f + " of the node, not a constant lexeme or the node's own Value"
		return d
	}
	if call, ok := unparen(e).(*ast.CallExpr); ok {
		if m, ok := im.methodCall(call, recv); ok && roles.selectors[m] && len(call.Args) >= 2 {
			if f, ok := im.fieldOf(call.Args[0], n); ok {
				d.CondOn = append(d.CondOn, f)
			} else {
				d.Bad = "selector " + m + " tests " + exprString(call.Args[0]) + ", which is not a slot of the node"
				return d
			}
			for _, a := range call.Args[1:] {
				sub := im.parseDefault(a, n, recv, roles, env)
				if sub.Bad != "" {
					return sub
				}
				d.Nil = d.Nil || sub.Nil
				d.Value = d.Value || sub.Value
				d.Consts = append(d.Consts, sub.Consts...)
				d.CondOn = append(d.CondOn, sub.CondOn...)
			}
			d.Nil = true // every selector can return nil
			return d
		}
	}
	d.Bad = "default " + exprString(e) + " is neither nil, a constant lexeme, n.Value nor a nil-selector over the node's own slots"
	return d
}

func (im *Impl) printMethod(res *report.RuleResult, facts *PrintFacts, roles *printRoles, km KM) {
	k, fd := km.Kind, km.Decl
	recv, n := im.recvObj(fd), im.paramObj(fd, 0)
	fn := "printer." + k.Method
	pos := im.pos(fd)
	ps, err := paths.Enumerate(im.Body(fd))
	if err != nil {
		res.Unknown(k.Name, pos, fn, "undecided:idiom: "+err.Error())
		return
	}
	slots := k.Slots()
	bad := map[string]string{}   // per slot
	undec := ""                  // whole method
	orderBad := ""
	localBad := ""

	for pi, path := range ps {
		var evs []slotEvent
		// alias idiom state
		var aliasObj types.Object
		var aliasField string
		var aliasKind *kinds.Kind
		aliasLive := false // inside the branch where the assertion succeeded
		var aliasEvs []slotEvent
		closeAlias := func() {
			if !aliasLive {
				return
			}
			aliasLive = false
			// the alias events must be the complete in-order slot list of aliasKind
			want := aliasKind.Slots()
			i := 0
			okAll := true
			for _, ev := range aliasEvs {
				if i < len(want) && ev.field == want[i].Name {
					i++
					if ev.sep != "" {
						if i < len(want) && want[i].Name == ev.sep {
							i++
						} else {
							okAll = false
						}
					}
				} else {
					okAll = false
				}
			}
			if !okAll || i != len(want) {
				var got []string
				for _, ev := range aliasEvs {
					got = append(got, ev.field)
				}
				bad[aliasField] = fmt.Sprintf("path %d prints the child %s in place through its slots %v, which is not every slot of %s once in order", pi, aliasField, got, aliasKind.Name)
			}
			evs = append(evs, slotEvent{field: aliasField, helper: "inline:" + aliasKind.Name})
			aliasEvs = nil
		}
		record := func(ev slotEvent) {
			if ev.alias {
				aliasEvs = append(aliasEvs, ev)
			} else {
				closeAlias()
				evs = append(evs, ev)
			}
		}
		owner := func(e ast.Expr) (field string, alias bool, ok bool) {
			if f, ok := im.fieldOf(e, n); ok {
				return f, false, true
			}
			if aliasLive {
				if f, ok := im.fieldOf(e, aliasObj); ok {
					return f, true, true
				}
			}
			return "", false, false
		}
		env := map[types.Object]Default{} // local lexeme variables: what they hold on this path
		for _, it := range path {
			switch {
			case it.Stmt != nil:
				switch s := it.Stmt.(type) {
				case *ast.DeclStmt:
					// var lexeme []byte
					okDecl := false
					if gd, ok := s.Decl.(*ast.GenDecl); ok && gd.Tok == token.VAR {
						okDecl = true
						for _, sp := range gd.Specs {
							vs := sp.(*ast.ValueSpec)
							for i, nm := range vs.Names {
								o := im.info().Defs[nm]
								if o == nil || kinds.Classify(o.Type(), im.Kinds) != kinds.Bytes {
									okDecl = false
									continue
								}
								if i < len(vs.Values) {
									env[o] = im.parseDefault(vs.Values[i], n, recv, roles, env)
								} else {
									env[o] = Default{Nil: true}
								}
							}
						}
					}
					if !okDecl {
						undec = fmt.Sprintf("path %d: unrecognised declaration at %s", pi, im.pos(s))
					}
				case *ast.AssignStmt:
					// lexeme = []byte("…") / lexeme := …
					if len(s.Lhs) == 1 && len(s.Rhs) == 1 {
						if id, ok := s.Lhs[0].(*ast.Ident); ok {
							o := im.info().Defs[id]
							if o == nil {
								o = im.info().Uses[id]
							}
							if v, isVar := o.(*types.Var); isVar && !v.IsField() && v.Parent() != v.Pkg().Scope() && kinds.Classify(v.Type(), im.Kinds) == kinds.Bytes {
								env[o] = im.parseDefault(s.Rhs[0], n, recv, roles, env)
								continue
							}
						}
					}
					// stmt, ok := n.F.(*ast.K)
					if f, ko, ao, ok := im.assertAlias(s, n); ok {
						aliasObj, aliasField, aliasKind = ao, f, ko
						continue
					}
					// printer state: p.state = const, p.last = …
					if im.isOwnStateAssign(s, recv) {
						continue
					}
					undec = fmt.Sprintf("path %d: unrecognised assignment at %s", pi, im.pos(s))
				case *ast.ExprStmt:
					call, ok := s.X.(*ast.CallExpr)
					if !ok {
						undec = fmt.Sprintf("path %d: unrecognised statement at %s", pi, im.pos(s))
						continue
					}
					m, ok := im.methodCall(call, recv)
					if !ok {
						undec = fmt.Sprintf("path %d: call %s is not a printer helper", pi, exprString(call))
						continue
					}
					switch m {
					case roles.tok:
						f, al, ok := owner(call.Args[0])
						if !ok {
							localBad = fmt.Sprintf("printToken argument %s is not a slot of the node being printed", exprString(call.Args[0]))
							continue
						}
						def := im.parseDefault(call.Args[1], n, recv, roles, env)
						if al {
							def = im.parseDefault(call.Args[1], aliasObj, recv, roles, env)
						}
						record(slotEvent{field: f, helper: m, def: def, alias: al, pos: call.Pos()})
					case roles.node, roles.list:
						f, al, ok := owner(call.Args[0])
						if !ok {
							localBad = fmt.Sprintf("%s argument %s is not a slot of the node being printed", m, exprString(call.Args[0]))
							continue
						}
						record(slotEvent{field: f, helper: m, alias: al, pos: call.Pos()})
					case roles.seplist:
						f, al, ok := owner(call.Args[0])
						sf, al2, ok2 := owner(call.Args[1])
						if !ok || !ok2 || al != al2 {
							localBad = fmt.Sprintf("printSeparatedList arguments %s, %s are not slots of the node being printed", exprString(call.Args[0]), exprString(call.Args[1]))
							continue
						}
						def := im.parseDefault(call.Args[2], n, recv, roles, env)
						record(slotEvent{field: f, sep: sf, helper: m, def: def, alias: al, pos: call.Pos()})
					case roles.write:
						if c, ok := im.constBytes(call.Args[0]); ok {
							facts.Inserts = appendInsert(facts.Inserts, PrintInsert{Func: fn, Const: c, Pos: im.pos(call)})
						} else {
							localBad = fmt.Sprintf("direct write of %s, which is not a constant lexeme", exprString(call.Args[0]))
						}
					default:
						undec = fmt.Sprintf("path %d: call of %s is not part of the printer idiom", pi, m)
					}
				default:
					undec = fmt.Sprintf("path %d: unrecognised statement at %s", pi, im.pos(it.Stmt))
				}
			case it.Cond != nil:
				// alias success branch: `ok && …` with ok from the assertion
				if aliasObj != nil && im.condImpliesAlias(it.Cond, aliasObj) {
					if it.Truth {
						aliasLive = true
						aliasEvs = nil
					}
				}
				// conditions may only read the node's own slots / printer state
				if why := im.condLocal(it.Cond, n, recv, aliasObj); why != "" {
					localBad = why
				}
			case it.Return != nil:
			default:
				undec = fmt.Sprintf("path %d: loops and switches are not part of the printer idiom (%s)", pi, im.pos(fd))
			}
		}
		closeAlias()
		// coverage and order
		cnt := map[string]int{}
		last := -1
		for _, ev := range evs {
			for _, f := range []string{ev.field, ev.sep} {
				if f == "" {
					continue
				}
				cnt[f]++
				fld := k.Field(f)
				if fld == nil {
					continue
				}
				if fld.Index < last && orderBad == "" {
					orderBad = fmt.Sprintf("path %d emits slot %s after a slot declared later (declaration order is source order)", pi, f)
				}
				last = fld.Index
			}
			fld := k.Field(ev.field)
			if fld == nil {
				continue
			}
			want := map[kinds.Class]string{kinds.Tok: roles.tok, kinds.Node: roles.node, kinds.NodeList: roles.list}
			switch {
			case strings.HasPrefix(ev.helper, "inline:"):
			case ev.helper == roles.seplist:
				sf := k.Field(ev.sep)
				if fld.Class != kinds.NodeList || sf == nil || sf.Class != kinds.TokList {
					bad[ev.field] = "printSeparatedList used on slots of the wrong type"
				} else if sf.Index != fld.Index+1 {
					bad[ev.sep] = fmt.Sprintf("separator slot %s is not the one declared next to list %s", ev.sep, ev.field)
				}
			case want[fld.Class] != ev.helper:
				bad[ev.field] = fmt.Sprintf("slot %s of class %s is emitted through %s", ev.field, fld.Class, ev.helper)
			}
			if ev.def.Bad != "" {
				bad[ev.field] = ev.def.Bad
			}
			for _, c := range ev.def.CondOn {
				if k.Field(c) == nil {
					bad[ev.field] = "default depends on " + c + ", not a slot of this node"
				}
			}
			if ev.helper == roles.tok {
				mergeDefault(facts.Defaults, k.Name+"."+ev.field, ev.def)
			}
			if ev.helper == roles.seplist {
				mergeDefault(facts.SepDef, k.Name+"."+ev.field, ev.def)
			}
		}
		for _, s := range slots {
			switch {
			case cnt[s.Name] == 0:
				if bad[s.Name] == "" {
					bad[s.Name] = fmt.Sprintf("slot %s is never emitted (path %d)", s.Name, pi)
				}
			case cnt[s.Name] > 1:
				bad[s.Name] = fmt.Sprintf("slot %s is emitted %d times (path %d)", s.Name, cnt[s.Name], pi)
			}
		}
	}
	if undec != "" {
		res.Unknown(k.Name, pos, fn, "undecided:idiom: "+undec)
		return
	}
	for _, s := range slots {
		if b := bad[s.Name]; b != "" {
			res.Bad(k.Name+"/"+s.Name, pos, fn, b)
		} else {
			res.OK(k.Name+"/"+s.Name, pos, fn, fmt.Sprintf("emitted exactly once on each of %d paths through the helper for class %s", len(ps), s.Class))
		}
	}
	res.Check(orderBad == "", k.Name+"/order", pos, fn, "slots emitted in declaration order", orderBad)
	res.Check(localBad == "", k.Name+"/local", pos, fn, "reads only its own node's slots and the printer state", localBad)
}

func appendInsert(l []PrintInsert, x PrintInsert) []PrintInsert {
	for _, y := range l {
		if y.Func == x.Func && y.Const == x.Const {
			return l
		}
	}
	return append(l, x)
}

func mergeDefault(m map[string]Default, key string, d Default) {
	old, ok := m[key]
	if !ok {
		m[key] = d
		return
	}
	old.Nil = old.Nil || d.Nil
	old.Value = old.Value || d.Value
	for _, c := range d.Consts {
		dup := false
		for _, o := range old.Consts {
			if o == c {
				dup = true
			}
		}
		if !dup {
			old.Consts = append(old.Consts, c)
		}
	}
	m[key] = old
}

// assertAlias recognises `x, ok := n.F.(*ast.K)`.
func (im *Impl) assertAlias(s *ast.AssignStmt, n types.Object) (string, *kinds.Kind, types.Object, bool) {
	if s.Tok != token.DEFINE || len(s.Lhs) != 2 || len(s.Rhs) != 1 {
		return "", nil, nil, false
	}
	ta, ok := s.Rhs[0].(*ast.TypeAssertExpr)
	if !ok || ta.Type == nil {
		return "", nil, nil, false
	}
	f, ok := im.fieldOf(ta.X, n)
	if !ok {
		return "", nil, nil, false
	}
	tv, ok := im.info().Types[ta.Type]
	if !ok {
		return "", nil, nil, false
	}
	pt, ok := tv.Type.(*types.Pointer)
	if !ok {
		return "", nil, nil, false
	}
	nm, ok := pt.Elem().(*types.Named)
	if !ok {
		return "", nil, nil, false
	}
	k := im.Kinds.ByName[nm.Obj().Name()]
	if k == nil || k.Named.Obj() != nm.Obj() {
		return "", nil, nil, false
	}
	id, ok := s.Lhs[0].(*ast.Ident)
	if !ok {
		return "", nil, nil, false
	}
	return f, k, im.info().Defs[id], true
}

// condImpliesAlias: cond is a conjunction containing the `ok` of the alias
// assertion — approximated by: cond mentions an identifier defined in the same
// statement as alias (the ok variable).
func (im *Impl) condImpliesAlias(cond ast.Expr, alias types.Object) bool {
	found := false
	var conj func(e ast.Expr)
	conj = func(e ast.Expr) {
		e = unparen(e)
		if be, ok := e.(*ast.BinaryExpr); ok && be.Op == token.LAND {
			conj(be.X)
			conj(be.Y)
			return
		}
		if id, ok := e.(*ast.Ident); ok {
			if o := im.info().Uses[id]; o != nil && alias != nil && o.Pos() > alias.Pos() && o.Parent() == alias.Parent() {
				if b, ok := o.Type().(*types.Basic); ok && b.Kind() == types.Bool {
					found = true
				}
			}
		}
	}
	conj(cond)
	return found
}

// condLocal: every selector/identifier in cond refers to n, the alias, the
// receiver's own state, constants, or pure library predicates.
func (im *Impl) condLocal(cond ast.Expr, n, recv, alias types.Object) string {
	why := ""
	ast.Inspect(cond, func(x ast.Node) bool {
		id, ok := x.(*ast.Ident)
		if !ok {
			return true
		}
		o := im.info().Uses[id]
		switch o := o.(type) {
		case *types.Var:
			if o == n || o == recv || o == alias || o.IsField() {
				return true
			}
			if o.Parent() != nil && o.Parent() != o.Pkg().Scope() {
				return true // local (e.g. ok)
			}
			why = "condition reads package-level variable " + o.Name()
		}
		return true
	})
	return why
}

func (im *Impl) isOwnStateAssign(s *ast.AssignStmt, recv types.Object) bool {
	if len(s.Lhs) != 1 {
		return false
	}
	_, ok := im.fieldOf(s.Lhs[0], recv)
	return ok
}

// PrintInserts decides rule print-inserts (C02): every place where the
// printer can write bytes that are not a token's or node's own.
func PrintInserts(p *load.Program, tb *kinds.Table) *report.RuleResult {
	res := report.NewResult("print-inserts")
	_, facts := PrintSlotsFacts(p, tb)
	im, err := FindImpl(p, tb, "pkg/visitor/printer", "printer")
	if err != nil {
		res.Unknown("impl", "-", "", "undecided:anchor: "+err.Error())
		return res
	}
	// inserts inside helpers: any Write call on an io.Writer with a constant argument
	for name, fd := range im.Methods {
		if tb.ByMethod[name] != nil {
			continue
		}
		ast.Inspect(fd.Body, func(x ast.Node) bool {
			call, ok := x.(*ast.CallExpr)
			if !ok {
				return true
			}
			fnObj, _ := typeutil.Callee(im.info(), call).(*types.Func)
			if fnObj == nil || fnObj.Name() != "Write" || len(call.Args) != 1 {
				return true
			}
			if c, ok := im.constBytes(call.Args[0]); ok {
				// keyed by the constant, not by the helper that happens to hold the write: splitting or renaming a helper is not a new insertion
				facts.Inserts = appendInsert(facts.Inserts, PrintInsert{Func: "helper", Const: c, Pos: im.pos(call)})
			}
			return true
		})
	}
	sort.Slice(facts.Inserts, func(i, j int) bool {
		return facts.Inserts[i].Func+facts.Inserts[i].Const < facts.Inserts[j].Func+facts.Inserts[j].Const
	})
	res.Count("insert-sites", len(facts.Inserts))
	for _, in := range facts.Inserts {
		res.Bad(in.Func+"/"+fmt.Sprintf("%q", in.Const), in.Pos, in.Func,
			fmt.Sprintf("the printer can emit the constant %q here, bytes that belong to no token or node of the tree; for a parsed tree every such site is a potential divergence from the source", in.Const))
	}
	res.OK("enumeration", "-", "printer", fmt.Sprintf("all %d direct writes of constants in package printer enumerated; all other output goes through printToken's token/free-floating values or a declared default", len(facts.Inserts)))
	return res
}
