package visitors

import (
	"fmt"
	"go/ast"
	"go/token"
	"go/types"

	"verif/internal/load"
	"verif/internal/report"
)

// ---- fmt-token-text --------------------------------------------------------------------------------------
//
// The formatter may replace a token slot by a token of its own and may give a token it keeps new
// free-floating text, but the text, kind and position of a token that came with the tree are the source:
// a leaf kind keeps its token exactly because the token's text is the node's value, and re-spelling it
// (round 9 seed C17-19: `__line__` upper-cased in the token while `Value` keeps the source spelling) prints
// a program whose re-parse has other values. Obligation per store in the package to the Value, ID or
// Position field of a token: the token is one the formatter holds in a field of its own (the last semicolon
// it made), not one reached through the node a method is given.
func FmtTokenText(p *load.Program, rel string) *report.RuleResult {
	res := report.NewResult("fmt-token-text")
	pk := p.Pkg(rel)
	if pk == nil {
		res.Unknown("pkg", rel, "", "undecided:anchor: package not found")
		return res
	}
	info := pk.TypesInfo
	isToken := func(t types.Type) bool {
		if pt, ok := t.(*types.Pointer); ok {
			t = pt.Elem()
		}
		n, ok := t.(*types.Named)
		return ok && n.Obj().Name() == "Token" && n.Obj().Pkg() != nil && n.Obj().Pkg().Name() == "token"
	}
	for _, fd := range load.FuncDecls(pk) {
		if fd.Body == nil {
			continue
		}
		res.Count("functions", 1)
		var recv types.Object
		if fd.Recv != nil && len(fd.Recv.List) == 1 && len(fd.Recv.List[0].Names) == 1 {
			recv = info.Defs[fd.Recv.List[0].Names[0]]
		}
		n := 0
		ast.Inspect(fd.Body, func(nd ast.Node) bool {
			var lhs []ast.Expr
			switch x := nd.(type) {
			case *ast.AssignStmt:
				lhs = x.Lhs
			case *ast.IncDecStmt:
				lhs = []ast.Expr{x.X}
			}
			for _, l := range lhs {
				se, ok := unparen(l).(*ast.SelectorExpr)
				if !ok {
					// an element of the token's text: tkn.Value[i] = …
					if ix, ok := unparen(l).(*ast.IndexExpr); ok {
						se, ok = unparen(ix.X).(*ast.SelectorExpr)
						if !ok {
							continue
						}
					} else {
						continue
					}
				}
				if se.Sel.Name != "Value" && se.Sel.Name != "ID" && se.Sel.Name != "Position" {
					continue
				}
				bt := info.TypeOf(se.X)
				if bt == nil || !isToken(bt) {
					continue
				}
				n++
				res.Count("stores", 1)
				// the root of the path that leads to the token
				root := unparen(se.X)
				for {
					switch r := root.(type) {
					case *ast.SelectorExpr:
						root = unparen(r.X)
						continue
					case *ast.IndexExpr:
						root = unparen(r.X)
						continue
					case *ast.StarExpr:
						root = unparen(r.X)
						continue
					}
					break
				}
				key := fmt.Sprintf("%s/%s#%d", funcName(fd), exprString(l), n)
				id, isID := root.(*ast.Ident)
				switch {
				case isID && recv != nil && info.Uses[id] == recv:
					res.OK(key, p.Pos(l.Pos()), funcName(fd), "a token the formatter keeps in a field of its own")
				case isID && freshLocal(info, pk.Types, fd, info.Uses[id]):
					res.OK(key, p.Pos(l.Pos()), funcName(fd), "a token made in this function")
				default:
					res.Bad(key, p.Pos(l.Pos()), funcName(fd), fmt.Sprintf("%s rewrites the %s of a token that came with the tree: what is printed no longer is what the node says", exprString(l), map[string]string{"Value": "text", "ID": "kind", "Position": "position"}[se.Sel.Name]))
				}
			}
			return true
		})
	}
	_ = token.ASSIGN
	return res
}

func funcName(fd *ast.FuncDecl) string {
	if fd.Recv != nil && len(fd.Recv.List) == 1 {
		return recvTypeName(fd.Recv.List[0].Type) + "." + fd.Name.Name
	}
	return fd.Name.Name
}


// freshLocal: o is a local variable of fd (not a parameter) and every value it is given in fd is a token made
// on the spot: a composite literal, new(T), or the result of a function of the package (the formatter's
// constructors); never a value read from a node.
func freshLocal(info *types.Info, pkg *types.Package, fd *ast.FuncDecl, o types.Object) bool {
	v, ok := o.(*types.Var)
	if !ok || v.IsField() || v.Pos() < fd.Body.Pos() || v.Pos() > fd.Body.End() {
		return false
	}
	defs, fresh := 0, true
	judge := func(r ast.Expr) {
		defs++
		r = unparen(r)
		if u, ok := r.(*ast.UnaryExpr); ok && u.Op == token.AND {
			r = unparen(u.X)
		}
		switch y := r.(type) {
		case *ast.CompositeLit:
		case *ast.CallExpr:
			if id, ok := y.Fun.(*ast.Ident); ok && id.Name == "new" {
				return
			}
			var fid *ast.Ident
			switch f := y.Fun.(type) {
			case *ast.Ident:
				fid = f
			case *ast.SelectorExpr:
				fid = f.Sel
			}
			if fid != nil {
				if fn, ok := info.Uses[fid].(*types.Func); ok && fn.Pkg() == pkg {
					return
				}
			}
			fresh = false
		default:
			fresh = false
		}
	}
	ast.Inspect(fd.Body, func(n ast.Node) bool {
		switch x := n.(type) {
		case *ast.AssignStmt:
			for i, l := range x.Lhs {
				id, ok := l.(*ast.Ident)
				if !ok || (info.Defs[id] != o && info.Uses[id] != o) {
					continue
				}
				if len(x.Lhs) == len(x.Rhs) {
					judge(x.Rhs[i])
				} else {
					defs++
					fresh = false
				}
			}
		case *ast.ValueSpec:
			for i, nm := range x.Names {
				if info.Defs[nm] == o {
					if i < len(x.Values) {
						judge(x.Values[i])
					} else {
						defs++ // zero value: a nil pointer or an empty token of its own
					}
				}
			}
		case *ast.RangeStmt:
			for _, e := range []ast.Expr{x.Key, x.Value} {
				if id, ok := e.(*ast.Ident); ok && (info.Defs[id] == o || info.Uses[id] == o) {
					defs++
					fresh = false
				}
			}
		}
		return true
	})
	return defs > 0 && fresh
}
