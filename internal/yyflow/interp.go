// Package yyflow is an abstract interpreter for the semantic actions compiled
// into php5.go / php7.go (the `case N:` bodies of yyParserImpl.Parse). Each
// action is executed path by path over symbolic values; the rules in rules.go
// are evaluated on the resulting structures.
package yyflow

import (
	"go/constant"
	"golang.org/x/tools/go/types/typeutil"
	"fmt"
	"go/ast"
	"go/token"
	"go/types"
	"sort"
	"strings"

	"golang.org/x/tools/go/packages"

	"verif/internal/load"
	"verif/internal/norm"
	"verif/internal/yacc"
)

// ---- symbolic values ---------------------------------------------------------

type Val interface{ String() string }

// Sym is the semantic value of the I-th right-hand-side symbol ($I).
type Sym struct {
	I      int
	Member string // token | node | list
}

// Obj is an object created by a composite literal in this action.
type Obj struct {
	ID     int
	TName  string // e.g. ast.StmtIf, ParserSeparatedList, token.Token
	Named  *types.Named
	Fields map[string]Val
	Order  []string // fields in the order they were set
	At     token.Pos
}

// Part is Base.(*T).F for a Base that is not an object of this action.
type Part struct {
	Base Val
	T    string
	F    string
}

// ListV is a concatenation of segments: Elem (one element) or list-valued Vals.
type ListV struct{ Segs []Val }
type Elem struct{ V Val }
type Idx struct {
	Base  Val
	Which string // "0", "last", "i"
}
type Slc struct {
	Base  Val
	Which string // "1:", ":last"
}
type PosV struct {
	Method string
	Args   []Val
	At     token.Pos
}
type ValueOf struct{ Tok Val }
type Nil struct{}
type Stale struct{} // $$ read before assignment in an empty rule
type Opq struct{ What string }

// ErrV is errors.NewError(msg, pos).
type ErrV struct{ Args []Val }

func (v ErrV) String() string {
	var as []string
	for _, a := range v.Args {
		as = append(as, a.String())
	}
	return "NewError(" + strings.Join(as, ", ") + ")"
}

// Global is a package-level variable used as a value.
type Global struct{ Name string }

func (v Global) String() string { return "global:" + v.Name }

func (v Sym) String() string { return fmt.Sprintf("$%d", v.I) }
func (v *Obj) String() string {
	return fmt.Sprintf("&%s#%d", v.TName, v.ID)
}
func (v Part) String() string {
	if v.T == "" {
		return v.Base.String() + "." + v.F
	}
	return v.Base.String() + ".(*" + v.T + ")." + v.F
}
func (v ListV) String() string {
	var ss []string
	for _, s := range v.Segs {
		ss = append(ss, s.String())
	}
	return "[" + strings.Join(ss, " ++ ") + "]"
}
func (v Elem) String() string    { return "<" + v.V.String() + ">" }
func (v Idx) String() string     { return v.Base.String() + "[" + v.Which + "]" }
func (v Slc) String() string     { return v.Base.String() + "[" + v.Which + "]" }
func (v PosV) String() string {
	var ss []string
	for _, a := range v.Args {
		ss = append(ss, a.String())
	}
	return v.Method + "(" + strings.Join(ss, ", ") + ")"
}
func (v ValueOf) String() string { return v.Tok.String() + ".Value" }
func (Nil) String() string       { return "nil" }
func (Stale) String() string     { return "<stale $$>" }
func (v Opq) String() string     { return "{" + v.What + "}" }

// Update is a mutation of something that is not an object of this action
// ($k.(*T).F = v, $k.(*T).F = append(…), *x.GetPosition() = …).
type Update struct {
	Base   Val
	T      string
	F      string
	Val    Val
	Append bool // Val holds only the appended segments
	At     token.Pos
}

type Event struct {
	Kind string // report | assert
	Args []Val
	At   token.Pos
	// assert: what the path knew about the asserted value when the assertion ran
	NonNil bool
	TypeIs string
	LenPos bool // index: the path knew the list to be non-empty
}

// Fact: what a path assumes about a value.
type Fact struct {
	Nil    *bool
	Type   string // asserted dynamic type ("" unknown)
	NotTyp []string
	LenGt0 *bool
}

type State struct {
	env     map[types.Object]Val
	out     map[string]Val
	dollar  map[string]Val // overridden $i members ("3.list")
	Facts   map[string]*Fact
	Updates []Update
	Events  []Event
	Undec   []string
	Conds   []string
	Opaque  []string // conditions assumed on the path that did not become a Fact
	objs    *int
	done    bool
	folds   map[string]Fold
}

func (s *State) fact(v Val) *Fact {
	k := v.String()
	f := s.Facts[k]
	if f == nil {
		f = &Fact{}
		s.Facts[k] = f
	}
	return f
}

func (s *State) KnownNil(v Val) (isNil, known bool) {
	if _, ok := v.(Nil); ok {
		return true, true
	}
	if _, ok := v.(*Obj); ok {
		return false, true
	}
	if f := s.Facts[v.String()]; f != nil && f.Nil != nil {
		return *f.Nil, true
	}
	return false, false
}

func (s *State) clone() *State {
	memo := map[*Obj]*Obj{}
	var cv func(v Val) Val
	cv = func(v Val) Val {
		switch x := v.(type) {
		case *Obj:
			if n, ok := memo[x]; ok {
				return n
			}
			n := &Obj{ID: x.ID, TName: x.TName, Named: x.Named, Fields: map[string]Val{}, At: x.At, Order: append([]string(nil), x.Order...)}
			memo[x] = n
			for k, fv := range x.Fields {
				n.Fields[k] = cv(fv)
			}
			return n
		case Part:
			return Part{cv(x.Base), x.T, x.F}
		case ListV:
			out := ListV{}
			for _, sg := range x.Segs {
				out.Segs = append(out.Segs, cv(sg))
			}
			return out
		case Elem:
			return Elem{cv(x.V)}
		case Idx:
			return Idx{cv(x.Base), x.Which}
		case Slc:
			return Slc{cv(x.Base), x.Which}
		case PosV:
			p := PosV{Method: x.Method, At: x.At}
			for _, a := range x.Args {
				p.Args = append(p.Args, cv(a))
			}
			return p
		case ValueOf:
			return ValueOf{cv(x.Tok)}
		case Fold:
			return Fold{Acc: cv(x.Acc), List: cv(x.List), Dir: x.Dir, Fields: x.Fields, At: x.At}
		}
		return v
	}
	n := &State{env: map[types.Object]Val{}, out: map[string]Val{}, dollar: map[string]Val{}, Facts: map[string]*Fact{}, objs: s.objs, done: s.done}
	for k, v := range s.env {
		n.env[k] = cv(v)
	}
	for k, v := range s.out {
		n.out[k] = cv(v)
	}
	for k, v := range s.dollar {
		n.dollar[k] = cv(v)
	}
	for k, f := range s.Facts {
		c := *f
		n.Facts[k] = &c
	}
	for _, u := range s.Updates {
		n.Updates = append(n.Updates, Update{cv(u.Base), u.T, u.F, cv(u.Val), u.Append, u.At})
	}
	for _, e := range s.Events {
		ne := Event{Kind: e.Kind, At: e.At, NonNil: e.NonNil, TypeIs: e.TypeIs, LenPos: e.LenPos}
		for _, a := range e.Args {
			ne.Args = append(ne.Args, cv(a))
		}
		n.Events = append(n.Events, ne)
	}
	n.Undec = append([]string(nil), s.Undec...)
	n.Conds = append([]string(nil), s.Conds...)
	n.Opaque = append([]string(nil), s.Opaque...)
	if s.folds != nil {
		n.folds = map[string]Fold{}
		for k, f := range s.folds {
			n.folds[k] = cv(f).(Fold)
		}
	}
	return n
}

// ---- the actions of one grammar ----------------------------------------------

type Action struct {
	Prod   *yacc.Production
	Clause *ast.CaseClause
	Body   []ast.Stmt
	Paths  []*Path
	Undec  []string
}

// Path is the outcome of one execution path of an action.
type Path struct {
	St     *State
	Result Val // value of $$ (member of the LHS type); nil if LHS has no type
}

type Lang struct {
	L       *yacc.Lang
	Pkg     *packages.Package
	Prog    *load.Program
	Actions []*Action // index = production number (0 unused)
	Problems []string
	Inlined map[string]int // helper → number of call sites inlined into actions
	Called   map[string]int // function of the package → calls of it written in the actions
	Residual map[string]int // function of the package → calls of it left in the normalised actions (not inlined)
	ntNonEmpty map[string]map[string]bool // nonterminal → "T.F" → list certainly non-empty (set by TreePresence)
}

func (l *Lang) info() *types.Info { return l.Pkg.TypesInfo }

// Extract links productions to their compiled case clauses.
func Extract(p *load.Program, yl *yacc.Lang) (*Lang, error) {
	pk := p.Pkg("internal/" + yl.Label)
	if pk == nil {
		return nil, fmt.Errorf("package internal/%s not found", yl.Label)
	}
	l := &Lang{L: yl, Pkg: pk, Prog: p, Actions: make([]*Action, len(yl.G.Prods))}
	var parse *ast.FuncDecl
	for _, fd := range load.FuncDecls(pk) {
		if fd.Name.Name == "Parse" && fd.Recv != nil && len(fd.Recv.List) == 1 {
			if se, ok := fd.Recv.List[0].Type.(*ast.StarExpr); ok {
				if id, ok := se.X.(*ast.Ident); ok && id.Name == "yyParserImpl" {
					parse = fd
				}
			}
		}
	}
	if parse == nil {
		return nil, fmt.Errorf("internal/%s: yyParserImpl.Parse not found", yl.Label)
	}
	var sw *ast.SwitchStmt
	ast.Inspect(parse.Body, func(n ast.Node) bool {
		if s, ok := n.(*ast.SwitchStmt); ok {
			if id, ok := s.Tag.(*ast.Ident); ok && id.Name == "yynt" {
				sw = s
				return false
			}
		}
		return true
	})
	if sw == nil {
		return nil, fmt.Errorf("internal/%s: action switch not found", yl.Label)
	}
	// helpers of the package (parser.go, node.go) are inlined into the actions, tagless switches become if chains;
	// what the interpreter knows by name stays a call
	prims := map[string]bool{"lastNode": true, "firstNode": true, "isDollar": true, "report": true, "Error": true}
	nz := norm.New(pk, norm.Options{NoCopyProp: true, NoLoops: true, Keep: func(fn *types.Func) bool { return prims[fn.Name()] }})
	l.Inlined = nz.Inlined
	l.Called, l.Residual = map[string]int{}, map[string]int{}
	for _, c := range sw.Body.List {
		cc := c.(*ast.CaseClause)
		if len(cc.List) != 1 {
			l.Problems = append(l.Problems, "case clause with several labels")
			continue
		}
		tv := pk.TypesInfo.Types[cc.List[0]]
		if tv.Value == nil {
			l.Problems = append(l.Problems, "non-constant case label")
			continue
		}
		var n int
		fmt.Sscanf(tv.Value.ExactString(), "%d", &n)
		if n <= 0 || n >= len(l.Actions) {
			l.Problems = append(l.Problems, fmt.Sprintf("case %d has no production", n))
			continue
		}
		a := &Action{Prod: yl.G.Prods[n], Clause: cc}
		// first statement: yyDollar = yyS[yypt-K : yypt+1]
		body := cc.Body
		if len(body) > 0 {
			if as, ok := body[0].(*ast.AssignStmt); ok && len(as.Lhs) == 1 {
				if id, ok := as.Lhs[0].(*ast.Ident); ok && id.Name == "yyDollar" {
					k := -1
					if se, ok := as.Rhs[0].(*ast.SliceExpr); ok {
						if be, ok := se.Low.(*ast.BinaryExpr); ok {
							if tv := pk.TypesInfo.Types[be.Y]; tv.Value != nil {
								fmt.Sscanf(tv.Value.ExactString(), "%d", &k)
							}
						}
					}
					if k != len(a.Prod.RHS) {
						l.Problems = append(l.Problems, fmt.Sprintf("case %d: yyDollar spans %d symbols, production %s has %d", n, k, a.Prod, len(a.Prod.RHS)))
					}
					body = body[1:]
				}
			}
		}
		a.Body = nz.Block(&ast.BlockStmt{Lbrace: cc.Colon, List: body}, nil).List
		l.Actions[n] = a
		// calls of functions of the package: in the action as written, and left in the normalised body
		count := func(stmts []ast.Stmt, into map[string]int) {
			for _, st := range stmts {
				ast.Inspect(st, func(nd ast.Node) bool {
					if call, ok := nd.(*ast.CallExpr); ok {
						if fn, ok := typeutil.Callee(pk.TypesInfo, call).(*types.Func); ok && fn.Pkg() == pk.Types {
							into[fn.Name()]++
						}
					}
					return true
				})
			}
		}
		count(cc.Body, l.Called)
		count(a.Body, l.Residual)
	}
	return l, nil
}

// ---- execution -----------------------------------------------------------------

type interp struct {
	l      *Lang
	a      *Action
	objN   int
	shapes map[string]*Shape
	lenLocals map[types.Object]ast.Expr // locals that hold len(<expr>)
}

// possibleTypes: the object types $k can hold according to the shape summary
// (nil if unknown).
func (in *interp) possibleTypes(v Val) (map[string]map[string]bool, bool) {
	sy, ok := v.(Sym)
	if !ok || in.shapes == nil || sy.I < 1 || sy.I > len(in.a.Prod.RHS) {
		return nil, false
	}
	sh := in.shapes[in.a.Prod.RHS[sy.I-1]]
	if sh == nil || sh.Unknown {
		return nil, false
	}
	return sh.Types, true
}

func (in *interp) mayBeNil(v Val) bool {
	sy, ok := v.(Sym)
	if !ok || in.shapes == nil || sy.I < 1 || sy.I > len(in.a.Prod.RHS) {
		return true
	}
	name := in.a.Prod.RHS[sy.I-1]
	if g := in.l.L.G.Symbols[name]; g != nil && g.Terminal {
		return false
	}
	sh := in.shapes[name]
	return sh == nil || sh.MayNil
}

const maxPaths = 512

// Run executes every action of the grammar.
func (l *Lang) Run(shapes map[string]*Shape) {
	for n := 1; n < len(l.Actions); n++ {
		a := l.Actions[n]
		if a == nil {
			// production without code: $$ = $1 (goyacc default)
			a = &Action{Prod: l.L.G.Prods[n]}
			l.Actions[n] = a
		}
		a.Paths, a.Undec = nil, nil
		in := &interp{l: l, a: a, shapes: shapes}
		st := &State{env: map[types.Object]Val{}, out: map[string]Val{}, dollar: map[string]Val{}, Facts: map[string]*Fact{}, objs: &in.objN}
		states := in.execList(a.Body, []*State{st})
		if len(states) > maxPaths {
			a.Undec = append(a.Undec, "too many paths")
			states = states[:maxPaths]
		}
		lhsT := l.L.G.Symbols[a.Prod.LHS].Type
		for _, s := range states {
			p := &Path{St: s}
			if lhsT != "" {
				if v, ok := s.out[lhsT]; ok {
					p.Result = v
				} else if len(a.Prod.RHS) > 0 && a.Prod.RHS[0] != "error" && l.L.G.Symbols[a.Prod.RHS[0]].Type == lhsT {
					p.Result = in.dollarVal(s, 1, lhsT) // goyacc: $$ defaults to a copy of $1
				} else {
					p.Result = Stale{}
				}
			}
			a.Undec = append(a.Undec, s.Undec...)
			a.Paths = append(a.Paths, p)
		}
		a.Undec = dedupe(a.Undec)
	}
}

func dedupe(ss []string) []string {
	sort.Strings(ss)
	var out []string
	for i, s := range ss {
		if i == 0 || ss[i-1] != s {
			out = append(out, s)
		}
	}
	return out
}

func (in *interp) dollarVal(s *State, i int, member string) Val {
	if v, ok := s.dollar[fmt.Sprintf("%d.%s", i, member)]; ok {
		return v
	}
	return Sym{I: i, Member: member}
}

func (in *interp) undec(s *State, n ast.Node, why string) {
	s.Undec = append(s.Undec, fmt.Sprintf("%s (%s)", why, in.l.Prog.Pos(n.Pos())))
}

func (in *interp) execList(stmts []ast.Stmt, states []*State) []*State {
	for _, st := range stmts {
		var next []*State
		for _, s := range states {
			if s.done {
				next = append(next, s)
				continue
			}
			next = append(next, in.exec(st, s)...)
		}
		states = next
		if len(states) > maxPaths*2 {
			return states
		}
	}
	return states
}

func (in *interp) exec(st ast.Stmt, s *State) []*State {
	info := in.l.info()
	switch x := st.(type) {
	case *ast.BlockStmt:
		return in.execList(x.List, []*State{s})
	case *ast.EmptyStmt:
		return []*State{s}
	case *ast.ExprStmt:
		in.eval(x.X, s)
		return []*State{s}
	case *ast.DeclStmt:
		gd, ok := x.Decl.(*ast.GenDecl)
		if !ok || gd.Tok != token.VAR {
			in.undec(s, st, "unsupported declaration")
			return []*State{s}
		}
		for _, sp := range gd.Specs {
			vs := sp.(*ast.ValueSpec)
			for i, nm := range vs.Names {
				var v Val = in.zero(info.Defs[nm].Type())
				if i < len(vs.Values) {
					v = in.eval(vs.Values[i], s)
				}
				s.env[info.Defs[nm]] = v
			}
		}
		return []*State{s}
	case *ast.AssignStmt:
		return in.assign(x, s)
	case *ast.IncDecStmt:
		return []*State{s}
	case *ast.IfStmt:
		if x.Init != nil {
			states := in.exec(x.Init, s)
			var out []*State
			for _, s2 := range states {
				out = append(out, in.execIf(x, s2)...)
			}
			return out
		}
		return in.execIf(x, s)
	case *ast.TypeSwitchStmt:
		return in.execTypeSwitch(x, s)
	case *ast.SwitchStmt:
		in.undec(s, st, "switch statement")
		return []*State{s}
	case *ast.RangeStmt, *ast.ForStmt:
		return in.execLoop(st, s)
	case *ast.ReturnStmt:
		in.undec(s, st, "return inside an action")
		s.done = true
		return []*State{s}
	}
	in.undec(s, st, fmt.Sprintf("unsupported statement %T", st))
	return []*State{s}
}

func (in *interp) zero(t types.Type) Val {
	switch u := t.Underlying().(type) {
	case *types.Pointer, *types.Interface, *types.Signature:
		return Nil{}
	case *types.Slice:
		_ = u
		return ListV{}
	}
	return Opq{"zero"}
}

// assign handles :=, = with one or several targets.
func (in *interp) assign(x *ast.AssignStmt, s *State) []*State {
	info := in.l.info()
	if x.Tok != token.ASSIGN && x.Tok != token.DEFINE {
		in.undec(s, x, "compound assignment")
		return []*State{s}
	}
	// v, ok := e.(*T)   /  v, err := f()
	if len(x.Lhs) == 2 && len(x.Rhs) == 1 {
		if ta, ok := x.Rhs[0].(*ast.TypeAssertExpr); ok && ta.Type != nil {
			base := in.eval(ta.X, s)
			tn := typeName(info.Types[ta.Type].Type)
			okObj := objOf(info, x.Lhs[1])
			in.bind(x.Lhs[0], base, s)
			if okObj != nil {
				s.env[okObj] = Opq{"ok:" + base.String() + ":" + tn}
			}
			return []*State{s}
		}
		v := in.eval(x.Rhs[0], s)
		in.bind(x.Lhs[0], Opq{"result of " + v.String()}, s)
		in.bind(x.Lhs[1], Opq{"err of " + v.String()}, s)
		return []*State{s}
	}
	if len(x.Lhs) != len(x.Rhs) {
		in.undec(s, x, "tuple assignment")
		return []*State{s}
	}
	vals := make([]Val, len(x.Rhs))
	for i, r := range x.Rhs {
		if t := in.recvText(r, s); t == "yylex.(*Parser)" || t == "yylex.(*Parser).builder" {
			if _, isId := x.Lhs[i].(*ast.Ident); isId {
				vals[i] = Opq{"expr:" + t} // a local name for the parser / the position builder
				continue
			}
		}
		vals[i] = in.eval(r, s)
	}
	for i, l := range x.Lhs {
		// depth := len(L): remembered for loops that index L by depth-1-k
		if id, ok := l.(*ast.Ident); ok {
			if o := info.ObjectOf(id); o != nil {
				delete(in.lenLocals, o)
				if c, ok := unparen(x.Rhs[i]).(*ast.CallExpr); ok && len(c.Args) == 1 {
					if f, ok := c.Fun.(*ast.Ident); ok && f.Name == "len" {
						if in.lenLocals == nil {
							in.lenLocals = map[types.Object]ast.Expr{}
						}
						in.lenLocals[o] = unparen(c.Args[0])
					}
				}
			}
		}
		in.store(l, x.Rhs[i], vals[i], s)
	}
	return []*State{s}
}

// recvText renders the receiver of a call with locals that merely name the parser or its
// position builder (prs := yylex.(*Parser); b := prs.builder) replaced by what they stand for.
func (in *interp) recvText(e ast.Expr, s *State) string {
	e = unparen(e)
	switch x := e.(type) {
	case *ast.Ident:
		if o := objOf(in.l.info(), x); o != nil {
			if v, ok := s.env[o].(Opq); ok && strings.HasPrefix(v.What, "expr:") {
				return v.What[5:]
			}
		}
	case *ast.SelectorExpr:
		if _, isPkg := in.l.info().Uses[identOrNil(x.X)].(*types.PkgName); !isPkg {
			return in.recvText(x.X, s) + "." + x.Sel.Name
		}
	}
	return types.ExprString(e)
}

func identOrNil(e ast.Expr) *ast.Ident {
	id, _ := unparen(e).(*ast.Ident)
	return id
}

func objOf(info *types.Info, e ast.Expr) types.Object {
	id, ok := e.(*ast.Ident)
	if !ok || id.Name == "_" {
		return nil
	}
	if o := info.Defs[id]; o != nil {
		return o
	}
	return info.Uses[id]
}

func (in *interp) bind(lhs ast.Expr, v Val, s *State) {
	if o := objOf(in.l.info(), lhs); o != nil {
		s.env[o] = v
	}
}

// store assigns v to the l-value lhs.
func (in *interp) store(lhs, rhsExpr ast.Expr, v Val, s *State) {
	info := in.l.info()
	lhs = unparen(lhs)
	switch x := lhs.(type) {
	case *ast.Ident:
		if x.Name == "_" {
			return
		}
		if o := objOf(info, x); o != nil {
			s.env[o] = v
		}
		return
	case *ast.StarExpr:
		// *x.GetPosition() = *builder.New…()
		base := in.eval(x.X, s)
		if p, ok := base.(Part); ok && p.F == "Position" {
			in.setField(p.Base, p.T, "Position", v, false, lhs, s)
			return
		}
		in.undec(s, lhs, "store through pointer "+base.String())
		return
	case *ast.SelectorExpr:
		// yyVAL.node = …
		if id, ok := unparen(x.X).(*ast.Ident); ok && id.Name == "yyVAL" {
			s.out[x.Sel.Name] = v
			return
		}
		// yyDollar[i].list = …
		if i, ok := in.dollarIndex(x.X); ok {
			s.dollar[fmt.Sprintf("%d.%s", i, x.Sel.Name)] = v
			return
		}
		// X.F = v
		sel := info.Selections[x]
		if sel == nil || sel.Kind() != types.FieldVal {
			in.undec(s, lhs, "assignment to "+types.ExprString(lhs))
			return
		}
		base := in.eval(x.X, s)
		tn := typeName(info.Types[x.X].Type)
		// is it an append to the same field?
		isAppend := false
		if call, ok := unparen(rhsExpr).(*ast.CallExpr); ok {
			if id, ok := call.Fun.(*ast.Ident); ok && id.Name == "append" && len(call.Args) >= 1 {
				if types.ExprString(unparen(call.Args[0])) == types.ExprString(lhs) {
					isAppend = true
				}
			}
		}
		in.setField(base, tn, x.Sel.Name, v, isAppend, lhs, s)
		return
	case *ast.IndexExpr:
		in.undec(s, lhs, "assignment to an element")
		return
	}
	in.undec(s, lhs, fmt.Sprintf("assignment to %T", lhs))
}

// setField: base.(*T).F = v.
func (in *interp) setField(base Val, tn, f string, v Val, isAppend bool, at ast.Node, s *State) {
	if o, ok := base.(*Obj); ok {
		if _, seen := o.Fields[f]; !seen {
			o.Order = append(o.Order, f)
		}
		o.Fields[f] = v
		return
	}
	if isAppend {
		// v = old ++ new: keep only the new segments
		if lv, ok := v.(ListV); ok && len(lv.Segs) > 0 {
			old := Part{base, tn, f}.String()
			if lv.Segs[0].String() == old {
				// drop the old content (the field itself and what earlier appends of this action added)
				n := 1
				if ov, ok := s.overlay(base, tn, f); ok {
					if ol, ok := ov.(ListV); ok && len(ol.Segs) <= len(lv.Segs) {
						n = len(ol.Segs)
					}
				}
				v = ListV{Segs: lv.Segs[n:]}
			} else {
				isAppend = false
			}
		} else {
			isAppend = false
		}
	}
	key := base.String() + "." + f
	for i := range s.Updates {
		u := &s.Updates[i]
		if u.Base.String()+"."+u.F != key {
			continue
		}
		if isAppend {
			// extend what is already recorded for this field
			old, _ := u.Val.(ListV)
			nv, _ := v.(ListV)
			u.Val = ListV{Segs: append(append([]Val(nil), old.Segs...), nv.Segs...)}
			return
		}
		u.Val, u.Append, u.At = v, false, at.Pos()
		return
	}
	s.Updates = append(s.Updates, Update{Base: base, T: tn, F: f, Val: v, Append: isAppend, At: at.Pos()})
}

// overlay: the value an earlier statement of this action stored in base.F, if any.
func (s *State) overlay(base Val, tn, f string) (Val, bool) {
	key := base.String() + "." + f
	for i := range s.Updates {
		u := &s.Updates[i]
		if u.Base.String()+"."+u.F != key {
			continue
		}
		if !u.Append {
			return u.Val, true
		}
		lv, _ := u.Val.(ListV)
		return ListV{Segs: append([]Val{Part{base, tn, f}}, lv.Segs...)}, true
	}
	return nil, false
}

func (in *interp) dollarIndex(e ast.Expr) (int, bool) {
	ix, ok := unparen(e).(*ast.IndexExpr)
	if !ok {
		return 0, false
	}
	id, ok := unparen(ix.X).(*ast.Ident)
	if !ok || id.Name != "yyDollar" {
		return 0, false
	}
	tv := in.l.info().Types[ix.Index]
	if tv.Value == nil {
		return 0, false
	}
	var n int
	fmt.Sscanf(tv.Value.ExactString(), "%d", &n)
	return n, true
}

func unparen(e ast.Expr) ast.Expr {
	for {
		p, ok := e.(*ast.ParenExpr)
		if !ok {
			return e
		}
		e = p.X
	}
}

func typeName(t types.Type) string {
	if t == nil {
		return ""
	}
	if p, ok := t.(*types.Pointer); ok {
		t = p.Elem()
	}
	if n, ok := t.(*types.Named); ok {
		if n.Obj().Pkg() != nil {
			rel := load.Rel(n.Obj().Pkg())
			if strings.HasPrefix(rel, "internal/php") {
				return n.Obj().Name()
			}
			return n.Obj().Pkg().Name() + "." + n.Obj().Name()
		}
		return n.Obj().Name()
	}
	return types.TypeString(t, func(p *types.Package) string { return p.Name() })
}

// ---- expressions ---------------------------------------------------------------

func (in *interp) eval(e ast.Expr, s *State) Val {
	info := in.l.info()
	e = unparen(e)
	if tv, ok := info.Types[e]; ok {
		if tv.IsNil() {
			return Nil{}
		}
		if tv.Value != nil {
			return Opq{"const " + tv.Value.ExactString()}
		}
	}
	switch x := e.(type) {
	case *ast.Ident:
		if o := objOf(info, x); o != nil {
			if v, ok := s.env[o]; ok {
				return v
			}
			if vr, ok := o.(*types.Var); ok && vr.Parent() == vr.Pkg().Scope() {
				return Global{x.Name}
			}
		}
		return Opq{"ident " + x.Name}
	case *ast.SelectorExpr:
		if id, ok := unparen(x.X).(*ast.Ident); ok && id.Name == "yyVAL" {
			if v, ok := s.out[x.Sel.Name]; ok {
				return v
			}
			if len(in.a.Prod.RHS) > 0 {
				return in.dollarVal(s, 1, x.Sel.Name)
			}
			return Stale{}
		}
		if i, ok := in.dollarIndex(x.X); ok {
			// accessor must match the declared type of the symbol
			if i >= 1 && i <= len(in.a.Prod.RHS) {
				want := in.l.L.G.Symbols[in.a.Prod.RHS[i-1]].Type
				if want != "" && want != x.Sel.Name {
					in.undec(s, e, fmt.Sprintf("$%d is declared <%s> but read as .%s", i, want, x.Sel.Name))
				}
				if want == "" {
					in.undec(s, e, fmt.Sprintf("$%d (%s) has no declared type", i, in.a.Prod.RHS[i-1]))
				}
			}
			return in.dollarVal(s, i, x.Sel.Name)
		}
		sel := info.Selections[x]
		if sel == nil {
			return Opq{"qualified " + types.ExprString(x)}
		}
		if sel.Kind() != types.FieldVal {
			return Opq{"method " + types.ExprString(x)}
		}
		// yylex.(*Parser).currentToken etc.
		if strings.HasPrefix(types.ExprString(x.X), "yylex.(*Parser)") {
			return Opq{"parser." + x.Sel.Name}
		}
		base := in.eval(x.X, s)
		if _, isNilBase := base.(Nil); isNilBase {
			if _, isPtr := info.Types[x.X].Type.Underlying().(*types.Pointer); isPtr {
				// a field of a pointer that is nil on this path: the action panics here
				s.Events = append(s.Events, Event{Kind: "nilderef", Args: []Val{Opq{types.ExprString(x)}}, At: x.Pos()})
			}
		}
		if _, isObj := base.(*Obj); !isObj {
			tn := typeName(info.Types[x.X].Type)
			if v, ok := s.overlay(base, tn, x.Sel.Name); ok {
				return v
			}
			// a field the grammar never populates in the objects that can arrive here is zero
			if pt, ok := in.possibleTypes(base); ok && x.Sel.Name != "Position" {
				if fs, has := pt[tn]; has && !fs[x.Sel.Name] {
					return in.zero(info.Types[e].Type)
				}
			}
		}
		return in.field(base, typeName(info.Types[x.X].Type), x.Sel.Name, info.Types[e].Type)
	case *ast.TypeAssertExpr:
		v := in.eval(x.X, s)
		if x.Type != nil {
			ev := Event{Kind: "assert", Args: []Val{v, Opq{typeName(info.Types[x.Type].Type)}}, At: x.Pos()}
			if isNil, known := s.KnownNil(v); known && !isNil {
				ev.NonNil = true
			}
			if f := s.Facts[v.String()]; f != nil {
				ev.TypeIs = f.Type
			}
			s.Events = append(s.Events, ev)
		}
		return v
	case *ast.UnaryExpr:
		if x.Op == token.AND {
			if cl, ok := unparen(x.X).(*ast.CompositeLit); ok {
				return in.lit(cl, s)
			}
		}
		if x.Op == token.NOT {
			return Opq{"!" + in.eval(x.X, s).String()}
		}
		return Opq{x.Op.String() + in.eval(x.X, s).String()}
	case *ast.StarExpr:
		return in.eval(x.X, s) // *pos: the position value
	case *ast.CompositeLit:
		return in.lit(x, s)
	case *ast.CallExpr:
		return in.call(x, s)
	case *ast.IndexExpr:
		// a package-level table of constants indexed by a constant (messages[errKeyReference]) is that constant
		if c, ok := in.tableConst(x); ok {
			return c
		}
		base := in.eval(x.X, s)
		which := "i"
		if tv := info.Types[x.Index]; tv.Value != nil && tv.Value.ExactString() == "0" {
			which = "0"
		} else if isLenMinus1(x.Index, x.X) {
			which = "last"
		}
		if which != "i" {
			in.indexEvent(s, base, which, x)
		}
		if lv, ok := base.(ListV); ok && len(lv.Segs) > 0 {
			// element of a list built here
			if which == "0" {
				if el, ok := lv.Segs[0].(Elem); ok {
					return el.V
				}
				return Idx{lv.Segs[0], "0"}
			}
			if which == "last" {
				if el, ok := lv.Segs[len(lv.Segs)-1].(Elem); ok {
					return el.V
				}
				return Idx{lv.Segs[len(lv.Segs)-1], "last"}
			}
		}
		if fd, ok := s.folds[base.String()]; ok && which == "0" {
			return fd
		}
		return Idx{base, which}
	case *ast.SliceExpr:
		base := in.eval(x.X, s)
		switch {
		case x.Low != nil && isConst(info, x.Low, "1") && (x.High == nil || isLen(x.High, x.X)):
			in.indexEvent(s, base, "1:", x)
			return Slc{base, "1:"}
		case x.Low == nil && x.High != nil && isLenMinus1(x.High, x.X):
			in.indexEvent(s, base, ":last", x)
			return Slc{base, ":last"}
		case x.Low == nil && x.High == nil:
			return base
		}
		in.undec(s, e, "slice expression "+types.ExprString(e))
		return Opq{"slice"}
	case *ast.BinaryExpr:
		return Opq{in.eval(x.X, s).String() + " " + x.Op.String() + " " + in.eval(x.Y, s).String()}
	case *ast.FuncLit:
		in.undec(s, e, "function literal")
		return Opq{"func"}
	case *ast.BasicLit:
		return Opq{"lit " + x.Value}
	}
	in.undec(s, e, fmt.Sprintf("unsupported expression %T", e))
	return Opq{"?"}
}

func isConst(info *types.Info, e ast.Expr, v string) bool {
	tv := info.Types[e]
	return tv.Value != nil && tv.Value.ExactString() == v
}

func isLen(e, of ast.Expr) bool {
	c, ok := unparen(e).(*ast.CallExpr)
	if !ok || len(c.Args) != 1 {
		return false
	}
	id, ok := c.Fun.(*ast.Ident)
	return ok && id.Name == "len" && types.ExprString(unparen(c.Args[0])) == types.ExprString(unparen(of))
}

func isLenMinus1(e, of ast.Expr) bool {
	b, ok := unparen(e).(*ast.BinaryExpr)
	if !ok || b.Op != token.SUB {
		return false
	}
	if bl, ok := unparen(b.Y).(*ast.BasicLit); !ok || bl.Value != "1" {
		return false
	}
	return isLen(b.X, of)
}

// field reads base.F.
func (in *interp) field(base Val, tn, f string, ft types.Type) Val {
	if o, ok := base.(*Obj); ok {
		if v, ok := o.Fields[f]; ok {
			return v
		}
		if ft != nil {
			return in.zero(ft)
		}
		return Nil{}
	}
	if f == "Value" && (tn == "token.Token") {
		return ValueOf{base}
	}
	return Part{base, tn, f}
}

func (in *interp) lit(cl *ast.CompositeLit, s *State) Val {
	info := in.l.info()
	t := info.Types[cl].Type
	switch u := t.Underlying().(type) {
	case *types.Slice:
		_ = u
		lv := ListV{}
		for _, el := range cl.Elts {
			lv.Segs = append(lv.Segs, Elem{in.eval(el, s)})
		}
		return lv
	case *types.Struct:
		in.objN++
		n, _ := t.(*types.Named)
		o := &Obj{ID: in.objN, TName: typeName(t), Named: n, Fields: map[string]Val{}, At: cl.Pos()}
		for _, el := range cl.Elts {
			kv, ok := el.(*ast.KeyValueExpr)
			if !ok {
				in.undec(s, el, "positional composite literal")
				continue
			}
			k := kv.Key.(*ast.Ident).Name
			o.Fields[k] = in.eval(kv.Value, s)
			o.Order = append(o.Order, k)
		}
		return o
	}
	in.undec(s, cl, "composite literal of type "+t.String())
	return Opq{"lit"}
}

func (in *interp) call(c *ast.CallExpr, s *State) Val {
	info := in.l.info()
	fun := unparen(c.Fun)
	// conversions
	if tv, ok := info.Types[fun]; ok && tv.IsType() {
		if len(c.Args) == 1 {
			return Opq{"conv(" + in.eval(c.Args[0], s).String() + ")"}
		}
	}
	if id, ok := fun.(*ast.Ident); ok {
		switch id.Name {
		case "append":
			out := ListV{}
			addList := func(v Val) {
				if lv, ok := v.(ListV); ok {
					out.Segs = append(out.Segs, lv.Segs...)
				} else if _, ok := v.(Nil); ok {
				} else {
					out.Segs = append(out.Segs, v)
				}
			}
			addList(in.eval(c.Args[0], s))
			for i, a := range c.Args[1:] {
				v := in.eval(a, s)
				if c.Ellipsis.IsValid() && i == len(c.Args)-2 {
					addList(v)
				} else {
					out.Segs = append(out.Segs, Elem{v})
				}
			}
			return out
		case "len":
			return Opq{"len(" + in.eval(c.Args[0], s).String() + ")"}
		case "lastNode":
			return Idx{in.eval(c.Args[0], s), "last"}
		case "firstNode":
			return Idx{in.eval(c.Args[0], s), "0"}
		case "isDollar":
			return Opq{"isDollar"}
		}
	}
	if se, ok := fun.(*ast.SelectorExpr); ok {
		recv := in.recvText(se.X, s)
		switch {
		case recv == "yylex.(*Parser).builder" && strings.HasPrefix(se.Sel.Name, "New") && strings.HasSuffix(se.Sel.Name, "Position"):
			p := PosV{Method: se.Sel.Name, At: c.Pos()}
			for _, a := range c.Args {
				p.Args = append(p.Args, in.eval(a, s))
			}
			return p
		case recv == "yylex.(*Parser)" && (se.Sel.Name == "report" || se.Sel.Name == "errHandlerFunc" || se.Sel.Name == "Error"):
			ev := Event{Kind: "report", At: c.Pos()}
			for _, a := range c.Args {
				ev.Args = append(ev.Args, in.eval(a, s))
			}
			s.Events = append(s.Events, ev)
			return Opq{"report"}
		case se.Sel.Name == "GetPosition" && len(c.Args) == 0:
			return Part{in.eval(se.X, s), "", "Position"}
		case recv == "errors" && se.Sel.Name == "NewError":
			ev := ErrV{}
			for _, a := range c.Args {
				ev.Args = append(ev.Args, in.eval(a, s))
			}
			return ev
		case recv == "strconv" || recv == "bytes" || recv == "strings":
			var as []string
			ev := Event{Kind: "call:" + recv + "." + se.Sel.Name, At: c.Pos()}
			for _, a := range c.Args {
				v := in.eval(a, s)
				as = append(as, v.String())
				ev.Args = append(ev.Args, v)
			}
			s.Events = append(s.Events, ev)
			return Opq{recv + "." + se.Sel.Name + "(" + strings.Join(as, ", ") + ")"}
		}
	}
	in.undec(s, c, "call of "+types.ExprString(c.Fun))
	return Opq{"call"}
}

// ---- conditions ----------------------------------------------------------------

// cond refines state s by assuming e == truth; returns false if the branch is infeasible.
func (in *interp) assume(e ast.Expr, truth bool, s *State) bool {
	info := in.l.info()
	e = unparen(e)
	s.Conds = append(s.Conds, fmt.Sprintf("%s=%v", types.ExprString(e), truth))
	switch x := e.(type) {
	case *ast.UnaryExpr:
		if x.Op == token.NOT {
			s.Conds = s.Conds[:len(s.Conds)-1]
			return in.assume(x.X, !truth, s)
		}
	case *ast.BinaryExpr:
		switch x.Op {
		case token.LAND:
			if truth {
				s.Conds = s.Conds[:len(s.Conds)-1]
				return in.assume(x.X, true, s) && in.assume(x.Y, true, s)
			}
			return true // !(a && b): nothing learnt (over-approximation: both branches explored)
		case token.LOR:
			if !truth {
				s.Conds = s.Conds[:len(s.Conds)-1]
				return in.assume(x.X, false, s) && in.assume(x.Y, false, s)
			}
			return true
		case token.EQL, token.NEQ:
			lv, rv := in.eval(x.X, s), in.eval(x.Y, s)
			var other Val
			if _, ok := rv.(Nil); ok {
				other = lv
			} else if _, ok := lv.(Nil); ok {
				other = rv
			}
			if other != nil {
				isNil := (x.Op == token.EQL) == truth
				if kn, known := s.KnownNil(other); known {
					return kn == isNil
				}
				if isNil && !in.mayBeNil(other) {
					return false
				}
				s.fact(other).Nil = &isNil
				return true
			}
			s.Opaque = append(s.Opaque, fmt.Sprintf("%s=%v", types.ExprString(e), truth))
			return true
		case token.GTR, token.GEQ, token.LSS, token.LEQ:
			// len(x) > 0
			if c, ok := unparen(x.X).(*ast.CallExpr); ok {
				if id, ok := c.Fun.(*ast.Ident); ok && id.Name == "len" && isConst(info, x.Y, "0") && x.Op == token.GTR {
					v := in.eval(c.Args[0], s)
					gt := truth
					s.fact(v).LenGt0 = &gt
					return true
				}
			}
			s.Opaque = append(s.Opaque, fmt.Sprintf("%s=%v", types.ExprString(e), truth))
			return true
		}
	case *ast.Ident:
		// ok from `v, ok := x.(*T)`
		if o := objOf(info, x); o != nil {
			if ov, ok := s.env[o].(Opq); ok && strings.HasPrefix(ov.What, "ok:") {
				rest := strings.TrimPrefix(ov.What, "ok:")
				i := strings.LastIndex(rest, ":")
				valKey, tn := rest[:i], rest[i+1:]
				if valKey == "nil" {
					return !truth // a nil interface never satisfies a type assertion
				}
				f := s.Facts[valKey]
				if f == nil {
					f = &Fact{}
					s.Facts[valKey] = f
				}
				if pt, ok := in.possibleTypesKey(valKey); ok {
					if truth && pt[tn] == nil {
						return false
					}
					if !truth && len(pt) == 1 && pt[tn] != nil && !in.mayBeNilKey(valKey) {
						return false
					}
				}
				if truth {
					if f.Type != "" && f.Type != tn {
						return false
					}
					for _, nt := range f.NotTyp {
						if nt == tn {
							return false
						}
					}
					f.Type = tn
					no := false
					f.Nil = &no
				} else {
					if f.Type == tn {
						return false
					}
					f.NotTyp = append(f.NotTyp, tn)
				}
				return true
			}
		}
	}
	s.Opaque = append(s.Opaque, fmt.Sprintf("%s=%v", types.ExprString(e), truth))
	return true
}

func (in *interp) execIf(x *ast.IfStmt, s *State) []*State {
	var out []*State
	t := s.clone()
	if in.assume(x.Cond, true, t) {
		out = append(out, in.execList(x.Body.List, []*State{t})...)
	}
	f := s
	if in.assume(x.Cond, false, f) {
		if x.Else != nil {
			out = append(out, in.exec(x.Else, f)...)
		} else {
			out = append(out, f)
		}
	}
	return out
}

func (in *interp) execTypeSwitch(x *ast.TypeSwitchStmt, s *State) []*State {
	info := in.l.info()
	var subject ast.Expr
	var bindName *ast.Ident
	switch a := x.Assign.(type) {
	case *ast.AssignStmt:
		bindName = a.Lhs[0].(*ast.Ident)
		subject = a.Rhs[0].(*ast.TypeAssertExpr).X
	case *ast.ExprStmt:
		subject = a.X.(*ast.TypeAssertExpr).X
	}
	if x.Init != nil {
		in.exec(x.Init, s)
	}
	v := in.eval(subject, s)
	var out []*State
	var seen []string
	hasDefault := false
	for _, c := range x.Body.List {
		cc := c.(*ast.CaseClause)
		if cc.List == nil {
			hasDefault = true
			continue
		}
		for _, te := range cc.List {
			tn := typeName(info.Types[te].Type)
			seen = append(seen, tn)
			t := s.clone()
			vv := v
			// re-evaluate in the clone so that object identity is the clone's
			vv = in.eval(subject, t)
			f := t.fact(vv)
			if o, ok := vv.(*Obj); ok {
				if o.TName != tn {
					continue
				}
			} else {
				if f.Type != "" && f.Type != tn {
					continue
				}
				if pt, ok := in.possibleTypes(vv); ok && pt[tn] == nil {
					continue // the grammar never puts a tn there
				}
				f.Type = tn
				no := false
				f.Nil = &no
			}
			t.Conds = append(t.Conds, types.ExprString(subject)+" is "+tn)
			if bindName != nil {
				if o := info.Implicits[cc]; o != nil {
					t.env[o] = vv
				}
			}
			out = append(out, in.execList(cc.Body, []*State{t})...)
		}
	}
	// no case matched
	d := s
	if o, ok := v.(*Obj); ok {
		for _, tn := range seen {
			if o.TName == tn {
				return out
			}
		}
	} else {
		f := d.fact(v)
		if f.Type != "" {
			for _, tn := range seen {
				if f.Type == tn {
					return out
				}
			}
		}
		if pt, ok := in.possibleTypes(v); ok && !in.mayBeNil(v) {
			all := true
			for t := range pt {
				found := false
				for _, tn := range seen {
					if tn == t {
						found = true
					}
				}
				if !found {
					all = false
				}
			}
			if all && len(pt) > 0 {
				return out // every type the grammar can put there has a case
			}
		}
		f.NotTyp = append(f.NotTyp, seen...)
	}
	d.Conds = append(d.Conds, types.ExprString(subject)+" is none of "+strings.Join(seen, ","))
	if hasDefault {
		for _, c := range x.Body.List {
			cc := c.(*ast.CaseClause)
			if cc.List == nil {
				if bindName != nil {
					if o := info.Implicits[cc]; o != nil {
						d.env[o] = v
					}
				}
				out = append(out, in.execList(cc.Body, []*State{d})...)
			}
		}
	} else {
		out = append(out, d)
	}
	return out
}

// execLoop summarises the fold idioms: a range over a list (or a counting
// loop from the end) whose body re-links every element into the chain held in
// $$. The whole list is consumed; the result is a Fold value.
func (in *interp) execLoop(st ast.Stmt, s *State) []*State {
	info := in.l.info()
	var listExpr ast.Expr
	var body *ast.BlockStmt
	reverse := false
	switch x := st.(type) {
	case *ast.RangeStmt:
		// for _, part := range [2][]T{a, b} { … }: the body once per element, in order
		if cl, ok := unparen(x.X).(*ast.CompositeLit); ok && x.Tok == token.DEFINE {
			states := []*State{s}
			for _, el := range cl.Elts {
				if _, isKV := el.(*ast.KeyValueExpr); isKV {
					in.undec(s, st, "keyed composite literal as the range of a loop")
					return []*State{s}
				}
				var next []*State
				for _, cur := range states {
					if id, ok := x.Value.(*ast.Ident); ok && id.Name != "_" {
						if o := info.Defs[id]; o != nil {
							cur.env[o] = in.eval(el, cur)
						}
					}
					next = append(next, in.execList(x.Body.List, []*State{cur})...)
				}
				states = next
			}
			return states
		}
		listExpr, body = x.X, x.Body
	case *ast.ForStmt:
		body = x.Body
		// the loop variable, where it starts and which way it moves
		var loopVar types.Object
		varDir := 0
		if as, ok := x.Init.(*ast.AssignStmt); ok && len(as.Lhs) == 1 && len(as.Rhs) == 1 {
			if id, ok := as.Lhs[0].(*ast.Ident); ok {
				loopVar = info.ObjectOf(id)
			}
		}
		if post, ok := x.Post.(*ast.IncDecStmt); ok {
			if id, ok := unparen(post.X).(*ast.Ident); ok && info.ObjectOf(id) == loopVar && loopVar != nil {
				varDir = 1
				if post.Tok == token.DEC {
					varDir = -1
				}
			}
		}
		// the list the body indexes, and whether the index mirrors the loop variable (len-1-k)
		if loopVar != nil && varDir != 0 {
			lenOfList := func(e ast.Expr, list ast.Expr) bool {
				e = unparen(e)
				if isLen(e, list) {
					return true
				}
				// a local that holds len(list)
				if id, ok := e.(*ast.Ident); ok {
					if o := info.ObjectOf(id); o != nil {
						if d, ok := in.lenLocals[o]; ok && types.ExprString(d) == types.ExprString(unparen(list)) {
							return true
						}
					}
				}
				return false
			}
			isVar := func(e ast.Expr) bool {
				id, ok := unparen(e).(*ast.Ident)
				return ok && info.ObjectOf(id) == loopVar
			}
			ast.Inspect(body, func(n ast.Node) bool {
				ix, ok := n.(*ast.IndexExpr)
				if !ok || listExpr != nil {
					return true
				}
				se, ok := unparen(ix.X).(*ast.SelectorExpr)
				if !ok {
					return true
				}
				if _, isDollar := in.dollarIndex(se.X); !isDollar {
					return true
				}
				idx := unparen(ix.Index)
				switch {
				case isVar(idx):
					listExpr, reverse = ix.X, varDir < 0
				default:
					// len-1-k, len-k-1, len-(k+1): the mirror image of k
					if b, ok := idx.(*ast.BinaryExpr); ok && b.Op == token.SUB {
						mirrored := false
						if l, ok := unparen(b.X).(*ast.BinaryExpr); ok && l.Op == token.SUB && lenOfList(l.X, ix.X) {
							// (len - a) - c with {a, c} = {1, k}
							if (isConst(info, l.Y, "1") && isVar(b.Y)) || (isVar(l.Y) && isConst(info, b.Y, "1")) {
								mirrored = true
							}
						}
						if lenOfList(b.X, ix.X) {
							if r, ok := unparen(b.Y).(*ast.BinaryExpr); ok && r.Op == token.ADD && ((isVar(r.X) && isConst(info, r.Y, "1")) || (isVar(r.Y) && isConst(info, r.X, "1"))) {
								mirrored = true
							}
						}
						if mirrored {
							listExpr, reverse = ix.X, varDir > 0
						}
						// i-1 with i running from len down to 1
						if isVar(b.X) && isConst(info, b.Y, "1") && varDir < 0 {
							listExpr, reverse = ix.X, true
						}
					}
				}
				return true
			})
		}
		if listExpr != nil {
			break
		}
		// for i := len(L)-1; i >= 0; i--
		if as, ok := x.Init.(*ast.AssignStmt); ok && len(as.Rhs) == 1 {
			if b, ok := unparen(as.Rhs[0]).(*ast.BinaryExpr); ok && b.Op == token.SUB {
				if c, ok := unparen(b.X).(*ast.CallExpr); ok && len(c.Args) == 1 {
					listExpr = c.Args[0]
					reverse = true
				}
			}
			// for i := len(L); i > 0; i-- { … L[i-1] … }: the same walk from the end
			if c, ok := unparen(as.Rhs[0]).(*ast.CallExpr); ok && len(c.Args) == 1 {
				if id, ok := c.Fun.(*ast.Ident); ok && id.Name == "len" {
					if post, ok := x.Post.(*ast.IncDecStmt); ok && post.Tok == token.DEC {
						listExpr = c.Args[0]
						reverse = true
					}
				}
			}
		}
	}
	if listExpr == nil {
		in.undec(s, st, "loop shape not recognised")
		return []*State{s}
	}
	_ = info
	list := in.eval(listExpr, s)
	// which fields of the elements does the body assign, and which l-value accumulates the chain?
	var fields []string
	var accExpr ast.Expr
	var localAcc ast.Expr
	ast.Inspect(body, func(n ast.Node) bool {
		if as, ok := n.(*ast.AssignStmt); ok {
			for i, lh := range as.Lhs {
				// a local declared before the loop that the body re-assigns: the chain built so far
				// (the accumulator of a fold moved into a helper: base = link)
				if id, ok := unparen(lh).(*ast.Ident); ok && as.Tok == token.ASSIGN {
					if o := info.Uses[id]; o != nil && o.Pos() < body.Pos() {
						if _, isVar := o.(*types.Var); isVar {
							localAcc = lh
						}
					}
					continue
				}
				se, ok := unparen(lh).(*ast.SelectorExpr)
				if !ok {
					continue
				}
				if id, ok := unparen(se.X).(*ast.Ident); ok && id.Name == "yyVAL" {
					accExpr = lh
					continue
				}
				if _, ok := in.dollarIndex(se.X); ok && i < len(as.Rhs) {
					accExpr = lh
					continue
				}
				fields = append(fields, se.Sel.Name)
			}
		}
		return true
	})
	if accExpr == nil {
		accExpr = localAcc
	}
	if accExpr == nil {
		in.undec(s, st, "loop without an accumulator")
		return []*State{s}
	}
	acc := in.eval(accExpr, s)
	dir := "left"
	if reverse {
		dir = "right"
	}
	fold := Fold{Acc: acc, List: list, Dir: dir, Fields: dedupe(fields), At: st.Pos()}
	in.store(accExpr, accExpr, fold, s)
	if reverse {
		// after a right fold the first element heads the chain
		if s.folds == nil {
			s.folds = map[string]Fold{}
		}
		s.folds[list.String()] = fold
	}
	return []*State{s}
}

// Fold is the chain built by a fold loop: every element of List is linked to
// the previous accumulator through one of Fields.
type Fold struct {
	Acc    Val
	List   Val
	Dir    string
	Fields []string
	At     token.Pos
}

func (v Fold) String() string {
	return fmt.Sprintf("fold-%s(%s ; %s via %s)", v.Dir, v.Acc, v.List, strings.Join(v.Fields, ","))
}

func (in *interp) possibleTypesKey(key string) (map[string]map[string]bool, bool) {
	var i int
	if n, _ := fmt.Sscanf(key, "$%d", &i); n == 1 && key == fmt.Sprintf("$%d", i) {
		return in.possibleTypes(Sym{I: i})
	}
	return nil, false
}

func (in *interp) mayBeNilKey(key string) bool {
	var i int
	if n, _ := fmt.Sscanf(key, "$%d", &i); n == 1 && key == fmt.Sprintf("$%d", i) {
		return in.mayBeNil(Sym{I: i})
	}
	return true
}


// indexEvent records that the element `which` ("0", "last") or the reslice ("1:", ":last") of a list is
// taken: all four need a non-empty list. What the path knows about the list at this point goes with it.
func (in *interp) indexEvent(s *State, base Val, which string, at ast.Expr) {
	ev := Event{Kind: "index", Args: []Val{base, Opq{which}, Opq{types.ExprString(at)}}, At: at.Pos()}
	if isNil, known := s.KnownNil(base); known && !isNil {
		ev.NonNil = true
	}
	if f := s.Facts[base.String()]; f != nil && f.LenGt0 != nil && *f.LenGt0 {
		ev.LenPos = true
	}
	s.Events = append(s.Events, ev)
}


// InlinedIntoActions: the function is called from grammar actions and every such call was inlined into the
// action's body before interpretation, so what the function does to its arguments is judged, call site by
// call site, by the rules over the actions.
func (l *Lang) InlinedIntoActions(name string) bool {
	return l.Called[name] > 0 && l.Residual[name] == 0 && l.Inlined[name] >= l.Called[name]
}


// tableConst: x is T[k] with T a package-level variable of the grammar's package that is initialised with an
// array or slice literal of constants and written nowhere in the package, and k a constant: the element.
func (in *interp) tableConst(x *ast.IndexExpr) (Val, bool) {
	info := in.l.info()
	id, ok := unparen(x.X).(*ast.Ident)
	if !ok {
		return nil, false
	}
	v, ok := info.Uses[id].(*types.Var)
	if !ok || v.Pkg() != in.l.Pkg.Types || v.Parent() != v.Pkg().Scope() {
		return nil, false
	}
	ktv := info.Types[x.Index]
	if ktv.Value == nil {
		return nil, false
	}
	k, exact := constant.Int64Val(constant.ToInt(ktv.Value))
	if !exact {
		return nil, false
	}
	var init ast.Expr
	written := false
	is := func(e ast.Expr) bool {
		li, ok := unparen(e).(*ast.Ident)
		return ok && info.Uses[li] == v
	}
	for _, f := range in.l.Pkg.Syntax {
		ast.Inspect(f, func(n ast.Node) bool {
			switch y := n.(type) {
			case *ast.ValueSpec:
				for i, nm := range y.Names {
					if info.Defs[nm] == v && i < len(y.Values) {
						init = y.Values[i]
					}
				}
			case *ast.AssignStmt:
				for _, l := range y.Lhs {
					if is(l) {
						written = true
					}
					if ix, ok := unparen(l).(*ast.IndexExpr); ok && is(ix.X) {
						written = true
					}
				}
			case *ast.UnaryExpr:
				if y.Op == token.AND {
					if is(y.X) {
						written = true
					}
					if ix, ok := unparen(y.X).(*ast.IndexExpr); ok && is(ix.X) {
						written = true
					}
				}
			case *ast.SliceExpr:
				if is(y.X) {
					written = true // a slice of the table may be written through
				}
			}
			return true
		})
	}
	cl, ok := init.(*ast.CompositeLit)
	if !ok || written {
		return nil, false
	}
	next := int64(0)
	for _, el := range cl.Elts {
		val := el
		if kv, ok := el.(*ast.KeyValueExpr); ok {
			ktv := info.Types[kv.Key]
			if ktv.Value == nil {
				return nil, false
			}
			kk, ok := constant.Int64Val(constant.ToInt(ktv.Value))
			if !ok {
				return nil, false
			}
			next, val = kk, kv.Value
		}
		if next == k {
			if tv := info.Types[val]; tv.Value != nil {
				return Opq{"const " + tv.Value.ExactString()}, true
			}
			return nil, false
		}
		next++
	}
	return nil, false
}
