package yyflow

import (
	"fmt"
	"go/ast"
	"go/constant"
	"go/token"
	"go/types"
	"os"
	"sort"
	"strings"

	"golang.org/x/tools/go/types/typeutil"

	"verif/internal/report"
)

// Canon renders a value completely (objects with all their fields) so that
// two actions can be compared.
func Canon(v Val) string {
	switch x := v.(type) {
	case nil:
		return "-"
	case *Obj:
		var fs []string
		for _, f := range sortedFields(x) {
			if _, isNil := x.Fields[f].(Nil); isNil {
				continue // `F: nil` in a literal is the same object as the literal without F
			}
			fs = append(fs, f+": "+Canon(x.Fields[f]))
		}
		return "&" + x.TName + "{" + strings.Join(fs, ", ") + "}"
	case ListV:
		var ss []string
		for _, sg := range x.Segs {
			ss = append(ss, Canon(sg))
		}
		return "[" + strings.Join(ss, " ++ ") + "]"
	case Elem:
		return "<" + Canon(x.V) + ">"
	case PosV:
		var ss []string
		for _, a := range x.Args {
			ss = append(ss, Canon(a))
		}
		return x.Method + "(" + strings.Join(ss, ", ") + ")"
	case Part:
		return Canon(x.Base) + ".(" + x.T + ")." + x.F
	case Fold:
		return "fold(" + Canon(x.Acc) + "; " + Canon(x.List) + ")"
	}
	return v.String()
}

// operator / keyword token → node kind built by `lhs TOK rhs` (binary), `TOK rhs` (prefix) and `lhs TOK` (postfix)
var binaryKind = map[string]string{
	"'+'": "ExprBinaryPlus", "'-'": "ExprBinaryMinus", "'*'": "ExprBinaryMul", "'/'": "ExprBinaryDiv", "'%'": "ExprBinaryMod", "'.'": "ExprBinaryConcat",
	"T_POW": "ExprBinaryPow", "T_SL": "ExprBinaryShiftLeft", "T_SR": "ExprBinaryShiftRight",
	"'|'": "ExprBinaryBitwiseOr", "'&'": "ExprBinaryBitwiseAnd", "'^'": "ExprBinaryBitwiseXor",
	"T_BOOLEAN_OR": "ExprBinaryBooleanOr", "T_BOOLEAN_AND": "ExprBinaryBooleanAnd",
	"T_LOGICAL_OR": "ExprBinaryLogicalOr", "T_LOGICAL_AND": "ExprBinaryLogicalAnd", "T_LOGICAL_XOR": "ExprBinaryLogicalXor",
	"T_IS_IDENTICAL": "ExprBinaryIdentical", "T_IS_NOT_IDENTICAL": "ExprBinaryNotIdentical", "T_IS_EQUAL": "ExprBinaryEqual", "T_IS_NOT_EQUAL": "ExprBinaryNotEqual",
	"'<'": "ExprBinarySmaller", "'>'": "ExprBinaryGreater", "T_IS_SMALLER_OR_EQUAL": "ExprBinarySmallerOrEqual", "T_IS_GREATER_OR_EQUAL": "ExprBinaryGreaterOrEqual",
	"T_SPACESHIP": "ExprBinarySpaceship", "T_COALESCE": "ExprBinaryCoalesce", "T_INSTANCEOF": "ExprInstanceOf",
	"'='": "ExprAssign", "T_PLUS_EQUAL": "ExprAssignPlus", "T_MINUS_EQUAL": "ExprAssignMinus", "T_MUL_EQUAL": "ExprAssignMul", "T_POW_EQUAL": "ExprAssignPow",
	"T_DIV_EQUAL": "ExprAssignDiv", "T_CONCAT_EQUAL": "ExprAssignConcat", "T_MOD_EQUAL": "ExprAssignMod", "T_AND_EQUAL": "ExprAssignBitwiseAnd",
	"T_OR_EQUAL": "ExprAssignBitwiseOr", "T_XOR_EQUAL": "ExprAssignBitwiseXor", "T_SL_EQUAL": "ExprAssignShiftLeft", "T_SR_EQUAL": "ExprAssignShiftRight",
	"T_COALESCE_EQUAL": "ExprAssignCoalesce",
}

var prefixKind = map[string]string{
	"'+'": "ExprUnaryPlus", "'-'": "ExprUnaryMinus", "'!'": "ExprBooleanNot", "'~'": "ExprBitwiseNot", "'@'": "ExprErrorSuppress",
	"T_INC": "ExprPreInc", "T_DEC": "ExprPreDec", "T_CLONE": "ExprClone", "T_PRINT": "ExprPrint",
	"T_INT_CAST": "ExprCastInt", "T_DOUBLE_CAST": "ExprCastDouble", "T_STRING_CAST": "ExprCastString", "T_ARRAY_CAST": "ExprCastArray",
	"T_OBJECT_CAST": "ExprCastObject", "T_BOOL_CAST": "ExprCastBool", "T_UNSET_CAST": "ExprCastUnset",
	"T_INCLUDE": "ExprInclude", "T_INCLUDE_ONCE": "ExprIncludeOnce", "T_REQUIRE": "ExprRequire", "T_REQUIRE_ONCE": "ExprRequireOnce",
	"T_YIELD_FROM": "ExprYieldFrom",
}

var postfixKind = map[string]string{"T_INC": "ExprPostInc", "T_DEC": "ExprPostDec"}

var leafKind = map[string]string{
	"T_LNUMBER": "ScalarLnumber", "T_DNUMBER": "ScalarDnumber", "T_CONSTANT_ENCAPSED_STRING": "ScalarString", "T_INLINE_HTML": "StmtInlineHtml",
	"T_LINE": "ScalarMagicConstant", "T_FILE": "ScalarMagicConstant", "T_DIR": "ScalarMagicConstant", "T_CLASS_C": "ScalarMagicConstant",
}

// KindOfOperator: a production whose right-hand side is `operand OP operand`,
// `OP operand` or `operand OP` builds the node kind PHP's syntax gives that
// operator, with the operands in the first / last child slot.
func (l *Lang) KindOfOperator() *report.RuleResult {
	res := report.NewResult("kind-of-operator")
	g := l.L.G
	isOperand := func(name string) bool {
		s := g.Symbols[name]
		return s != nil && !s.Terminal && s.Type == "node"
	}
	for n := 1; n < len(l.Actions); n++ {
		a := l.Actions[n]
		rhs := a.Prod.RHS
		if lhs := a.Prod.LHS; !(strings.Contains(lhs, "expr") || strings.Contains(lhs, "scalar") || strings.Contains(lhs, "static_operation") || lhs == "inner_statement" || lhs == "statement" || lhs == "unticked_statement") || g.Symbols[lhs].Type != "node" {
			continue
		}
		want, form := "", ""
		switch {
		case len(rhs) == 3 && isOperand(rhs[0]) && isOperand(rhs[2]) && binaryKind[rhs[1]] != "":
			want, form = binaryKind[rhs[1]], "binary"
		case len(rhs) == 2 && isOperand(rhs[1]) && prefixKind[rhs[0]] != "" && g.Symbols[rhs[0]].Terminal:
			want, form = prefixKind[rhs[0]], "prefix"
		case len(rhs) == 2 && isOperand(rhs[0]) && postfixKind[rhs[1]] != "":
			want, form = postfixKind[rhs[1]], "postfix"
		case len(rhs) == 1 && leafKind[rhs[0]] != "":
			want, form = leafKind[rhs[0]], "leaf"
		default:
			continue
		}
		if strings.Contains(a.Prod.LHS, "static_") || strings.Contains(a.Prod.LHS, "encaps") {
			// constant-expression variants build the same kinds: checked as well
		}
		res.Count("operator-productions", 1)
		key := l.L.Label + ":" + g.Key(a.Prod)
		if len(a.Undec) > 0 || len(a.Paths) == 0 {
			res.Unknown(key, l.actionPos(a), a.Prod.String(), "undecided:idiom: "+strings.Join(a.Undec, "; "))
			continue
		}
		ok := true
		detail := ""
		for _, p := range a.Paths {
			o, isObj := p.Result.(*Obj)
			if !isObj {
				ok, detail = false, "does not build a node: "+Canon(p.Result)
				break
			}
			if o.TName != "ast."+want {
				ok, detail = false, fmt.Sprintf("builds %s; PHP's syntax makes `%s` a %s", o.TName, a.Prod, want)
				break
			}
			// operand roles: first operand in the first Vertex slot, second in the last
			var nodeFields []string
			for _, sl := range l.slots(o.TName) {
				for _, f := range sl {
					if v, ok := o.Fields[f]; ok {
						if sy, ok := v.(Sym); ok && sy.Member == "node" {
							nodeFields = append(nodeFields, fmt.Sprintf("%s=$%d", f, sy.I))
						}
					}
				}
			}
			switch form {
			case "binary":
				if len(nodeFields) != 2 || !strings.HasSuffix(nodeFields[0], "=$1") || !strings.HasSuffix(nodeFields[1], "=$3") {
					ok, detail = false, "operands are not in the roles their position dictates: "+strings.Join(nodeFields, ", ")
				}
			case "prefix":
				if len(nodeFields) != 1 || !strings.HasSuffix(nodeFields[0], "=$2") {
					ok, detail = false, "operand role: "+strings.Join(nodeFields, ", ")
				}
			case "postfix":
				if len(nodeFields) != 1 || !strings.HasSuffix(nodeFields[0], "=$1") {
					ok, detail = false, "operand role: "+strings.Join(nodeFields, ", ")
				}
			}
		}
		if ok {
			res.OK(key, l.actionPos(a), a.Prod.String(), "builds ast."+want+" with the operands in source order")
		} else {
			res.Bad(key, l.actionPos(a), a.Prod.String(), detail)
		}
	}
	return res
}

// signature of a production for pairing across the two grammars: terminals
// by name, nonterminals by the union member they carry.
func (l *Lang) signature(a *Action) string {
	g := l.L.G
	var ss []string
	for _, r := range a.Prod.RHS {
		s := g.Symbols[r]
		if s.Terminal {
			ss = append(ss, r)
		} else {
			ss = append(ss, "<"+s.Type+">")
		}
	}
	return strings.Join(ss, " ")
}

func (l *Lang) summary(a *Action) string {
	var ps []string
	for _, p := range a.Paths {
		s := Canon(p.Result)
		var us []string
		for _, u := range p.St.Updates {
			ap := "="
			if u.Append {
				ap = "+="
			}
			us = append(us, Canon(u.Base)+"."+u.F+ap+Canon(u.Val))
		}
		for _, ev := range p.St.Events {
			if ev.Kind == "assert" {
				continue // how an action spells its assertions is not part of what it builds (rule assert-safe)
			}
			var as []string
			for _, a := range ev.Args {
				as = append(as, Canon(a))
			}
			us = append(us, ev.Kind+"("+strings.Join(as, ", ")+")")
		}
		sort.Strings(us)
		ps = append(ps, "["+p.St.condSummary()+"] "+s+" | "+strings.Join(us, "; "))
	}
	sort.Strings(ps)
	return strings.Join(ps, "\n")
}

// condSummary: what the path assumes, independent of how the action spells and
// orders its tests: the facts about values, then the conditions that are not facts.
func (s *State) condSummary() string {
	var fs []string
	for k, f := range s.Facts {
		var ps []string
		if f.Nil != nil {
			ps = append(ps, map[bool]string{true: "nil", false: "set"}[*f.Nil])
		}
		if f.Type != "" {
			ps = append(ps, "is "+f.Type)
		}
		nt := append([]string(nil), f.NotTyp...)
		sort.Strings(nt)
		for _, t := range nt {
			if f.Type == "" {
				ps = append(ps, "not "+t)
			}
		}
		if f.LenGt0 != nil {
			ps = append(ps, map[bool]string{true: "non-empty", false: "empty"}[*f.LenGt0])
		}
		if len(ps) > 0 {
			fs = append(fs, k+" "+strings.Join(ps, ","))
		}
	}
	fs = append(fs, s.Opaque...)
	sort.Strings(fs)
	return strings.Join(fs, " && ")
}

// normalise the names that legitimately differ between the two packages
func normSummary(s string) string {
	return s
}

// Siblings compares the actions of productions that have the same right-hand
// side shape and build the same node kind in both grammars.
func Siblings(l5, l7 *Lang) *report.RuleResult {
	res := report.NewResult("siblings-5-7")
	type entry struct {
		a   *Action
		sum string
	}
	index := func(l *Lang) map[string][]entry {
		m := map[string][]entry{}
		for n := 1; n < len(l.Actions); n++ {
			a := l.Actions[n]
			if len(a.Undec) > 0 || len(a.Paths) == 0 {
				continue
			}
			kind := ""
			if o, ok := a.Paths[0].Result.(*Obj); ok {
				kind = o.TName
			} else {
				continue // pass-through and list plumbing differ legitimately
			}
			if len(a.Prod.RHS) == 0 {
				continue
			}
			hasTerminal := false
			for _, r := range a.Prod.RHS {
				if l.L.G.Symbols[r].Terminal {
					hasTerminal = true
				}
			}
			if !hasTerminal {
				continue
			}
			k := kind + " <- " + l.signature(a)
			m[k] = append(m[k], entry{a, normSummary(l.summary(a))})
		}
		return m
	}
	m5, m7 := index(l5), index(l7)
	var keys []string
	for k := range m5 {
		if _, ok := m7[k]; ok {
			keys = append(keys, k)
		}
	}
	sort.Strings(keys)
	res.Count("php5-only", len(m5)-len(keys))
	res.Count("php7-only", len(m7)-len(keys))
	for _, k := range keys {
		res.Count("pairs", 1)
		set5, set7 := map[string]*Action{}, map[string]*Action{}
		for _, e := range m5[k] {
			set5[e.sum] = e.a
		}
		for _, e := range m7[k] {
			set7[e.sum] = e.a
		}
		var only5, only7 []string
		for s, a := range set5 {
			if set7[s] == nil {
				only5 = append(only5, l5.L.G.Key(a.Prod))
			}
		}
		for s, a := range set7 {
			if set5[s] == nil {
				only7 = append(only7, l7.L.G.Key(a.Prod))
			}
		}
		sort.Strings(only5)
		sort.Strings(only7)
		a5 := m5[k][0].a
		if why, ok := siblingExceptions[k]; ok {
			res.OK(k, l5.actionPos(a5), k, "reviewed exception: "+why)
			res.Count("reviewed-exceptions", 1)
			continue
		}
		if len(only5) == 0 && len(only7) == 0 {
			res.OK(k, l5.actionPos(a5), k, fmt.Sprintf("%d php5 / %d php7 productions build the node identically (fields, token roles, position boundaries)", len(m5[k]), len(m7[k])))
			continue
		}
		if len(only5) > 0 && len(only7) > 0 {
			d5, d7 := "", ""
			for s, a := range set5 {
				if l5.L.G.Key(a.Prod) == only5[0] {
					d5 = s
				}
			}
			for s, a := range set7 {
				if l7.L.G.Key(a.Prod) == only7[0] {
					d7 = s
				}
			}
			res.Bad(k, l5.actionPos(a5), k, fmt.Sprintf("php5 %s and php7 %s accept the same syntax and build the same node kind but differently:\n        php5: %s\n        php7: %s", strings.Join(only5, ","), strings.Join(only7, ","), firstDiff(d5, d7), firstDiff(d7, d5)))
		} else {
			// one grammar has an extra variant (e.g. a constant-expression copy): not comparable
			res.OK(k, l5.actionPos(a5), k, fmt.Sprintf("variants differ in number (php5 %d, php7 %d); common variants agree", len(set5), len(set7)))
		}
	}
	return res
}

func firstDiff(a, b string) string {
	i := 0
	for i < len(a) && i < len(b) && a[i] == b[i] {
		i++
	}
	lo := i - 60
	if lo < 0 {
		lo = 0
	}
	hi := i + 100
	if hi > len(a) {
		hi = len(a)
	}
	return "…" + a[lo:hi] + "…"
}

// pairs that legitimately differ, each confirmed by reading both actions
var siblingExceptions = map[string]string{
	"ast.ExprList <- T_LIST '(' <node> ')'":      "PHP 5 turns `list()` with one empty slot into an empty list; an empty list() is a compile error in PHP 7, so this is not shared syntax",
	"ast.ExprArrayItem <- T_LIST '(' <node> ')'": "PHP 5 turns a nested `list()` with one empty slot into an empty list; an empty list() is a compile error in PHP 7, so this is not shared syntax",
}

// ReportPositions: every semantic error an action delivers carries a constant
// non-empty message and the Position of a token, or of a node for which the
// grammar has set a Position on every production that can yield it.
func (l *Lang) ReportPositions(shapes map[string]*Shape) *report.RuleResult {
	res := report.NewResult("report-positions")
	g := l.L.G
	for n := 1; n < len(l.Actions); n++ {
		a := l.Actions[n]
		pkey := l.L.Label + ":" + g.Key(a.Prod)
		seen := map[string]bool{}
		orderBad := ""
		nOrdered := 0
		for _, p := range a.Paths {
			// errors arrive in source order: on one path the reports take their positions from symbols in ascending order
			prevI, prevWhat := 0, ""
			for _, ev := range p.St.Events {
				if ev.Kind != "report" || len(ev.Args) != 1 {
					continue
				}
				if e, ok := ev.Args[0].(ErrV); ok && len(e.Args) == 2 {
					if i := rootSym(e.Args[1]); i > 0 {
						if prevI > i && orderBad == "" {
							orderBad = fmt.Sprintf("the error positioned at %s is reported after the one positioned at %s, which comes later in the source: the callback receives them out of source order (path [%s])", e.Args[1], prevWhat, pathLabel(p))
						}
						if prevI > 0 {
							nOrdered++
						}
						prevI, prevWhat = i, e.Args[1].String()
					}
				}
			}
			for _, ev := range p.St.Events {
				if ev.Kind != "report" || len(ev.Args) != 1 {
					continue
				}
				k := fmt.Sprintf("%s/%s", pkey, Canon(ev.Args[0]))
				if len(k) > 160 {
					k = k[:160]
				}
				if seen[k] {
					continue
				}
				seen[k] = true
				res.Count("reports", 1)
				e, ok := ev.Args[0].(ErrV)
				if !ok || len(e.Args) != 2 {
					res.Bad(k, l.Prog.Pos(ev.At), a.Prod.String(), "the reported value is not built by errors.NewError(msg, pos)")
					continue
				}
				msg, isConst := e.Args[0].(Opq)
				if !isConst || !strings.HasPrefix(msg.What, "const \"") || len(msg.What) < 10 {
					res.Bad(k, l.Prog.Pos(ev.At), a.Prod.String(), "error message is not a non-empty constant: "+e.Args[0].String())
					continue
				}
				pp, isPart := e.Args[1].(Part)
				if !isPart || pp.F != "Position" {
					res.Bad(k, l.Prog.Pos(ev.At), a.Prod.String(), "error position is not the Position of a token or node: "+e.Args[1].String())
					continue
				}
				if _, baseNil := pp.Base.(Nil); baseNil {
					res.Bad(k, l.Prog.Pos(ev.At), a.Prod.String(), "the error takes its position from a token or node that is nil on this path (a field the productions of the symbol never set): reading its Position panics instead of reporting")
					continue
				}
				if isNil, known := p.St.KnownNil(pp.Base); known && isNil {
					res.Bad(k, l.Prog.Pos(ev.At), a.Prod.String(), "the error takes its position from "+pp.Base.String()+", which is nil on this path: reading its Position panics instead of reporting")
					continue
				}
				if pp.T == "token.Token" {
					// the token itself must be there: a right-hand-side token is; a token kept in a field of what a
					// right-hand-side symbol yields is there only if every production of that symbol sets the field
					if fld, isField := pp.Base.(Part); isField {
						if sy, ok := fld.Base.(Sym); ok && sy.I >= 1 && sy.I <= len(a.Prod.RHS) {
							sh := shapes[a.Prod.RHS[sy.I-1]]
							if sh == nil || !sh.Types[fld.T][fld.F] {
								res.Bad(k, l.Prog.Pos(ev.At), a.Prod.String(), fmt.Sprintf("the error takes its position from the token $%d.(*%s).%s, which the productions of %s do not (all) set: the token is nil there and reading its Position panics instead of reporting", sy.I, fld.T, fld.F, a.Prod.RHS[sy.I-1]))
								continue
							}
						}
					}
					if sy, ok := pp.Base.(Sym); ok && sy.I >= 1 && sy.I <= len(a.Prod.RHS) && l.tokenMayBeNil(a.Prod.RHS[sy.I-1]) {
						if isNil, known := p.St.KnownNil(sy); !known || isNil {
							res.Bad(k, l.Prog.Pos(ev.At), a.Prod.String(), fmt.Sprintf("the error takes its position from the optional token $%d (%s) without a nil test", sy.I, a.Prod.RHS[sy.I-1]))
							continue
						}
					}
					res.OK(k, l.Prog.Pos(ev.At), a.Prod.String(), "position of token "+pp.Base.String()+" (set by the scanner for every token)")
					continue
				}
				sy, direct := pp.Base.(Sym)
				if !direct || sy.I < 1 || sy.I > len(a.Prod.RHS) {
					res.Unknown(k, l.Prog.Pos(ev.At), a.Prod.String(), "undecided: position of "+pp.Base.String())
					continue
				}
				sh := shapes[a.Prod.RHS[sy.I-1]]
				if sh != nil && sh.Types[pp.T]["Position"] {
					res.OK(k, l.Prog.Pos(ev.At), a.Prod.String(), fmt.Sprintf("position of $%d: every production yielding a %s for %s sets its Position", sy.I, pp.T, a.Prod.RHS[sy.I-1]))
				} else {
					res.Bad(k, l.Prog.Pos(ev.At), a.Prod.String(), fmt.Sprintf("the error takes its position from $%d.(*%s).Position, but the productions of %s build that object without a Position: the error is delivered with a nil position although it is not an end-of-input error", sy.I, pp.T, a.Prod.RHS[sy.I-1]))
				}
			}
		}
		if nOrdered > 0 || orderBad != "" {
			res.Count("report-sequences", 1)
			if orderBad != "" {
				res.Bad(pkey+"/report-order", l.actionPos(a), a.Prod.String(), orderBad)
			} else {
				res.OK(pkey+"/report-order", l.actionPos(a), a.Prod.String(), "several errors on one path are reported in the order of their positions")
			}
		}
	}
	return res
}

// SlotKinds computes, from every action of the grammar, which node kinds can
// be stored in which field of which struct ("T.F" → kinds), by a flow fixpoint
// over nonterminals and fields (elements of lists count for the list field).
// Fields of the parser-private carrier types are kept apart per nonterminal
// ("T.F@nt"), because one carrier type serves many unrelated lists.
func (l *Lang) SlotKinds() map[string]map[string]bool {
	edges := map[string]map[string]bool{} // to → from
	kinds := map[string]map[string]bool{}
	addEdge := func(to, from string) {
		if edges[to] == nil {
			edges[to] = map[string]bool{}
		}
		edges[to][from] = true
	}
	addKind := func(to, k string) {
		if kinds[to] == nil {
			kinds[to] = map[string]bool{}
		}
		kinds[to][k] = true
	}
	slotKey := func(t, f, nt string) string {
		if isCarrier(t) {
			return "slot:" + t + "." + f + "@" + nt
		}
		return "slot:" + t + "." + f
	}
	// carrier struct types of the parser package and their fields
	carrierFields := map[string][]string{}
	sc := l.Pkg.Types.Scope()
	for _, name := range sc.Names() {
		tn, ok := sc.Lookup(name).(*types.TypeName)
		if !ok || strings.HasPrefix(name, "yy") || name == "Parser" {
			continue
		}
		if st, ok := tn.Type().Underlying().(*types.Struct); ok {
			for i := 0; i < st.NumFields(); i++ {
				carrierFields[name] = append(carrierFields[name], st.Field(i).Name())
			}
		}
	}
	for n := 1; n < len(l.Actions); n++ {
		a := l.Actions[n]
		symName := func(i int) string {
			if i >= 1 && i <= len(a.Prod.RHS) {
				return a.Prod.RHS[i-1]
			}
			return "?"
		}
		var flow func(v Val, to string)
		flow = func(v Val, to string) {
			switch x := v.(type) {
			case Sym:
				addEdge(to, "nt:"+symName(x.I))
			case Part:
				if x.F == "Position" || x.F == "Value" || x.T == "" {
					return
				}
				ctx := ""
				if sy, ok := x.Base.(Sym); ok {
					ctx = symName(sy.I)
				}
				addEdge(to, slotKey(x.T, x.F, ctx))
			case ListV:
				for _, sg := range x.Segs {
					flow(sg, to)
				}
			case Elem:
				flow(x.V, to)
			case Idx:
				flow(x.Base, to)
			case Slc:
				flow(x.Base, to)
			case Fold:
				flow(x.Acc, to)
				flow(x.List, to)
			case *Obj:
				addKind(to, x.TName)
				for f, fv := range x.Fields {
					if f != "Position" && f != "Value" {
						flow(fv, slotKey(x.TName, f, a.Prod.LHS))
					}
				}
			}
		}
		for _, p := range a.Paths {
			if p.Result != nil {
				flow(p.Result, "nt:"+a.Prod.LHS)
				if sy, ok := p.Result.(Sym); ok {
					for t, fs := range carrierFields {
						for _, f := range fs {
							addEdge(slotKey(t, f, a.Prod.LHS), slotKey(t, f, symName(sy.I)))
						}
					}
				}
			}
			for _, u := range p.St.Updates {
				if u.F == "Position" || u.F == "Value" || u.T == "" {
					continue
				}
				ctx := ""
				if sy, ok := u.Base.(Sym); ok {
					ctx = symName(sy.I)
				}
				flow(u.Val, slotKey(u.T, u.F, ctx))
			}
		}
	}
	for changed := true; changed; {
		changed = false
		for to, froms := range edges {
			for from := range froms {
				for k := range kinds[from] {
					if kinds[to] == nil {
						kinds[to] = map[string]bool{}
					}
					if !kinds[to][k] {
						kinds[to][k] = true
						changed = true
					}
				}
			}
		}
	}
	out := map[string]map[string]bool{}
	for k, v := range kinds {
		if strings.HasPrefix(k, "slot:") {
			out[strings.TrimPrefix(k, "slot:")] = v
		}
	}
	return out
}

// IgnoresTrivia: no grammar action and no hand-written parser function makes a
// decision that depends on free-floating tokens or on positions (so whitespace,
// comments and line endings cannot change which nodes are built).
func (l *Lang) IgnoresTrivia() *report.RuleResult {
	res := report.NewResult("grammar-ignores-trivia")
	nconds := 0
	bad := map[string]string{}
	for _, f := range l.Pkg.Syntax {
		ast.Inspect(f, func(n ast.Node) bool {
			var cond ast.Expr
			switch x := n.(type) {
			case *ast.IfStmt:
				cond = x.Cond
			case *ast.SwitchStmt:
				cond = x.Tag
			case *ast.ForStmt:
				cond = x.Cond
			}
			if cond == nil {
				return true
			}
			nconds++
			ast.Inspect(cond, func(m ast.Node) bool {
				if se, ok := m.(*ast.SelectorExpr); ok {
					switch se.Sel.Name {
					case "FreeFloating", "StartLine", "EndLine", "StartPos", "EndPos":
						bad[l.Prog.Pos(cond.Pos())] = types.ExprString(cond)
					}
				}
				return true
			})
			return true
		})
	}
	res.Count("conditions", nconds)
	if len(bad) == 0 {
		res.OK(l.L.Label, l.L.G.File, "", fmt.Sprintf("%d conditions in package internal/%s: none reads free-floating tokens or positions", nconds, l.L.Label))
	}
	for pos, c := range bad {
		res.Bad(l.L.Label+"/"+c, pos, "", "a parser decision depends on trivia or positions: "+c)
	}
	return res
}

// ---- presence: which fields are certainly set in every object that reaches the tree ----------

// Presence of one struct type: fields that are non-nil (nodes, tokens) resp.
// non-empty (lists) in every instance the grammar can put into a tree.
type Presence struct {
	Always        map[string]bool
	NonEmpty      map[string]bool
	NonEmptyIfSet map[string]bool // list fields that are nil or non-empty, never an empty non-nil slice
	Sources       int
}

// typeAllowed: on path p the value v can be a *T (type facts from switches and assertions).
func typeAllowed(p *Path, v Val, t string) bool {
	f := p.St.Facts[v.String()]
	if f == nil {
		return true
	}
	if f.Type != "" && f.Type != t {
		return false
	}
	for _, nt := range f.NotTyp {
		if nt == t {
			return false
		}
	}
	return true
}

type presSet struct {
	always, nonEmpty map[string]bool
	emptyNonNil      map[string]bool // list fields that some source sets to a possibly-empty non-nil slice
	top              bool            // no source seen yet
}

func newTop() *presSet { return &presSet{top: true} }

func (p *presSet) meet(always, nonEmpty map[string]bool) bool {
	if p.emptyNonNil == nil {
		p.emptyNonNil = map[string]bool{}
	}
	// a field that is certainly set (non-nil) but not certainly non-empty may be an empty slice
	for k := range always {
		if !nonEmpty[k] && !p.emptyNonNil[k] {
			p.emptyNonNil[k] = true
		}
	}
	if p.top {
		p.top = false
		p.always, p.nonEmpty = map[string]bool{}, map[string]bool{}
		for k := range always {
			p.always[k] = true
		}
		for k := range nonEmpty {
			p.nonEmpty[k] = true
		}
		return true
	}
	ch := false
	for k := range p.always {
		if !always[k] {
			delete(p.always, k)
			ch = true
		}
	}
	for k := range p.nonEmpty {
		if !nonEmpty[k] {
			delete(p.nonEmpty, k)
			ch = true
		}
	}
	return ch
}

// TreePresence computes Presence for every struct type by a fixpoint over the actions.
func (l *Lang) TreePresence(shapes map[string]*Shape) map[string]*Presence {
	g := l.L.G
	escEarly := l.EscapesWhole()
	// per nonterminal and type
	nt := map[string]map[string]*presSet{}
	get := func(x, t string) *presSet {
		if nt[x] == nil {
			nt[x] = map[string]*presSet{}
		}
		if nt[x][t] == nil {
			nt[x][t] = newTop()
		}
		return nt[x][t]
	}
	symName := func(a *Action, i int) string {
		if i >= 1 && i <= len(a.Prod.RHS) {
			return a.Prod.RHS[i-1]
		}
		return ""
	}
	var certain func(a *Action, p *Path, v Val) bool
	var nonEmpty func(a *Action, p *Path, v Val) bool
	certain = func(a *Action, p *Path, v Val) bool {
		if isNil, known := p.St.KnownNil(v); known {
			return !isNil
		}
		switch x := v.(type) {
		case *Obj, Fold:
			return true
		case Sym:
			nm := symName(a, x.I)
			sy := g.Symbols[nm]
			if sy == nil {
				return false
			}
			if sy.Terminal {
				return nm != "error"
			}
			sh := shapes[nm]
			return sh != nil && !sh.MayNil
		case Part:
			if sy, ok := x.Base.(Sym); ok {
				ps := nt[symName(a, sy.I)][x.T]
				if ps == nil || ps.top {
					return true // not computed yet: optimistic start of a greatest fixpoint
				}
				return ps.always[x.F]
			}
			// a field of an object that was itself read from a field: certain if every producer of that type sets it
			for xn, m := range nt {
				if escEarly[xn] {
					continue // only carrier producers are read field by field
				}
				if ps := m[x.T]; ps != nil && !ps.top && !ps.always[x.F] {
					return false
				}
			}
			return true
		case Idx:
			return nonEmpty(a, p, x.Base) || x.Which == "i"
		case ListV:
			return true // a slice value (possibly empty) is never a nil node
		}
		return false
	}
	nonEmpty = func(a *Action, p *Path, v Val) bool {
		if f := p.St.Facts[v.String()]; f != nil && f.LenGt0 != nil && *f.LenGt0 {
			return true
		}
		switch x := v.(type) {
		case ListV:
			for _, sg := range x.Segs {
				if _, ok := sg.(Elem); ok {
					return true
				}
				if nonEmpty(a, p, sg) {
					return true
				}
			}
			return false
		case Sym:
			sh := shapes[symName(a, x.I)]
			return x.Member == "list" && sh != nil && !sh.MayEmpty && !sh.MayNil && !sh.Unknown
		case Part:
			if sy, ok := x.Base.(Sym); ok {
				ps := nt[symName(a, sy.I)][x.T]
				if ps == nil || ps.top {
					return true
				}
				return ps.nonEmpty[x.F]
			}
		}
		return false
	}
	objSets := func(a *Action, p *Path, o *Obj) (map[string]bool, map[string]bool) {
		al, ne := map[string]bool{}, map[string]bool{}
		for f, fv := range o.Fields {
			if certain(a, p, fv) {
				al[f] = true
			}
			if nonEmpty(a, p, fv) {
				ne[f] = true
			}
		}
		return al, ne
	}
	for changed, iter := true, 0; changed && iter < 60; iter++ {
		changed = false
		for n := 1; n < len(l.Actions); n++ {
			a := l.Actions[n]
			for _, p := range a.Paths {
				switch x := p.Result.(type) {
				case *Obj:
					al, ne := objSets(a, p, x)
					if get(a.Prod.LHS, x.TName).meet(al, ne) {
						changed = true
					}
				case Sym:
					src := symName(a, x.I)
					for t, ps := range nt[src] {
						if ps.top || !typeAllowed(p, x, t) {
							continue
						}
						al, ne := map[string]bool{}, map[string]bool{}
						for k := range ps.always {
							al[k] = true
						}
						for k := range ps.nonEmpty {
							ne[k] = true
						}
						for _, u := range p.St.Updates {
							if u.Base.String() != x.String() || u.T != t {
								continue
							}
							if u.Append {
								if lv, ok := u.Val.(ListV); ok && len(lv.Segs) > 0 {
									ne[u.F] = true
								}
								continue
							}
							if certain(a, p, u.Val) {
								al[u.F] = true
							} else {
								delete(al, u.F)
							}
							if nonEmpty(a, p, u.Val) {
								ne[u.F] = true
							} else {
								delete(ne, u.F)
							}
						}
						if get(a.Prod.LHS, t).meet(al, ne) {
							changed = true
						}
					}
				}
			}
		}
	}
	l.ntNonEmpty = map[string]map[string]bool{}
	for x, m := range nt {
		l.ntNonEmpty[x] = map[string]bool{}
		for t, ps := range m {
			if ps.top {
				continue
			}
			for f := range ps.nonEmpty {
				l.ntNonEmpty[x][t+"."+f] = true
			}
		}
	}
	// fields that a later fold sets on the elements of a list nonterminal (PHP 5 member-access chains)
	foldNT := map[string]map[string]bool{}
	addFold := func(x string, fs []string) bool {
		ch := false
		if foldNT[x] == nil {
			foldNT[x] = map[string]bool{}
		}
		for _, f := range fs {
			if !foldNT[x][f] {
				foldNT[x][f] = true
				ch = true
			}
		}
		return ch
	}
	var listSyms func(a *Action, v Val) []string
	listSyms = func(a *Action, v Val) []string {
		switch x := v.(type) {
		case Sym:
			if x.Member == "list" {
				return []string{symName(a, x.I)}
			}
		case ListV:
			var out []string
			for _, sg := range x.Segs {
				out = append(out, listSyms(a, sg)...)
			}
			return out
		case Slc:
			return listSyms(a, x.Base)
		}
		return nil
	}
	for changed := true; changed; {
		changed = false
		for n := 1; n < len(l.Actions); n++ {
			a := l.Actions[n]
			for _, p := range a.Paths {
				var scan func(v Val)
				scan = func(v Val) {
					switch x := v.(type) {
					case Fold:
						for _, s := range listSyms(a, x.List) {
							if addFold(s, x.Fields) {
								changed = true
							}
						}
						scan(x.Acc)
					case *Obj:
						for _, fv := range x.Fields {
							scan(fv)
						}
					case ListV:
						for _, sg := range x.Segs {
							scan(sg)
						}
					case Elem:
						scan(x.V)
					}
				}
				scan(p.Result)
				for _, d := range p.St.dollar {
					scan(d)
				}
				// $k[0].(*T).F = v : an element of list $k gets field F in this action
				for _, u := range p.St.Updates {
					if ix, ok := u.Base.(Idx); ok {
						if _, isNil := u.Val.(Nil); !isNil {
							for _, sname := range listSyms(a, ix.Base) {
								if addFold(sname, []string{u.F}) {
									changed = true
								}
							}
						}
					}
				}
				// a list that flows into the result list of this production inherits what happens to that list later
				if g.Symbols[a.Prod.LHS].Type == "list" {
					var fs []string
					for f := range foldNT[a.Prod.LHS] {
						fs = append(fs, f)
					}
					for _, s := range listSyms(a, p.Result) {
						if addFold(s, fs) {
							changed = true
						}
					}
				}
			}
		}
	}
	// tree-wide: objects placed into the tree
	tree := map[string]*presSet{}
	tget := func(t string) *presSet {
		if tree[t] == nil {
			tree[t] = newTop()
		}
		return tree[t]
	}
	count := map[string]int{}
	esc := l.EscapesWhole()
	// objects that are elements of a list folded in the same action get the fold's fields
	foldObj := map[*Obj][]string{}
	for n := 1; n < len(l.Actions); n++ {
		for _, p := range l.Actions[n].Paths {
			var scan func(v Val)
			scan = func(v Val) {
				switch x := v.(type) {
				case Fold:
					if lv, ok := x.List.(ListV); ok {
						for _, sg := range lv.Segs {
							if el, ok := sg.(Elem); ok {
								if o, ok := el.V.(*Obj); ok {
									foldObj[o] = x.Fields
								}
							}
						}
					}
					scan(x.Acc)
				case *Obj:
					for _, fv := range x.Fields {
						scan(fv)
					}
				}
			}
			scan(p.Result)
		}
	}
	for n := 1; n < len(l.Actions); n++ {
		a := l.Actions[n]
		for _, p := range a.Paths {
			w := l.contents(p)
			if ro, ok := p.Result.(*Obj); ok && !esc[a.Prod.LHS] && isCarrierLike(ro, esc, a) {
				// the result is only a carrier (its consumers take it apart): what is put into it is accounted for where its parts are placed
				w = &walker{l: l, objs: map[*Obj]int{}}
				for _, u := range p.St.Updates {
					if u.F != "Position" && u.F != "Value" {
						w.walk(u.Val, u.Base.String()+"."+u.F, u.At)
					}
				}
			}
			// nested literals and result literals that are placed (not the result object itself: its consumers account for it)
			for _, o := range w.order {
				if ro, ok := p.Result.(*Obj); ok && ro == o {
					continue
				}
				al, ne := objSets(a, p, o)
				if g.Symbols[a.Prod.LHS].Type == "list" {
					// an element of this production's list: a fold over the list sets these fields later
					for f := range foldNT[a.Prod.LHS] {
						al[f] = true
					}
				}
				for _, f := range foldObj[o] {
					al[f] = true
				}
				if os.Getenv("VERIF_DUMP_PRES") == o.TName {
					fmt.Printf("    pres %s nested literal in %s: %v\n", o.TName, l.L.G.Key(a.Prod), al)
				}
				tget(o.TName).meet(al, ne)
				count[o.TName]++
			}
			for _, lf := range w.leaves {
				sy, ok := lf.V.(Sym)
				if !ok {
					continue
				}
				if rs, isRes := p.Result.(Sym); isRes && rs == sy && lf.Where == "$$" {
					continue // passed on
				}
				src := symName(a, sy.I)
				for t, ps := range nt[src] {
					if ps.top || !typeAllowed(p, sy, t) {
						continue
					}
					al, ne := map[string]bool{}, map[string]bool{}
					for k := range ps.always {
						al[k] = true
					}
					for k := range ps.nonEmpty {
						ne[k] = true
					}
					for _, u := range p.St.Updates {
						if u.Base.String() == sy.String() && u.T == t && !u.Append {
							if certain(a, p, u.Val) {
								al[u.F] = true
							}
							if nonEmpty(a, p, u.Val) {
								ne[u.F] = true
							}
						}
					}
					if _, isList := p.Result.(ListV); isList && lf.Where == "$$" && g.Symbols[a.Prod.LHS].Type == "list" {
						for f := range foldNT[a.Prod.LHS] {
							al[f] = true
						}
					}
					if os.Getenv("VERIF_DUMP_PRES") == t {
						fmt.Printf("    pres %s placed from $%d (%s) in %s [%s]: %v\n", t, sy.I, src, l.L.G.Key(a.Prod), pathLabel(p), al)
					}
					tget(t).meet(al, ne)
					count[t]++
				}
			}
		}
	}
	out := map[string]*Presence{}
	for t, ps := range tree {
		if ps.top {
			continue
		}
		pr := &Presence{Always: ps.always, NonEmpty: ps.nonEmpty, NonEmptyIfSet: map[string]bool{}, Sources: count[t]}
		if st := l.structOf(t); st != nil {
			for i := 0; i < st.NumFields(); i++ {
				if _, isSlice := st.Field(i).Type().Underlying().(*types.Slice); isSlice && !ps.emptyNonNil[st.Field(i).Name()] {
					pr.NonEmptyIfSet[st.Field(i).Name()] = true
				}
			}
		}
		out[t] = pr
	}
	return out
}

func isCarrierLike(o *Obj, esc map[string]bool, a *Action) bool { return true }

// CoSet: for every struct type, field F -> the fields that are certainly
// populated in every action that may populate F (tokens that only exist
// together with a child, separators with their list, ...).
func (l *Lang) CoSet(shapes map[string]*Shape) map[string]map[string]map[string]bool {
	out := map[string]map[string]map[string]bool{}
	escCo := l.EscapesWhole()
	// lists held by carriers (nonterminal|Type.Field) that every production of the nonterminal leaves non-empty
	carrierNonEmpty := map[string]bool{}
	for nt, m := range l.carrierPresence(shapes) {
		for tf, ne := range m {
			carrierNonEmpty[nt+"|"+tf] = ne
		}
	}
	meet := func(t, f string, with map[string]bool) {
		if out[t] == nil {
			out[t] = map[string]map[string]bool{}
		}
		cur, ok := out[t][f]
		if !ok {
			cp := map[string]bool{}
			for k := range with {
				cp[k] = true
			}
			out[t][f] = cp
			return
		}
		for k := range cur {
			if !with[k] {
				delete(cur, k)
			}
		}
	}
	for n := 1; n < len(l.Actions); n++ {
		a := l.Actions[n]
		for _, p := range a.Paths {
			certainV := func(v Val) bool {
				if isNil, known := p.St.KnownNil(v); known {
					return !isNil
				}
				switch x := v.(type) {
				case *Obj, Fold, ListV, Part, Idx:
					return true
				case Sym:
					if x.I >= 1 && x.I <= len(a.Prod.RHS) {
						nm := a.Prod.RHS[x.I-1]
						if sy := l.L.G.Symbols[nm]; sy != nil && sy.Terminal {
							return true
						}
						sh := shapes[nm]
						return sh != nil && !sh.MayNil
					}
				}
				return false
			}
			maybeV := func(v Val) bool {
				if _, isNil := v.(Nil); isNil {
					return false
				}
				if isNil, known := p.St.KnownNil(v); known && isNil {
					return false
				}
				return true
			}
			groups := map[string]map[string]Val{} // object identity -> fields
			types_ := map[string]string{}
			w := l.contents(p)
			for _, o := range w.order {
				if ro, ok := p.Result.(*Obj); ok && ro == o && !escCo[a.Prod.LHS] {
					continue // a carrier that consumers take apart
				}
				k := fmt.Sprintf("obj%d", o.ID)
				groups[k] = o.Fields
				types_[k] = o.TName
			}
			for _, u := range p.St.Updates {
				if u.Append {
					continue
				}
				k := u.Base.String() + "|" + u.T
				if groups[k] == nil {
					groups[k] = map[string]Val{}
					types_[k] = u.T
				}
				groups[k][u.F] = u.Val
			}
			var nonEmptyV func(v Val) bool
			nonEmptyV = func(v Val) bool {
				if f := p.St.Facts[v.String()]; f != nil && f.LenGt0 != nil && *f.LenGt0 {
					return true
				}
				switch x := v.(type) {
				case ListV:
					for _, sg := range x.Segs {
						if _, ok := sg.(Elem); ok {
							return true
						}
						if nonEmptyV(sg) {
							return true
						}
					}
				case Sym:
					if x.I >= 1 && x.I <= len(a.Prod.RHS) {
						sh := shapes[a.Prod.RHS[x.I-1]]
						return x.Member == "list" && sh != nil && !sh.MayEmpty && !sh.MayNil && !sh.Unknown
					}
				case Part:
					if sy, ok := x.Base.(Sym); ok && carrierNonEmpty != nil && sy.I >= 1 && sy.I <= len(a.Prod.RHS) {
						return carrierNonEmpty[a.Prod.RHS[sy.I-1]+"|"+x.T+"."+x.F]
					}
				}
				return false
			}
			for k, fields := range groups {
				certainSet := map[string]bool{}
				for f, v := range fields {
					if certainV(v) {
						certainSet[f] = true
					}
					// a list that is certainly non-empty: an emptiness test of it decides absence
					if nonEmptyV(v) {
						certainSet[f+"#nonempty"] = true
					}
				}
				for f, v := range fields {
					if maybeV(v) {
						meet(types_[k], f, certainSet)
					}
				}
			}
		}
	}
	return out
}


// AssertSafe: a single-value type assertion x.(T) in an action panics when x is
// nil or holds another type. For every assertion on a right-hand-side value $k
// the rule requires that the path has established $k != nil when the
// productions of that symbol can yield nil, and has established the type when
// they can yield a node of another type.
func (l *Lang) AssertSafe(shapes map[string]*Shape) *report.RuleResult {
	res := report.NewResult("assert-safe")
	g := l.L.G
	for n := 1; n < len(l.Actions); n++ {
		a := l.Actions[n]
		pkey := l.L.Label + ":" + g.Key(a.Prod)
		type verdict struct {
			bad string
			at  token.Pos
		}
		seen := map[string]*verdict{}
		var order []string
		for _, p := range a.Paths {
			for _, ev := range p.St.Events {
				if ev.Kind != "assert" || len(ev.Args) != 2 {
					continue
				}
				sy, ok := ev.Args[0].(Sym)
				if !ok || sy.I < 1 || sy.I > len(a.Prod.RHS) || sy.Member != "node" {
					continue
				}
				tn := ev.Args[1].(Opq).What
				name := a.Prod.RHS[sy.I-1]
				if gs := g.Symbols[name]; gs == nil || gs.Terminal {
					continue
				}
				k := fmt.Sprintf("%s/$%d.(%s)", pkey, sy.I, tn)
				v := seen[k]
				if v == nil {
					v = &verdict{at: ev.At}
					seen[k] = v
					order = append(order, k)
				}
				sh := shapes[name]
				if sh == nil || sh.Unknown {
					continue
				}
				if sh.MayNil && !ev.NonNil && v.bad == "" {
					v.bad = fmt.Sprintf("$%d (%s) can be nil (an empty or error alternative yields nil) and the path [%s] reaches $%d.(%s) without a nil test of $%d: the assertion panics", sy.I, name, strings.Join(p.St.Conds, "; "), sy.I, tn, sy.I)
				}
				if ev.TypeIs != tn && v.bad == "" {
					var others []string
					for t := range sh.Types {
						if t != tn && !strings.HasSuffix(tn, "Vertex") {
							others = append(others, t)
						}
					}
					sort.Strings(others)
					if len(others) > 0 && !interfaceName(tn) {
						v.bad = fmt.Sprintf("$%d (%s) can hold %s, and the path [%s] reaches $%d.(%s) without a test of the dynamic type: the assertion panics", sy.I, name, strings.Join(others, ", "), strings.Join(p.St.Conds, "; "), sy.I, tn)
					}
				}
			}
		}
		for _, k := range order {
			v := seen[k]
			res.Count("assertions", 1)
			if v.bad == "" {
				res.OK(k, l.Prog.Pos(v.at), a.Prod.String(), "the asserted value is non-nil and of the asserted type on every path")
			} else {
				res.Bad(k, l.Prog.Pos(v.at), a.Prod.String(), v.bad)
			}
		}
	}
	return res
}

func interfaceName(tn string) bool { return tn == "ast.Vertex" || !strings.Contains(tn, ".") }


// carrierPresence: nonterminal → "T.F" → the list in field F of the T objects the nonterminal yields is never empty.
func (l *Lang) carrierPresence(shapes map[string]*Shape) map[string]map[string]bool {
	if l.ntNonEmpty == nil {
		l.TreePresence(shapes)
	}
	return l.ntNonEmpty
}

// ---- int-parse-decimal --------------------------------------------------------------------------------
//
// A grammar action that has to decide whether a token's text is an integer (the offset of `"$a[12]"` is an
// integer, the offsets of `"$a[0x1A]"`, `"$a[0b11]"` and `"$a[1_000]"` are strings) does so with an integer
// parse of the text; PHP's rule is decimal. Every call of an integer-parsing function of strconv in an
// action must therefore be a decimal parse: Atoi, or ParseInt/ParseUint with the constant base 10 and the
// platform's or 64-bit size. A base of 0 accepts prefixes and separators, another base other digits.
// Actions that build a number node from such a token without any integer parse are reported too.
func (l *Lang) IntParseDecimal() *report.RuleResult {
	res := report.NewResult("int-parse-decimal")
	info := l.info()
	for n := 1; n < len(l.Actions); n++ {
		a := l.Actions[n]
		if a == nil || a.Clause == nil {
			continue
		}
		type site struct {
			pos token.Pos
			bad string
		}
		var sites []site
		ast.Inspect(a.Clause, func(nd ast.Node) bool {
			call, ok := nd.(*ast.CallExpr)
			if !ok {
				return true
			}
			fn, _ := typeutil.Callee(info, call).(*types.Func)
			if fn == nil || fn.Pkg() == nil || fn.Pkg().Path() != "strconv" {
				return true
			}
			constArg := func(i int) (int64, bool) {
				if i >= len(call.Args) {
					return 0, false
				}
				if tv := info.Types[call.Args[i]]; tv.Value != nil {
					return constant.Int64Val(constant.ToInt(tv.Value))
				}
				return 0, false
			}
			switch fn.Name() {
			case "Atoi":
				sites = append(sites, site{call.Pos(), ""})
			case "ParseInt", "ParseUint":
				base, ok1 := constArg(1)
				bits, ok2 := constArg(2)
				switch {
				case !ok1 || !ok2:
					sites = append(sites, site{call.Pos(), "base or size is not a constant"})
				case base != 10:
					sites = append(sites, site{call.Pos(), fmt.Sprintf("parses with base %d: PHP decides with a decimal parse (base 0 also accepts 0x/0b/0o prefixes and `_` separators)", base)})
				case bits != 0 && bits != 64:
					sites = append(sites, site{call.Pos(), fmt.Sprintf("parses into %d bits: PHP's integer is the platform's 64-bit int", bits)})
				default:
					sites = append(sites, site{call.Pos(), ""})
				}
			case "ParseFloat", "ParseBool", "Unquote":
				sites = append(sites, site{call.Pos(), "decides with strconv." + fn.Name() + ", not with an integer parse"})
			}
			return true
		})
		for i, s := range sites {
			res.Count("parses", 1)
			key := fmt.Sprintf("%s:%s/parse#%d", l.L.Label, l.L.G.Key(a.Prod), i+1)
			if s.bad == "" {
				res.OK(key, l.Prog.Pos(s.pos), a.Prod.String(), "decimal integer parse")
			} else {
				res.Bad(key, l.Prog.Pos(s.pos), a.Prod.String(), "the integer parse that tells an integer from a string "+s.bad)
			}
		}
	}
	return res
}

// ---- empty-list-literal ---------------------------------------------------------------------------------
//
// The printer tells an absent list from a present one by nil-ness (the delimiters of an argument list are
// printed when the list is not nil), the formatter by length (delimiters are generated when the list has
// elements). The two agree as long as the grammars never put an empty but non-nil list into a node: an absent
// list is nil, a present one has elements or comes with its delimiter tokens. The only empty list literals in
// the actions are the values of the empty alternatives of list nonterminals (`$$ = []ast.Vertex{}`). The rule
// requires exactly that: an empty slice literal (or make with length 0) appears in an action only as the whole
// value assigned to `$$`, never as a field of a node or of a parser-private carrier (seed C17-13: the
// placeholder of an anonymous class without parentheses got `Arguments: []ast.Vertex{}`; printed with `()`,
// formatted without, and the formatted text parses into another tree).
func (l *Lang) EmptyListLiteral() *report.RuleResult {
	res := report.NewResult("empty-list-literal")
	info := l.info()
	for n := 1; n < len(l.Actions); n++ {
		a := l.Actions[n]
		if a == nil || a.Clause == nil {
			continue
		}
		isEmptySlice := func(e ast.Expr) bool {
			switch x := e.(type) {
			case *ast.CompositeLit:
				if len(x.Elts) != 0 {
					return false
				}
				t := info.TypeOf(x)
				if t == nil {
					return false
				}
				_, ok := t.Underlying().(*types.Slice)
				return ok
			case *ast.CallExpr:
				if id, ok := x.Fun.(*ast.Ident); ok && id.Name == "make" && len(x.Args) >= 2 {
					if _, isSl := info.TypeOf(x).Underlying().(*types.Slice); isSl {
						if tv := info.Types[x.Args[1]]; tv.Value != nil && tv.Value.String() == "0" {
							return true
						}
					}
				}
			}
			return false
		}
		// the literals that are the whole right-hand side of an assignment to the action's result
		whole := map[ast.Expr]bool{}
		ast.Inspect(a.Clause, func(nd ast.Node) bool {
			if as, ok := nd.(*ast.AssignStmt); ok && len(as.Lhs) == 1 && len(as.Rhs) == 1 {
				if se, ok := as.Lhs[0].(*ast.SelectorExpr); ok {
					if id, ok := se.X.(*ast.Ident); ok && id.Name == "yyVAL" {
						whole[as.Rhs[0]] = true
					}
				}
			}
			return true
		})
		i := 0
		ast.Inspect(a.Clause, func(nd ast.Node) bool {
			e, ok := nd.(ast.Expr)
			if !ok || !isEmptySlice(e) {
				return true
			}
			i++
			res.Count("literals", 1)
			key := fmt.Sprintf("%s:%s/literal#%d", l.L.Label, l.L.G.Key(a.Prod), i)
			if whole[e] {
				res.OK(key, l.Prog.Pos(e.Pos()), a.Prod.String(), "the value of an empty list production")
			} else {
				res.Bad(key, l.Prog.Pos(e.Pos()), a.Prod.String(), "an empty but non-nil list is put into a node or carrier: the printer takes it for present (prints the delimiters), the formatter for absent (drops them)")
			}
			return true
		})
	}
	return res
}

// ---- fold-span ---------------------------------------------------------------------------------------------
//
// PHP 5's grammar builds `$a->b[0]()->c` by folding a list of links into an accumulator: every iteration makes
// the link the parent of what was accumulated so far (`nn.Var = acc`), gives it the span from the start of the
// accumulated expression to its own end (`nn.Position = NewNodesPosition(acc, nn)`) and makes it the new
// accumulator (`acc = nn`). The span is right only in that order: computed after `acc = nn` it runs from the
// link to itself, and the node no longer contains its first child (round 6). For every case of every such
// type switch the rule requires: the position is computed from (accumulator, link), and before the
// accumulator is replaced.
func (l *Lang) FoldSpan() *report.RuleResult {
	res := report.NewResult("fold-span")
	// the fold loops may stand in the action or in a function of the package the action calls
	// (`$$ = p.foldAccessChain($$, $4)`): every function of the package is searched, and the floor counts
	// the actions that fold - directly or through such a function -, not the copies of the loop
	info := l.info()
	folding := map[*types.Func]bool{}
	inAction := map[ast.Node]bool{}
	for n := 1; n < len(l.Actions); n++ {
		if a := l.Actions[n]; a != nil && a.Clause != nil {
			inAction[a.Clause] = true
		}
	}
	for _, f := range l.Pkg.Syntax {
		for _, d := range f.Decls {
			fd, ok := d.(*ast.FuncDecl)
			if !ok || fd.Body == nil {
				continue
			}
			hasAction := false
			ast.Inspect(fd.Body, func(nd ast.Node) bool {
				if inAction[nd] {
					hasAction = true
				}
				return !hasAction
			})
			if hasAction {
				continue // the parser's driver: its actions are visited one by one below
			}
			if l.foldSteps(res, fd.Body, "func "+fd.Name.Name, fd.Name.Name) > 0 {
				if fn, ok := info.Defs[fd.Name].(*types.Func); ok {
					folding[fn] = true
				}
			}
		}
	}
	for n := 1; n < len(l.Actions); n++ {
		a := l.Actions[n]
		if a == nil || a.Clause == nil {
			continue
		}
		k := l.foldSteps(res, a.Clause, fmt.Sprintf("%s:%s", l.L.Label, l.L.G.Key(a.Prod)), a.Prod.String())
		ast.Inspect(a.Clause, func(nd ast.Node) bool {
			if call, ok := nd.(*ast.CallExpr); ok {
				if fn, ok := typeutil.Callee(info, call).(*types.Func); ok && folding[fn] {
					k++
				}
			}
			return true
		})
		if k > 0 {
			res.Count("folding-actions", 1)
		}
	}
	return res
}

// foldSteps checks the fold steps under root and returns their number.
func (l *Lang) foldSteps(res *report.RuleResult, root ast.Node, keyPrefix, subject string) int {
	loopNo := 0
	steps := 0
	ast.Inspect(root, func(nd ast.Node) bool {
		ts, ok := nd.(*ast.TypeSwitchStmt)
		if !ok {
			return true
		}
		as, ok := ts.Assign.(*ast.AssignStmt)
		if !ok || len(as.Lhs) != 1 {
			return true
		}
		bound, ok := as.Lhs[0].(*ast.Ident)
		if !ok {
			return true
		}
		loopNo++
		for _, c := range ts.Body.List {
			cc := c.(*ast.CaseClause)
			if len(cc.List) != 1 {
				continue
			}
			// statements of the clause, in order
			accAssign, posAssign := -1, -1
			var acc string
			var posCall *ast.CallExpr
			for i, st := range cc.Body {
				s, ok := st.(*ast.AssignStmt)
				if !ok || len(s.Lhs) != 1 || len(s.Rhs) != 1 {
					continue
				}
				if id, ok := s.Rhs[0].(*ast.Ident); ok && id.Name == bound.Name && accAssign < 0 {
					lhs := types.ExprString(s.Lhs[0])
					if !strings.HasPrefix(lhs, bound.Name+".") {
						accAssign, acc = i, lhs
					}
				}
				if se, ok := s.Lhs[0].(*ast.SelectorExpr); ok && se.Sel.Name == "Position" {
					if id, ok := se.X.(*ast.Ident); ok && id.Name == bound.Name {
						if call, ok := s.Rhs[0].(*ast.CallExpr); ok && posAssign < 0 {
							posAssign, posCall = i, call
						}
					}
				}
			}
			if accAssign < 0 || posAssign < 0 {
				continue // not a fold step that re-positions the link
			}
			steps++
			res.Count("fold-steps", 1)
			key := fmt.Sprintf("%s/fold#%d/%s", keyPrefix, loopNo, types.ExprString(cc.List[0]))
			pos := l.Prog.Pos(cc.Pos())
			var bad []string
			if posAssign > accAssign {
				bad = append(bad, fmt.Sprintf("the span is computed after `%s = %s`: it runs from the link to itself, and the node does not contain what was accumulated before it", acc, bound.Name))
			}
			if len(posCall.Args) == 2 {
				a0, a1 := types.ExprString(posCall.Args[0]), types.ExprString(posCall.Args[1])
				if a0 != acc {
					bad = append(bad, fmt.Sprintf("the span starts at %s, not at the accumulated expression %s", a0, acc))
				}
				if a1 != bound.Name {
					bad = append(bad, fmt.Sprintf("the span ends at %s, not at the link %s", a1, bound.Name))
				}
			} else {
				bad = append(bad, "the span is not computed from the accumulated expression and the link")
			}
			if len(bad) == 0 {
				res.OK(key, pos, subject, "span from the accumulated expression to the link, computed before the accumulator is replaced")
			} else {
				res.Bad(key, pos, subject, strings.Join(bad, "; "))
			}
		}
		return true
	})
	return steps
}

// ---- list-index ----------------------------------------------------------------------------------------------
//
// `$3[len($3)-1]`, `$4[0]`, `$4[1:]`, `pairList.Items[0]`: an action takes the first or last element of a
// list a right-hand-side symbol carries (or reslices it by one). On an empty list the action panics - on the
// input that makes the list empty. The rule takes every such expression the interpreter evaluated (also
// inside functions of the package that the normaliser inlined into the action) and requires the list to be
// non-empty on that path: the symbol's productions never yield an empty list, and either never yield nil or
// the path tested the value against nil; a list built in the action with an element; a field of a carrier
// object that every production of the symbol fills with a non-empty list; or a length test on the path.
// Elements taken at a loop variable are bounded by the loop and are not obligations of this rule, nor are
// index expressions on anything that is not a list of semantic values (a package-level table).
func (l *Lang) ListIndex(shapes map[string]*Shape) *report.RuleResult {
	res := report.NewResult("list-index")
	g := l.L.G
	if l.ntNonEmpty == nil {
		l.TreePresence(shapes)
	}
	for n := 1; n < len(l.Actions); n++ {
		a := l.Actions[n]
		if a == nil {
			continue
		}
		symName := func(i int) string {
			if i >= 1 && i <= len(a.Prod.RHS) {
				return a.Prod.RHS[i-1]
			}
			return ""
		}
		var nonEmpty func(v Val, ev *Event) (bool, string)
		nonEmpty = func(v Val, ev *Event) (bool, string) {
			if ev != nil && ev.LenPos {
				return true, "its length is tested on the path"
			}
			switch x := v.(type) {
			case ListV:
				for _, sg := range x.Segs {
					if _, ok := sg.(Elem); ok {
						return true, "built here with an element"
					}
				}
				for _, sg := range x.Segs {
					if ok, why := nonEmpty(sg, nil); ok {
						return true, "extends a list that is non-empty: " + why
					}
				}
				return false, "the list built here can be empty"
			case Sym:
				nm := symName(x.I)
				sy := g.Symbols[nm]
				if sy == nil || sy.Terminal {
					return false, nm + " is not a list-valued nonterminal"
				}
				sh := shapes[nm]
				switch {
				case sh == nil || sh.Unknown:
					return false, "what " + nm + " yields is not summarised"
				case sh.MayEmpty:
					return false, "a production of " + nm + " yields an empty list"
				case sh.MayNil && !(ev != nil && ev.NonNil):
					return false, "a production of " + nm + " yields nil and the path does not test for it"
				}
				return true, "no production of " + nm + " yields an empty list"
			case Part:
				if sy, ok := x.Base.(Sym); ok {
					nm := symName(sy.I)
					if l.ntNonEmpty[nm][x.T+"."+x.F] {
						return true, fmt.Sprintf("every production of %s fills %s.%s with a non-empty list", nm, x.T, x.F)
					}
					return false, fmt.Sprintf("some production of %s leaves %s.%s empty", nm, x.T, x.F)
				}
			case Slc:
				return false, "a reslice of a list can be empty"
			}
			return false, fmt.Sprintf("the list %s is not one the rule can bound", v.String())
		}
		type verdict struct {
			ok   bool
			why  string
			at   token.Pos
			path string
		}
		sites := map[string]*verdict{}
		var order []string
		for _, p := range a.Paths {
			for i := range p.St.Events {
				ev := &p.St.Events[i]
				if ev.Kind != "index" {
					continue
				}
				// only lists that come from the semantic values: a right-hand-side symbol, a carrier's field, a list
				// built here, a reslice of one; a package-level table indexed by a constant is not this rule's
				switch b := ev.Args[0].(type) {
				case Sym, ListV, Slc, Idx:
				case Part:
					if _, isSym := b.Base.(Sym); !isSym {
						continue
					}
				default:
					continue
				}
				k := fmt.Sprintf("%s:%s/%s", l.L.Label, g.Key(a.Prod), ev.Args[2])
				ok, why := nonEmpty(ev.Args[0], ev)
				v := sites[k]
				if v == nil {
					v = &verdict{ok: true, why: why, at: ev.At}
					sites[k] = v
					order = append(order, k)
				}
				if !ok && v.ok {
					v.ok, v.why, v.path = false, why, pathLabel(p)
				}
			}
		}
		for _, k := range order {
			v := sites[k]
			res.Count("sites", 1)
			if v.ok {
				res.OK(k, l.Prog.Pos(v.at), a.Prod.String(), "the list is non-empty: "+v.why)
			} else {
				res.Bad(k, l.Prog.Pos(v.at), a.Prod.String(), fmt.Sprintf("the list can be empty on the path [%s]: %s; the action panics", v.path, v.why))
			}
		}
	}
	return res
}

// ---- nil-deref ---------------------------------------------------------------------------------------------
//
// On some path of an action a field is read through a pointer that is nil on that path: a local pointer that
// only one branch assigns (`var args *ArgumentList; if $2 != nil { args = … }; args.X`), or a token field that
// no production of the symbol sets (`$4.(*ast.StmtClass).ExtendsTkn.Position`). The action panics there - on
// valid input (`new class {}`) or instead of reporting an error. The abstract interpreter of the actions knows
// which values are nil on a path (assignments of nil, declarations without a value, fields the productions of
// a symbol never populate, branches that tested the value); every selector evaluated on such a value is an
// obligation.
func (l *Lang) NilDeref() *report.RuleResult {
	res := report.NewResult("nil-deref")
	g := l.L.G
	for n := 1; n < len(l.Actions); n++ {
		a := l.Actions[n]
		if a == nil {
			continue
		}
		res.Count("actions", 1)
		seen := map[string]bool{}
		for _, p := range a.Paths {
			for _, ev := range p.St.Events {
				if ev.Kind != "nilderef" {
					continue
				}
				k := fmt.Sprintf("%s:%s/%s", l.L.Label, g.Key(a.Prod), ev.Args[0])
				if seen[k] {
					continue
				}
				seen[k] = true
				res.Bad(k, l.Prog.Pos(ev.At), a.Prod.String(), fmt.Sprintf("%s is read through a pointer that is nil on the path [%s]: the action panics", ev.Args[0], pathLabel(p)))
			}
		}
		if len(seen) == 0 {
			res.OK(l.L.Label+":"+g.Key(a.Prod), l.actionPos(a), a.Prod.String(), "no field is read through a pointer that is nil on the path")
		}
	}
	return res
}

// ---- kind-oracle -------------------------------------------------------------------------------------------
//
// Which node kind a production builds is the grammar's answer to "what is this construct". kind-of-operator
// decides it for operator productions from PHP's operator table; for everything else the rule compares, per
// production (keyed by its left-hand side and right-hand side, not by its number), the set of kinds the action
// can return on its paths - a node kind, a pass-through of a right-hand-side symbol, a list, nil - with the
// table testdata/oracle/production_kinds.json, produced from the pinned tree. `foreach ($a as [$x, $y])` builds
// an ExprList; building an ExprArray there (round 6) is printed identically and accepted silently, but it is
// another program to the formatter and to every consumer of the tree.
func (l *Lang) ProductionKinds() map[string][]string {
	out := map[string][]string{}
	for n := 1; n < len(l.Actions); n++ {
		a := l.Actions[n]
		if a == nil {
			continue
		}
		key := a.Prod.LHS + ": " + strings.Join(a.Prod.RHS, " ")
		set := map[string]bool{}
		if len(a.Undec) > 0 {
			set["?undecided"] = true
		}
		for _, p := range a.Paths {
			switch v := p.Result.(type) {
			case *Obj:
				set[v.TName] = true
			case Sym:
				set[fmt.Sprintf("=$%d", v.I)] = true
			case Nil:
				set["nil"] = true
			case ListV:
				set["list"] = true
			case nil:
				set["-"] = true
			case Stale:
				set["stale"] = true
			default:
				set["other"] = true
			}
		}
		var ks []string
		for k := range set {
			ks = append(ks, k)
		}
		sort.Strings(ks)
		if old, dup := out[key]; dup {
			ks = dedupe(append(old, ks...))
			sort.Strings(ks)
		}
		out[key] = ks
	}
	return out
}
