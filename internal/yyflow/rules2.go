package yyflow

import (
	"fmt"
	"go/ast"
	"go/types"
	"sort"
	"strings"

	"verif/internal/report"
)

// Canon renders a value completely (objects with all their fields) so that
// two actions can be compared.
func Canon(v Val) string {
	switch x := v.(type) {
	case nil:
		return "-"
	case *Obj:
		var fs []string
		for _, f := range sortedFields(x) {
			fs = append(fs, f+": "+Canon(x.Fields[f]))
		}
		return "&" + x.TName + "{" + strings.Join(fs, ", ") + "}"
	case ListV:
		var ss []string
		for _, sg := range x.Segs {
			ss = append(ss, Canon(sg))
		}
		return "[" + strings.Join(ss, " ++ ") + "]"
	case Elem:
		return "<" + Canon(x.V) + ">"
	case PosV:
		var ss []string
		for _, a := range x.Args {
			ss = append(ss, Canon(a))
		}
		return x.Method + "(" + strings.Join(ss, ", ") + ")"
	case Part:
		return Canon(x.Base) + ".(" + x.T + ")." + x.F
	case Fold:
		return "fold(" + Canon(x.Acc) + "; " + Canon(x.List) + ")"
	}
	return v.String()
}

// operator / keyword token → node kind built by `lhs TOK rhs` (binary), `TOK rhs` (prefix) and `lhs TOK` (postfix)
var binaryKind = map[string]string{
	"'+'": "ExprBinaryPlus", "'-'": "ExprBinaryMinus", "'*'": "ExprBinaryMul", "'/'": "ExprBinaryDiv", "'%'": "ExprBinaryMod", "'.'": "ExprBinaryConcat",
	"T_POW": "ExprBinaryPow", "T_SL": "ExprBinaryShiftLeft", "T_SR": "ExprBinaryShiftRight",
	"'|'": "ExprBinaryBitwiseOr", "'&'": "ExprBinaryBitwiseAnd", "'^'": "ExprBinaryBitwiseXor",
	"T_BOOLEAN_OR": "ExprBinaryBooleanOr", "T_BOOLEAN_AND": "ExprBinaryBooleanAnd",
	"T_LOGICAL_OR": "ExprBinaryLogicalOr", "T_LOGICAL_AND": "ExprBinaryLogicalAnd", "T_LOGICAL_XOR": "ExprBinaryLogicalXor",
	"T_IS_IDENTICAL": "ExprBinaryIdentical", "T_IS_NOT_IDENTICAL": "ExprBinaryNotIdentical", "T_IS_EQUAL": "ExprBinaryEqual", "T_IS_NOT_EQUAL": "ExprBinaryNotEqual",
	"'<'": "ExprBinarySmaller", "'>'": "ExprBinaryGreater", "T_IS_SMALLER_OR_EQUAL": "ExprBinarySmallerOrEqual", "T_IS_GREATER_OR_EQUAL": "ExprBinaryGreaterOrEqual",
	"T_SPACESHIP": "ExprBinarySpaceship", "T_COALESCE": "ExprBinaryCoalesce", "T_INSTANCEOF": "ExprInstanceOf",
	"'='": "ExprAssign", "T_PLUS_EQUAL": "ExprAssignPlus", "T_MINUS_EQUAL": "ExprAssignMinus", "T_MUL_EQUAL": "ExprAssignMul", "T_POW_EQUAL": "ExprAssignPow",
	"T_DIV_EQUAL": "ExprAssignDiv", "T_CONCAT_EQUAL": "ExprAssignConcat", "T_MOD_EQUAL": "ExprAssignMod", "T_AND_EQUAL": "ExprAssignBitwiseAnd",
	"T_OR_EQUAL": "ExprAssignBitwiseOr", "T_XOR_EQUAL": "ExprAssignBitwiseXor", "T_SL_EQUAL": "ExprAssignShiftLeft", "T_SR_EQUAL": "ExprAssignShiftRight",
	"T_COALESCE_EQUAL": "ExprAssignCoalesce",
}

var prefixKind = map[string]string{
	"'+'": "ExprUnaryPlus", "'-'": "ExprUnaryMinus", "'!'": "ExprBooleanNot", "'~'": "ExprBitwiseNot", "'@'": "ExprErrorSuppress",
	"T_INC": "ExprPreInc", "T_DEC": "ExprPreDec", "T_CLONE": "ExprClone", "T_PRINT": "ExprPrint",
	"T_INT_CAST": "ExprCastInt", "T_DOUBLE_CAST": "ExprCastDouble", "T_STRING_CAST": "ExprCastString", "T_ARRAY_CAST": "ExprCastArray",
	"T_OBJECT_CAST": "ExprCastObject", "T_BOOL_CAST": "ExprCastBool", "T_UNSET_CAST": "ExprCastUnset",
	"T_INCLUDE": "ExprInclude", "T_INCLUDE_ONCE": "ExprIncludeOnce", "T_REQUIRE": "ExprRequire", "T_REQUIRE_ONCE": "ExprRequireOnce",
	"T_YIELD_FROM": "ExprYieldFrom",
}

var postfixKind = map[string]string{"T_INC": "ExprPostInc", "T_DEC": "ExprPostDec"}

var leafKind = map[string]string{
	"T_LNUMBER": "ScalarLnumber", "T_DNUMBER": "ScalarDnumber", "T_CONSTANT_ENCAPSED_STRING": "ScalarString", "T_INLINE_HTML": "StmtInlineHtml",
	"T_LINE": "ScalarMagicConstant", "T_FILE": "ScalarMagicConstant", "T_DIR": "ScalarMagicConstant", "T_CLASS_C": "ScalarMagicConstant",
}

// KindOfOperator: a production whose right-hand side is `operand OP operand`,
// `OP operand` or `operand OP` builds the node kind PHP's syntax gives that
// operator, with the operands in the first / last child slot.
func (l *Lang) KindOfOperator() *report.RuleResult {
	res := report.NewResult("kind-of-operator")
	g := l.L.G
	isOperand := func(name string) bool {
		s := g.Symbols[name]
		return s != nil && !s.Terminal && s.Type == "node"
	}
	for n := 1; n < len(l.Actions); n++ {
		a := l.Actions[n]
		rhs := a.Prod.RHS
		if lhs := a.Prod.LHS; !(strings.Contains(lhs, "expr") || strings.Contains(lhs, "scalar") || strings.Contains(lhs, "static_operation") || lhs == "inner_statement" || lhs == "statement" || lhs == "unticked_statement") || g.Symbols[lhs].Type != "node" {
			continue
		}
		want, form := "", ""
		switch {
		case len(rhs) == 3 && isOperand(rhs[0]) && isOperand(rhs[2]) && binaryKind[rhs[1]] != "":
			want, form = binaryKind[rhs[1]], "binary"
		case len(rhs) == 2 && isOperand(rhs[1]) && prefixKind[rhs[0]] != "" && g.Symbols[rhs[0]].Terminal:
			want, form = prefixKind[rhs[0]], "prefix"
		case len(rhs) == 2 && isOperand(rhs[0]) && postfixKind[rhs[1]] != "":
			want, form = postfixKind[rhs[1]], "postfix"
		case len(rhs) == 1 && leafKind[rhs[0]] != "":
			want, form = leafKind[rhs[0]], "leaf"
		default:
			continue
		}
		if strings.Contains(a.Prod.LHS, "static_") || strings.Contains(a.Prod.LHS, "encaps") {
			// constant-expression variants build the same kinds: checked as well
		}
		res.Count("operator-productions", 1)
		key := l.L.Label + ":" + g.Key(a.Prod)
		if len(a.Undec) > 0 || len(a.Paths) == 0 {
			res.Unknown(key, l.actionPos(a), a.Prod.String(), "undecided:idiom: "+strings.Join(a.Undec, "; "))
			continue
		}
		ok := true
		detail := ""
		for _, p := range a.Paths {
			o, isObj := p.Result.(*Obj)
			if !isObj {
				ok, detail = false, "does not build a node: "+Canon(p.Result)
				break
			}
			if o.TName != "ast."+want {
				ok, detail = false, fmt.Sprintf("builds %s; PHP's syntax makes `%s` a %s", o.TName, a.Prod, want)
				break
			}
			// operand roles: first operand in the first Vertex slot, second in the last
			var nodeFields []string
			for _, sl := range l.slots(o.TName) {
				for _, f := range sl {
					if v, ok := o.Fields[f]; ok {
						if sy, ok := v.(Sym); ok && sy.Member == "node" {
							nodeFields = append(nodeFields, fmt.Sprintf("%s=$%d", f, sy.I))
						}
					}
				}
			}
			switch form {
			case "binary":
				if len(nodeFields) != 2 || !strings.HasSuffix(nodeFields[0], "=$1") || !strings.HasSuffix(nodeFields[1], "=$3") {
					ok, detail = false, "operands are not in the roles their position dictates: "+strings.Join(nodeFields, ", ")
				}
			case "prefix":
				if len(nodeFields) != 1 || !strings.HasSuffix(nodeFields[0], "=$2") {
					ok, detail = false, "operand role: "+strings.Join(nodeFields, ", ")
				}
			case "postfix":
				if len(nodeFields) != 1 || !strings.HasSuffix(nodeFields[0], "=$1") {
					ok, detail = false, "operand role: "+strings.Join(nodeFields, ", ")
				}
			}
		}
		if ok {
			res.OK(key, l.actionPos(a), a.Prod.String(), "builds ast."+want+" with the operands in source order")
		} else {
			res.Bad(key, l.actionPos(a), a.Prod.String(), detail)
		}
	}
	return res
}

// signature of a production for pairing across the two grammars: terminals
// by name, nonterminals by the union member they carry.
func (l *Lang) signature(a *Action) string {
	g := l.L.G
	var ss []string
	for _, r := range a.Prod.RHS {
		s := g.Symbols[r]
		if s.Terminal {
			ss = append(ss, r)
		} else {
			ss = append(ss, "<"+s.Type+">")
		}
	}
	return strings.Join(ss, " ")
}

func (l *Lang) summary(a *Action) string {
	var ps []string
	for _, p := range a.Paths {
		s := Canon(p.Result)
		var us []string
		for _, u := range p.St.Updates {
			ap := "="
			if u.Append {
				ap = "+="
			}
			us = append(us, Canon(u.Base)+"."+u.F+ap+Canon(u.Val))
		}
		for _, ev := range p.St.Events {
			var as []string
			for _, a := range ev.Args {
				as = append(as, Canon(a))
			}
			us = append(us, ev.Kind+"("+strings.Join(as, ", ")+")")
		}
		sort.Strings(us)
		cond := strings.Join(p.St.Conds, " && ")
		ps = append(ps, "["+cond+"] "+s+" | "+strings.Join(us, "; "))
	}
	sort.Strings(ps)
	return strings.Join(ps, "\n")
}

// normalise the names that legitimately differ between the two packages
func normSummary(s string) string {
	return s
}

// Siblings compares the actions of productions that have the same right-hand
// side shape and build the same node kind in both grammars.
func Siblings(l5, l7 *Lang) *report.RuleResult {
	res := report.NewResult("siblings-5-7")
	type entry struct {
		a   *Action
		sum string
	}
	index := func(l *Lang) map[string][]entry {
		m := map[string][]entry{}
		for n := 1; n < len(l.Actions); n++ {
			a := l.Actions[n]
			if len(a.Undec) > 0 || len(a.Paths) == 0 {
				continue
			}
			kind := ""
			if o, ok := a.Paths[0].Result.(*Obj); ok {
				kind = o.TName
			} else {
				continue // pass-through and list plumbing differ legitimately
			}
			if len(a.Prod.RHS) == 0 {
				continue
			}
			hasTerminal := false
			for _, r := range a.Prod.RHS {
				if l.L.G.Symbols[r].Terminal {
					hasTerminal = true
				}
			}
			if !hasTerminal {
				continue
			}
			k := kind + " <- " + l.signature(a)
			m[k] = append(m[k], entry{a, normSummary(l.summary(a))})
		}
		return m
	}
	m5, m7 := index(l5), index(l7)
	var keys []string
	for k := range m5 {
		if _, ok := m7[k]; ok {
			keys = append(keys, k)
		}
	}
	sort.Strings(keys)
	res.Count("php5-only", len(m5)-len(keys))
	res.Count("php7-only", len(m7)-len(keys))
	for _, k := range keys {
		res.Count("pairs", 1)
		set5, set7 := map[string]*Action{}, map[string]*Action{}
		for _, e := range m5[k] {
			set5[e.sum] = e.a
		}
		for _, e := range m7[k] {
			set7[e.sum] = e.a
		}
		var only5, only7 []string
		for s, a := range set5 {
			if set7[s] == nil {
				only5 = append(only5, l5.L.G.Key(a.Prod))
			}
		}
		for s, a := range set7 {
			if set5[s] == nil {
				only7 = append(only7, l7.L.G.Key(a.Prod))
			}
		}
		sort.Strings(only5)
		sort.Strings(only7)
		a5 := m5[k][0].a
		if why, ok := siblingExceptions[k]; ok {
			res.OK(k, l5.actionPos(a5), k, "reviewed exception: "+why)
			res.Count("reviewed-exceptions", 1)
			continue
		}
		if len(only5) == 0 && len(only7) == 0 {
			res.OK(k, l5.actionPos(a5), k, fmt.Sprintf("%d php5 / %d php7 productions build the node identically (fields, token roles, position boundaries)", len(m5[k]), len(m7[k])))
			continue
		}
		if len(only5) > 0 && len(only7) > 0 {
			d5, d7 := "", ""
			for s, a := range set5 {
				if l5.L.G.Key(a.Prod) == only5[0] {
					d5 = s
				}
			}
			for s, a := range set7 {
				if l7.L.G.Key(a.Prod) == only7[0] {
					d7 = s
				}
			}
			res.Bad(k, l5.actionPos(a5), k, fmt.Sprintf("php5 %s and php7 %s accept the same syntax and build the same node kind but differently:\n        php5: %s\n        php7: %s", strings.Join(only5, ","), strings.Join(only7, ","), firstDiff(d5, d7), firstDiff(d7, d5)))
		} else {
			// one grammar has an extra variant (e.g. a constant-expression copy): not comparable
			res.OK(k, l5.actionPos(a5), k, fmt.Sprintf("variants differ in number (php5 %d, php7 %d); common variants agree", len(set5), len(set7)))
		}
	}
	return res
}

func firstDiff(a, b string) string {
	i := 0
	for i < len(a) && i < len(b) && a[i] == b[i] {
		i++
	}
	lo := i - 60
	if lo < 0 {
		lo = 0
	}
	hi := i + 100
	if hi > len(a) {
		hi = len(a)
	}
	return "…" + a[lo:hi] + "…"
}

// pairs that legitimately differ, each confirmed by reading both actions
var siblingExceptions = map[string]string{
	"ast.ExprList <- T_LIST '(' <node> ')'":      "PHP 5 turns `list()` with one empty slot into an empty list; an empty list() is a compile error in PHP 7, so this is not shared syntax",
	"ast.ExprArrayItem <- T_LIST '(' <node> ')'": "PHP 5 turns a nested `list()` with one empty slot into an empty list; an empty list() is a compile error in PHP 7, so this is not shared syntax",
}

// ReportPositions: every semantic error an action delivers carries a constant
// non-empty message and the Position of a token, or of a node for which the
// grammar has set a Position on every production that can yield it.
func (l *Lang) ReportPositions(shapes map[string]*Shape) *report.RuleResult {
	res := report.NewResult("report-positions")
	g := l.L.G
	for n := 1; n < len(l.Actions); n++ {
		a := l.Actions[n]
		pkey := l.L.Label + ":" + g.Key(a.Prod)
		seen := map[string]bool{}
		for _, p := range a.Paths {
			for _, ev := range p.St.Events {
				if ev.Kind != "report" || len(ev.Args) != 1 {
					continue
				}
				k := fmt.Sprintf("%s/%s", pkey, Canon(ev.Args[0]))
				if len(k) > 160 {
					k = k[:160]
				}
				if seen[k] {
					continue
				}
				seen[k] = true
				res.Count("reports", 1)
				e, ok := ev.Args[0].(ErrV)
				if !ok || len(e.Args) != 2 {
					res.Bad(k, l.Prog.Pos(ev.At), a.Prod.String(), "the reported value is not built by errors.NewError(msg, pos)")
					continue
				}
				msg, isConst := e.Args[0].(Opq)
				if !isConst || !strings.HasPrefix(msg.What, "const \"") || len(msg.What) < 10 {
					res.Bad(k, l.Prog.Pos(ev.At), a.Prod.String(), "error message is not a non-empty constant: "+e.Args[0].String())
					continue
				}
				pp, isPart := e.Args[1].(Part)
				if !isPart || pp.F != "Position" {
					res.Bad(k, l.Prog.Pos(ev.At), a.Prod.String(), "error position is not the Position of a token or node: "+e.Args[1].String())
					continue
				}
				if pp.T == "token.Token" {
					res.OK(k, l.Prog.Pos(ev.At), a.Prod.String(), "position of token "+pp.Base.String()+" (set by the scanner for every token)")
					continue
				}
				sy, direct := pp.Base.(Sym)
				if !direct || sy.I < 1 || sy.I > len(a.Prod.RHS) {
					res.Unknown(k, l.Prog.Pos(ev.At), a.Prod.String(), "undecided: position of "+pp.Base.String())
					continue
				}
				sh := shapes[a.Prod.RHS[sy.I-1]]
				if sh != nil && sh.Types[pp.T]["Position"] {
					res.OK(k, l.Prog.Pos(ev.At), a.Prod.String(), fmt.Sprintf("position of $%d: every production yielding a %s for %s sets its Position", sy.I, pp.T, a.Prod.RHS[sy.I-1]))
				} else {
					res.Bad(k, l.Prog.Pos(ev.At), a.Prod.String(), fmt.Sprintf("the error takes its position from $%d.(*%s).Position, but the productions of %s build that object without a Position: the error is delivered with a nil position although it is not an end-of-input error", sy.I, pp.T, a.Prod.RHS[sy.I-1]))
				}
			}
		}
	}
	return res
}

// SlotKinds computes, from every action of the grammar, which node kinds can
// be stored in which field of which struct ("T.F" → kinds), by a flow fixpoint
// over nonterminals and fields (elements of lists count for the list field).
// Fields of the parser-private carrier types are kept apart per nonterminal
// ("T.F@nt"), because one carrier type serves many unrelated lists.
func (l *Lang) SlotKinds() map[string]map[string]bool {
	edges := map[string]map[string]bool{} // to → from
	kinds := map[string]map[string]bool{}
	addEdge := func(to, from string) {
		if edges[to] == nil {
			edges[to] = map[string]bool{}
		}
		edges[to][from] = true
	}
	addKind := func(to, k string) {
		if kinds[to] == nil {
			kinds[to] = map[string]bool{}
		}
		kinds[to][k] = true
	}
	slotKey := func(t, f, nt string) string {
		if isCarrier(t) {
			return "slot:" + t + "." + f + "@" + nt
		}
		return "slot:" + t + "." + f
	}
	// carrier struct types of the parser package and their fields
	carrierFields := map[string][]string{}
	sc := l.Pkg.Types.Scope()
	for _, name := range sc.Names() {
		tn, ok := sc.Lookup(name).(*types.TypeName)
		if !ok || strings.HasPrefix(name, "yy") || name == "Parser" {
			continue
		}
		if st, ok := tn.Type().Underlying().(*types.Struct); ok {
			for i := 0; i < st.NumFields(); i++ {
				carrierFields[name] = append(carrierFields[name], st.Field(i).Name())
			}
		}
	}
	for n := 1; n < len(l.Actions); n++ {
		a := l.Actions[n]
		symName := func(i int) string {
			if i >= 1 && i <= len(a.Prod.RHS) {
				return a.Prod.RHS[i-1]
			}
			return "?"
		}
		var flow func(v Val, to string)
		flow = func(v Val, to string) {
			switch x := v.(type) {
			case Sym:
				addEdge(to, "nt:"+symName(x.I))
			case Part:
				if x.F == "Position" || x.F == "Value" || x.T == "" {
					return
				}
				ctx := ""
				if sy, ok := x.Base.(Sym); ok {
					ctx = symName(sy.I)
				}
				addEdge(to, slotKey(x.T, x.F, ctx))
			case ListV:
				for _, sg := range x.Segs {
					flow(sg, to)
				}
			case Elem:
				flow(x.V, to)
			case Idx:
				flow(x.Base, to)
			case Slc:
				flow(x.Base, to)
			case Fold:
				flow(x.Acc, to)
				flow(x.List, to)
			case *Obj:
				addKind(to, x.TName)
				for f, fv := range x.Fields {
					if f != "Position" && f != "Value" {
						flow(fv, slotKey(x.TName, f, a.Prod.LHS))
					}
				}
			}
		}
		for _, p := range a.Paths {
			if p.Result != nil {
				flow(p.Result, "nt:"+a.Prod.LHS)
				if sy, ok := p.Result.(Sym); ok {
					for t, fs := range carrierFields {
						for _, f := range fs {
							addEdge(slotKey(t, f, a.Prod.LHS), slotKey(t, f, symName(sy.I)))
						}
					}
				}
			}
			for _, u := range p.St.Updates {
				if u.F == "Position" || u.F == "Value" || u.T == "" {
					continue
				}
				ctx := ""
				if sy, ok := u.Base.(Sym); ok {
					ctx = symName(sy.I)
				}
				flow(u.Val, slotKey(u.T, u.F, ctx))
			}
		}
	}
	for changed := true; changed; {
		changed = false
		for to, froms := range edges {
			for from := range froms {
				for k := range kinds[from] {
					if kinds[to] == nil {
						kinds[to] = map[string]bool{}
					}
					if !kinds[to][k] {
						kinds[to][k] = true
						changed = true
					}
				}
			}
		}
	}
	out := map[string]map[string]bool{}
	for k, v := range kinds {
		if strings.HasPrefix(k, "slot:") {
			out[strings.TrimPrefix(k, "slot:")] = v
		}
	}
	return out
}

// IgnoresTrivia: no grammar action and no hand-written parser function makes a
// decision that depends on free-floating tokens or on positions (so whitespace,
// comments and line endings cannot change which nodes are built).
func (l *Lang) IgnoresTrivia() *report.RuleResult {
	res := report.NewResult("grammar-ignores-trivia")
	nconds := 0
	bad := map[string]string{}
	for _, f := range l.Pkg.Syntax {
		ast.Inspect(f, func(n ast.Node) bool {
			var cond ast.Expr
			switch x := n.(type) {
			case *ast.IfStmt:
				cond = x.Cond
			case *ast.SwitchStmt:
				cond = x.Tag
			case *ast.ForStmt:
				cond = x.Cond
			}
			if cond == nil {
				return true
			}
			nconds++
			ast.Inspect(cond, func(m ast.Node) bool {
				if se, ok := m.(*ast.SelectorExpr); ok {
					switch se.Sel.Name {
					case "FreeFloating", "StartLine", "EndLine", "StartPos", "EndPos":
						bad[l.Prog.Pos(cond.Pos())] = types.ExprString(cond)
					}
				}
				return true
			})
			return true
		})
	}
	res.Count("conditions", nconds)
	if len(bad) == 0 {
		res.OK(l.L.Label, l.L.G.File, "", fmt.Sprintf("%d conditions in package internal/%s: none reads free-floating tokens or positions", nconds, l.L.Label))
	}
	for pos, c := range bad {
		res.Bad(l.L.Label+"/"+c, pos, "", "a parser decision depends on trivia or positions: "+c)
	}
	return res
}
