package yyflow

import (
	"fmt"
	"go/token"
	"go/types"
	"sort"
	"strings"

	"verif/internal/report"
)

// ---- keys ------------------------------------------------------------------

// Key orders resources by source position: the RHS index, then the field index
// inside a carrier taken apart from that symbol.
type Key struct{ I, J int }

func (k Key) Less(o Key) bool { return k.I < o.I || (k.I == o.I && k.J < o.J) }

// After: k certainly comes after o in the source (same-symbol keys without a
// field index cannot be ordered and are left to rule linear).
func (k Key) After(o Key) bool {
	return k.I > o.I || (k.I == o.I && k.J > 0 && o.J > 0 && k.J > o.J)
}
func (k Key) String() string  { return fmt.Sprintf("$%d.%d", k.I, k.J) }

type Range struct {
	Min, Max Key
	Empty    bool
}

func (r *Range) add(k Key) {
	if r.Empty {
		r.Min, r.Max, r.Empty = k, k, false
		return
	}
	if k.Less(r.Min) {
		r.Min = k
	}
	if r.Max.Less(k) {
		r.Max = k
	}
}

func (r *Range) merge(o Range) {
	if o.Empty {
		return
	}
	r.add(o.Min)
	r.add(o.Max)
}

// rootSym: the RHS symbol a value is derived from (0 if none).
func rootSym(v Val) int {
	switch x := v.(type) {
	case Sym:
		return x.I
	case Part:
		return rootSym(x.Base)
	case Idx:
		return rootSym(x.Base)
	case Slc:
		return rootSym(x.Base)
	case ValueOf:
		return rootSym(x.Tok)
	}
	return 0
}

func (l *Lang) fieldIndex(tname, f string) int {
	if st := l.structOf(tname); st != nil {
		for i := 0; i < st.NumFields(); i++ {
			if st.Field(i).Name() == f {
				return i + 1
			}
		}
	}
	return 1
}

func (l *Lang) structOf(tname string) *types.Struct {
	var scope *types.Scope
	name := tname
	if i := strings.Index(tname, "."); i >= 0 {
		pkgName := tname[:i]
		name = tname[i+1:]
		for _, imp := range l.Pkg.Types.Imports() {
			if imp.Name() == pkgName {
				scope = imp.Scope()
			}
		}
	} else {
		scope = l.Pkg.Types.Scope()
	}
	if scope == nil {
		return nil
	}
	o := scope.Lookup(name)
	if o == nil {
		return nil
	}
	st, _ := o.Type().Underlying().(*types.Struct)
	return st
}

// keyOf: the source key of a leaf resource.
func (l *Lang) keyOf(v Val) (Key, bool) {
	switch x := v.(type) {
	case Sym:
		return Key{x.I, 0}, true
	case Part:
		if i := rootSym(x.Base); i > 0 {
			if _, direct := x.Base.(Sym); direct {
				return Key{i, l.fieldIndex(x.T, x.F)}, true
			}
			if k, ok := l.keyOf(x.Base); ok {
				return k, true
			}
			return Key{i, 0}, true
		}
	case Idx, Slc:
		if i := rootSym(v); i > 0 {
			return Key{i, 0}, true
		}
	}
	return Key{}, false
}

// ---- content walk -------------------------------------------------------------

type leaf struct {
	V     Val
	Where string // T.F path of the slot it was placed in
	At    token.Pos
}

type walker struct {
	l       *Lang
	globals []string
	leaves  []leaf
	objs   map[*Obj]int
	order  []*Obj
	folds  []Fold
}

func (w *walker) walk(v Val, where string, at token.Pos) {
	switch x := v.(type) {
	case Sym, Idx, Slc:
		w.leaves = append(w.leaves, leaf{v, where, at})
	case Part:
		if x.F == "Position" || x.F == "Value" {
			return
		}
		w.leaves = append(w.leaves, leaf{v, where, at})
	case ListV:
		for _, sg := range x.Segs {
			w.walk(sg, where, at)
		}
	case Elem:
		w.walk(x.V, where, at)
	case *Obj:
		w.objs[x]++
		if w.objs[x] > 1 {
			return
		}
		w.order = append(w.order, x)
		for _, f := range sortedFields(x) {
			if f == "Position" {
				continue
			}
			w.walk(x.Fields[f], x.TName+"."+f, x.At)
		}
	case Fold:
		w.folds = append(w.folds, x)
		w.walk(x.Acc, where+"(fold)", at)
		w.walk(x.List, where+"(fold)", at)
	case Global:
		w.globals = append(w.globals, x.Name)
	case Opq:
		// a value held by the parser object (yylex.(*Parser).x): the same object on every use
		if strings.HasPrefix(x.What, "parser.") && !(x.What == "parser.currentToken" && where == "ast.Root.EndTkn") {
			w.globals = append(w.globals, x.What+" (into "+where+")")
		}
	}
}

func sortedFields(o *Obj) []string {
	var fs []string
	for f := range o.Fields {
		fs = append(fs, f)
	}
	sort.Strings(fs)
	return fs
}

// contents of one path: everything that ends up in the tree.
func (l *Lang) contents(p *Path) *walker {
	w := &walker{l: l, objs: map[*Obj]int{}}
	if p.Result != nil {
		w.walk(p.Result, "$$", token.NoPos)
	}
	// An update counts when the object it changes reaches the tree by itself:
	// its root symbol is placed whole (or it is parser state such as rootNode).
	// Updates of a carrier that is taken apart only matter through the reads of
	// its fields, which see the updated value.
	done := map[int]bool{}
	for progress := true; progress; {
		progress = false
		whole := map[int]bool{}
		for _, lf := range w.leaves {
			if sy, ok := lf.V.(Sym); ok {
				whole[sy.I] = true
			}
			if ix, ok := lf.V.(Idx); ok {
				whole[rootSym(ix)] = whole[rootSym(ix)] || false
			}
		}
		for i, u := range p.St.Updates {
			if done[i] || u.F == "Position" || u.F == "Value" {
				continue
			}
			r := rootSym(u.Base)
			if _, direct := u.Base.(Sym); !direct && r != 0 {
				// an element of list $r is updated: it counts when any part of that list is placed
				for _, lf := range w.leaves {
					if rootSym(lf.V) == r {
						whole[r] = true
					}
				}
			}
			if r != 0 && !whole[r] {
				continue
			}
			done[i] = true
			progress = true
			w.walk(u.Val, u.Base.String()+"."+u.F, u.At)
		}
	}
	return w
}

// ---- per-nonterminal summaries (fixpoint) ---------------------------------------

type Shape struct {
	Types    map[string]map[string]bool // T -> populated fields
	MayNil   bool
	MayEmpty bool // list that can be empty
	Unknown  bool // built in a way the summary does not describe (fold, element of a list)
}

func (l *Lang) symShape(shapes map[string]*Shape, name string) *Shape {
	s := shapes[name]
	if s == nil {
		s = &Shape{Types: map[string]map[string]bool{}}
		shapes[name] = s
	}
	return s
}

func (s *Shape) addField(t, f string) bool {
	m := s.Types[t]
	if m == nil {
		m = map[string]bool{}
		s.Types[t] = m
	}
	if m[f] {
		return false
	}
	m[f] = true
	return true
}

func (s *Shape) mergeFrom(o *Shape) bool {
	ch := false
	for t, fs := range o.Types {
		if s.Types[t] == nil {
			s.Types[t] = map[string]bool{}
			ch = true
		}
		for f := range fs {
			if !s.Types[t][f] {
				s.Types[t][f] = true
				ch = true
			}
		}
	}
	if o.MayNil && !s.MayNil {
		s.MayNil, ch = true, true
	}
	if o.MayEmpty && !s.MayEmpty {
		s.MayEmpty, ch = true, true
	}
	if o.Unknown && !s.Unknown {
		s.Unknown, ch = true, true
	}
	return ch
}

// Shapes computes, for every nonterminal, which object types it can yield with
// which fields populated, and whether it can be nil / empty.
func (l *Lang) Shapes() map[string]*Shape {
	shapes := map[string]*Shape{}
	g := l.L.G
	for changed, iter := true, 0; changed && iter < 50; iter++ {
		changed = false
		for n := 1; n < len(l.Actions); n++ {
			a := l.Actions[n]
			sh := l.symShape(shapes, a.Prod.LHS)
			symName := func(i int) string {
				if i >= 1 && i <= len(a.Prod.RHS) {
					return a.Prod.RHS[i-1]
				}
				return ""
			}
			for _, p := range a.Paths {
				var absorb func(v Val)
				absorb = func(v Val) {
					switch x := v.(type) {
					case nil:
					case Nil, Stale:
						if !sh.MayNil {
							sh.MayNil, changed = true, true
						}
					case *Obj:
						for f, fv := range x.Fields {
							if _, isNil := fv.(Nil); isNil {
								continue
							}
							if sh.addField(x.TName, f) {
								changed = true
							}
						}
						if len(x.Fields) == 0 {
							if sh.Types[x.TName] == nil {
								sh.Types[x.TName] = map[string]bool{}
								changed = true
							}
						}
					case Sym:
						nm := symName(x.I)
						if sy := g.Symbols[nm]; sy != nil && !sy.Terminal {
							if sh.mergeFrom(l.symShape(shapes, nm)) {
								changed = true
							}
						}
					case ListV:
						if len(x.Segs) == 0 && !sh.MayEmpty {
							sh.MayEmpty, changed = true, true
						}
						// a list that only extends $k keeps $k's emptiness unless an element is added
						onlyLists := true
						for _, sg := range x.Segs {
							if _, ok := sg.(Elem); ok {
								onlyLists = false
							}
						}
						if onlyLists {
							for _, sg := range x.Segs {
								if sy, ok := sg.(Sym); ok {
									if l.symShape(shapes, symName(sy.I)).MayEmpty && !sh.MayEmpty {
										sh.MayEmpty, changed = true, true
									}
								}
							}
						}
					case Fold, Idx:
						// a chain built by a fold, or an element of a list: certainly an object, of a kind the summary does not track
						if !sh.Unknown {
							sh.Unknown, changed = true, true
						}
					default:
						if !sh.Unknown {
							sh.Unknown, changed = true, true
						}
						if !sh.MayNil {
							sh.MayNil, changed = true, true
						}
					}
				}
				absorb(p.Result)
				// updates on the value that is returned extend its shape
				for _, u := range p.St.Updates {
					if p.Result != nil && u.Base.String() == p.Result.String() {
						if _, isNil := u.Val.(Nil); !isNil {
							if sh.addField(u.T, u.F) {
								changed = true
							}
						}
					}
				}
			}
		}
	}
	return shapes
}

// EscapesWhole: nonterminals whose value is somewhere placed into the tree as
// a whole (as opposed to pkg/ast nodes that only serve as carriers and are
// always taken apart by the productions that consume them).
func (l *Lang) EscapesWhole() map[string]bool {
	esc := map[string]bool{}
	for changed := true; changed; {
		changed = false
		for n := 1; n < len(l.Actions); n++ {
			a := l.Actions[n]
			for _, p := range a.Paths {
				if sy, ok := p.Result.(Sym); ok && sy.I >= 1 && sy.I <= len(a.Prod.RHS) {
					nm := a.Prod.RHS[sy.I-1]
					if esc[a.Prod.LHS] && !esc[nm] {
						esc[nm], changed = true, true
					}
				}
				w := l.contents(p)
				for _, lf := range w.leaves {
					sy, ok := lf.V.(Sym)
					if !ok || sy.I < 1 || sy.I > len(a.Prod.RHS) {
						continue
					}
					if lf.Where == "$$" {
						if _, direct := p.Result.(Sym); direct {
							continue
						}
					}
					nm := a.Prod.RHS[sy.I-1]
					if !esc[nm] {
						esc[nm], changed = true, true
					}
				}
			}
		}
	}
	return esc
}

// ---- linear ----------------------------------------------------------------------

func pathLabel(p *Path) string {
	if len(p.St.Conds) == 0 {
		return "always"
	}
	return strings.Join(p.St.Conds, " && ")
}

// Linear: every RHS value is placed exactly once on every path.
func (l *Lang) Linear(shapes map[string]*Shape) *report.RuleResult {
	res := report.NewResult("linear")
	g := l.L.G
	for n := 1; n < len(l.Actions); n++ {
		a := l.Actions[n]
		res.Count("productions", 1)
		pkey := l.L.Label + ":" + g.Key(a.Prod)
		pos := l.actionPos(a)
		if len(a.Undec) > 0 {
			res.Unknown(pkey, pos, a.Prod.String(), "undecided:idiom: "+strings.Join(a.Undec, "; "))
			continue
		}
		bad := map[string]string{}
		for _, p := range a.Paths {
			res.Count("paths", 1)
			w := l.contents(p)
			reported := false // a semantic error is delivered on this path: dropping text is allowed, duplicating is not
			for _, ev := range p.St.Events {
				if ev.Kind == "report" {
					reported = true
				}
			}
			for _, g := range w.globals {
				bad[pkey+"/global:"+g] = fmt.Sprintf("the package-level or parser-held object %s is placed in the tree on path [%s]: the same object would sit at several positions of one tree (or be shared between parses); only the end-of-input token may come from the parser, as Root.EndTkn", g, pathLabel(p))
			}
			whole := map[int]int{}
			parts := map[int]map[string]int{}
			partT := map[int]map[string]bool{}
			for _, lf := range w.leaves {
				i := rootSym(lf.V)
				if i == 0 {
					continue
				}
				switch x := lf.V.(type) {
				case Sym:
					whole[i]++
				case Part:
					if parts[i] == nil {
						parts[i] = map[string]int{}
						partT[i] = map[string]bool{}
					}
					parts[i][x.String()]++
					if _, direct := x.Base.(Sym); direct {
						partT[i][x.T] = true
					}
				default:
					if parts[i] == nil {
						parts[i] = map[string]int{}
						partT[i] = map[string]bool{}
					}
					parts[i][lf.V.String()]++
				}
			}
			for i, name := range a.Prod.RHS {
				idx := i + 1
				sy := g.Symbols[name]
				if name == "error" || sy == nil || sy.Type == "" {
					continue
				}
				sv := Sym{I: idx, Member: sy.Type}
				if isNil, known := p.St.KnownNil(sv); known && isNil {
					continue
				}
				res.Count("resources", 1)
				k := fmt.Sprintf("%s/$%d", pkey, idx)
				switch {
				case whole[idx] > 1:
					bad[k] = fmt.Sprintf("$%d (%s) is placed %d times on path [%s]: the same token/node would be printed twice or shared between parents", idx, name, whole[idx], pathLabel(p))
				case whole[idx] == 1 && len(parts[idx]) > 0:
					bad[k] = fmt.Sprintf("$%d (%s) is placed whole and parts of it (%s) are placed again on path [%s]", idx, name, strings.Join(keysOf(parts[idx]), ", "), pathLabel(p))
				case whole[idx] == 0 && len(parts[idx]) == 0:
					if reported {
						break
					}
					if sy.Terminal || !(shapes[name] != nil && onlyNil(shapes[name])) {
						bad[k] = fmt.Sprintf("$%d (%s) is not placed anywhere on path [%s]: its text is lost from the tree", idx, name, pathLabel(p))
					}
				case whole[idx] == 0:
					for ps, c := range parts[idx] {
						if c > 1 {
							bad[k+"/dup:"+ps] = fmt.Sprintf("%s is placed %d times on path [%s]", ps, c, pathLabel(p))
						}
					}
					// coverage of a list taken apart by index: the pieces placed must make up the whole list
					// ([0] with [1:], [:last] with [last], or an element-wise walk)
					if sy.Type == "list" && !reported {
						base := sv.String()
						has := func(which string) bool {
							for ps := range parts[idx] {
								if ps == base+"["+which+"]" || strings.HasPrefix(ps, base+"["+which+"].") || strings.HasPrefix(ps, base+"["+which+"](") {
									return true
								}
							}
							return false
						}
						indexed := false
						for ps := range parts[idx] {
							if strings.HasPrefix(ps, base+"[") {
								indexed = true
							}
						}
						if indexed && !has("i") && !(has("0") && has("1:")) && !(has(":last") && has("last")) {
							if sh := shapes[name]; sh == nil || !sh.Unknown || true {
								bad[k+"/drop:elements"] = fmt.Sprintf("only some elements of the list $%d (%s) are placed (%s) on path [%s]: the others are lost from the tree", idx, name, strings.Join(keysOf(parts[idx]), ", "), pathLabel(p))
							}
						}
					}
					// coverage: every populated field of the carrier types taken apart
					if sh := shapes[name]; sh != nil && !sy.Terminal {
						for t := range partT[idx] {
							for f := range sh.Types[t] {
								if f == "Position" || f == "Value" {
									continue
								}
								want := Part{sv, t, f}.String()
								covered := false
								for ps := range parts[idx] {
									if ps == want || strings.HasPrefix(ps, want+"[") || strings.HasPrefix(ps, want+".") {
										covered = true
									}
								}
								if !covered && !reported {
									bad[k+"/drop:"+t+"."+f] = fmt.Sprintf("$%d (%s) is taken apart but its field %s.%s, which the grammar populates, is not placed on path [%s]: that text is lost", idx, name, t, f, pathLabel(p))
								}
							}
						}
					}
				}
			}
			// objects built here must end up in the tree exactly once
			for o, c := range w.objs {
				if c > 1 {
					bad[fmt.Sprintf("%s/obj:%s", pkey, o.TName)] = fmt.Sprintf("the %s built here is placed %d times on path [%s]: one node reachable along two paths", o.TName, c, pathLabel(p))
				}
			}
		}
		if len(bad) == 0 {
			res.OK(pkey, pos, a.Prod.String(), fmt.Sprintf("%d paths: every right-hand-side value placed exactly once", len(a.Paths)))
			continue
		}
		for _, k := range keysOfS(bad) {
			if why, ok := reviewedExceptions["linear/"+k]; ok {
				res.OK(k, pos, a.Prod.String(), "reviewed exception: "+why)
				res.Count("reviewed-exceptions", 1)
				continue
			}
			res.Bad(k, pos, a.Prod.String(), bad[k])
		}
	}
	return res
}

// reviewedExceptions: single obligations the analyser cannot decide, each confirmed by reading the action.
var reviewedExceptions = map[string]string{
	"linear/php5:foreach_variable#3/$3/drop:ParserSeparatedList.Items":        "Items is dropped only when it holds exactly one ExprArrayItem with Key == nil && Val == nil, i.e. the empty slot of `list()`, which carries no token",
	"linear/php5:assignment_list_element#2/$3/drop:ParserSeparatedList.Items": "Items is dropped only when it holds exactly one ExprArrayItem with Key == nil && Val == nil, i.e. the empty slot of `list()`, which carries no token",
}

func onlyNil(s *Shape) bool { return s.MayNil && len(s.Types) == 0 && !s.Unknown }

func keysOf(m map[string]int) []string {
	var out []string
	for k := range m {
		out = append(out, k)
	}
	sort.Strings(out)
	return out
}

func keysOfS(m map[string]string) []string {
	var out []string
	for k := range m {
		out = append(out, k)
	}
	sort.Strings(out)
	return out
}

func (l *Lang) actionPos(a *Action) string {
	if a.Clause != nil {
		return l.Prog.Pos(a.Clause.Pos())
	}
	return fmt.Sprintf("%s:%d", l.L.G.File, a.Prod.Line)
}

// ---- order ------------------------------------------------------------------------

func (l *Lang) rangeOf(v Val) Range {
	r := Range{Empty: true}
	var visit func(v Val)
	visit = func(v Val) {
		switch x := v.(type) {
		case Sym, Idx, Slc:
			if k, ok := l.keyOf(v); ok {
				r.add(k)
			}
		case Part:
			if x.F == "Position" || x.F == "Value" {
				return
			}
			if k, ok := l.keyOf(v); ok {
				r.add(k)
			}
		case ListV:
			for _, sg := range x.Segs {
				visit(sg)
			}
		case Elem:
			visit(x.V)
		case *Obj:
			for f, fv := range x.Fields {
				if f != "Position" {
					visit(fv)
				}
			}
		case Fold:
			visit(x.Acc)
			visit(x.List)
		}
	}
	visit(v)
	return r
}

// declared order of the fields of a struct type, separators merged with the list before them
func (l *Lang) slots(tname string) [][]string {
	st := l.structOf(tname)
	if st == nil {
		return nil
	}
	var out [][]string
	for i := 0; i < st.NumFields(); i++ {
		f := st.Field(i)
		if f.Name() == "Position" || f.Name() == "Value" {
			continue
		}
		if sl, ok := f.Type().(*types.Slice); ok && len(out) > 0 {
			if p, ok := sl.Elem().(*types.Pointer); ok {
				if n, ok := p.Elem().(*types.Named); ok && n.Obj().Name() == "Token" {
					out[len(out)-1] = append(out[len(out)-1], f.Name())
					continue
				}
			}
		}
		out = append(out, []string{f.Name()})
	}
	return out
}

// Order: in every object built by an action the declaration order of the
// fields is the source order of what is put into them.
func (l *Lang) Order(shapes map[string]*Shape) *report.RuleResult {
	res := report.NewResult("order")
	g := l.L.G
	for n := 1; n < len(l.Actions); n++ {
		a := l.Actions[n]
		if len(a.Undec) > 0 {
			continue // reported by linear
		}
		pkey := l.L.Label + ":" + g.Key(a.Prod)
		pos := l.actionPos(a)
		bad := map[string]string{}
		nobj := 0
		for _, p := range a.Paths {
			w := l.contents(p)
			for _, o := range w.order {
				nobj++
				var prev Range
				prev.Empty = true
				prevSlot := ""
				for _, slot := range l.slots(o.TName) {
					r := Range{Empty: true}
					for _, f := range slot {
						if fv, ok := o.Fields[f]; ok {
							r.merge(l.rangeOf(fv))
						}
					}
					if r.Empty {
						continue
					}
					if !prev.Empty && prev.Max.After(r.Min) {
						bad[fmt.Sprintf("%s/%s/%s", pkey, o.TName, slot[0])] = fmt.Sprintf("field %s of %s receives %s..%s but the earlier field %s already holds %s..%s: declaration (= print, traversal) order is not source order on path [%s]", slot[0], o.TName, r.Min, r.Max, prevSlot, prev.Min, prev.Max, pathLabel(p))
					}
					if prev.Empty || prev.Max.Less(r.Max) {
						prev.merge(r)
					}
					prevSlot = slot[0]
				}
				// lists built here keep ascending order
				for f, fv := range o.Fields {
					if lv, ok := fv.(ListV); ok {
						if msg := l.ascending(lv); msg != "" {
							bad[fmt.Sprintf("%s/%s/%s/list", pkey, o.TName, f)] = msg
						}
					}
				}
			}
			if lv, ok := p.Result.(ListV); ok {
				if msg := l.ascending(lv); msg != "" {
					bad[pkey+"/$$/list"] = msg
				}
			}
			// chains built by a loop over a list: a walk from the first element nests what came BEFORE the list
			// innermost (each element wraps the chain so far, so the last element ends up outermost); a walk from the
			// last element nests what comes AFTER the list innermost. The other combinations turn the source order
			// of the elements inside out.
			for _, fd := range w.folds {
				// the list a loop walks is itself put together in source order (seed C15-12: the links that follow a
				// call appended before the call)
				if lv, ok := fd.List.(ListV); ok {
					if msg := l.ascending(lv); msg != "" {
						bad[fmt.Sprintf("%s/fold-list:%s", pkey, Canon(fd.List))] = "the list the chain loop walks: " + msg + " on path [" + pathLabel(p) + "]"
					}
				}
				ra, rl := l.rangeOf(fd.Acc), l.rangeOf(fd.List)
				if ra.Empty || rl.Empty {
					continue
				}
				res.Count("folds", 1)
				fk := fmt.Sprintf("%s/fold:%s", pkey, Canon(fd.List))
				switch {
				case fd.Dir == "left" && !ra.Max.Less(rl.Min):
					bad[fk] = fmt.Sprintf("the loop walks %s from its first element and wraps each element around the chain so far, but the chain starts from %s..%s, which does not precede the list in the source: the elements end up nested in reverse source order on path [%s]", fd.List, ra.Min, ra.Max, pathLabel(p))
				case fd.Dir == "right" && !rl.Max.Less(ra.Min):
					bad[fk] = fmt.Sprintf("the loop walks %s from its last element and wraps each element around the chain so far, but the chain starts from %s..%s, which does not follow the list in the source: the elements end up nested in reverse source order on path [%s]", fd.List, ra.Min, ra.Max, pathLabel(p))
				}
			}
			// several updates of the same existing object: their fields among each other
			groups := map[string]*Obj{}
			for _, u := range p.St.Updates {
				if u.F == "Position" || u.F == "Value" || isCarrier(u.T) || u.Append {
					continue
				}
				if _, direct := u.Base.(Sym); !direct {
					continue
				}
				gk := u.Base.String() + "|" + u.T
				if groups[gk] == nil {
					groups[gk] = &Obj{TName: u.T, Fields: map[string]Val{}}
				}
				groups[gk].Fields[u.F] = u.Val
			}
			for gk, o := range groups {
				var prev Range
				prev.Empty = true
				prevSlot := ""
				for _, slot := range l.slots(o.TName) {
					r := Range{Empty: true}
					for _, f := range slot {
						if fv, ok := o.Fields[f]; ok {
							r.merge(l.rangeOf(fv))
						}
					}
					if r.Empty {
						continue
					}
					if !prev.Empty && prev.Max.After(r.Min) {
						bad[fmt.Sprintf("%s/updates:%s/%s", pkey, gk, slot[0])] = fmt.Sprintf("field %s of the %s coming from %s receives %s..%s but the earlier field %s receives %s..%s in the same action: declaration order is not source order on path [%s]", slot[0], o.TName, strings.SplitN(gk, "|", 2)[0], r.Min, r.Max, prevSlot, prev.Min, prev.Max, pathLabel(p))
					}
					if prev.Empty || prev.Max.Less(r.Max) {
						prev.merge(r)
					}
					prevSlot = slot[0]
				}
			}
			// updates of existing objects
			for _, u := range p.St.Updates {
				if u.F == "Position" || u.F == "Value" {
					continue
				}
				bi := rootSym(u.Base)
				if bi == 0 {
					continue
				}
				if _, direct := u.Base.(Sym); !direct {
					continue // element updates are checked by the productions that build the element
				}
				r := l.rangeOf(u.Val)
				if r.Empty {
					continue
				}
				bk := Key{bi, 0}
				k := fmt.Sprintf("%s/update:%s.%s", pkey, u.T, u.F)
				if u.Append {
					if !bk.Less(r.Min) && r.Min.I <= bi {
						bad[k] = fmt.Sprintf("appends %s to %s of $%d, which precedes it in the source", r.Min, u.F, bi)
					}
					continue
				}
				name := a.Prod.RHS[bi-1]
				sh := shapes[name]
				if sh == nil {
					continue
				}
				// F against the fields already populated in the object coming from $bi
				slots := l.slots(u.T)
				fi := -1
				for i, sl := range slots {
					for _, f := range sl {
						if f == u.F {
							fi = i
						}
					}
				}
				for i, sl := range slots {
					if i == fi {
						continue
					}
					pop := false
					for _, f := range sl {
						if sh.Types[u.T][f] {
							pop = true
						}
					}
					if !pop {
						continue
					}
					if r.Max.Less(bk) && i < fi {
						bad[k] = fmt.Sprintf("%s.%s receives %s, which precedes $%d in the source, but the field is declared after %s, which $%d already populates", u.T, u.F, r.Max, bi, sl[0], bi)
					}
					if bk.Less(r.Min) && i > fi {
						bad[k] = fmt.Sprintf("%s.%s receives %s, which follows $%d in the source, but the field is declared before %s, which $%d already populates", u.T, u.F, r.Min, bi, sl[0], bi)
					}
				}
			}
		}
		res.Count("objects", nobj)
		if len(bad) == 0 {
			res.OK(pkey, pos, a.Prod.String(), fmt.Sprintf("%d objects: field order = source order", nobj))
			continue
		}
		for _, k := range keysOfS(bad) {
			res.Bad(k, pos, a.Prod.String(), bad[k])
		}
	}
	return res
}

// listCoord: where in the list held by one right-hand-side symbol the leaves of v lie, as an interval of
// element positions (big = the last element). ok is false when v holds nothing of such a list or mixes lists.
func listCoord(v Val) (base string, lo, hi int, ok bool) {
	const big = 1 << 20
	first := true
	bad := false
	note := func(b string, l, h int) {
		if first {
			base, lo, hi, first = b, l, h, false
			return
		}
		if b != base {
			bad = true
			return
		}
		if l < lo {
			lo = l
		}
		if h > hi {
			hi = h
		}
	}
	var leaf func(v Val) (string, int, int, bool)
	leaf = func(v Val) (string, int, int, bool) {
		switch x := v.(type) {
		case Idx:
			if _, isSym := x.Base.(Sym); isSym {
				switch x.Which {
				case "0":
					return x.Base.String(), 0, 0, true
				case "last":
					return x.Base.String(), big, big, true
				}
				return x.Base.String(), 0, big, true
			}
			return leaf(x.Base)
		case Slc:
			if _, isSym := x.Base.(Sym); isSym {
				switch x.Which {
				case "1:":
					return x.Base.String(), 1, big, true
				case ":last":
					return x.Base.String(), 0, big - 1, true
				}
				return x.Base.String(), 0, big, true
			}
			return leaf(x.Base)
		case Part:
			return leaf(x.Base)
		case ValueOf:
			return leaf(x.Tok)
		}
		return "", 0, 0, false
	}
	var visit func(v Val)
	visit = func(v Val) {
		switch x := v.(type) {
		case Idx, Slc:
			if b, l, h, ok := leaf(v); ok {
				note(b, l, h)
			}
		case Part:
			if x.F == "Position" || x.F == "Value" {
				return
			}
			if b, l, h, ok := leaf(v); ok {
				note(b, l, h)
			}
		case ListV:
			for _, sg := range x.Segs {
				visit(sg)
			}
		case Elem:
			visit(x.V)
		case *Obj:
			for f, fv := range x.Fields {
				if f != "Position" {
					visit(fv)
				}
			}
		}
	}
	visit(v)
	return base, lo, hi, !first && !bad
}

func (l *Lang) ascending(lv ListV) string {
	// pieces of one and the same list keep their order: what comes from element 0 before the elements from 1 on
	for i, sa := range lv.Segs {
		ba, loa, _, oka := listCoord(sa)
		if !oka {
			continue
		}
		for _, sb := range lv.Segs[i+1:] {
			bb, _, hib, okb := listCoord(sb)
			if okb && ba == bb && loa > hib {
				return fmt.Sprintf("list elements are not in source order: %s (elements from %d on of %s) comes before %s (element %d of the same list)", sa, loa, ba, sb, hib)
			}
		}
	}
	var prev Range
	prev.Empty = true
	for _, sg := range lv.Segs {
		r := l.rangeOf(sg)
		if r.Empty {
			continue
		}
		if !prev.Empty && prev.Max.After(r.Min) {
			return fmt.Sprintf("list elements are not in source order: %s..%s comes after %s..%s", r.Min, r.Max, prev.Min, prev.Max)
		}
		prev.merge(r)
	}
	return ""
}

// ---- pos-span -----------------------------------------------------------------------

// fields that, by the documented conventions, lie outside the node's span
var spanExempt = map[string]map[string]string{
	"ast.Root":                    {"EndTkn": "the root excludes trailing trivia"},
	"ast.StmtTraitUsePrecedence":  {"SemiColonTkn": "a trait adaptation excludes its terminating semicolon"},
	"ast.StmtTraitUseAlias":       {"SemiColonTkn": "a trait adaptation excludes its terminating semicolon"},
}

type member struct {
	k       Key
	v       Val
	certain bool // cannot be nil/empty on this path
}

func (l *Lang) certain(p *Path, a *Action, v Val, shapes map[string]*Shape) bool {
	if isNil, known := p.St.KnownNil(v); known {
		return !isNil
	}
	if f := p.St.Facts[v.String()]; f != nil && f.LenGt0 != nil && *f.LenGt0 {
		return true
	}
	switch x := v.(type) {
	case Sym:
		name := a.Prod.RHS[x.I-1]
		sy := l.L.G.Symbols[name]
		if sy.Terminal {
			return true
		}
		sh := shapes[name]
		if sh == nil {
			return false
		}
		if x.Member == "list" {
			return !sh.MayEmpty && !sh.MayNil && !sh.Unknown
		}
		return !sh.MayNil
	case *Obj:
		return true
	}
	return false
}

// members lists the leaves of an object's content with their keys.
func (l *Lang) members(o *Obj, p *Path, a *Action, shapes map[string]*Shape) []member {
	var ms []member
	var visit func(v Val, cert bool)
	visit = func(v Val, cert bool) {
		switch x := v.(type) {
		case Sym, Part, Idx, Slc:
			if pt, ok := v.(Part); ok && (pt.F == "Position" || pt.F == "Value") {
				return
			}
			if isNil, known := p.St.KnownNil(v); known && isNil {
				return
			}
			if k, ok := l.keyOf(v); ok {
				ms = append(ms, member{k, v, l.certain(p, a, v, shapes)})
			}
		case ListV:
			for _, sg := range x.Segs {
				visit(sg, cert)
			}
		case Elem:
			visit(x.V, cert)
		case *Obj:
			ex := spanExempt[x.TName]
			seps := l.separatorFields(x.TName)
			for f, fv := range x.Fields {
				if f == "Position" || ex[f] != "" || seps[f] {
					continue
				}
				visit(fv, cert)
			}
		case Fold:
			visit(x.Acc, cert)
			visit(x.List, cert)
		}
	}
	ex := spanExempt[o.TName]
	seps := l.separatorFields(o.TName)
	for f, fv := range o.Fields {
		if f == "Position" || ex[f] != "" || seps[f] {
			continue // separators lie between the items of the list they belong to
		}
		visit(fv, true)
	}
	sort.SliceStable(ms, func(i, j int) bool { return ms[i].k.Less(ms[j].k) })
	return ms
}

// separatorFields: token-list fields paired with the node list declared before them.
func (l *Lang) separatorFields(tname string) map[string]bool {
	out := map[string]bool{}
	for _, sl := range l.slots(tname) {
		for _, f := range sl[1:] {
			out[f] = true
		}
	}
	return out
}

// boundary key of a position argument
func (l *Lang) boundKey(v Val, end bool) (Key, bool) {
	if o, ok := v.(*Obj); ok {
		r := l.rangeOf(o)
		if r.Empty {
			return Key{}, false
		}
		if end {
			return r.Max, true
		}
		return r.Min, true
	}
	r := l.rangeOf(v)
	if r.Empty {
		return Key{}, false
	}
	if end {
		return r.Max, true
	}
	return r.Min, true
}

func isCarrier(tname string) bool { return !strings.HasPrefix(tname, "ast.") }

// StalePos: nonterminals that can yield a pkg/ast object whose Position does not
// describe its content yet (built without one, or extended without updating it).
func (l *Lang) StalePos(shapes map[string]*Shape) map[string]bool {
	stale := map[string]bool{}
	for changed := true; changed; {
		changed = false
		for n := 1; n < len(l.Actions); n++ {
			a := l.Actions[n]
			for _, p := range a.Paths {
				if l.pathStale(a, p, stale, shapes) && !stale[a.Prod.LHS] {
					stale[a.Prod.LHS], changed = true, true
				}
			}
		}
	}
	return stale
}

func (l *Lang) pathStale(a *Action, p *Path, stale map[string]bool, shapes map[string]*Shape) bool {
	switch x := p.Result.(type) {
	case *Obj:
		if isCarrier(x.TName) {
			return false
		}
		if len(l.members(x, p, a, shapes)) == 0 {
			return false
		}
		_, ok := x.Fields["Position"].(PosV)
		return !ok
	case Sym:
		if x.I < 1 || x.I > len(a.Prod.RHS) || x.Member != "node" {
			return false
		}
		posUpdated, extended := false, false
		for _, u := range p.St.Updates {
			if u.Base.String() != x.String() || isCarrier(u.T) {
				continue
			}
			if u.F == "Position" {
				posUpdated = true
			} else if r := l.rangeOf(u.Val); !r.Empty && spanExempt[u.T][u.F] == "" {
				extended = true
			}
		}
		if posUpdated {
			return false
		}
		return extended || stale[a.Prod.RHS[x.I-1]]
	}
	return false
}

// PosSpan: every node built by an action gets a position whose boundaries are
// the first and the last thing placed in it.
func (l *Lang) PosSpan(shapes map[string]*Shape) *report.RuleResult {
	res := report.NewResult("pos-span")
	g := l.L.G
	esc := l.EscapesWhole()
	stalePos := l.StalePos(shapes)
	for n := 1; n < len(l.Actions); n++ {
		a := l.Actions[n]
		if len(a.Undec) > 0 {
			continue
		}
		pkey := l.L.Label + ":" + g.Key(a.Prod)
		pos := l.actionPos(a)
		bad := map[string]string{}
		nobj := 0
		for _, p := range a.Paths {
			w := l.contents(p)
			builtAt := map[token.Pos]*Obj{} // call of the position builder -> the object that holds its result
			// objects created in this action but attached through updates are in w.order too
			for _, o := range w.order {
				if isCarrier(o.TName) {
					continue
				}
				if pv, ok := o.Fields["Position"].(PosV); ok && pv.At.IsValid() {
					// one call of the builder yields one object from the pool: two nodes that both hold the result of the
					// same call share it (seed C18-12: `pos := NewTokenPosition($1)` stored in a variable and its name)
					if first, dup := builtAt[pv.At]; dup && first != o {
						bad[fmt.Sprintf("%s/%s/shared-position", pkey, o.TName)] = fmt.Sprintf("%s and %s both hold the result of one call of %s: the two nodes share one position object, so writing through one changes the other", first.TName, o.TName, pv.Method)
					} else {
						builtAt[pv.At] = o
					}
				}
				if ro, ok := p.Result.(*Obj); ok && ro == o && !esc[a.Prod.LHS] {
					continue // a pkg/ast struct used as a carrier: consumers always take it apart
				}
				ms := l.members(o, p, a, shapes)
				pv, hasPos := o.Fields["Position"]
				k := fmt.Sprintf("%s/%s", pkey, o.TName)
				if len(ms) == 0 {
					continue // nothing of the source in it (empty slot convention)
				}
				nobj++
				posv, ok := pv.(PosV)
				if _, isNil := pv.(Nil); hasPos && !ok && !isNil {
					// neither built by the position builder here nor absent: the node takes over a position object that
					// belongs to something else. Two nodes then share one *Position, and whatever extends one of
					// them later (the PHP 5 chain folds do) moves the other as well.
					bad[k+"/shared-position"] = fmt.Sprintf("%s takes %s as its Position instead of a position built for it: the object is shared with its owner", o.TName, pv)
					continue
				}
				if !hasPos || !ok {
					if ro, isRes := p.Result.(*Obj); isRes && ro == o {
						continue // the consumers of this nonterminal must set it (checked where the value is placed)
					}
					if _, isNil := pv.(Nil); isNil || !hasPos {
						bad[k] = fmt.Sprintf("%s is built without a position although it holds %s..%s", o.TName, ms[0].k, ms[len(ms)-1].k)
					}
					continue // position copied from elsewhere: not decided here
				}
				if len(posv.Args) == 0 {
					continue
				}
				if msg := l.checkSpan(posv, ms); msg != "" {
					bad[k] = o.TName + ": " + msg + " on path [" + pathLabel(p) + "]"
				}
			}
			// values of other symbols whose position is not valid yet must not enter the tree
			for _, lf := range w.leaves {
				sy, ok := lf.V.(Sym)
				if !ok || sy.Member != "node" || sy.I < 1 || sy.I > len(a.Prod.RHS) {
					continue
				}
				if rs, isRes := p.Result.(Sym); isRes && rs == sy && lf.Where == "$$" {
					continue // passed on: the status travels with it
				}
				nm := a.Prod.RHS[sy.I-1]
				if !stalePos[nm] {
					continue
				}
				fixed := false
				for _, u := range p.St.Updates {
					if u.Base.String() == sy.String() && u.F == "Position" {
						fixed = true
					}
				}
				nobj++
				if !fixed {
					bad[fmt.Sprintf("%s/$%d:stale", pkey, sy.I)] = fmt.Sprintf("$%d (%s) can arrive without a valid position (built without one, or extended after it was computed) and is placed in %s without setting it", sy.I, nm, lf.Where)
				}
			}
			// positions assigned to existing objects: span = the object plus what this action adds to it
			for _, u := range p.St.Updates {
				posv, ok := u.Val.(PosV)
				if u.F != "Position" || !ok || len(posv.Args) == 0 || isCarrier(u.T) {
					continue
				}
				bs, direct := u.Base.(Sym)
				if !direct {
					continue
				}
				nobj++
				ms := []member{{Key{bs.I, 0}, bs, true}}
				for _, u2 := range p.St.Updates {
					if u2.Base.String() != u.Base.String() || u2.F == "Position" || spanExempt[u.T][u2.F] != "" {
						continue
					}
					tmp := &Obj{TName: "update", Fields: map[string]Val{u2.F: u2.Val}}
					ms = append(ms, l.members(tmp, p, a, shapes)...)
				}
				sort.SliceStable(ms, func(i, j int) bool { return ms[i].k.Less(ms[j].k) })
				if msg := l.checkSpan(posv, ms); msg != "" {
					bad[fmt.Sprintf("%s/update:%s", pkey, u.T)] = u.T + " (from $" + fmt.Sprint(bs.I) + "): " + msg + " on path [" + pathLabel(p) + "]"
				}
			}
		}
		res.Count("nodes", nobj)
		if len(bad) == 0 {
			if nobj > 0 {
				res.OK(pkey, pos, a.Prod.String(), fmt.Sprintf("%d nodes: position spans first..last content", nobj))
			}
			continue
		}
		for _, k := range keysOfS(bad) {
			res.Bad(k, pos, a.Prod.String(), bad[k])
		}
	}
	return res
}

// PosDistinct: every node an action builds holds a position object of its own: the result of its own call
// of the position builder (one call hands out one object of the pool), never the result of a call that
// another node of the same action already holds, and never the Position of an existing node. Two nodes
// that share a *Position are two names for one pool slot: writing through one changes the other.
func (l *Lang) PosDistinct(shapes map[string]*Shape) *report.RuleResult {
	res := report.NewResult("pos-distinct")
	g := l.L.G
	for n := 1; n < len(l.Actions); n++ {
		a := l.Actions[n]
		if len(a.Undec) > 0 {
			continue
		}
		pkey := l.L.Label + ":" + g.Key(a.Prod)
		pos := l.actionPos(a)
		bad := map[string]string{}
		nobj := 0
		for _, p := range a.Paths {
			w := l.contents(p)
			builtAt := map[token.Pos]*Obj{}
			for _, o := range w.order {
				if isCarrier(o.TName) {
					continue
				}
				pv, has := o.Fields["Position"]
				if !has {
					continue
				}
				switch x := pv.(type) {
				case PosV:
					nobj++
					if !x.At.IsValid() {
						continue
					}
					if first, dup := builtAt[x.At]; dup && first != o {
						bad[fmt.Sprintf("%s/%s", pkey, o.TName)] = fmt.Sprintf("%s and %s both hold the result of one call of %s: the two nodes share one position object", first.TName, o.TName, x.Method)
					} else {
						builtAt[x.At] = o
					}
				case Nil:
				default:
					nobj++
					bad[fmt.Sprintf("%s/%s", pkey, o.TName)] = fmt.Sprintf("%s takes %s as its Position instead of a position built for it: the object is shared with its owner", o.TName, pv)
				}
			}
		}
		if nobj == 0 {
			continue
		}
		res.Count("nodes", nobj)
		if len(bad) == 0 {
			res.OK(pkey, pos, a.Prod.String(), fmt.Sprintf("%d positions, each the result of its own builder call", nobj))
			continue
		}
		for _, k := range keysOfS(bad) {
			res.Bad(k, pos, a.Prod.String(), bad[k])
		}
	}
	return res
}

func keyMatch(k, b Key) bool { return k.I == b.I && (k.J == 0 || b.J == 0 || k.J == b.J) }

// checkSpan: the start boundary must be the first member that is not known to
// be nil on this path, the end boundary the last such member. A member whose
// nil-ness the path says nothing about may be present, so a boundary that
// skips it is wrong for those runs. Possibly-empty lists at a boundary follow
// the documented -1 convention and may be skipped or used.
func (l *Lang) checkSpan(posv PosV, ms []member) string {
	start, okS := l.boundKey(posv.Args[0], false)
	end, okE := l.boundKey(posv.Args[len(posv.Args)-1], true)
	if !okS || !okE {
		return ""
	}
	isList := func(m member) bool {
		if sy, ok := m.v.(Sym); ok && sy.Member == "list" {
			return true
		}
		_, ok := m.v.(ListV)
		return ok
	}
	okStart := false
	for i := range ms {
		if keyMatch(ms[i].k, start) {
			okStart = true
			break
		}
		if isList(ms[i]) && !ms[i].certain {
			continue // an empty list contributes no position
		}
		return fmt.Sprintf("position starts at %s but %s, which precedes it, belongs to the node and is not known to be absent", start, ms[i].k)
	}
	if !okStart {
		return fmt.Sprintf("position starts at %s, which is not part of the node's content", start)
	}
	okEnd := false
	for i := len(ms) - 1; i >= 0; i-- {
		if keyMatch(ms[i].k, end) {
			okEnd = true
			break
		}
		if isList(ms[i]) && !ms[i].certain {
			continue
		}
		return fmt.Sprintf("position ends at %s but %s, which follows it, belongs to the node and is not known to be absent", end, ms[i].k)
	}
	if !okEnd {
		return fmt.Sprintf("position ends at %s, which is not part of the node's content", end)
	}
	return ""
}

// ---- leaf-value, nil-in-list, carriers ------------------------------------------------

// LeafValue: in a node literal that has a Value field and token fields, Value is the
// Value of a token stored in the same node.
func (l *Lang) LeafValue() *report.RuleResult {
	res := report.NewResult("leaf-value")
	g := l.L.G
	for n := 1; n < len(l.Actions); n++ {
		a := l.Actions[n]
		if len(a.Undec) > 0 {
			continue
		}
		pkey := l.L.Label + ":" + g.Key(a.Prod)
		for _, p := range a.Paths {
			w := l.contents(p)
			for _, o := range w.order {
				st := l.structOf(o.TName)
				if st == nil {
					continue
				}
				hasValue := false
				for i := 0; i < st.NumFields(); i++ {
					if st.Field(i).Name() == "Value" {
						hasValue = true
					}
				}
				if !hasValue || isCarrier(o.TName) {
					continue
				}
				res.Count("leaves", 1)
				k := fmt.Sprintf("%s/%s", pkey, o.TName)
				v, ok := o.Fields["Value"]
				if !ok {
					res.Bad(k, l.Prog.Pos(o.At), a.Prod.String(), o.TName+" is built without its Value")
					continue
				}
				vo, isVO := v.(ValueOf)
				if !isVO {
					// a computed value (e.g. "-" + digits): must mention only tokens of this node
					okc := true
					mentions := 0
					for i := 1; i <= len(a.Prod.RHS); i++ {
						if strings.Contains(v.String(), fmt.Sprintf("$%d.Value", i)) {
							mentions++
							found := false
							for f, fv := range o.Fields {
								if f != "Value" && f != "Position" && fv.String() == fmt.Sprintf("$%d", i) {
									found = true
								}
							}
							if !found {
								okc = false
							}
						}
					}
					if okc && mentions > 0 {
						res.OK(k, l.Prog.Pos(o.At), a.Prod.String(), "Value computed from its own tokens: "+v.String())
					} else {
						res.Bad(k, l.Prog.Pos(o.At), a.Prod.String(), "Value of "+o.TName+" is "+v.String()+", not the text of one of its own tokens")
					}
					continue
				}
				own := false
				for f, fv := range o.Fields {
					if f != "Value" && f != "Position" && fv.String() == vo.Tok.String() {
						own = true
					}
				}
				if own {
					res.OK(k, l.Prog.Pos(o.At), a.Prod.String(), "Value = "+vo.String()+", the token stored in the same node")
				} else {
					res.Bad(k, l.Prog.Pos(o.At), a.Prod.String(), fmt.Sprintf("Value of %s is %s but that token is not stored in the node: value and token text differ", o.TName, vo))
				}
			}
		}
	}
	return res
}

// NilInList: a value that may be nil is appended to a statement list only under a nil guard.
func (l *Lang) NilInList(shapes map[string]*Shape) *report.RuleResult {
	res := report.NewResult("nil-in-list")
	g := l.L.G
	for n := 1; n < len(l.Actions); n++ {
		a := l.Actions[n]
		if len(a.Undec) > 0 {
			continue
		}
		pkey := l.L.Label + ":" + g.Key(a.Prod)
		for _, p := range a.Paths {
			check := func(lv ListV, what string) {
				for _, sg := range lv.Segs {
					el, ok := sg.(Elem)
					if !ok {
						continue
					}
					sy, ok := el.V.(Sym)
					if !ok || (sy.Member != "node" && sy.Member != "token") {
						continue
					}
					name := a.Prod.RHS[sy.I-1]
					sh := shapes[name]
					if sy.Member == "token" {
						// an optional token (possible_comma, …): a nonterminal of token type with an empty alternative
						if !l.tokenMayBeNil(name) {
							continue
						}
					} else if sh == nil || !sh.MayNil {
						continue
					}
					res.Count("appends", 1)
					k := fmt.Sprintf("%s/$%d", pkey, sy.I)
					if isNil, known := p.St.KnownNil(sy); known && !isNil {
						res.OK(k, l.actionPos(a), a.Prod.String(), fmt.Sprintf("$%d (%s, may be nil) appended to %s under a nil guard", sy.I, name, what))
					} else {
						res.Bad(k, l.actionPos(a), a.Prod.String(), fmt.Sprintf("$%d (%s) may be nil (error production or empty alternative) and is appended to %s without a nil test: a nil statement enters the tree", sy.I, name, what))
					}
				}
			}
			if lv, ok := p.Result.(ListV); ok {
				check(lv, "$$")
			}
			for _, u := range p.St.Updates {
				if lv, ok := u.Val.(ListV); ok {
					check(lv, u.T+"."+u.F)
				}
			}
		}
	}
	return res
}

// tokenMayBeNil: name is a nonterminal of token type one of whose productions yields nil (an empty alternative
// that assigns nil or nothing).
func (l *Lang) tokenMayBeNil(name string) bool {
	g := l.L.G
	s := g.Symbols[name]
	if s == nil || s.Terminal || s.Type != "token" {
		return false
	}
	for n := 1; n < len(l.Actions); n++ {
		a := l.Actions[n]
		if a == nil || a.Prod.LHS != name {
			continue
		}
		if len(a.Paths) == 0 {
			return true
		}
		for _, p := range a.Paths {
			switch p.Result.(type) {
			case Nil, Stale, nil:
				return true
			}
		}
	}
	return false
}

// ErrorYieldsNil: the error alternatives of the statement nonterminals yield nil.
func (l *Lang) ErrorYieldsNil() *report.RuleResult {
	res := report.NewResult("error-yields-nil")
	for n := 1; n < len(l.Actions); n++ {
		a := l.Actions[n]
		if len(a.Prod.RHS) != 1 || a.Prod.RHS[0] != "error" {
			continue
		}
		res.Count("error-actions", 1)
		k := l.L.Label + ":" + l.L.G.Key(a.Prod)
		ok := len(a.Paths) > 0
		for _, p := range a.Paths {
			if _, isNil := p.Result.(Nil); !isNil {
				ok = false
			}
		}
		res.Check(ok, k, l.actionPos(a), a.Prod.String(), "yields nil: nothing of the broken statement enters the tree", "the error alternative does not assign nil to $$: goyacc's default leaves a copy of a stale stack slot, so an unrelated earlier node is appended to the statement list")
	}
	return res
}

// NoCarrierEscape: parser-private carrier objects never become children of ast nodes.
func (l *Lang) NoCarrierEscape(shapes map[string]*Shape) *report.RuleResult {
	res := report.NewResult("no-carrier-escape")
	for n := 1; n < len(l.Actions); n++ {
		a := l.Actions[n]
		if len(a.Undec) > 0 {
			continue
		}
		pkey := l.L.Label + ":" + l.L.G.Key(a.Prod)
		for _, p := range a.Paths {
			w := l.contents(p)
			for _, o := range w.order {
				if isCarrier(o.TName) {
					continue
				}
				for f, fv := range o.Fields {
					var chk func(v Val)
					chk = func(v Val) {
						switch x := v.(type) {
						case Sym:
							if x.Member != "node" || x.I < 1 || x.I > len(a.Prod.RHS) {
								return
							}
							sh := shapes[a.Prod.RHS[x.I-1]]
							if sh == nil {
								return
							}
							fct := p.St.Facts[x.String()]
							for t := range sh.Types {
								if !isCarrier(t) {
									continue
								}
								excluded := false
								if fct != nil {
									if fct.Type != "" && fct.Type != t {
										excluded = true
									}
									for _, nt := range fct.NotTyp {
										if nt == t {
											excluded = true
										}
									}
								}
								if !excluded {
									res.Bad(fmt.Sprintf("%s/%s.%s", pkey, o.TName, f), l.Prog.Pos(o.At), a.Prod.String(), fmt.Sprintf("$%d (%s) can be a parser-private %s and is stored whole in %s.%s on path [%s]: visitors skip it (its Accept is a no-op), so its tokens are never printed", x.I, a.Prod.RHS[x.I-1], t, o.TName, f, pathLabel(p)))
								}
							}
						case *Obj:
							if isCarrier(x.TName) && !strings.HasPrefix(x.TName, "token.") && !strings.HasPrefix(x.TName, "position.") {
								res.Bad(fmt.Sprintf("%s/%s.%s", pkey, o.TName, f), l.Prog.Pos(o.At), a.Prod.String(), "parser-private "+x.TName+" is stored in "+o.TName+"."+f+": visitors skip it (its Accept is a no-op), so its tokens are never printed")
							}
						case ListV:
							for _, sg := range x.Segs {
								chk(sg)
							}
						case Elem:
							chk(x.V)
						}
					}
					chk(fv)
				}
			}
		}
	}
	res.Count("productions", len(l.Actions)-1)
	if len(res.Obls) == 0 {
		res.OK(l.L.Label, l.L.G.File, "", "no object of a parser-private type is stored in a pkg/ast node")
	}
	return res
}
