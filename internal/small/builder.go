package small

import (
	"fmt"
	"go/ast"
	"go/token"
	"go/types"
	"strings"

	"verif/internal/load"
	"verif/internal/paths"
	"verif/internal/report"
)

// BuilderEnds decides rule builder-ends for the position combinators in
// package rel: every exported New…Position method obtains one fresh position
// (from the pool on the real tree) per call and returns it; StartLine/StartPos
// are read from the *start* of the first parameter and EndLine/EndPos from the
// *end* of the last parameter, each from the field of the same name (a
// nil-guarded first parameter may be replaced by the second).
func BuilderEnds(p *load.Program, rel string) *report.RuleResult {
	res := report.NewResult("builder-ends")
	pk := p.Pkg(rel)
	if pk == nil {
		res.Unknown(rel, rel, "", "undecided: package not found")
		return res
	}
	info := pk.TypesInfo
	for _, fd := range load.FuncDecls(pk) {
		name := fd.Name.Name
		if fd.Recv == nil || !strings.HasPrefix(name, "New") || !strings.HasSuffix(name, "Position") {
			continue
		}
		res.Count("combinators", 1)
		key := rel + "/" + name
		pos := p.Pos(fd.Pos())
		var params []types.Object
		for _, f := range fd.Type.Params.List {
			for _, nm := range f.Names {
				params = append(params, info.Defs[nm])
			}
		}
		if len(params) == 0 {
			res.Unknown(key, pos, name, "undecided: no parameters")
			continue
		}
		ps, err := paths.Enumerate(fd.Body)
		if err != nil {
			res.Unknown(key, pos, name, "undecided:idiom: "+err.Error())
			continue
		}
		bad := ""
		for pi, path := range ps {
			var posObj types.Object
			gets := 0
			assigned := map[string]int{}
			nilParams := map[types.Object]bool{}
			returned := false
			for _, it := range path {
				switch {
				case it.Cond != nil:
					// list == nil
					if be, ok := it.Cond.(*ast.BinaryExpr); ok && (be.Op == token.EQL || be.Op == token.NEQ) {
						if id, ok := be.X.(*ast.Ident); ok {
							if tv := info.Types[be.Y]; tv.IsNil() {
								if (be.Op == token.EQL) == it.Truth {
									nilParams[info.Uses[id]] = true
								}
								continue
							}
						}
					}
					bad = fmt.Sprintf("path %d: condition %s is not part of the combinator idiom", pi, types.ExprString(it.Cond))
				case it.Stmt != nil:
					as, ok := it.Stmt.(*ast.AssignStmt)
					if !ok || len(as.Lhs) != 1 || len(as.Rhs) != 1 {
						bad = fmt.Sprintf("path %d: unexpected statement", pi)
						continue
					}
					if as.Tok == token.DEFINE {
						// pos := b.pool.Get()
						call, ok := as.Rhs[0].(*ast.CallExpr)
						if !ok {
							bad = fmt.Sprintf("path %d: %s is not obtained from an allocator call", pi, types.ExprString(as.Lhs[0]))
							continue
						}
						callee := types.ExprString(call.Fun)
						if !(strings.HasSuffix(callee, ".Get") || strings.HasSuffix(callee, ".get")) {
							bad = fmt.Sprintf("path %d: position obtained from %s, not from the pool", pi, callee)
						}
						gets++
						posObj = info.Defs[as.Lhs[0].(*ast.Ident)]
						continue
					}
					se, ok := as.Lhs[0].(*ast.SelectorExpr)
					if !ok {
						bad = fmt.Sprintf("path %d: assignment to %s", pi, types.ExprString(as.Lhs[0]))
						continue
					}
					id, ok := se.X.(*ast.Ident)
					if !ok || info.Uses[id] != posObj || posObj == nil {
						bad = fmt.Sprintf("path %d: assignment to %s, which is not the fresh position", pi, types.ExprString(as.Lhs[0]))
						continue
					}
					f := se.Sel.Name
					assigned[f]++
					src, srcField, end, ok := boundarySource(info, as.Rhs[0])
					if !ok {
						bad = fmt.Sprintf("path %d: %s is computed from %s, not from a boundary of a parameter", pi, f, types.ExprString(as.Rhs[0]))
						continue
					}
					if !strings.EqualFold(srcField, f) {
						bad = fmt.Sprintf("path %d: %s is read from field %s", pi, f, srcField)
						continue
					}
					isStart := strings.HasPrefix(f, "Start")
					if isStart == end {
						bad = fmt.Sprintf("path %d: %s is taken from the %s of %s", pi, f, map[bool]string{true: "end", false: "start"}[end], src.Name())
						continue
					}
					// which parameter?
					want := params[len(params)-1]
					if isStart {
						want = params[0]
						for i := 0; i < len(params)-1 && nilParams[want]; i++ {
							want = params[i+1]
						}
					}
					if src != want {
						bad = fmt.Sprintf("path %d: %s is taken from parameter %s; the %s boundary is parameter %s", pi, f, src.Name(), map[bool]string{true: "start", false: "end"}[isStart], want.Name())
					}
				case it.Return != nil:
					returned = true
					if len(it.Return.Results) != 1 {
						bad = fmt.Sprintf("path %d: return arity", pi)
						continue
					}
					id, ok := it.Return.Results[0].(*ast.Ident)
					if !ok || info.Uses[id] != posObj || posObj == nil {
						bad = fmt.Sprintf("path %d: returns %s instead of the fresh position (two nodes would share one Position object)", pi, types.ExprString(it.Return.Results[0]))
					}
				default:
					bad = fmt.Sprintf("path %d: loops/switches are not part of the combinator idiom", pi)
				}
			}
			if gets != 1 {
				bad = fmt.Sprintf("path %d: %d positions allocated", pi, gets)
			}
			for _, f := range []string{"StartLine", "EndLine", "StartPos", "EndPos"} {
				if assigned[f] != 1 && bad == "" {
					bad = fmt.Sprintf("path %d: %s assigned %d times", pi, f, assigned[f])
				}
			}
			if !returned && bad == "" {
				bad = fmt.Sprintf("path %d: no return", pi)
			}
		}
		if bad == "" {
			res.OK(key, pos, name, fmt.Sprintf("%d paths: fresh position; start from first parameter, end from last, line and offset from the same source", len(ps)))
		} else {
			res.Bad(key, pos, name, bad)
		}
	}
	// the four boundary helpers
	for _, fd := range load.FuncDecls(pk) {
		name := fd.Name.Name
		var wantIdx string
		var end bool
		switch name {
		case "getListStartPos":
			wantIdx, end = "0", false
		case "getListEndPos":
			wantIdx, end = "len-1", true
		case "getNodeStartPos":
			end = false
		case "getNodeEndPos":
			end = true
		default:
			continue
		}
		res.Count("helpers", 1)
		key := rel + "/" + name
		ok, why := true, ""
		if strings.HasPrefix(name, "getList") {
			// must end in return getNode{Start,End}Pos(l[idx])
			found := false
			ast.Inspect(fd.Body, func(n ast.Node) bool {
				rs, isRet := n.(*ast.ReturnStmt)
				if !isRet || len(rs.Results) != 1 {
					return true
				}
				call, isCall := rs.Results[0].(*ast.CallExpr)
				if !isCall {
					return true
				}
				callee := types.ExprString(call.Fun)
				wantCallee := map[bool]string{false: "getNodeStartPos", true: "getNodeEndPos"}[end]
				if callee != wantCallee {
					ok, why = false, "delegates to "+callee
					return true
				}
				ix, isIx := call.Args[0].(*ast.IndexExpr)
				if !isIx {
					ok, why = false, "argument is not an element of the list"
					return true
				}
				got := types.ExprString(ix.Index)
				if wantIdx == "0" && got != "0" || wantIdx == "len-1" && !strings.HasPrefix(got, "len(") {
					ok, why = false, "uses element "+got
				}
				found = true
				return true
			})
			if !found && ok {
				ok, why = false, "no delegation to the node helper found"
			}
		} else {
			// sl/el = p.{Start,End}Line ; sp/ep = p.{Start,End}Pos ; return T{line, pos}
			src := map[types.Object]string{}
			ast.Inspect(fd.Body, func(n ast.Node) bool {
				as, isAs := n.(*ast.AssignStmt)
				if !isAs || len(as.Lhs) != 1 {
					return true
				}
				id, isId := as.Lhs[0].(*ast.Ident)
				se, isSel := as.Rhs[0].(*ast.SelectorExpr)
				if isId && isSel {
					if o := info.Uses[id]; o != nil {
						src[o] = se.Sel.Name
					} else if o := info.Defs[id]; o != nil {
						src[o] = se.Sel.Name
					}
				}
				return true
			})
			pre := map[bool]string{false: "Start", true: "End"}[end]
			var last *ast.CompositeLit
			ast.Inspect(fd.Body, func(n ast.Node) bool {
				if rs, isRet := n.(*ast.ReturnStmt); isRet && len(rs.Results) == 1 {
					if cl, isCl := rs.Results[0].(*ast.CompositeLit); isCl {
						last = cl
					}
				}
				return true
			})
			if last == nil || len(last.Elts) != 2 {
				ok, why = false, "result literal not recognised"
			} else {
				for i, wantF := range []string{pre + "Line", pre + "Pos"} {
					el := last.Elts[i]
					if kv, isKV := el.(*ast.KeyValueExpr); isKV {
						el = kv.Value
					}
					id, isId := el.(*ast.Ident)
					if !isId || src[info.Uses[id]] != wantF {
						ok, why = false, fmt.Sprintf("component %d of the result does not come from %s", i, wantF)
					}
				}
			}
		}
		res.Check(ok, key, p.Pos(fd.Pos()), name, "boundary helper reads the expected element and fields", "boundary helper "+name+": "+why)
	}
	return res
}

// boundarySource recognises  P.Position.F  |  getNode{Start,End}Pos(P).f  |  getList{Start,End}Pos(P).f  |  P.GetPosition().F
func boundarySource(info *types.Info, e ast.Expr) (param types.Object, field string, end bool, ok bool) {
	se, isSel := e.(*ast.SelectorExpr)
	if !isSel {
		return nil, "", false, false
	}
	field = se.Sel.Name
	switch x := se.X.(type) {
	case *ast.CallExpr:
		callee := types.ExprString(x.Fun)
		if len(x.Args) == 1 {
			if id, isId := x.Args[0].(*ast.Ident); isId {
				switch callee {
				case "getNodeStartPos", "getListStartPos":
					return info.Uses[id], field, false, true
				case "getNodeEndPos", "getListEndPos":
					return info.Uses[id], field, true, true
				}
			}
		}
		if sel, isS := x.Fun.(*ast.SelectorExpr); isS && sel.Sel.Name == "GetPosition" && len(x.Args) == 0 {
			if id, isId := sel.X.(*ast.Ident); isId {
				return info.Uses[id], field, strings.HasPrefix(field, "End"), true
			}
		}
	case *ast.SelectorExpr:
		if x.Sel.Name == "Position" {
			if id, isId := x.X.(*ast.Ident); isId {
				return info.Uses[id], field, strings.HasPrefix(field, "End"), true
			}
		}
	}
	return nil, "", false, false
}
