package small

import (
	"fmt"
	"go/constant"
	"go/types"
	"sort"
	"strings"

	"verif/internal/load"
	"verif/internal/report"
)

// TokenIDsAgree: the scanner hands the parser int(token.ID); the generated
// parsers compare that number with their own T_ constants. The two
// vocabularies are separate declarations (pkg/token by iota, the grammars by
// goyacc's numbering of %token lines), so every T_ name both sides declare must
// have the same value, and every T_ token a grammar declares must exist in
// tokRel (otherwise the scanner can never produce it).
func TokenIDsAgree(p *load.Program, tokRel, typeName string, grammarRels ...string) *report.RuleResult {
	res := report.NewResult("token-ids-agree")
	tp := p.Pkg(tokRel)
	if tp == nil {
		res.Unknown("pkg/"+tokRel, tokRel, "", "undecided:anchor: package "+tokRel+" not found")
		return res
	}
	tn, _ := tp.Types.Scope().Lookup(typeName).(*types.TypeName)
	if tn == nil {
		res.Unknown("type", tokRel, "", "undecided:anchor: type "+typeName+" not found")
		return res
	}
	ids := map[string]int64{}
	for _, name := range tp.Types.Scope().Names() {
		if c, ok := tp.Types.Scope().Lookup(name).(*types.Const); ok && types.Identical(c.Type(), tn.Type()) {
			if v, ok := constant.Int64Val(c.Val()); ok {
				ids[name] = v
			}
		}
	}
	for _, rel := range grammarRels {
		gp := p.Pkg(rel)
		if gp == nil {
			res.Unknown("pkg/"+rel, rel, "", "undecided:anchor: package "+rel+" not found")
			continue
		}
		var names []string
		for _, name := range gp.Types.Scope().Names() {
			if strings.HasPrefix(name, "T_") {
				if _, ok := gp.Types.Scope().Lookup(name).(*types.Const); ok {
					names = append(names, name)
				}
			}
		}
		sort.Strings(names)
		for _, name := range names {
			c := gp.Types.Scope().Lookup(name).(*types.Const)
			v, ok := constant.Int64Val(c.Val())
			if !ok {
				continue
			}
			res.Count("tokens", 1)
			key := rel + "/" + name
			pos := p.Pos(c.Pos())
			want, declared := ids[name]
			switch {
			case !declared:
				res.Bad(key, pos, "", fmt.Sprintf("grammar token %s (%d) has no constant in %s: the scanner cannot produce it", name, v, tokRel))
			case want != v:
				res.Bad(key, pos, "", fmt.Sprintf("%s is %d in %s but %d in %s: the parser takes the scanner's %s for another token", name, v, rel, want, tokRel, name))
			default:
				res.OK(key, pos, "", fmt.Sprintf("%s = %d on both sides", name, v))
			}
		}
	}
	return res
}
