package small

import (
	"os"
	"fmt"
	"go/ast"
	"go/constant"
	"go/token"
	"go/types"
	"sort"
	"strconv"
	"strings"
	"verif/internal/effects"
	"verif/internal/norm"

	"golang.org/x/tools/go/packages"
	"golang.org/x/tools/go/types/typeutil"

	"verif/internal/ceval"
	"verif/internal/load"
	"verif/internal/paths"
	"verif/internal/report"
)

type ver struct{ maj, min uint64 }

func (a ver) cmp(b ver) int {
	switch {
	case a.maj < b.maj:
		return -1
	case a.maj > b.maj:
		return 1
	case a.min < b.min:
		return -1
	case a.min > b.min:
		return 1
	}
	return 0
}

func (a ver) String() string { return fmt.Sprintf("%d.%d", a.maj, a.min) }

// oracle: the supported ranges and the heredoc change (PHP's own history)
var oracleRanges = [][2]ver{{{5, 0}, {5, 6}}, {{7, 0}, {7, 4}}}
var oracleDefault = ver{7, 4}

// cells of the property's equivalence: versions that must behave identically
var oracleCells = [][]ver{
	{{5, 0}, {5, 1}, {5, 2}, {5, 3}, {5, 4}, {5, 5}, {5, 6}},
	{{7, 0}, {7, 1}, {7, 2}},
	{{7, 3}, {7, 4}},
}

func inOracle(v ver) bool {
	for _, r := range oracleRanges {
		if v.cmp(r[0]) >= 0 && v.cmp(r[1]) <= 0 {
			return true
		}
	}
	return false
}

func mkVer(v ver) *structVal {
	return &structVal{f: map[string]value{"Major": atom{v.maj}, "Minor": atom{v.min}}}
}

func versionStructOK(pk *packages.Package) (*types.Named, string) {
	tn, _ := pk.Types.Scope().Lookup("Version").(*types.TypeName)
	if tn == nil {
		return nil, "type Version not found"
	}
	st, ok := tn.Type().Underlying().(*types.Struct)
	if !ok || st.NumFields() != 2 || st.Field(0).Name() != "Major" || st.Field(1).Name() != "Minor" {
		return nil, "Version is not struct{Major, Minor}"
	}
	for i := 0; i < 2; i++ {
		if b, ok := st.Field(i).Type().Underlying().(*types.Basic); !ok || b.Kind() != types.Uint64 {
			return nil, "Version fields are not uint64"
		}
	}
	return tn.Type().(*types.Named), ""
}

// OrderDomain decides rule order-domain (C09).
func OrderDomain(p *load.Program) *report.RuleResult { return OrderDomainIn(p, "pkg/version") }

func OrderDomainIn(p *load.Program, rel string) *report.RuleResult {
	res := report.NewResult("order-domain")
	pk := p.Pkg(rel)
	if pk == nil {
		res.Unknown("pkg", "-", "", "undecided:anchor: pkg/version not found")
		return res
	}
	if _, why := versionStructOK(pk); why != "" {
		res.Unknown("Version", "-", "", "undecided:anchor: "+why)
		return res
	}
	methods := load.Methods(pk, "Version")
	in := newInterp(pk)
	var cev *ceval.Interp
	const big = ^uint64(0)
	small3 := []uint64{1, 2, 3}
	var grid3 []ver
	for _, a := range small3 {
		for _, b := range small3 {
			grid3 = append(grid3, ver{a, b})
		}
	}
	wide := []uint64{0, 1, 2, 1 << 31, 1 << 32, 1<<63 - 1, 1 << 63, big - 1, big}
	var gridW []ver
	for _, a := range wide {
		for _, b := range wide {
			gridW = append(gridW, ver{a, b})
		}
	}
	evalBool := func(fd *ast.FuncDecl, recv ver, args ...ver) (bool, error) {
		var av []value
		for _, a := range args {
			av = append(av, mkVer(a))
		}
		r, err := in.Call(fd, mkVer(recv), av)
		if err != nil {
			return false, err
		}
		b, ok := r[0].(bool)
		if !ok {
			return false, fmt.Errorf("non-bool result")
		}
		return b, nil
	}
	sign := func(i int64) int {
		switch {
		case i < 0:
			return -1
		case i > 0:
			return 1
		}
		return 0
	}
	// Compare
	cases := 0
	if fd := methods["Compare"]; fd == nil {
		res.Unknown("Compare", "-", "", "undecided:anchor: Version.Compare not found")
	} else {
		bad := ""
		for _, g := range [][]ver{grid3, gridW} {
			for _, a := range g {
				for _, b := range g {
					cases++
					r, err := in.Call(fd, mkVer(a), []value{mkVer(b)})
					if err != nil {
						res.Unknown("Compare", p.Pos(fd.Pos()), "Version.Compare", "undecided:idiom: "+err.Error())
						bad = "-"
						break
					}
					got, ok := r[0].(int64)
					if !ok || sign(got) != a.cmp(b) || got < -1 || got > 1 {
						bad = fmt.Sprintf("Compare(%s, %s) = %v, want %d (numeric order on (major, minor))", a, b, r[0], a.cmp(b))
						break
					}
				}
				if bad != "" {
					break
				}
			}
		}
		if bad != "-" {
			res.Check(bad == "", "Compare", p.Pos(fd.Pos()), "Version.Compare", "equals lexicographic order on (Major, Minor) for every ordering of the operands (values are touched only through comparisons; all orderings of 2x2 atoms plus boundary/huge representatives)", bad)
		}
	}
	type relSpec struct {
		name string
		want func(c int) bool
	}
	for _, rs := range []relSpec{
		{"Less", func(c int) bool { return c < 0 }}, {"LessOrEqual", func(c int) bool { return c <= 0 }},
		{"Greater", func(c int) bool { return c > 0 }}, {"GreaterOrEqual", func(c int) bool { return c >= 0 }},
	} {
		fd := methods[rs.name]
		if fd == nil {
			res.Unknown(rs.name, "-", "", "undecided:anchor: Version."+rs.name+" not found")
			continue
		}
		bad := ""
		for _, a := range grid3 {
			for _, b := range grid3 {
				cases++
				got, err := evalBool(fd, a, b)
				if err != nil {
					bad = "undecided:idiom: " + err.Error()
					break
				}
				if got != rs.want(a.cmp(b)) {
					bad = fmt.Sprintf("%s.%s(%s) = %v", a, rs.name, b, got)
					break
				}
			}
		}
		if strings.HasPrefix(bad, "undecided") {
			res.Unknown(rs.name, p.Pos(fd.Pos()), "Version."+rs.name, bad)
		} else {
			res.Check(bad == "", rs.name, p.Pos(fd.Pos()), "Version."+rs.name, "agrees with numeric order for all 81 orderings", bad)
		}
	}
	if fd := methods["InRange"]; fd == nil {
		res.Unknown("InRange", "-", "", "undecided:anchor: Version.InRange not found")
	} else {
		bad := ""
	outer:
		for _, v := range grid3 {
			for _, s := range grid3 {
				for _, e := range grid3 {
					cases++
					got, err := evalBool(fd, v, s, e)
					if err != nil {
						bad = "undecided:idiom: " + err.Error()
						break outer
					}
					want := v.cmp(s) >= 0 && v.cmp(e) <= 0
					if got != want {
						bad = fmt.Sprintf("%s.InRange(%s, %s) = %v, want %v (closed interval)", v, s, e, got, want)
						break outer
					}
				}
			}
		}
		if strings.HasPrefix(bad, "undecided") {
			res.Unknown("InRange", p.Pos(fd.Pos()), "Version.InRange", bad)
		} else {
			res.Check(bad == "", "InRange", p.Pos(fd.Pos()), "Version.InRange", "closed-interval membership for all 729 orderings of (v, start, end)", bad)
		}
	}
	// Validate against the oracle set
	if fd := methods["Validate"]; fd == nil {
		res.Unknown("Validate", "-", "", "undecided:anchor: Version.Validate not found")
	} else {
		bad := ""
		majors := []uint64{0, 4, 5, 6, 7, 8, 1 << 32, big}
		minors := []uint64{0, 1, 3, 4, 5, 6, 7, 8, 1 << 32, big}
	vloop:
		for _, ma := range majors {
			for _, mi := range minors {
				cases++
				v := ver{ma, mi}
				r, err := in.Call(fd, mkVer(v), nil)
				if err != nil {
					// outside the small interpreter's vocabulary (a table of ranges and a loop): the general evaluator,
					// whose integers are signed 64-bit, for the values that fit
					if ma >= 1<<62 || mi >= 1<<62 {
						continue
					}
					if cev == nil {
						cev = ceval.New(pk)
					}
					out, st, why := cev.Call(fd, &ceval.Struct{Type: "Version", Fields: map[string]interface{}{"Major": int64(ma), "Minor": int64(mi)}}, nil)
					if st != ceval.OK || len(out) != 1 {
						bad = "undecided:idiom: " + err.Error() + "; general evaluator: " + why
						break vloop
					}
					if _, ok := out[0].(ceval.Nil); ok {
						r = []value{nilVal{}}
					} else {
						r = []value{&structVal{}}
					}
				}
				_, isNil := r[0].(nilVal)
				if isNil != inOracle(v) {
					bad = fmt.Sprintf("Validate(%s) accepts=%v, PHP versions supported are 5.0-5.6 and 7.0-7.4", v, isNil)
					break vloop
				}
			}
		}
		if strings.HasPrefix(bad, "undecided") {
			res.Unknown("Validate", p.Pos(fd.Pos()), "Version.Validate", bad)
		} else {
			res.Check(bad == "", "Validate", p.Pos(fd.Pos()), "Version.Validate", "accepts exactly 5.0-5.6 and 7.0-7.4 on every ordering relative to the boundary constants (incl. huge values)", bad)
		}
	}
	res.Count("evaluations", cases)
	res.Count("functions", len(methods))

	// version.New: what it computes, decided by evaluation; structural provenance when it cannot be evaluated
	var newFd *ast.FuncDecl
	for _, d := range load.FuncDecls(pk) {
		if d.Recv == nil && d.Name.Name == "New" {
			newFd = d
		}
	}
	if problems, decided := versionNewByEval(pk, newFd); newFd != nil && decided {
		res.Check(len(problems) == 0, "New", p.Pos(newFd.Pos()), "version.New", "on every version string of the family (34 strings; in the thorough tier also every string of up to four characters over 7, 0, dot, minus, a letter and a blank) the result is (major, minor) of `<number>.<number>` and an error for everything else", strings.Join(problems, "; "))
	} else if w, err := effects.NewWorld(p); err != nil {
		res.Unknown("New", "-", "", "undecided:ssa: "+err.Error())
	} else {
		effects.VersionNew(w, rel, res)
	}
	// no writes to package-level vars / version fields outside New
	for _, fd := range load.FuncDecls(pk) {
		ast.Inspect(fd.Body, func(x ast.Node) bool {
			as, ok := x.(*ast.AssignStmt)
			if !ok {
				return true
			}
			for _, l := range as.Lhs {
				if se, ok := l.(*ast.SelectorExpr); ok {
					if sel := pk.TypesInfo.Selections[se]; sel != nil && (se.Sel.Name == "Major" || se.Sel.Name == "Minor") {
						res.Check(fd.Name.Name == "New" && fd.Recv == nil, "writes/"+fd.Name.Name+"/"+se.Sel.Name, p.Pos(as.Pos()), fd.Name.Name, "Version fields written only by New on its fresh value", "Version field written outside New: range constants or callers' versions could change")
					}
				}
				if id, ok := l.(*ast.Ident); ok {
					if o := pk.TypesInfo.Uses[id]; o != nil && o.Parent() == pk.Types.Scope() {
						res.Bad("writes/"+fd.Name.Name+"/"+id.Name, p.Pos(as.Pos()), fd.Name.Name, "package-level variable assigned at run time")
					}
				}
			}
			return true
		})
	}
	return res
}

func checkVersionNew(p *load.Program, pk *packages.Package, res *report.RuleResult) {
	var fd *ast.FuncDecl
	for _, d := range load.FuncDecls(pk) {
		if d.Recv == nil && d.Name.Name == "New" {
			fd = d
		}
	}
	if fd == nil {
		res.Unknown("New", "-", "", "undecided:anchor: version.New not found")
		return
	}
	pos := p.Pos(fd.Pos())
	info := pk.TypesInfo
	// what New computes is decided first: its body is evaluated from source (package ceval) on a family of
	// version strings and compared with the rule "exactly one dot separates two base-10 numbers that fit 64
	// bits"; the shape of the body (which library call splits the string) is only read when it cannot be evaluated
	if problems, decided := versionNewByEval(pk, fd); decided {
		res.Check(len(problems) == 0, "New", pos, "version.New", "on every version string of the family (34 strings; in the thorough tier also every string of up to four characters over 7, 0, dot, minus, a letter and a blank) the result is (major, minor) of `<number>.<number>` and an error for everything else", strings.Join(problems, "; "))
		return
	}
	got := map[string]string{} // field -> "parts[i]"
	var problems []string
	splitOK := false
	ast.Inspect(fd.Body, func(x ast.Node) bool {
		switch s := x.(type) {
		case *ast.AssignStmt:
			if len(s.Rhs) != 1 {
				return true
			}
			call, ok := s.Rhs[0].(*ast.CallExpr)
			if !ok {
				return true
			}
			fn, _ := typeutil.Callee(info, call).(*types.Func)
			if fn == nil || fn.Pkg() == nil {
				return true
			}
			switch fn.Pkg().Path() + "." + fn.Name() {
			case "strings.SplitN", "strings.Split":
				if len(call.Args) >= 2 {
					if tv := info.Types[call.Args[1]]; tv.Value != nil && constant.StringVal(tv.Value) == "." {
						splitOK = true
					}
				}
			case "strconv.ParseUint":
				if len(call.Args) != 3 || len(s.Lhs) != 2 {
					problems = append(problems, "ParseUint call of unexpected shape")
					return true
				}
				b, s2 := info.Types[call.Args[1]], info.Types[call.Args[2]]
				if b.Value == nil || b.Value.ExactString() != "10" {
					problems = append(problems, "segments are not parsed in base 10")
				}
				if s2.Value == nil || s2.Value.ExactString() != "64" {
					problems = append(problems, "segments are not parsed as 64-bit values (the fields are uint64)")
				}
				se, ok := s.Lhs[0].(*ast.SelectorExpr)
				if !ok {
					problems = append(problems, "ParseUint result is not stored into a Version field")
					return true
				}
				got[se.Sel.Name] = types.ExprString(call.Args[0])
			}
		}
		return true
	})
	if !splitOK {
		problems = append(problems, "the string is not split at \".\"")
	}
	ix := func(s string) string {
		if i := strings.Index(s, "["); i >= 0 {
			return s[i:]
		}
		return s
	}
	if ix(got["Major"]) != "[0]" || ix(got["Minor"]) != "[1]" {
		problems = append(problems, fmt.Sprintf("Major comes from %q and Minor from %q; want segment 0 and segment 1", got["Major"], got["Minor"]))
	}
	res.Check(len(problems) == 0, "New", pos, "version.New", "splits at '.', parses segment 0 into Major and segment 1 into Minor with ParseUint(…, 10, 64)", strings.Join(problems, "; "))
}

// globalVer resolves a package-level *Version variable initialised by a
// constant composite literal.
func globalVer(pk *packages.Package, e ast.Expr) (ver, string, bool) {
	var id *ast.Ident
	switch x := unparen(e).(type) {
	case *ast.Ident:
		id = x
	case *ast.SelectorExpr:
		id = x.Sel
	}
	if id == nil {
		return ver{}, "", false
	}
	obj, _ := pk.TypesInfo.Uses[id].(*types.Var)
	if obj == nil || obj.Parent() != obj.Pkg().Scope() {
		return ver{}, "", false
	}
	for _, f := range pk.Syntax {
		for _, d := range f.Decls {
			gd, ok := d.(*ast.GenDecl)
			if !ok || gd.Tok != token.VAR {
				continue
			}
			for _, sp := range gd.Specs {
				vs := sp.(*ast.ValueSpec)
				// var v, _ = version.New("x.y")
				if len(vs.Names) == 2 && len(vs.Values) == 1 && pk.TypesInfo.Defs[vs.Names[0]] == obj && !globalAssigned(pk, obj) {
					if call, ok := vs.Values[0].(*ast.CallExpr); ok && len(call.Args) == 1 {
						fn, _ := typeutil.Callee(pk.TypesInfo, call).(*types.Func)
						if fn != nil && fn.Name() == "New" && fn.Pkg() != nil && load.Rel(fn.Pkg()) == "pkg/version" {
							if tv := pk.TypesInfo.Types[call.Args[0]]; tv.Value != nil && tv.Value.Kind() == constant.String {
								var v ver
								if n, _ := fmt.Sscanf(constant.StringVal(tv.Value), "%d.%d", &v.maj, &v.min); n == 2 {
									return v, vs.Names[0].Name, true
								}
							}
						}
					}
					return ver{}, "", false
				}
				for i, nm := range vs.Names {
					if pk.TypesInfo.Defs[nm] != obj || i >= len(vs.Values) {
						continue
					}
					if globalAssigned(pk, obj) {
						return ver{}, "", false
					}
					ue, ok := vs.Values[i].(*ast.UnaryExpr)
					if !ok || ue.Op != token.AND {
						return ver{}, "", false
					}
					cl, ok := ue.X.(*ast.CompositeLit)
					if !ok {
						return ver{}, "", false
					}
					var v ver
					for _, el := range cl.Elts {
						kv, ok := el.(*ast.KeyValueExpr)
						if !ok {
							return ver{}, "", false
						}
						tv := pk.TypesInfo.Types[kv.Value]
						if tv.Value == nil {
							return ver{}, "", false
						}
						u, _ := constant.Uint64Val(tv.Value)
						switch kv.Key.(*ast.Ident).Name {
						case "Major":
							v.maj = u
						case "Minor":
							v.min = u
						}
					}
					return v, nm.Name, true
				}
			}
		}
	}
	return ver{}, "", false
}

// globalAssigned: the package-level variable is assigned, or its address taken,
// somewhere in its package (it is not a constant then).
func globalAssigned(pk *packages.Package, obj types.Object) bool {
	found := false
	is := func(e ast.Expr) bool {
		for {
			switch x := unparen(e).(type) {
			case *ast.StarExpr:
				e = x.X
				continue
			case *ast.SelectorExpr:
				if o, ok := pk.TypesInfo.Uses[x.Sel]; ok && o == obj {
					return true
				}
				e = x.X
				continue
			case *ast.Ident:
				return pk.TypesInfo.Uses[x] == obj
			}
			return false
		}
	}
	for _, f := range pk.Syntax {
		ast.Inspect(f, func(n ast.Node) bool {
			switch x := n.(type) {
			case *ast.AssignStmt:
				for _, l := range x.Lhs {
					if is(l) {
						found = true
					}
				}
			case *ast.IncDecStmt:
				if is(x.X) {
					found = true
				}
			case *ast.UnaryExpr:
				if x.Op == token.AND && is(x.X) {
					found = true
				}
			}
			return true
		})
	}
	return found
}

func isInRangeCall(pk *packages.Package, e ast.Expr) (*ast.CallExpr, bool) {
	call, ok := unparen(e).(*ast.CallExpr)
	if !ok || len(call.Args) != 2 {
		return nil, false
	}
	fn, _ := typeutil.Callee(pk.TypesInfo, call).(*types.Func)
	if fn == nil || fn.Name() != "InRange" || load.Rel(fn.Pkg()) != "pkg/version" {
		return nil, false
	}
	return call, true
}

// DispatchShape decides rules dispatch-shape and range-tables-agree (C09).
func DispatchShape(p *load.Program) *report.RuleResult {
	return DispatchShapeIn(p, "pkg/parser", "pkg/version")
}

func DispatchShapeIn(p *load.Program, prel, vrel string) *report.RuleResult {
	res := report.NewResult("dispatch-shape")
	pk := p.Pkg(prel)
	vk := p.Pkg(vrel)
	if pk == nil || vk == nil {
		res.Unknown("pkg", "-", "", "undecided:anchor: pkg/parser or pkg/version not found")
		return res
	}
	var parse *ast.FuncDecl
	for _, fd := range load.FuncDecls(pk) {
		if fd.Recv == nil && fd.Name.Name == "Parse" {
			parse = fd
		}
	}
	if parse == nil {
		res.Unknown("Parse", "-", "", "undecided:anchor: parser.Parse not found")
		return res
	}
	pos := p.Pos(parse.Pos())
	info := pk.TypesInfo
	evaluated := dispatchEval(p, prel, vrel, res)
	// range vars are never reassigned anywhere in the module
	for _, q := range []*packages.Package{pk, vk} {
		for _, fd := range load.FuncDecls(q) {
			ast.Inspect(fd.Body, func(x ast.Node) bool {
				if as, ok := x.(*ast.AssignStmt); ok {
					for _, l := range as.Lhs {
						if id, ok := l.(*ast.Ident); ok {
							if o, ok := q.TypesInfo.Uses[id].(*types.Var); ok && o.Parent() == q.Types.Scope() {
								res.Bad("global-write/"+load.Rel(q.Types)+"/"+id.Name, p.Pos(as.Pos()), fd.Name.Name, "package-level variable assigned at run time")
							}
						}
					}
				}
				return true
			})
		}
	}
	if evaluated {
		return res // decided by evaluation; the structural path rule below is the fallback for code the evaluator cannot read
	}
	// config parameter and its Version field
	var cfgObj types.Object
	if parse.Type.Params.NumFields() == 2 {
		cfgObj = info.Defs[parse.Type.Params.List[1].Names[0]]
	}
	isCfgVersion := func(e ast.Expr) bool {
		se, ok := unparen(e).(*ast.SelectorExpr)
		if !ok || se.Sel.Name != "Version" {
			return false
		}
		id, ok := se.X.(*ast.Ident)
		return ok && info.Uses[id] == cfgObj
	}
	// canonical shape first: helpers of the package inlined, switches as if-chains, single-use locals propagated
	nz := norm.New(pk, norm.Options{NoLoops: true})
	body := nz.Body(parse)
	info = nz.Info
	ps, err := paths.Enumerate(body)
	if err != nil {
		res.Unknown("Parse", pos, "parser.Parse", "undecided:idiom: "+err.Error())
		return res
	}
	res.Count("paths", len(ps))
	rangesSeen := map[string]bool{}
	for pi, path := range ps {
		key := fmt.Sprintf("Parse/path%d", pi)
		versionNil := 0 // 1 nil, 2 non-nil/unknown-but-set
		defaulted := false
		usedBeforeDefault := false
		usedBeforeTest := false
		var inRange *[2]ver
		var ctorPkg string
		parseCalled := false
		why := ""
		var desc []string
		for _, it := range path {
			switch {
			case it.Cond != nil:
				if be, ok := unparen(it.Cond).(*ast.BinaryExpr); ok && isCfgVersion(be.X) {
					if tv := info.Types[be.Y]; tv.IsNil() {
						if (be.Op == token.EQL) == it.Truth {
							versionNil = 1
						} else {
							versionNil = 2
						}
						desc = append(desc, fmt.Sprintf("version nil=%v", versionNil == 1))
						continue
					}
				}
				if call, ok := isInRangeCall(pk, it.Cond); ok {
					se := call.Fun.(*ast.SelectorExpr)
					if !isCfgVersion(se.X) {
						why = "InRange is not applied to the configured version"
						continue
					}
					if versionNil == 1 && !defaulted {
						usedBeforeDefault = true
					} else if versionNil == 0 {
						usedBeforeTest = true
					}
					a, an, ok1 := globalVer(pk, call.Args[0])
					b, bn, ok2 := globalVer(pk, call.Args[1])
					if !ok1 || !ok2 {
						why = "range bounds are not package-level constants"
						continue
					}
					rangesSeen[a.String()+"-"+b.String()] = true
					desc = append(desc, fmt.Sprintf("InRange(%s=%s,%s=%s)=%v", an, a, bn, b, it.Truth))
					if it.Truth {
						inRange = &[2]ver{a, b}
					}
					continue
				}
				why = "unrecognised condition " + types.ExprString(it.Cond)
			case it.Stmt != nil:
				ast.Inspect(it.Stmt, func(x ast.Node) bool {
					switch s := x.(type) {
					case *ast.AssignStmt:
						if len(s.Lhs) == 1 && isCfgVersion(s.Lhs[0]) {
							v, _, ok := globalVer(pk, s.Rhs[0])
							if versionNil == 1 && ok && v == oracleDefault {
								defaulted = true
							} else if versionNil == 1 {
								why = "an omitted version is replaced by something other than 7.4"
							} else {
								why = "the configured version is overwritten although it was given"
							}
							return false
						}
					case *ast.CallExpr:
						if fn, _ := typeutil.Callee(info, s).(*types.Func); fn != nil {
							if fn.Name() == "NewParser" {
								ctorPkg = load.Rel(fn.Pkg())
							}
							if fn.Name() == "Parse" && ctorPkg != "" {
								parseCalled = true
							}
						}
						// whatever receives the configuration must receive it after the default was decided:
						// a copy taken while the version can still be nil keeps the nil (seed C09-12)
						if (versionNil == 1 && !defaulted) || versionNil == 0 {
							for _, a := range s.Args {
								ast.Inspect(a, func(y ast.Node) bool {
									if id, ok := y.(*ast.Ident); ok && cfgObj != nil && info.Uses[id] == cfgObj {
										if versionNil == 0 {
											usedBeforeTest = true // harmless on the paths where the version turns out to be given
										} else {
											usedBeforeDefault = true
										}
									}
									return true
								})
							}
						}
					}
					return true
				})
			case it.Return != nil:
				r := it.Return
				if len(r.Results) != 2 {
					why = "unexpected return"
					continue
				}
				treeNil := info.Types[r.Results[0]].IsNil()
				errNil := info.Types[r.Results[1]].IsNil()
				switch {
				case inRange != nil:
					wantPkg := ""
					if *inRange == oracleRanges[0] {
						wantPkg = "internal/php5"
					} else if *inRange == oracleRanges[1] {
						wantPkg = "internal/php7"
					}
					switch {
					case wantPkg == "":
						why = fmt.Sprintf("range %s-%s is not a supported PHP range (5.0-5.6, 7.0-7.4)", inRange[0], inRange[1])
					case ctorPkg != wantPkg:
						why = fmt.Sprintf("versions %s-%s are parsed by %q, want %s", inRange[0], inRange[1], ctorPkg, wantPkg)
					case !parseCalled:
						why = "the tree is returned without running the parser"
					case treeNil || !errNil:
						why = "a supported version does not yield (tree, nil)"
					}
				default:
					if !treeNil || errNil {
						why = "a version outside every supported range does not yield (nil, error)"
					}
				}
			default:
				why = "loops/switches are outside the dispatch idiom"
			}
		}
		if versionNil == 1 && !defaulted && why == "" {
			why = "an omitted version is not replaced by 7.4"
		}
		if usedBeforeTest && versionNil != 2 {
			usedBeforeDefault = true
		}
		if usedBeforeDefault && why == "" {
			why = "the version is used before the nil default is applied"
		}
		res.Check(why == "", key, pos, "parser.Parse", strings.Join(desc, "; "), why+" ("+strings.Join(desc, "; ")+")")
	}
	var seen []string
	for r := range rangesSeen {
		seen = append(seen, r)
	}
	sort.Strings(seen)
	res.Check(strings.Join(seen, ",") == "5.0-5.6,7.0-7.4", "ranges/parser", pos, "parser.Parse", "dispatches on exactly 5.0-5.6 and 7.0-7.4", "ranges tested by Parse are "+strings.Join(seen, ",")+", want 5.0-5.6 and 7.0-7.4")

	// the validator's ranges (pkg/version) agree: decided semantically by order-domain/Validate;
	// here: the constants named in Validate are package-level literals.
	for _, fd := range load.FuncDecls(vk) {
		if fd.Name.Name != "Validate" {
			continue
		}
		var vr []string
		ast.Inspect(fd.Body, func(x ast.Node) bool {
			if e, ok := x.(ast.Expr); ok {
				if call, ok := isInRangeCall(vk, e); ok {
					a, _, ok1 := globalVer(vk, call.Args[0])
					b, _, ok2 := globalVer(vk, call.Args[1])
					if ok1 && ok2 {
						vr = append(vr, a.String()+"-"+b.String())
					} else {
						vr = append(vr, "?")
					}
				}
			}
			return true
		})
		sort.Strings(vr)
		res.Check(strings.Join(vr, ",") == strings.Join(seen, ","), "ranges/agree", p.Pos(fd.Pos()), "Version.Validate", "validator and parser use the same range constants "+strings.Join(vr, ","), "validator ranges "+strings.Join(vr, ",")+" differ from the parser's "+strings.Join(seen, ","))
	}
	return res
}

// VersionFlow decides rule version-flow (C09): outside pkg/version the
// configured version is only copied and compared, through comparison methods
// whose other operand is a constant; each such test must be constant on every
// cell of the property's partition of supported versions.
// versionCondByEval: the boolean expression that encloses a use of the configured version, evaluated from source
// (package ceval: pkg/version's methods and the package's variables interpreted) for every supported version; it
// must be constant on each cell of the property's partition. decided=false: outside the evaluator's vocabulary.
func versionCondByEval(p *load.Program, q *packages.Package, fd *ast.FuncDecl, stack []ast.Node) (bad string, what string, decided bool) {
	vk := p.Pkg("pkg/version")
	if vk == nil || fd.Recv == nil || len(fd.Recv.List) != 1 || len(fd.Recv.List[0].Names) != 1 {
		return "", "", false
	}
	var cond ast.Expr
	for i := len(stack) - 1; i >= 0; i-- {
		if e, ok := stack[i].(ast.Expr); ok {
			if b, ok := q.TypesInfo.TypeOf(e).Underlying().(*types.Basic); ok && b.Info()&types.IsBoolean != 0 {
				cond = e
				break
			}
		}
	}
	if cond == nil {
		return "", "", false
	}
	recvObj := q.TypesInfo.Defs[fd.Recv.List[0].Names[0]]
	rt := recvObj.Type()
	if pt, ok := rt.Underlying().(*types.Pointer); ok {
		rt = pt.Elem()
	}
	st, ok := rt.Underlying().(*types.Struct)
	if !ok {
		return "", "", false
	}
	in := ceval.New(q, vk)
	eval := func(v ver) (bool, bool) {
		fields := map[string]interface{}{}
		for i := 0; i < st.NumFields(); i++ {
			if isVersionPtr(st.Field(i).Type()) {
				fields[st.Field(i).Name()] = &ceval.Struct{Type: "Version", Fields: map[string]interface{}{"Major": int64(v.maj), "Minor": int64(v.min)}}
			}
		}
		r, status, _ := in.Eval(cond, q.TypesInfo, map[types.Object]interface{}{recvObj: &ceval.Struct{Type: "recv", Fields: fields}})
		b, isBool := r.(bool)
		return b, status == ceval.OK && isBool
	}
	what = types.ExprString(cond)
	for _, cell := range oracleCells {
		first, ok := eval(cell[0])
		if !ok {
			return "", what, false
		}
		for _, v := range cell[1:] {
			got, ok := eval(v)
			if !ok {
				return "", what, false
			}
			if got != first && bad == "" {
				bad = fmt.Sprintf("`%s` distinguishes %s from %s, which the property requires to behave identically (only the 7.3 heredoc change may split a family)", what, cell[0], v)
			}
		}
	}
	return bad, what, true
}

func VersionFlow(p *load.Program) *report.RuleResult {
	res := report.NewResult("version-flow")
	vk := p.Pkg("pkg/version")
	if vk == nil {
		res.Unknown("pkg", "-", "", "undecided:anchor: pkg/version not found")
		return res
	}
	vnamed, why := versionStructOK(vk)
	if why != "" {
		res.Unknown("Version", "-", "", "undecided:anchor: "+why)
		return res
	}
	isVerPtr := func(t types.Type) bool {
		pt, ok := t.(*types.Pointer)
		return ok && types.Identical(pt.Elem(), vnamed)
	}
	cmpWant := map[string]func(int) bool{
		"Less": func(c int) bool { return c < 0 }, "LessOrEqual": func(c int) bool { return c <= 0 },
		"Greater": func(c int) bool { return c > 0 }, "GreaterOrEqual": func(c int) bool { return c >= 0 },
	}
	for _, q := range p.All {
		rel := load.Rel(q.Types)
		if rel == "pkg/version" || strings.HasPrefix(rel, "cmd/") || rel == "pkg/parser" || rel == "pkg/conf" {
			continue // pkg/parser is decided by dispatch-shape; cmd only builds the configuration
		}
		for _, fd := range load.FuncDecls(q) {
			fname := fd.Name.Name
			// map: local var -> constant version string (from version.New("x.y"))
			consts := map[types.Object]string{}
			ast.Inspect(fd.Body, func(x ast.Node) bool {
				as, ok := x.(*ast.AssignStmt)
				if !ok || len(as.Rhs) != 1 {
					return true
				}
				call, ok := as.Rhs[0].(*ast.CallExpr)
				if !ok || len(call.Args) != 1 {
					return true
				}
				fn, _ := typeutil.Callee(q.TypesInfo, call).(*types.Func)
				if fn == nil || fn.Name() != "New" || load.Rel(fn.Pkg()) != "pkg/version" {
					return true
				}
				tv := q.TypesInfo.Types[call.Args[0]]
				if id, ok := as.Lhs[0].(*ast.Ident); ok {
					obj := q.TypesInfo.Defs[id]
					if obj == nil {
						obj = q.TypesInfo.Uses[id]
					}
					if tv.Value != nil {
						consts[obj] = constant.StringVal(tv.Value)
					} else {
						consts[obj] = "?"
					}
				}
				return true
			})
			// every expression of type *Version
			var stack []ast.Node
			ast.Inspect(fd.Body, func(x ast.Node) bool {
				if x == nil {
					stack = stack[:len(stack)-1]
					return true
				}
				stack = append(stack, x)
				e, ok := x.(ast.Expr)
				if !ok {
					return true
				}
				tv, ok := q.TypesInfo.Types[e]
				if !ok || !isVerPtr(tv.Type) || tv.IsNil() {
					return true
				}
				if _, isCall := e.(*ast.CallExpr); isCall {
					return true // version.New(...) result; handled via consts
				}
				var parent ast.Node
				if len(stack) >= 2 {
					parent = stack[len(stack)-2]
				}
				key := fmt.Sprintf("%s/%s/%s", rel, fname, types.ExprString(e))
				pos := p.Pos(e.Pos())
				switch pn := parent.(type) {
				case *ast.KeyValueExpr: // field initialisation copy
					res.Count("uses", 1)
					res.OK(key+"/copy", pos, fname, "version copied into a field")
				case *ast.AssignStmt:
					res.Count("uses", 1)
					res.OK(key+"/assign", pos, fname, "version stored in a local/field")
				case *ast.SelectorExpr:
					// method call receiver or field access
					if pn.X != e {
						return true
					}
					if pn.Sel.Name == "Major" || pn.Sel.Name == "Minor" {
						res.Count("uses", 1)
						res.Bad(key+"/"+pn.Sel.Name, pos, fname, "version component read outside pkg/version: behaviour can depend on the exact version")
						return true
					}
					var call *ast.CallExpr
					if len(stack) >= 3 {
						call, _ = stack[len(stack)-3].(*ast.CallExpr)
					}
					want := cmpWant[pn.Sel.Name]
					if call == nil || want == nil || len(call.Args) != 1 {
						res.Count("uses", 1)
						if bad, what, ok := versionCondByEval(p, q, fd, stack); ok {
							res.Count("comparisons", 1)
							res.Check(bad == "", key+"/"+pn.Sel.Name, pos, fname, "evaluated for every supported version: `"+what+"` is constant on each of {5.0-5.6}, {7.0-7.2}, {7.3,7.4}", bad)
							return true
						}
						res.Unknown(key+"/"+pn.Sel.Name, pos, fname, "undecided:idiom: version used through "+pn.Sel.Name+", not a comparison with a constant")
						return true
					}
					aid, _ := unparen(call.Args[0]).(*ast.Ident)
					cs := ""
					if aid != nil {
						cs = consts[q.TypesInfo.Uses[aid]]
					}
					if cs == "" {
						if gv, _, ok := globalVer(q, call.Args[0]); ok {
							cs = gv.String()
						}
					}
					var cv ver
					if n, _ := fmt.Sscanf(cs, "%d.%d", &cv.maj, &cv.min); n != 2 {
						res.Count("uses", 1)
						if bad, what, ok := versionCondByEval(p, q, fd, stack); ok {
							res.Count("comparisons", 1)
							res.Check(bad == "", key+"/"+pn.Sel.Name, pos, fname, "evaluated for every supported version: `"+what+"` is constant on each of {5.0-5.6}, {7.0-7.2}, {7.3,7.4}", bad)
							return true
						}
						res.Unknown(key+"/"+pn.Sel.Name, pos, fname, "undecided:idiom: comparison operand is not version.New(<constant>)")
						return true
					}
					res.Count("uses", 1)
					res.Count("comparisons", 1)
					bad := ""
					for _, cell := range oracleCells {
						first := want(cell[0].cmp(cv))
						for _, v := range cell[1:] {
							if want(v.cmp(cv)) != first {
								bad = fmt.Sprintf("%s(%s) distinguishes %s from %s, which the property requires to behave identically (only the 7.3 heredoc change may split a family)", pn.Sel.Name, cv, cell[0], v)
							}
						}
					}
					res.Check(bad == "", key+"/"+pn.Sel.Name, pos, fname, fmt.Sprintf("test %s(%s) is constant on each of {5.0-5.6}, {7.0-7.2}, {7.3,7.4}", pn.Sel.Name, cv), bad)
				case *ast.CallExpr:
					// passed as argument (e.g. GreaterOrEqual(o)): fine if it's a known constant
					res.Count("uses", 1)
					if id, ok := e.(*ast.Ident); ok && consts[q.TypesInfo.Uses[id]] != "" {
						res.OK(key+"/arg", pos, fname, "constant version passed as comparison operand")
					} else if gv, nm, ok := globalVer(q, e); ok {
						res.OK(key+"/arg", pos, fname, fmt.Sprintf("package-level constant version %s = %s passed as comparison operand", nm, gv))
					} else if bad, what, ok := versionCondByEval(p, q, fd, stack); ok {
						res.Count("comparisons", 1)
						res.Check(bad == "", key+"/arg", pos, fname, "evaluated for every supported version: `"+what+"` is constant on each of {5.0-5.6}, {7.0-7.2}, {7.3,7.4}", bad)
					} else {
						res.Unknown(key+"/arg", pos, fname, "undecided:idiom: version passed to a call")
					}
				default:
					res.Count("uses", 1)
					res.Unknown(key, pos, fname, fmt.Sprintf("undecided:idiom: version used in a %T", parent))
				}
				return true
			})
			// reads of conf.Config.Version outside scanner.NewLexer-like copies are covered above (type-based)
		}
	}
	return res
}

func isVersionPtr(t types.Type) bool {
	pt, ok := t.Underlying().(*types.Pointer)
	if !ok {
		return false
	}
	n, ok := pt.Elem().(*types.Named)
	return ok && n.Obj().Name() == "Version" && n.Obj().Pkg() != nil && strings.HasSuffix(n.Obj().Pkg().Path(), "pkg/version")
}

// versionNewByEval evaluates New on strings around the format `<major>.<minor>`.
func versionNewByEval(pk *packages.Package, fd *ast.FuncDecl) (problems []string, decided bool) {
	if fd == nil {
		return nil, false
	}
	family := []string{"7.4", "5.6", "7.0", "5.3", "10.12", "0.0", "07.04", "123456789.987654321", "18446744073709551615.1",
		"", "7", ".", "7.", ".4", "7.4.1", "7..4", "a.b", "7.b", "a.4", "-7.4", "7.-4", "+7.4", " 7.4", "7.4 ", "7,4", "0x7.4", "7_0.4", "1e1.4",
		"18446744073709551616.1", "1.18446744073709551616", "7.4\n", "..", "7.4.", "٧.٤"}
	if os.Getenv("VERIF_TIER") == "thorough" {
		// every string of up to four characters over the characters the format can tell apart
		alpha := []byte{'7', '0', '.', '-', 'a', ' '}
		var gen func(prefix string, n int)
		gen = func(prefix string, n int) {
			if prefix != "" {
				family = append(family, prefix)
			}
			if n == 0 {
				return
			}
			for _, c := range alpha {
				gen(prefix+string([]byte{c}), n-1)
			}
		}
		gen("", 4)
	}
	spec := func(v string) (ma, mi uint64, ok bool) {
		i := strings.Index(v, ".")
		if i < 0 {
			return 0, 0, false
		}
		ma, err := strconv.ParseUint(v[:i], 10, 64)
		if err != nil {
			return 0, 0, false
		}
		mi, err = strconv.ParseUint(v[i+1:], 10, 64)
		if err != nil {
			return 0, 0, false
		}
		return ma, mi, true
	}
	in := ceval.New(pk)
	for _, v := range family {
		out, st, why := in.Call(fd, nil, []interface{}{v})
		switch st {
		case ceval.Unsupported, ceval.Diverged:
			return nil, false
		case ceval.Panic:
			problems = append(problems, fmt.Sprintf("New(%q) panics: %s", v, why))
			continue
		}
		if len(out) != 2 {
			return nil, false
		}
		_, errNil := out[1].(ceval.Nil)
		ver, isVer := out[0].(*ceval.Struct)
		ma, mi, ok := spec(v)
		switch {
		case ok && (!errNil || !isVer):
			problems = append(problems, fmt.Sprintf("New(%q) fails; it is version %d.%d", v, ma, mi))
		case ok:
			gma, ok1 := ver.Fields["Major"].(int64)
			gmi, ok2 := ver.Fields["Minor"].(int64)
			if !ok1 || !ok2 {
				return nil, false
			}
			if uint64(gma) != ma || uint64(gmi) != mi {
				problems = append(problems, fmt.Sprintf("New(%q) is %d.%d, not %d.%d", v, uint64(gma), uint64(gmi), ma, mi))
			}
		case !ok && errNil:
			if isVer {
				problems = append(problems, fmt.Sprintf("New(%q) succeeds with %v.%v; the string is not of the form <number>.<number>", v, ver.Fields["Major"], ver.Fields["Minor"]))
			} else {
				problems = append(problems, fmt.Sprintf("New(%q) returns neither a version nor an error", v))
			}
		}
		if len(problems) >= 4 {
			break
		}
	}
	return problems, true
}
