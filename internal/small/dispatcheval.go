package small

import (
	"fmt"
	"go/ast"
	"go/types"
	"strings"

	"verif/internal/ceval"
	"verif/internal/load"
	"verif/internal/report"
)

// dispatchEval decides the dispatcher by evaluating parser.Parse from source (package ceval: syntax trees
// interpreted, nothing compiled or run) for a nil version and for versions on both sides of every boundary
// of the supported ranges. What the scanner and the generated parsers do is not evaluated: their
// constructors are recorded (which one, with which lexer, with which configured version at the moment of
// the call) and the result is compared with the specification:
//
//	nil            behaves like 7.4;
//	5.0 - 5.6      one lexer and one PHP 5 parser are built, both with that (non-nil) version, the parser on
//	               that lexer; it is run, and its root is returned with a nil error;
//	7.0 - 7.4      the same with the PHP 7 parser;
//	anything else  (nil, the package's out-of-range error), and no parser is run;
//	               Validate of pkg/version accepts exactly the versions Parse accepts.
//
// The verdict does not depend on how Parse is written (branches, a table of ranges and constructors, function
// values, helpers). ok=false: something is outside the evaluator's vocabulary and the structural rule decides.
func dispatchEval(p *load.Program, prel, vrel string, res *report.RuleResult) (ok bool) {
	pk, vk := p.Pkg(prel), p.Pkg(vrel)
	if pk == nil || vk == nil {
		return false
	}
	var parse *ast.FuncDecl
	for _, fd := range load.FuncDecls(pk) {
		if fd.Recv == nil && fd.Name.Name == "Parse" {
			parse = fd
		}
	}
	if parse == nil || parse.Type.Params.NumFields() != 2 {
		return false
	}
	pos := p.Pos(parse.Pos())
	type event struct {
		kind    string // lexer | parser5 | parser7 | run | root
		id      int
		lexer   int
		version string // "nil" or "M.m"
	}
	verOf := func(v interface{}) string {
		switch x := v.(type) {
		case ceval.Nil:
			return "nil"
		case *ceval.Struct:
			if x.Type == "Version" {
				return fmt.Sprintf("%v.%v", x.Fields["Major"], x.Fields["Minor"])
			}
			if x.Type == "Config" {
				return "?"
			}
		}
		return "?"
	}
	cfgVersion := func(v interface{}) string {
		if st, ok := v.(*ceval.Struct); ok {
			return verOf(st.Fields["Version"])
		}
		return "?"
	}
	type scen struct{ maj, min int64 }
	scens := []*scen{nil, {0, 0}, {4, 9}, {5, 0}, {5, 3}, {5, 6}, {5, 7}, {6, 0}, {6, 9}, {7, 0}, {7, 2}, {7, 3}, {7, 4}, {7, 5}, {8, 0}, {5, 10}, {70, 0}}
	type verdict struct {
		bad   []string
		undec string
	}
	results := map[string]*verdict{}
	var order []string
	for _, sc := range scens {
		name := "nil"
		var vv interface{} = ceval.Nil{}
		if sc != nil {
			name = fmt.Sprintf("%d.%d", sc.maj, sc.min)
			vv = &ceval.Struct{Type: "Version", Fields: map[string]interface{}{"Major": sc.maj, "Minor": sc.min}}
		}
		order = append(order, name)
		vd := &verdict{}
		results[name] = vd
		var events []event
		nextID := 0
		in := ceval.New(pk, vk)
		in.Ext = func(fn *types.Func, recv interface{}, args []interface{}) ([]interface{}, bool) {
			path := ""
			if fn.Pkg() != nil {
				path = fn.Pkg().Path()
			}
			switch {
			case strings.HasSuffix(path, "internal/scanner") && fn.Name() == "NewLexer" && len(args) == 2:
				nextID++
				events = append(events, event{kind: "lexer", id: nextID, version: cfgVersion(args[1])})
				return []interface{}{&ceval.Struct{Type: "Lexer", Fields: map[string]interface{}{"id": int64(nextID)}}}, true
			case (strings.HasSuffix(path, "internal/php5") || strings.HasSuffix(path, "internal/php7")) && fn.Name() == "NewParser" && len(args) == 2:
				nextID++
				kind := "parser5"
				if strings.HasSuffix(path, "php7") {
					kind = "parser7"
				}
				lx := -1
				if st, ok := args[0].(*ceval.Struct); ok && st.Type == "Lexer" {
					lx = int(st.Fields["id"].(int64))
				}
				events = append(events, event{kind: kind, id: nextID, lexer: lx, version: cfgVersion(args[1])})
				return []interface{}{&ceval.Struct{Type: kind, Fields: map[string]interface{}{"id": int64(nextID)}}}, true
			case fn.Name() == "Parse" && recv != nil:
				if st, ok := recv.(*ceval.Struct); ok && strings.HasPrefix(st.Type, "parser") {
					events = append(events, event{kind: "run", id: int(st.Fields["id"].(int64))})
					return []interface{}{int64(0)}, true
				}
			case fn.Name() == "GetRootNode" && recv != nil:
				if st, ok := recv.(*ceval.Struct); ok && strings.HasPrefix(st.Type, "parser") {
					id := int(st.Fields["id"].(int64))
					events = append(events, event{kind: "root", id: id})
					return []interface{}{ceval.Opaque{What: fmt.Sprintf("root of parser %d", id)}}, true
				}
			case path == "errors" && fn.Name() == "New":
				msg, _ := args[0].(string)
				return []interface{}{&ceval.Struct{Type: "error", Fields: map[string]interface{}{"msg": msg}}}, true
			}
			return nil, false
		}
		cfg := &ceval.Struct{Type: "Config", Fields: map[string]interface{}{"Version": vv, "ErrorHandlerFunc": ceval.Nil{}}}
		out, st, why := in.Call(parse, nil, []interface{}{ceval.Bytes{B: []byte("<?php ")}, cfg})
		switch st {
		case ceval.Unsupported, ceval.Diverged:
			vd.undec = why
			continue
		case ceval.Panic:
			vd.bad = append(vd.bad, "Parse panics: "+why)
			continue
		}
		if len(out) != 2 {
			vd.undec = "Parse does not return two values"
			continue
		}
		// the specification
		eff := name
		if sc == nil {
			eff = "7.4"
		}
		family := ""
		if sc == nil {
			family = "parser7"
		} else if inOracle(ver{uint64(sc.maj), uint64(sc.min)}) {
			family = "parser5"
			if sc.maj == 7 {
				family = "parser7"
			}
		}
		var lexers, parsers, runs []event
		for _, e := range events {
			switch e.kind {
			case "lexer":
				lexers = append(lexers, e)
			case "parser5", "parser7":
				parsers = append(parsers, e)
			case "run":
				runs = append(runs, e)
			}
		}
		_, errNil := out[1].(ceval.Nil)
		if family == "" {
			if _, rootNil := out[0].(ceval.Nil); !rootNil {
				vd.bad = append(vd.bad, "a tree is returned for an unsupported version")
			}
			if errNil {
				vd.bad = append(vd.bad, "no error is returned for an unsupported version")
			} else if es, ok := out[1].(*ceval.Struct); !ok || es.Type != "error" {
				vd.bad = append(vd.bad, "the error returned is not one of the package's error values")
			}
			if len(runs) > 0 {
				vd.bad = append(vd.bad, "a parser is run for an unsupported version")
			}
		} else {
			switch {
			case len(parsers) != 1:
				vd.bad = append(vd.bad, fmt.Sprintf("%d parsers are built, want one", len(parsers)))
			case parsers[0].kind != family:
				vd.bad = append(vd.bad, fmt.Sprintf("the %s is built, want the %s", famName(parsers[0].kind), famName(family)))
			default:
				pe := parsers[0]
				if pe.version != eff {
					vd.bad = append(vd.bad, fmt.Sprintf("the parser is configured with version %s, want %s", pe.version, eff))
				}
				var lx *event
				for i := range lexers {
					if lexers[i].id == pe.lexer {
						lx = &lexers[i]
					}
				}
				switch {
				case lx == nil:
					vd.bad = append(vd.bad, "the parser is not built on a lexer made by this call")
				case lx.version != eff:
					vd.bad = append(vd.bad, fmt.Sprintf("the lexer is configured with version %s, want %s (it decides the heredoc rules by it)", lx.version, eff))
				}
				if len(lexers) != 1 {
					vd.bad = append(vd.bad, fmt.Sprintf("%d lexers are built, want one", len(lexers)))
				}
				if len(runs) != 1 || runs[0].id != pe.id {
					vd.bad = append(vd.bad, "the parser that was built is not run exactly once")
				}
				if o, ok := out[0].(ceval.Opaque); !ok || o.What != fmt.Sprintf("root of parser %d", pe.id) {
					vd.bad = append(vd.bad, "what is returned is not the root of the parser that was run")
				} else {
					// the root is taken after the run
					ri, gi := -1, -1
					for i, e := range events {
						if e.kind == "run" && ri < 0 {
							ri = i
						}
						if e.kind == "root" {
							gi = i
						}
					}
					if gi < ri {
						vd.bad = append(vd.bad, "the root is taken before the parser is run")
					}
				}
				if !errNil {
					vd.bad = append(vd.bad, "an error is returned for a supported version")
				}
			}
		}
		// the validator accepts the same set
		if sc != nil {
			if vfd := in.Decl("Version", "Validate"); vfd != nil {
				vout, vst, vwhy := in.Call(vfd, vv, nil)
				switch {
				case vst == ceval.Unsupported || vst == ceval.Diverged:
					vd.undec = "Validate: " + vwhy
				case vst == ceval.Panic:
					vd.bad = append(vd.bad, "Validate panics: "+vwhy)
				case len(vout) == 1:
					_, accepts := vout[0].(ceval.Nil)
					if accepts != (family != "") {
						vd.bad = append(vd.bad, fmt.Sprintf("Validate accepts=%v but the version is %ssupported", accepts, map[bool]string{true: "", false: "not "}[family != ""]))
					}
				}
			} else {
				vd.undec = "Version.Validate not found"
			}
		}
	}
	for _, n := range order {
		if results[n].undec != "" {
			return false
		}
	}
	for _, n := range order {
		res.Count("paths", 1)
		res.Count("evaluations", 1)
		key := "Parse/version " + n
		if len(results[n].bad) == 0 {
			res.OK(key, pos, "parser.Parse", "evaluated from source: builds, runs and returns what the specification prescribes for this version")
		} else {
			res.Bad(key, pos, "parser.Parse", "for version "+n+": "+strings.Join(results[n].bad, "; "))
		}
	}
	return true
}

func famName(k string) string {
	if k == "parser5" {
		return "PHP 5 parser"
	}
	return "PHP 7 parser"
}
