package small

import (
	"fmt"
	"go/ast"
	"go/constant"
	"go/token"
	"go/types"
	"golang.org/x/tools/go/types/typeutil"
	"sort"
	"strings"

	"verif/internal/load"
	"verif/internal/report"
	"verif/internal/scandfa"
)

// IdxSafe decides rule idx-safe: in the packages that only observe or build
// around the tree (printer, dumper, formatter, traverser, name resolver,
// position builder, errors, version, the parser front end) every index and
// slice expression on a slice, array or string is implied in range by the
// conditions that dominate it, by the same linear prover rule idx-guard uses for
// the scanner. A site the prover cannot decide fails unless it is one of the
// reviewed exceptions (one named construct each, with the invariant it rests on).
//
// Facts: conditions of enclosing ifs (and the negation after an if that
// leaves), left operands of && / ||, loop conditions, `for i := a; …; i++`
// lower bounds, range keys, x := len(y) style definitions, make/append/reslice
// lengths. Assignments kill what they may change.
// IdxSafeSkip: functions decided exactly by another rule (package → function-name prefixes).
var IdxSafeSkip = map[string][]string{
	"pkg/token":    {"Pool."}, // pool-typestate (zone domain over off and len(block))
	"pkg/position": {"Pool."},
}

func skipped(rel, fn string) bool {
	for _, pre := range IdxSafeSkip[rel] {
		if strings.HasPrefix(fn, pre) {
			return true
		}
	}
	return false
}

func IdxSafe(p *load.Program, rels []string, reviewed map[string]string) *report.RuleResult {
	res := report.NewResult("idx-safe")
	usedReviewed := map[string]bool{}
	for _, rel := range rels {
		pk := p.Pkg(rel)
		if pk == nil {
			res.Unknown("pkg/"+rel, rel, "", "undecided:anchor: package "+rel+" not found")
			continue
		}
		res.Units = append(res.Units, rel)
		// pass 1: which slice fields are only ever assigned nil or a non-empty slice
		inv := &fieldInv{written: map[*types.Var]bool{}, nonEmptyOrNil: map[*types.Var]bool{}, collecting: true}
		scratch := report.NewResult("idx-safe")
		for _, fd := range load.FuncDecls(pk) {
			w := &idxWalker{p: p, info: pk.TypesInfo, pr: scandfa.NewProver(pk.TypesInfo), res: scratch, rel: rel, fn: funcName(fd), inv: inv}
			w.stmts(fd.Body.List, nil)
			// composite literals and address-taking write fields too: give up on those fields
			ast.Inspect(fd.Body, func(n ast.Node) bool {
				switch x := n.(type) {
				case *ast.KeyValueExpr:
					if id, ok := x.Key.(*ast.Ident); ok {
						if fv, ok := pk.TypesInfo.Uses[id].(*types.Var); ok && fv.IsField() {
							if vid, isId := unparenE(x.Value).(*ast.Ident); !(isId && vid.Name == "nil") {
								inv.written[fv], inv.nonEmptyOrNil[fv] = true, false
							}
						}
					}
				case *ast.UnaryExpr:
					if x.Op == token.AND {
						if fv := w.fieldVar(x.X); fv != nil {
							inv.written[fv], inv.nonEmptyOrNil[fv] = true, false
						}
					}
				}
				return true
			})
		}
		inv.collecting = false
		shared := &idxShared{calls: map[*types.Func][]idxCallRec{}, valued: map[*types.Func]bool{}, genCalls: map[*types.Func][]*ast.CallExpr{}, genValued: map[*types.Func]bool{}}
		var walkers []*idxWalker
		generated := map[string]bool{}
		for _, f := range pk.Syntax {
			for _, cg := range f.Comments {
				if cg.Pos() < f.Package && strings.Contains(cg.Text(), "Code generated") {
					generated[p.Fset.Position(f.Pos()).Filename] = true
				}
			}
		}
		// calls of the package's functions that stand in its generated files (the grammar actions): their
		// constant arguments can establish a bound on a parameter
		if skipGenerated[rel] {
			for _, f := range pk.Syntax {
				if !generated[p.Fset.Position(f.Pos()).Filename] {
					continue
				}
				called := map[*ast.Ident]bool{}
				ast.Inspect(f, func(n ast.Node) bool {
					if call, ok := n.(*ast.CallExpr); ok {
						if fn, ok := typeutil.Callee(pk.TypesInfo, call).(*types.Func); ok && fn.Pkg() == pk.Types {
							shared.genCalls[fn] = append(shared.genCalls[fn], call)
							switch fx := call.Fun.(type) {
							case *ast.Ident:
								called[fx] = true
							case *ast.SelectorExpr:
								called[fx.Sel] = true
							}
						}
					}
					return true
				})
				ast.Inspect(f, func(n ast.Node) bool {
					if id, ok := n.(*ast.Ident); ok && !called[id] {
						if fn, ok := pk.TypesInfo.Uses[id].(*types.Func); ok && fn.Pkg() == pk.Types {
							shared.genValued[fn] = true
						}
					}
					return true
				})
			}
		}
		for _, fd := range load.FuncDecls(pk) {
			file := p.Fset.Position(fd.Pos()).Filename
			if strings.HasSuffix(file, "_test.go") || (generated[file] && skipGenerated[rel]) || skipped(rel, funcName(fd)) {
				continue
			}
			fnObj, _ := pk.TypesInfo.Defs[fd.Name].(*types.Func)
			w := &idxWalker{p: p, info: pk.TypesInfo, pr: scandfa.NewProver(pk.TypesInfo), res: res, rel: rel, fn: funcName(fd), reviewed: reviewed, used: usedReviewed, inv: inv, fd: fd, fnObj: fnObj, shared: shared}
			res.Count("functions", 1)
			w.stmts(fd.Body.List, nil)
			walkers = append(walkers, w)
		}
		// sites that need what the callers establish about the parameters
		for _, pd := range shared.pending {
			if why := pd.viaCallers(shared); why != "" {
				pd.w.note(pd.key, pd.pos, pd.expr+why)
			} else {
				pd.w.note(pd.key, pd.pos, "")
			}
		}
		for _, w := range walkers {
			w.flush()
		}
	}
	for k := range reviewed {
		if !usedReviewed[k] {
			res.Unknown("reviewed/"+k, "-", "", "undecided:anchor: the reviewed exception "+k+" no longer matches any site (the code changed: review it again)")
		}
	}
	return res
}

// skipGenerated: packages whose generated files are decided by other rules (the goyacc driver and tables by tables-sync).
var skipGenerated = map[string]bool{"internal/php5": true, "internal/php7": true}

func funcName(fd *ast.FuncDecl) string {
	if fd.Recv != nil && len(fd.Recv.List) == 1 {
		t := fd.Recv.List[0].Type
		if se, ok := t.(*ast.StarExpr); ok {
			t = se.X
		}
		if id, ok := t.(*ast.Ident); ok {
			return id.Name + "." + fd.Name.Name
		}
	}
	return fd.Name.Name
}

type idxWalker struct {
	p        *load.Program
	info     *types.Info
	pr       *scandfa.Prover
	res      *report.RuleResult
	rel, fn  string
	reviewed map[string]string
	used     map[string]bool
	verdicts map[string]*idxVerdict
	order    []string
	inv      *fieldInv
	fd       *ast.FuncDecl
	fnObj    *types.Func
	shared   *idxShared
}

// idxShared: what the functions of one package tell each other.
type idxShared struct {
	genCalls  map[*types.Func][]*ast.CallExpr // callee → its call sites in the package's generated files
	genValued map[*types.Func]bool            // used as a value in a generated file
	calls   map[*types.Func][]idxCallRec // callee → its call sites in the package
	valued  map[*types.Func]bool         // used as a value (not only called): callers unknown
	pending []*idxPending
}

type idxCallRec struct {
	w     *idxWalker // the caller's walker (vocabulary)
	args  []ast.Expr
	recv  ast.Expr
	facts []scandfa.Fact
}

// idxPending: a site whose goals do not follow inside its function but mention only parameters.
// IdxDeferToActions, when set, tells whether every call of the named function of package rel stands in a
// grammar action that the action interpreter inlines; first/last-element sites on the function's parameters
// are then obligations of rule list-index at each of those call sites.
var IdxDeferToActions func(rel, fn string) bool

type idxPending struct {
	node  ast.Node
	w     *idxWalker
	key   string
	pos   token.Pos
	expr  string
	goals []scandfa.LExpr
	what  []string
	facts []scandfa.Fact
}

type idxVerdict struct {
	bad   string
	pos   token.Pos
	count int
}

func (w *idxWalker) note(key string, pos token.Pos, bad string) {
	if w.verdicts == nil {
		w.verdicts = map[string]*idxVerdict{}
	}
	v := w.verdicts[key]
	if v == nil {
		v = &idxVerdict{pos: pos}
		w.verdicts[key] = v
		w.order = append(w.order, key)
	}
	v.count++
	if bad != "" && v.bad == "" {
		v.bad = bad
		v.pos = pos
	}
}

func (w *idxWalker) flush() {
	sort.Strings(w.order)
	for _, k := range w.order {
		v := w.verdicts[k]
		w.res.Count("sites", v.count)
		full := w.rel + "/" + k
		if v.bad == "" {
			w.res.OK(full, w.p.Pos(v.pos), w.fn, "in range on every path")
			continue
		}
		if why, ok := w.reviewed[full]; ok {
			w.used[full] = true
			w.res.Count("reviewed-exceptions", 1)
			w.res.OK(full, w.p.Pos(v.pos), w.fn, "reviewed: "+why)
			continue
		}
		w.res.Bad(full, w.p.Pos(v.pos), w.fn, v.bad)
	}
}

func unparenE(e ast.Expr) ast.Expr {
	for {
		p, ok := e.(*ast.ParenExpr)
		if !ok {
			return e
		}
		e = p.X
	}
}

// ---- facts ---------------------------------------------------------------------------------

func cloneFacts(fs []scandfa.Fact) []scandfa.Fact { return append([]scandfa.Fact{}, fs...) }

// kill removes every fact that mentions term t, len(t)/cap(t), or a term built on t (t.f, t[i]).
func kill(fs []scandfa.Fact, t string) []scandfa.Fact {
	// what the facts about t say about the rest is kept: a lower bound of t (coefficient +1) and an upper
	// bound (coefficient -1) add up to a fact that no longer mentions t (Fourier-Motzkin step)
	var lo, hi []scandfa.Fact
	for _, f := range fs {
		if f.Ne {
			continue
		}
		direct, nested := f.E.T[t], false
		for term := range f.E.T {
			if term != t && termMentions(term, t) {
				nested = true
			}
		}
		if nested {
			continue
		}
		switch direct {
		case 1:
			lo = append(lo, f)
		case -1:
			hi = append(hi, f)
		}
	}
	var derived []scandfa.Fact
	if len(lo)*len(hi) <= 64 {
		for _, a := range lo {
			for _, b := range hi {
				e := a.E.Plus(b.E)
				if len(e.T) > 0 {
					derived = append(derived, scandfa.Fact{E: e})
				}
			}
		}
	}
	fs = append(append([]scandfa.Fact{}, fs...), derived...)
	var out []scandfa.Fact
	for _, f := range fs {
		hit := false
		for term := range f.E.T {
			if termMentions(term, t) {
				hit = true
			}
		}
		if !hit {
			out = append(out, f)
		}
	}
	return out
}

func termMentions(term, t string) bool {
	if term == t {
		return true
	}
	i := strings.Index(term, t)
	for i >= 0 {
		before := i == 0 || !isIdentByte(term[i-1])
		end := i + len(t)
		after := end == len(term) || !isIdentByte(term[end])
		if before && after {
			return true
		}
		j := strings.Index(term[i+1:], t)
		if j < 0 {
			break
		}
		i += 1 + j
	}
	return false
}

func isIdentByte(b byte) bool {
	return b == '_' || b == '.' && false || (b >= '0' && b <= '9') || (b >= 'a' && b <= 'z') || (b >= 'A' && b <= 'Z')
}

// monotone: the plain variables that the loop body and post statement change only by ++ (+1) or only by --
// (-1); a variable whose address is taken, that is assigned, or that a closure may change is not among them.
func (w *idxWalker) monotone(nodes ...ast.Node) map[string]int {
	dir := map[string]int{}
	bad := map[string]bool{}
	for _, n := range nodes {
		if n == nil {
			continue
		}
		ast.Inspect(n, func(x ast.Node) bool {
			switch y := x.(type) {
			case *ast.IncDecStmt:
				if id, ok := unparenE(y.X).(*ast.Ident); ok {
					d := 1
					if y.Tok == token.DEC {
						d = -1
					}
					if old, seen := dir[id.Name]; seen && old != d {
						bad[id.Name] = true
					}
					dir[id.Name] = d
				} else {
					bad[w.pr.Term(y.X)] = true
				}
			case *ast.AssignStmt:
				for _, l := range y.Lhs {
					bad[w.pr.Term(l)] = true
				}
			case *ast.RangeStmt:
				if y.Key != nil {
					bad[w.pr.Term(y.Key)] = true
				}
				if y.Value != nil {
					bad[w.pr.Term(y.Value)] = true
				}
			case *ast.UnaryExpr:
				if y.Op == token.AND {
					bad[w.pr.Term(y.X)] = true
				}
			case *ast.FuncLit:
				for _, t := range w.assigned(y.Body) {
					bad[t] = true
				}
			}
			return true
		})
	}
	for t := range bad {
		delete(dir, t)
	}
	return dir
}

// assigned collects the terms a statement list may assign (for loops and joins).
func (w *idxWalker) assigned(n ast.Node) []string {
	var out []string
	if n == nil {
		return nil
	}
	ast.Inspect(n, func(x ast.Node) bool {
		switch y := x.(type) {
		case *ast.AssignStmt:
			for _, l := range y.Lhs {
				out = append(out, w.pr.Term(l))
			}
		case *ast.IncDecStmt:
			out = append(out, w.pr.Term(y.X))
		case *ast.RangeStmt:
			if y.Key != nil {
				out = append(out, w.pr.Term(y.Key))
			}
			if y.Value != nil {
				out = append(out, w.pr.Term(y.Value))
			}
		case *ast.UnaryExpr:
			if y.Op == token.AND {
				out = append(out, w.pr.Term(y.X))
			}
		case *ast.CallExpr:
			// a method call on x, or passing x's address, may change fields of x: kill terms below x
			if se, ok := y.Fun.(*ast.SelectorExpr); ok {
				if sel := w.info.Selections[se]; sel != nil && sel.Kind() == types.MethodVal {
					out = append(out, w.pr.Term(se.X)+".")
				}
			}
		}
		return true
	})
	return out
}

func (w *idxWalker) killAll(fs []scandfa.Fact, terms []string) []scandfa.Fact {
	for _, t := range terms {
		if strings.HasSuffix(t, ".") {
			// fields of a receiver: kill facts on terms that start with "recv."
			var out []scandfa.Fact
			for _, f := range fs {
				hit := false
				for term := range f.E.T {
					if strings.Contains(term, t) {
						hit = true
					}
				}
				if !hit {
					out = append(out, f)
				}
			}
			fs = out
			continue
		}
		fs = kill(fs, t)
	}
	return fs
}

// factsOf: the linear facts of a condition, plus len(x.F) >= 1 for every
// conjunct `x.F != nil` on a slice field F that the package only ever assigns
// nil or a provably non-empty slice (nonEmptyOrNil, computed in a first pass).
// byteConvFacts: every conversion int(x) (any integer type wider than 8 bits) of an 8-bit unsigned x inside e
// lies in [0, 255].
func (w *idxWalker) byteConvFacts(e ast.Expr) []scandfa.Fact {
	var out []scandfa.Fact
	ast.Inspect(e, func(n ast.Node) bool {
		call, ok := n.(*ast.CallExpr)
		if !ok || len(call.Args) != 1 {
			return true
		}
		tv, ok := w.info.Types[call.Fun]
		if !ok || !tv.IsType() {
			return true
		}
		to, ok := tv.Type.Underlying().(*types.Basic)
		if !ok || to.Info()&types.IsInteger == 0 || to.Kind() == types.Int8 || to.Kind() == types.Uint8 {
			return true
		}
		from := w.info.TypeOf(call.Args[0])
		if from == nil {
			return true
		}
		fb, ok := from.Underlying().(*types.Basic)
		if !ok || fb.Kind() != types.Uint8 {
			return true
		}
		if lin, ok := w.pr.Lin(call); ok {
			out = append(out, scandfa.Fact{E: lin}, scandfa.Fact{E: scandfa.Const(255).Minus(lin)})
		}
		return true
	})
	return out
}

func (w *idxWalker) factsOf(cond ast.Expr, truth bool) []scandfa.Fact {
	fs := w.pr.FactsOf(cond, truth)
	fs = append(fs, w.byteConvFacts(cond)...)
	var scan func(e ast.Expr, truth bool)
	scan = func(e ast.Expr, truth bool) {
		switch x := unparenE(e).(type) {
		case *ast.UnaryExpr:
			if x.Op == token.NOT {
				scan(x.X, !truth)
			}
		case *ast.BinaryExpr:
			switch x.Op {
			case token.LAND:
				if truth {
					scan(x.X, true)
					scan(x.Y, true)
				}
			case token.LOR:
				if !truth {
					scan(x.X, false)
					scan(x.Y, false)
				}
			case token.LSS, token.LEQ, token.GTR, token.GEQ:
				// uint(a) < uint(b), uint(a) <= uint(b) with b not negative: one unsigned comparison says
				// 0 <= a as well (a negative a converts to a huge value)
				op := x.Op
				if !truth {
					op = map[token.Token]token.Token{token.LSS: token.GEQ, token.LEQ: token.GTR, token.GTR: token.LEQ, token.GEQ: token.LSS}[op]
				}
				l, r := x.X, x.Y
				if op == token.GTR || op == token.GEQ {
					l, r = r, l
					op = map[token.Token]token.Token{token.GTR: token.LSS, token.GEQ: token.LEQ}[op]
				}
				la, lok := w.unsignedConv(l)
				ra, rok := w.unsignedConv(r)
				if lok && rok {
					a, ok1 := w.pr.Lin(la)
					b, ok2 := w.pr.Lin(ra)
					if ok1 && ok2 && w.nonNegative(ra, b) {
						fs = append(fs, scandfa.Fact{E: a})
						if op == token.LSS {
							fs = append(fs, scandfa.Fact{E: b.Minus(a).Plus(scandfa.Const(-1))})
						} else {
							fs = append(fs, scandfa.Fact{E: b.Minus(a)})
						}
					}
				}
			case token.NEQ, token.EQL:
				nonNil := (x.Op == token.NEQ) == truth
				if !nonNil {
					return
				}
				for _, pair := range [][2]ast.Expr{{x.X, x.Y}, {x.Y, x.X}} {
					if id, ok := unparenE(pair[1]).(*ast.Ident); ok && id.Name == "nil" {
						if fv := w.fieldVar(pair[0]); fv != nil && w.inv != nil && w.inv.nonEmptyOrNil[fv] {
							fs = append(fs, scandfa.Fact{E: scandfa.TermExpr("len(" + w.pr.Term(pair[0]) + ")").Plus(scandfa.Const(-1))})
						}
					}
				}
			}
		}
	}
	scan(cond, truth)
	return fs
}

// unsignedConv: e is uint(x) (uint32, uint64, uintptr alike) of a signed integer x at least as wide as the
// conversion keeps apart (int, int64 to uint, uint64); x.
func (w *idxWalker) unsignedConv(e ast.Expr) (ast.Expr, bool) {
	call, ok := unparenE(e).(*ast.CallExpr)
	if !ok || len(call.Args) != 1 {
		return nil, false
	}
	tv, ok := w.info.Types[call.Fun]
	if !ok || !tv.IsType() {
		return nil, false
	}
	to, ok := tv.Type.Underlying().(*types.Basic)
	if !ok || to.Info()&types.IsUnsigned == 0 || (to.Kind() != types.Uint && to.Kind() != types.Uint64 && to.Kind() != types.Uintptr) {
		return nil, false
	}
	from := w.info.TypeOf(call.Args[0])
	if from == nil {
		return nil, false
	}
	fb, ok := from.Underlying().(*types.Basic)
	if !ok || fb.Info()&types.IsInteger == 0 || fb.Info()&types.IsUnsigned != 0 {
		return nil, false
	}
	return call.Args[0], true
}

// nonNegative: the expression is a constant >= 0 or a sum of lengths and such constants.
func (w *idxWalker) nonNegative(e ast.Expr, lin scandfa.LExpr) bool {
	if lin.K < 0 {
		return false
	}
	for term, c := range lin.T {
		if !(c > 0 && (strings.HasPrefix(term, "len(") || strings.HasPrefix(term, "cap("))) {
			return false
		}
	}
	return true
}

func (w *idxWalker) fieldVar(e ast.Expr) *types.Var {
	if se, ok := unparenE(e).(*ast.SelectorExpr); ok {
		if sel := w.info.Selections[se]; sel != nil && sel.Kind() == types.FieldVal {
			if v, ok := sel.Obj().(*types.Var); ok {
				if _, isSlice := v.Type().Underlying().(*types.Slice); isSlice {
					return v
				}
			}
		}
	}
	return nil
}

// fieldInv: what the first pass learns about slice-typed struct fields.
type fieldInv struct {
	written       map[*types.Var]bool
	nonEmptyOrNil map[*types.Var]bool
	collecting    bool
}

// noteFieldWrite is called for every assignment l = r while collecting.
func (w *idxWalker) noteFieldWrite(l, r ast.Expr, facts []scandfa.Fact) {
	if w.inv == nil || !w.inv.collecting {
		return
	}
	fv := w.fieldVar(l)
	if fv == nil {
		return
	}
	ok := false
	if id, isId := unparenE(r).(*ast.Ident); isId && id.Name == "nil" {
		ok = true
	} else {
		g := w.lenOf(r).Plus(scandfa.Const(-1))
		fs := cloneFacts(facts)
		for t := range g.T {
			if strings.HasPrefix(t, "len(") {
				fs = append(fs, scandfa.Fact{E: scandfa.TermExpr(t)})
			}
		}
		ok = scandfa.Entails(g, fs)
	}
	if !w.inv.written[fv] {
		w.inv.written[fv] = true
		w.inv.nonEmptyOrNil[fv] = ok
	} else if !ok {
		w.inv.nonEmptyOrNil[fv] = false
	}
}

// ---- statements ----------------------------------------------------------------------------

func terminates(list []ast.Stmt) bool {
	if len(list) == 0 {
		return false
	}
	switch x := list[len(list)-1].(type) {
	case *ast.ReturnStmt:
		return true
	case *ast.BranchStmt:
		return true
	case *ast.ExprStmt:
		if c, ok := x.X.(*ast.CallExpr); ok {
			if id, ok := c.Fun.(*ast.Ident); ok && id.Name == "panic" {
				return true
			}
		}
	case *ast.BlockStmt:
		return terminates(x.List)
	case *ast.IfStmt:
		if x.Else == nil {
			return false
		}
		if !terminates(x.Body.List) {
			return false
		}
		switch e := x.Else.(type) {
		case *ast.BlockStmt:
			return terminates(e.List)
		case *ast.IfStmt:
			return terminates([]ast.Stmt{e})
		}
	}
	return false
}

func (w *idxWalker) stmts(list []ast.Stmt, facts []scandfa.Fact) []scandfa.Fact {
	for _, st := range list {
		facts = w.stmt(st, facts)
	}
	return facts
}

func (w *idxWalker) stmt(st ast.Stmt, facts []scandfa.Fact) []scandfa.Fact {
	switch x := st.(type) {
	case nil:
		return facts
	case *ast.BlockStmt:
		return w.stmts(x.List, facts)
	case *ast.LabeledStmt:
		return w.stmt(x.Stmt, nil) // a jump target: nothing survives
	case *ast.ExprStmt:
		w.expr(x.X, facts)
		return w.killAll(facts, w.assigned(x))
	case *ast.SendStmt:
		w.expr(x.Chan, facts)
		w.expr(x.Value, facts)
	case *ast.GoStmt:
		w.expr(x.Call, facts)
	case *ast.DeferStmt:
		w.expr(x.Call, facts)
	case *ast.ReturnStmt:
		for _, r := range x.Results {
			w.expr(r, facts)
		}
	case *ast.IncDecStmt:
		w.expr(x.X, facts)
		t := w.pr.Term(x.X)
		d := 1
		if x.Tok == token.DEC {
			d = -1
		}
		var nf []scandfa.Fact
		for _, f := range facts {
			if c, ok := f.E.T[t]; ok {
				g := f.E.Plus(scandfa.Const(-c * d)) // new = old + d: a fact on old becomes one on (new - d)
				nf = append(nf, scandfa.Fact{E: g, Ne: f.Ne})
				continue
			}
			hit := false
			for term := range f.E.T {
				if term != t && termMentions(term, t) {
					hit = true
				}
			}
			if !hit {
				nf = append(nf, f)
			}
		}
		return nf
	case *ast.DeclStmt:
		if gd, ok := x.Decl.(*ast.GenDecl); ok {
			for _, sp := range gd.Specs {
				if vs, ok := sp.(*ast.ValueSpec); ok {
					for _, v := range vs.Values {
						w.expr(v, facts)
					}
					for i, nm := range vs.Names {
						facts = kill(facts, nm.Name)
						if i < len(vs.Values) && len(vs.Values) == len(vs.Names) {
							facts = w.define(nm, vs.Values[i], facts)
						}
					}
				}
			}
		}
		return facts
	case *ast.AssignStmt:
		for _, r := range x.Rhs {
			w.expr(r, facts)
		}
		for _, l := range x.Lhs {
			switch y := unparenE(l).(type) {
			case *ast.IndexExpr:
				w.expr(y, facts)
			case *ast.SelectorExpr:
				w.expr(y.X, facts)
			case *ast.StarExpr:
				w.expr(y.X, facts)
			}
		}
		// x = x + k  /  x += k: shift
		if len(x.Lhs) == 1 && len(x.Rhs) == 1 {
			t := w.pr.Term(x.Lhs[0])
			var delta *scandfa.LExpr
			switch x.Tok {
			case token.ADD_ASSIGN, token.SUB_ASSIGN:
				if r, ok := w.pr.Lin(x.Rhs[0]); ok && !r.Mentions(t) {
					if x.Tok == token.SUB_ASSIGN {
						r = scandfa.Const(0).Minus(r)
					}
					delta = &r
				}
			case token.ASSIGN:
				if r, ok := w.pr.Lin(x.Rhs[0]); ok && r.T[t] == 1 {
					d := r.Minus(scandfa.TermExpr(t))
					if !d.Mentions(t) {
						delta = &d
					}
				}
			}
			if delta != nil {
				var nf []scandfa.Fact
				for _, f := range facts {
					if c, ok := f.E.T[t]; ok {
						g := f.E
						for n := 0; n < c; n++ {
							g = g.Minus(*delta)
						}
						for n := 0; n > c; n-- {
							g = g.Plus(*delta)
						}
						nf = append(nf, scandfa.Fact{E: g, Ne: f.Ne})
						continue
					}
					hit := false
					for term := range f.E.T {
						if term != t && termMentions(term, t) {
							hit = true
						}
					}
					if !hit {
						nf = append(nf, f)
					}
				}
				return nf
			}
		}
		if len(x.Lhs) == len(x.Rhs) {
			for i, l := range x.Lhs {
				w.noteFieldWrite(l, x.Rhs[i], facts)
			}
		} else {
			for _, l := range x.Lhs {
				if fv := w.fieldVar(l); fv != nil && w.inv != nil && w.inv.collecting {
					w.inv.written[fv], w.inv.nonEmptyOrNil[fv] = true, false
				}
			}
		}
		facts = w.killAll(facts, w.assigned(x))
		if len(x.Lhs) == len(x.Rhs) && (x.Tok == token.DEFINE || x.Tok == token.ASSIGN) {
			for i, l := range x.Lhs {
				facts = w.define(l, x.Rhs[i], facts)
			}
		}
		return facts
	case *ast.IfStmt:
		if x.Init != nil {
			facts = w.stmt(x.Init, facts)
		}
		w.expr(x.Cond, facts)
		tf := append(cloneFacts(facts), w.factsOf(x.Cond, true)...)
		ff := append(cloneFacts(facts), w.factsOf(x.Cond, false)...)
		thenEnd := w.stmts(x.Body.List, tf)
		elseEnd := ff
		var elseList []ast.Stmt
		if x.Else != nil {
			elseList = []ast.Stmt{x.Else}
			elseEnd = w.stmt(x.Else, ff)
		}
		thenT := terminates(x.Body.List)
		elseT := x.Else != nil && terminates(elseList)
		switch {
		case thenT && elseT:
			return nil
		case thenT:
			return elseEnd
		case elseT:
			return thenEnd
		}
		return joinFacts(thenEnd, elseEnd)
	case *ast.ForStmt:
		if x.Init != nil {
			facts = w.stmt(x.Init, facts)
		}
		mod := append(w.assigned(x.Body), w.assigned(x.Post)...)
		in := w.killAll(cloneFacts(facts), mod)
		// a bound that the loop can only make more true stays: a variable the loop changes by ++ alone keeps
		// its lower bounds (first := 0; for … { first++ }: first >= 0), one changed by -- alone its upper bounds
		loopNodes := []ast.Node{x.Body}
		if x.Post != nil {
			loopNodes = append(loopNodes, x.Post)
		}
		if dir := w.monotone(loopNodes...); len(dir) > 0 {
			for _, f := range facts {
				keep, touched := true, false
				for term, c := range f.E.T {
					modified := false
					for _, m := range mod {
						if termMentions(term, m) || (strings.HasSuffix(m, ".") && strings.Contains(term, m)) {
							modified = true
						}
					}
					if !modified {
						continue
					}
					touched = true
					if d, ok := dir[term]; !ok || (d > 0) != (c > 0) {
						keep = false
					}
				}
				if keep && touched && !f.Ne {
					in = append(in, f)
				}
			}
		}
		// for t < U && … { …; t++ } with t changed by that one ++ alone and U unchanged: t <= U throughout and
		// after the loop, when it holds on entry (each round starts with t < U and ends with t one larger)
		if x.Cond != nil {
			dir := w.monotone(loopNodes...)
			incs := map[string]int{}
			nested := map[string]bool{}
			var count func(n ast.Node, depth int)
			count = func(n ast.Node, depth int) {
				ast.Inspect(n, func(y ast.Node) bool {
					switch z := y.(type) {
					case *ast.IncDecStmt:
						if id, ok := unparenE(z.X).(*ast.Ident); ok {
							incs[id.Name]++
							if depth > 0 {
								nested[id.Name] = true
							}
						}
					case *ast.ForStmt:
						if ast.Node(z) != n {
							count(z.Body, depth+1)
							if z.Post != nil {
								count(z.Post, depth+1)
							}
							return false
						}
					case *ast.RangeStmt:
						count(z.Body, depth+1)
						return false
					}
					return true
				})
			}
			for _, ln := range loopNodes {
				count(ln, 0)
			}
			for _, cf := range w.factsOf(x.Cond, true) {
				if cf.Ne {
					continue
				}
				for t, c := range cf.E.T {
					if c != -1 || dir[t] != 1 || incs[t] != 1 || nested[t] {
						continue
					}
					others := true
					for term := range cf.E.T {
						if term == t {
							continue
						}
						for _, m := range mod {
							if termMentions(term, m) || (strings.HasSuffix(m, ".") && strings.Contains(term, m)) {
								others = false
							}
						}
					}
					if !others {
						continue
					}
					inv := cf.E.Plus(scandfa.Const(1)) // U - t >= 0
					entry := cloneFacts(facts)
					for term := range inv.T {
						if strings.HasPrefix(term, "len(") || strings.HasPrefix(term, "cap(") {
							entry = append(entry, scandfa.Fact{E: scandfa.TermExpr(term)})
						}
					}
					if scandfa.Entails(inv, entry) {
						in = append(in, scandfa.Fact{E: inv})
					}
				}
			}
		}
		// i := a; …; i++ with i changed only by the post statement: i >= a throughout
		if as, ok := x.Init.(*ast.AssignStmt); ok && len(as.Lhs) == 1 && len(as.Rhs) == 1 {
			if pd, ok := x.Post.(*ast.IncDecStmt); ok {
				t := w.pr.Term(as.Lhs[0])
				if w.pr.Term(pd.X) == t && !contains(w.assigned(x.Body), t) {
					if a, ok := w.pr.Lin(as.Rhs[0]); ok && !mentionsAny(a, mod) {
						if pd.Tok == token.INC {
							in = append(in, scandfa.Fact{E: scandfa.TermExpr(t).Minus(a)})
						} else {
							in = append(in, scandfa.Fact{E: a.Minus(scandfa.TermExpr(t))})
						}
					}
				}
			}
		}
		body := in
		if x.Cond != nil {
			w.expr(x.Cond, in)
			body = append(cloneFacts(in), w.factsOf(x.Cond, true)...)
		}
		after := w.stmts(x.Body.List, body)
		if x.Post != nil {
			w.stmt(x.Post, after)
		}
		out := in
		if x.Cond != nil && !hasBreak(x.Body) {
			out = append(cloneFacts(in), w.factsOf(x.Cond, false)...)
		}
		return out
	case *ast.RangeStmt:
		w.expr(x.X, facts)
		mod := w.assigned(x.Body)
		if x.Key != nil {
			mod = append(mod, w.pr.Term(x.Key))
		}
		if x.Value != nil {
			mod = append(mod, w.pr.Term(x.Value))
		}
		in := w.killAll(cloneFacts(facts), mod)
		body := cloneFacts(in)
		if x.Key != nil {
			if t := w.info.TypeOf(x.X); t != nil {
				switch t.Underlying().(type) {
				case *types.Slice, *types.Array, *types.Basic, *types.Pointer:
					k := w.pr.Term(x.Key)
					xs := w.pr.Term(x.X)
					if k != "_" && !contains(w.assigned(x.Body), k) && !contains(w.assigned(x.Body), xs) {
						body = append(body, scandfa.Fact{E: scandfa.TermExpr(k)})
						body = append(body, scandfa.Fact{E: w.lenOf(x.X).Minus(scandfa.TermExpr(k)).Plus(scandfa.Const(-1))})
					}
				}
			}
		}
		w.stmts(x.Body.List, body)
		return in
	case *ast.SwitchStmt:
		if x.Init != nil {
			facts = w.stmt(x.Init, facts)
		}
		if x.Tag != nil {
			w.expr(x.Tag, facts)
		}
		var neg []scandfa.Fact
		for _, c := range x.Body.List {
			cc := c.(*ast.CaseClause)
			cf := cloneFacts(facts)
			if x.Tag == nil {
				cf = append(cf, neg...)
				if len(cc.List) == 1 {
					w.expr(cc.List[0], cf)
					cf = append(cf, w.factsOf(cc.List[0], true)...)
					neg = append(neg, w.factsOf(cc.List[0], false)...)
				} else {
					for _, e := range cc.List {
						w.expr(e, cf)
					}
				}
			} else {
				for _, e := range cc.List {
					w.expr(e, cf)
				}
			}
			w.stmts(cc.Body, cf)
		}
		return w.killAll(facts, w.assigned(x.Body))
	case *ast.TypeSwitchStmt:
		if x.Init != nil {
			facts = w.stmt(x.Init, facts)
		}
		w.stmt(x.Assign, facts)
		for _, c := range x.Body.List {
			w.stmts(c.(*ast.CaseClause).Body, cloneFacts(facts))
		}
		return w.killAll(facts, w.assigned(x.Body))
	case *ast.SelectStmt:
		for _, c := range x.Body.List {
			cc := c.(*ast.CommClause)
			f := cloneFacts(facts)
			if cc.Comm != nil {
				f = w.stmt(cc.Comm, f)
			}
			w.stmts(cc.Body, f)
		}
		return w.killAll(facts, w.assigned(x.Body))
	}
	return facts
}

// joinFacts keeps what holds at the end of both branches.
func joinFacts(a, b []scandfa.Fact) []scandfa.Fact {
	var out []scandfa.Fact
	seen := map[string]bool{}
	add := func(f scandfa.Fact) {
		k := fmt.Sprintf("%v|%s", f.Ne, f.E.String())
		if seen[k] {
			return
		}
		seen[k] = true
		if f.Ne {
			inA, inB := false, false
			for _, g := range a {
				if g.Ne && g.E.String() == f.E.String() {
					inA = true
				}
			}
			for _, g := range b {
				if g.Ne && g.E.String() == f.E.String() {
					inB = true
				}
			}
			if inA && inB {
				out = append(out, f)
			}
			return
		}
		if scandfa.Entails(f.E, a) && scandfa.Entails(f.E, b) {
			out = append(out, f)
		}
	}
	for _, f := range a {
		add(f)
	}
	for _, f := range b {
		add(f)
	}
	return out
}

func contains(ss []string, s string) bool {
	for _, x := range ss {
		if x == s {
			return true
		}
	}
	return false
}

func mentionsAny(e scandfa.LExpr, terms []string) bool {
	for t := range e.T {
		for _, m := range terms {
			if termMentions(t, strings.TrimSuffix(m, ".")) {
				return true
			}
		}
	}
	return false
}

func hasBreak(b *ast.BlockStmt) bool {
	found := false
	var visit func(n ast.Node, depth int)
	visit = func(n ast.Node, depth int) {
		ast.Inspect(n, func(x ast.Node) bool {
			switch y := x.(type) {
			case *ast.ForStmt, *ast.RangeStmt, *ast.SwitchStmt, *ast.TypeSwitchStmt, *ast.SelectStmt, *ast.FuncLit:
				if x != n {
					// a break inside belongs to the inner statement unless labelled
					ast.Inspect(y, func(z ast.Node) bool {
						if br, ok := z.(*ast.BranchStmt); ok && (br.Tok == token.GOTO || (br.Tok == token.BREAK && br.Label != nil)) {
							found = true
						}
						return true
					})
					return false
				}
			case *ast.BranchStmt:
				if y.Tok == token.BREAK || y.Tok == token.GOTO {
					found = true
				}
			}
			return true
		})
	}
	visit(b, 0)
	return found
}

// define adds what `l = r` establishes about l.
func (w *idxWalker) define(l, r ast.Expr, facts []scandfa.Fact) []scandfa.Fact {
	var t string
	switch y := unparenE(l).(type) {
	case *ast.Ident:
		if y.Name == "_" {
			return facts
		}
		t = y.Name
	case *ast.SelectorExpr:
		t = w.pr.Term(y)
	default:
		return facts
	}
	eq := func(a, b scandfa.LExpr) {
		if a.Mentions(t) && b.Mentions(t) {
			return
		}
		facts = append(facts, scandfa.Fact{E: a.Minus(b)}, scandfa.Fact{E: b.Minus(a)})
	}
	r = unparenE(r)
	facts = append(facts, w.byteConvFacts(r)...)
	if lt := w.info.TypeOf(l); lt != nil {
		if b, ok := lt.Underlying().(*types.Basic); ok && b.Info()&types.IsInteger != 0 {
			if e, ok := w.pr.Lin(r); ok && !e.Mentions(t) {
				eq(scandfa.TermExpr(t), e)
				// a length (or a sum of lengths and non-negative constants) is not negative
				nonNeg := e.K >= 0
				for term, c := range e.T {
					if !(c > 0 && (strings.HasPrefix(term, "len(") || strings.HasPrefix(term, "cap("))) {
						nonNeg = false
					}
				}
				if nonNeg {
					facts = append(facts, scandfa.Fact{E: scandfa.TermExpr(t)})
				}
			}
			// i := sort.SearchStrings(xs, x) / SearchInts / SearchFloat64s: 0 <= i <= len(xs); sort.Search(n, f): 0 <= i <= n
			if call, ok := r.(*ast.CallExpr); ok && len(call.Args) == 2 {
				if fn, ok := typeutil.Callee(w.info, call).(*types.Func); ok && fn.Pkg() != nil && fn.Pkg().Path() == "sort" {
					var hi scandfa.LExpr
					okHi := false
					switch fn.Name() {
					case "SearchStrings", "SearchInts", "SearchFloat64s":
						hi, okHi = w.lenOf(call.Args[0]), true
					case "Search":
						hi, okHi = w.pr.Lin(call.Args[0])
					}
					if okHi && !hi.Mentions(t) {
						facts = append(facts, scandfa.Fact{E: scandfa.TermExpr(t)})
						facts = append(facts, scandfa.Fact{E: hi.Minus(scandfa.TermExpr(t))})
					}
				}
			}
			// i := strings.IndexByte(s, c) (Index, LastIndex, IndexRune, IndexAny; package bytes alike):
			// -1 <= i, and i <= len(s)-1 (i <= len(s) when the needle can be empty)
			if call, ok := r.(*ast.CallExpr); ok && len(call.Args) == 2 {
				if fn, ok := typeutil.Callee(w.info, call).(*types.Func); ok && fn.Pkg() != nil && (fn.Pkg().Path() == "strings" || fn.Pkg().Path() == "bytes") {
					found := -1
					switch fn.Name() {
					case "IndexByte", "LastIndexByte", "IndexRune", "IndexAny", "LastIndexAny":
						found = 1
					case "Index", "LastIndex":
						found = 0
						if tv, ok := w.info.Types[call.Args[1]]; ok && tv.Value != nil && tv.Value.Kind() == constant.String {
							found = 1 // a non-empty needle is found strictly inside; with -1 for "absent" the bound i <= len(s)-1 holds either way
						}
						if tv, ok := w.info.Types[call.Args[1]]; !ok || tv.Value == nil || constant.StringVal(tv.Value) == "" {
							found = 0
						}
					}
					hay := w.lenOf(call.Args[0])
					if found >= 0 && !hay.Mentions(t) {
						facts = append(facts, scandfa.Fact{E: scandfa.TermExpr(t).Plus(scandfa.Const(1))})
						facts = append(facts, scandfa.Fact{E: hay.Minus(scandfa.TermExpr(t)).Plus(scandfa.Const(-found))})
					}
				}
			}
			return facts
		}
	}
	lenT := scandfa.TermExpr("len(" + t + ")")
	capT := scandfa.TermExpr("cap(" + t + ")")
	switch y := r.(type) {
	case *ast.CallExpr:
		if fid, ok := y.Fun.(*ast.Ident); ok {
			switch fid.Name {
			case "make":
				if len(y.Args) >= 2 {
					if n, ok := w.pr.Lin(y.Args[1]); ok {
						eq(lenT, n)
						if len(y.Args) == 2 {
							eq(capT, n)
						}
					}
					if len(y.Args) == 3 {
						if c, ok := w.pr.Lin(y.Args[2]); ok {
							eq(capT, c)
						}
					}
				}
			case "append":
				if len(y.Args) >= 2 && !y.Ellipsis.IsValid() {
					facts = append(facts, scandfa.Fact{E: lenT.Plus(scandfa.Const(-(len(y.Args) - 1)))})
				}
			}
		}
	case *ast.SliceExpr:
		lo := scandfa.Const(0)
		okLo := true
		if y.Low != nil {
			lo, okLo = w.pr.Lin(y.Low)
		}
		if okLo {
			if y.High != nil {
				if hi, ok := w.pr.Lin(y.High); ok {
					eq(lenT, hi.Minus(lo))
				}
			} else {
				eq(lenT, w.lenOf(y.X).Minus(lo))
			}
			if y.Max == nil {
				if _, isStr := w.info.TypeOf(y.X).Underlying().(*types.Basic); !isStr {
					eq(capT, scandfa.TermExpr("cap("+w.pr.Term(y.X)+")").Minus(lo))
				}
			}
		}
	case *ast.CompositeLit:
		if _, ok := w.info.TypeOf(y).Underlying().(*types.Slice); ok {
			keyed := false
			for _, el := range y.Elts {
				if _, ok := el.(*ast.KeyValueExpr); ok {
					keyed = true
				}
			}
			if !keyed {
				eq(lenT, scandfa.Const(len(y.Elts)))
			}
		}
	}
	return facts
}

// lenOf: len(x) as a linear expression (a constant for arrays and constant strings).
func (w *idxWalker) lenOf(x ast.Expr) scandfa.LExpr {
	if tv, ok := w.info.Types[x]; ok {
		if tv.Value != nil && tv.Value.Kind() == constant.String {
			return scandfa.Const(len(constant.StringVal(tv.Value)))
		}
		t := tv.Type
		if pt, ok := t.Underlying().(*types.Pointer); ok {
			t = pt.Elem()
		}
		if at, ok := t.Underlying().(*types.Array); ok {
			return scandfa.Const(int(at.Len()))
		}
	}
	return scandfa.TermExpr("len(" + w.pr.Term(x) + ")")
}

// ---- expressions ---------------------------------------------------------------------------

func (w *idxWalker) expr(e ast.Expr, facts []scandfa.Fact) {
	switch x := e.(type) {
	case nil:
	case *ast.ParenExpr:
		w.expr(x.X, facts)
	case *ast.BinaryExpr:
		w.expr(x.X, facts)
		switch x.Op {
		case token.LAND:
			w.expr(x.Y, append(cloneFacts(facts), w.factsOf(x.X, true)...))
		case token.LOR:
			w.expr(x.Y, append(cloneFacts(facts), w.factsOf(x.X, false)...))
		default:
			w.expr(x.Y, facts)
		}
	case *ast.UnaryExpr:
		w.expr(x.X, facts)
	case *ast.StarExpr:
		w.expr(x.X, facts)
	case *ast.SelectorExpr:
		w.expr(x.X, facts)
		if w.shared != nil {
			if fn, ok := w.info.Uses[x.Sel].(*types.Func); ok {
				w.shared.valued[fn] = true
			}
		}
	case *ast.TypeAssertExpr:
		w.expr(x.X, facts)
	case *ast.KeyValueExpr:
		w.expr(x.Key, facts)
		w.expr(x.Value, facts)
	case *ast.CompositeLit:
		for _, el := range x.Elts {
			w.expr(el, facts)
		}
	case *ast.CallExpr:
		switch f := unparenE(x.Fun).(type) {
		case *ast.Ident:
			// a direct call: not a use of the function as a value
		case *ast.SelectorExpr:
			w.expr(f.X, facts)
		default:
			w.expr(x.Fun, facts)
		}
		for _, a := range x.Args {
			w.expr(a, facts)
		}
		if w.shared != nil {
			var callee *types.Func
			var recv ast.Expr
			switch f := unparenE(x.Fun).(type) {
			case *ast.Ident:
				callee, _ = w.info.Uses[f].(*types.Func)
			case *ast.SelectorExpr:
				callee, _ = w.info.Uses[f.Sel].(*types.Func)
				recv = f.X
			}
			if callee != nil && !x.Ellipsis.IsValid() {
				w.shared.calls[callee] = append(w.shared.calls[callee], idxCallRec{w: w, args: x.Args, recv: recv, facts: cloneFacts(facts)})
			}
		}
	case *ast.Ident:
		if w.shared != nil {
			if fn, ok := w.info.Uses[x].(*types.Func); ok {
				w.shared.valued[fn] = true // corrected below for call positions
			}
		}
	case *ast.FuncLit:
		w.stmts(x.Body.List, nil)
	case *ast.IndexExpr:
		w.expr(x.X, facts)
		w.expr(x.Index, facts)
		w.site(x, facts)
	case *ast.SliceExpr:
		w.expr(x.X, facts)
		w.expr(x.Low, facts)
		w.expr(x.High, facts)
		w.expr(x.Max, facts)
		w.site(x, facts)
	}
}

func (w *idxWalker) indexable(x ast.Expr) bool {
	tv, ok := w.info.Types[x]
	if !ok || tv.IsType() || tv.Type == nil {
		return false
	}
	t := tv.Type.Underlying()
	if pt, ok := t.(*types.Pointer); ok {
		t = pt.Elem().Underlying()
	}
	switch y := t.(type) {
	case *types.Slice, *types.Array:
		return true
	case *types.Basic:
		return y.Info()&types.IsString != 0
	}
	return false
}

func (w *idxWalker) site(n ast.Expr, facts []scandfa.Fact) {
	var base ast.Expr
	switch x := n.(type) {
	case *ast.IndexExpr:
		base = x.X
	case *ast.SliceExpr:
		base = x.X
	}
	if !w.indexable(base) {
		return
	}
	key := w.fn + "/" + types.ExprString(n)
	fs := cloneFacts(facts)
	addLenFacts := func(g scandfa.LExpr) {
		for t := range g.T {
			if strings.HasPrefix(t, "len(") || strings.HasPrefix(t, "cap(") {
				fs = append(fs, scandfa.Fact{E: scandfa.TermExpr(t)})
			}
			if strings.HasPrefix(t, "len(") {
				// len(x) <= cap(x)
				fs = append(fs, scandfa.Fact{E: scandfa.TermExpr("cap(" + t[4:]).Minus(scandfa.TermExpr(t))})
			}
		}
	}
	unsigned := func(e ast.Expr) {
		ast.Inspect(e, func(x ast.Node) bool {
			if ex, ok := x.(ast.Expr); ok {
				if t := w.info.TypeOf(ex); t != nil {
					if b, ok := t.Underlying().(*types.Basic); ok && b.Info()&types.IsUnsigned != 0 {
						if _, isCall := ex.(*ast.CallExpr); !isCall {
							if l, ok := w.pr.Lin(ex); ok && len(l.T) == 1 && l.K == 0 {
								fs = append(fs, scandfa.Fact{E: l})
							}
						}
					}
				}
			}
			return true
		})
	}
	type goal struct {
		g    scandfa.LExpr
		what string
	}
	var goals []goal
	lenX := w.lenOf(base)
	switch x := n.(type) {
	case *ast.IndexExpr:
		// an index of an 8-bit unsigned type into an array of at least 256 elements is in range by its type
		if it := w.info.TypeOf(x.Index); it != nil {
			if b, ok := it.Underlying().(*types.Basic); ok && (b.Kind() == types.Uint8) {
				at := w.info.TypeOf(x.X)
				if p, ok := at.Underlying().(*types.Pointer); ok {
					at = p.Elem()
				}
				if arr, ok := at.Underlying().(*types.Array); ok && arr.Len() >= 256 {
					return
				}
			}
		}
		i, ok := w.pr.Lin(x.Index)
		if !ok {
			w.note(key, n.Pos(), fmt.Sprintf("%s: the index is not a linear expression the prover can bound", types.ExprString(n)))
			return
		}
		unsigned(x.Index)
		goals = append(goals, goal{i, "index >= 0"}, goal{lenX.Minus(i).Plus(scandfa.Const(-1)), "index < len"})
	case *ast.SliceExpr:
		lo := scandfa.Const(0)
		if x.Low != nil {
			l, ok := w.pr.Lin(x.Low)
			if !ok {
				w.note(key, n.Pos(), fmt.Sprintf("%s: the low bound is not a linear expression", types.ExprString(n)))
				return
			}
			unsigned(x.Low)
			lo = l
			goals = append(goals, goal{lo, "low >= 0"})
		}
		limit := lenX
		_, isStr := w.info.TypeOf(base).Underlying().(*types.Basic)
		if !isStr {
			if _, isArr := lenX.T["len("+w.pr.Term(base)+")"]; isArr {
				limit = scandfa.TermExpr("cap(" + w.pr.Term(base) + ")")
			}
		}
		if x.High != nil {
			hi, ok := w.pr.Lin(x.High)
			if !ok {
				w.note(key, n.Pos(), fmt.Sprintf("%s: the high bound is not a linear expression", types.ExprString(n)))
				return
			}
			unsigned(x.High)
			goals = append(goals, goal{hi.Minus(lo), "low <= high"})
			if x.Max != nil {
				mx, ok := w.pr.Lin(x.Max)
				if !ok {
					w.note(key, n.Pos(), fmt.Sprintf("%s: the max bound is not a linear expression", types.ExprString(n)))
					return
				}
				goals = append(goals, goal{mx.Minus(hi), "high <= max"}, goal{limit.Minus(mx), "max <= cap"})
			} else {
				goals = append(goals, goal{limit.Minus(hi), "high <= cap"})
			}
		} else {
			goals = append(goals, goal{lenX.Minus(lo), "low <= len"})
		}
	}
	var missing []string
	for _, g := range goals {
		addLenFacts(g.g)
	}
	for _, f := range cloneFacts(fs) {
		addLenFacts(f.E)
	}
	for _, g := range goals {
		if !scandfa.Entails(g.g, fs) {
			missing = append(missing, fmt.Sprintf("%s (%s >= 0)", g.what, g.g.String()))
		}
	}
	if len(missing) == 0 {
		w.note(key, n.Pos(), "")
		return
	}
	msg := fmt.Sprintf("%s can be out of range: not implied by the conditions that dominate it: %s", types.ExprString(n), strings.Join(missing, ", "))
	if w.shared != nil && w.fnObj != nil {
		pd := &idxPending{node: n, w: w, key: key, pos: n.Pos(), expr: msg, facts: fs}
		for _, g := range goals {
			if !scandfa.Entails(g.g, fs) {
				pd.goals = append(pd.goals, g.g)
				pd.what = append(pd.what, g.what)
			}
		}
		w.shared.pending = append(w.shared.pending, pd)
		return
	}
	w.note(key, n.Pos(), msg)
}

// viaCallers: the missing goals of a site mention only parameters of its
// function (p, len(p), cap(p)) which the function never assigns; they hold if
// every call of the function in the package establishes them for the arguments
// (together with what the function itself knows about its parameters at the
// site). Returns "" when proved, otherwise the reason.
func (pd *idxPending) viaCallers(sh *idxShared) string {
	w := pd.w
	fn := w.fnObj
	if fn == nil || w.fd == nil {
		return " "
	}
	if fn.Exported() {
		recvExported := true
		if w.fd.Recv != nil && len(w.fd.Recv.List) == 1 {
			t := w.fd.Recv.List[0].Type
			if se, ok := t.(*ast.StarExpr); ok {
				t = se.X
			}
			if id, ok := t.(*ast.Ident); ok {
				recvExported = ast.IsExported(id.Name)
			}
		}
		if recvExported {
			return "; the function is exported, so its callers are not all known"
		}
	}
	if sh.valued[fn] {
		return "; the function is also used as a value, so its callers are not all known"
	}
	calls := sh.calls[fn]
	if len(calls) == 0 {
		if IdxDeferToActions != nil && firstLastForm(pd.node) && IdxDeferToActions(w.rel, fn.Name()) {
			return "" // the grammar actions inline the function: rule list-index decides the site at every call
		}
		if pd.constArgsEstablish(sh) {
			return "" // every call stands in a grammar action and passes constants that satisfy the bound
		}
		return "; no call of the function in the package establishes the bound"
	}
	// parameters
	type param struct {
		i       int
		isSlice bool
	}
	params := map[string]param{}
	i := 0
	for _, f := range w.fd.Type.Params.List {
		for _, nm := range f.Names {
			_, isSlice := w.info.TypeOf(f.Type).Underlying().(*types.Slice)
			if b, ok := w.info.TypeOf(f.Type).Underlying().(*types.Basic); ok && b.Info()&types.IsString != 0 {
				isSlice = true
			}
			if _, variadic := f.Type.(*ast.Ellipsis); variadic {
				i++
				continue
			}
			params[nm.Name] = param{i, isSlice}
			i++
		}
		if len(f.Names) == 0 {
			i++
		}
	}
	assigned := w.assigned(w.fd.Body)
	paramTerm := func(t string) (string, string, bool) { // kind ("", "len", "cap"), name
		for _, k := range []string{"len", "cap"} {
			if strings.HasPrefix(t, k+"(") && strings.HasSuffix(t, ")") {
				nm := t[len(k)+1 : len(t)-1]
				if pp, ok := params[nm]; ok && pp.isSlice && !contains(assigned, nm) {
					return k, nm, true
				}
				return "", "", false
			}
		}
		if pp, ok := params[t]; ok && !pp.isSlice && !contains(assigned, t) {
			return "", t, true
		}
		return "", "", false
	}
	onlyParams := func(e scandfa.LExpr) bool {
		for t := range e.T {
			if _, _, ok := paramTerm(t); !ok {
				return false
			}
		}
		return true
	}
	for _, g := range pd.goals {
		if !onlyParams(g) {
			return " " // not a matter of the callers: the report stands as it is
		}
	}
	for _, c := range calls {
		cw := c.w
		subst := func(e scandfa.LExpr) (scandfa.LExpr, bool) {
			out := scandfa.Const(e.K)
			for t, coef := range e.T {
				kind, nm, _ := paramTerm(t)
				pp := params[nm]
				if pp.i >= len(c.args) {
					return out, false
				}
				arg := c.args[pp.i]
				var v scandfa.LExpr
				switch kind {
				case "len":
					v = cw.lenOf(arg)
				case "cap":
					v = scandfa.TermExpr("cap(" + cw.pr.Term(arg) + ")")
				default:
					l, ok := cw.pr.Lin(arg)
					if !ok {
						return out, false
					}
					v = l
				}
				for n := 0; n < coef; n++ {
					out = out.Plus(v)
				}
				for n := 0; n > coef; n-- {
					out = out.Minus(v)
				}
			}
			return out, true
		}
		fs := cloneFacts(c.facts)
		// what the callee itself knows about its parameters at the site, in the caller's vocabulary
		for _, f := range pd.facts {
			if onlyParams(f.E) && len(f.E.T) > 0 {
				if e, ok := subst(f.E); ok {
					fs = append(fs, scandfa.Fact{E: e, Ne: f.Ne})
				}
			}
		}
		for gi, g := range pd.goals {
			g2, ok := subst(g)
			if !ok {
				return fmt.Sprintf("; the call at %s passes an argument the prover cannot express", cw.p.Pos(c.args[0].Pos()))
			}
			all := cloneFacts(fs)
			for t := range g2.T {
				if strings.HasPrefix(t, "len(") || strings.HasPrefix(t, "cap(") {
					all = append(all, scandfa.Fact{E: scandfa.TermExpr(t)})
				}
			}
			for _, f := range fs {
				for t := range f.E.T {
					if strings.HasPrefix(t, "len(") || strings.HasPrefix(t, "cap(") {
						all = append(all, scandfa.Fact{E: scandfa.TermExpr(t)})
					}
				}
			}
			if !scandfa.Entails(g2, all) {
				where := "-"
				if len(c.args) > 0 {
					where = cw.p.Pos(c.args[0].Pos())
				}
				return fmt.Sprintf("; the call in %s (%s) does not establish %s for its arguments", cw.fn, where, pd.what[gi])
			}
		}
	}
	return ""
}


// firstLastForm: x[0], x[len(x)-1], x[1:], x[1:len(x)], x[:len(x)-1] - the forms rule list-index decides.
func firstLastForm(n ast.Node) bool {
	same := func(a, b ast.Expr) bool { return types.ExprString(a) == types.ExprString(b) }
	isLit := func(e ast.Expr, v string) bool {
		bl, ok := unparenE(e).(*ast.BasicLit)
		return ok && bl.Value == v
	}
	isLen := func(e, x ast.Expr) bool {
		c, ok := unparenE(e).(*ast.CallExpr)
		if !ok || len(c.Args) != 1 {
			return false
		}
		id, ok := c.Fun.(*ast.Ident)
		return ok && id.Name == "len" && same(c.Args[0], x)
	}
	isLenMinus1 := func(e, x ast.Expr) bool {
		b, ok := unparenE(e).(*ast.BinaryExpr)
		return ok && b.Op == token.SUB && isLen(b.X, x) && isLit(b.Y, "1")
	}
	switch x := n.(type) {
	case *ast.IndexExpr:
		return isLit(x.Index, "0") || isLenMinus1(x.Index, x.X)
	case *ast.SliceExpr:
		if x.Max != nil {
			return false
		}
		if x.Low != nil && isLit(x.Low, "1") && (x.High == nil || isLen(x.High, x.X)) {
			return true
		}
		return x.Low == nil && x.High != nil && isLenMinus1(x.High, x.X)
	}
	return false
}


// constArgsEstablish: the function is called only from the package's generated files, never used as a value,
// the missing goals mention only integer parameters the function does not assign, and at every call those
// parameters get constants for which every goal holds.
func (pd *idxPending) constArgsEstablish(sh *idxShared) bool {
	w := pd.w
	fn := w.fnObj
	calls := sh.genCalls[fn]
	if len(calls) == 0 || sh.genValued[fn] || sh.valued[fn] || w.fd == nil {
		return false
	}
	idx := map[string]int{}
	i := 0
	for _, f := range w.fd.Type.Params.List {
		if _, variadic := f.Type.(*ast.Ellipsis); variadic {
			return false
		}
		for _, nm := range f.Names {
			idx[nm.Name] = i
			i++
		}
		if len(f.Names) == 0 {
			i++
		}
	}
	assigned := w.assigned(w.fd.Body)
	for _, g := range pd.goals {
		for t := range g.T {
			if _, ok := idx[t]; !ok || contains(assigned, t) {
				return false
			}
		}
	}
	for _, call := range calls {
		if len(call.Args) != i || call.Ellipsis.IsValid() {
			return false
		}
		for _, g := range pd.goals {
			sum := g.K
			for t, c := range g.T {
				tv, ok := w.info.Types[call.Args[idx[t]]]
				if !ok || tv.Value == nil {
					return false
				}
				v, exact := constant.Int64Val(constant.ToInt(tv.Value))
				if !exact {
					return false
				}
				sum += c * int(v)
			}
			if sum < 0 {
				return false
			}
		}
	}
	return true
}
