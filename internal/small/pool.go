// Package small holds engine E: small abstract interpreters.
package small

import (
	"verif/internal/norm"
	"fmt"
	"go/ast"
	"go/token"
	"go/types"
	"strings"

	"golang.org/x/tools/go/packages"

	"verif/internal/load"
	"verif/internal/paths"
	"verif/internal/report"
)

// ---- zone domain over {0, off0, B0} -------------------------------------

const (
	vZero = 0
	vOff  = 1
	vB    = 2
	inf   = 1 << 30
)

type zone [3][3]int // d[i][j]: x_i - x_j <= d[i][j]

func newZone() zone {
	var z zone
	for i := range z {
		for j := range z[i] {
			if i != j {
				z[i][j] = inf
			}
		}
	}
	return z
}

func (z *zone) add(i, j, c int) { // x_i - x_j <= c
	if c < z[i][j] {
		z[i][j] = c
	}
	for k := 0; k < 3; k++ {
		for a := 0; a < 3; a++ {
			for b := 0; b < 3; b++ {
				if z[a][k] < inf && z[k][b] < inf && z[a][k]+z[k][b] < z[a][b] {
					z[a][b] = z[a][k] + z[k][b]
				}
			}
		}
	}
}

func (z *zone) feasible() bool {
	for i := 0; i < 3; i++ {
		if z[i][i] < 0 {
			return false
		}
	}
	return true
}

// term = var + c
type term struct {
	v int
	c int
}

func (t term) String() string {
	n := [...]string{"", "off", "B"}[t.v]
	if t.v == vZero {
		return fmt.Sprint(t.c)
	}
	if t.c == 0 {
		return n
	}
	return fmt.Sprintf("%s%+d", n, t.c)
}

// leq adds t1 <= t2 + k to z, i.e. x1 - x2 <= t2.c - t1.c + k
func (z *zone) leq(t1, t2 term, k int) { z.add(t1.v, t2.v, t2.c-t1.c+k) }

// entails t1 <= t2 + k
func (z *zone) entails(t1, t2 term, k int) bool {
	if !z.feasible() {
		return true
	}
	if t1.v == t2.v {
		return t1.c <= t2.c+k
	}
	return z[t1.v][t2.v] <= t2.c-t1.c+k
}

// ---- symbolic state of a pool ------------------------------------------

type poolState struct {
	z        zone
	off      term
	blockLen term
	fresh    bool
	locals   map[types.Object]term
	ptrs     map[types.Object]term // locals holding &block[i]: the index when the address was taken
}

func (s poolState) clone() poolState {
	n := s
	n.locals = map[types.Object]term{}
	for k, v := range s.locals {
		n.locals[k] = v
	}
	n.ptrs = map[types.Object]term{}
	for k, v := range s.ptrs {
		n.ptrs[k] = v
	}
	return n
}

type poolAnalyser struct {
	ninfo *types.Info // type information of the normalised body of Get
	pk      *packages.Package
	prog    *load.Program
	recv    types.Object
	elem    types.Type
	blockF  string
	offF    string
	problem string
}

func (pa *poolAnalyser) info() *types.Info {
	if pa.ninfo != nil {
		return pa.ninfo
	}
	return pa.pk.TypesInfo
}

func unparen(e ast.Expr) ast.Expr {
	for {
		p, ok := e.(*ast.ParenExpr)
		if !ok {
			return e
		}
		e = p.X
	}
}

func (pa *poolAnalyser) recvField(e ast.Expr) (string, bool) {
	se, ok := unparen(e).(*ast.SelectorExpr)
	if !ok {
		return "", false
	}
	id, ok := unparen(se.X).(*ast.Ident)
	if !ok || pa.info().Uses[id] != pa.recv {
		return "", false
	}
	return se.Sel.Name, true
}

func (pa *poolAnalyser) isLenOfBlock(e ast.Expr) bool {
	c, ok := unparen(e).(*ast.CallExpr)
	if !ok || len(c.Args) != 1 {
		return false
	}
	id, ok := c.Fun.(*ast.Ident)
	if !ok {
		return false
	}
	if b, ok := pa.info().Uses[id].(*types.Builtin); !ok || b.Name() != "len" {
		return false
	}
	f, ok := pa.recvField(c.Args[0])
	return ok && f == pa.blockF
}

func (pa *poolAnalyser) eval(e ast.Expr, s *poolState) (term, bool) {
	e = unparen(e)
	if tv, ok := pa.info().Types[e]; ok && tv.Value != nil {
		var n int
		if _, err := fmt.Sscan(tv.Value.ExactString(), &n); err == nil {
			return term{vZero, n}, true
		}
		return term{}, false
	}
	if pa.isLenOfBlock(e) {
		return s.blockLen, true
	}
	if f, ok := pa.recvField(e); ok && f == pa.offF {
		return s.off, true
	}
	if id, ok := e.(*ast.Ident); ok {
		if t, ok := s.locals[pa.info().Uses[id]]; ok {
			return t, true
		}
	}
	if be, ok := e.(*ast.BinaryExpr); ok && (be.Op == token.ADD || be.Op == token.SUB) {
		x, ok1 := pa.eval(be.X, s)
		y, ok2 := pa.eval(be.Y, s)
		if ok1 && ok2 {
			if be.Op == token.ADD {
				if y.v == vZero {
					return term{x.v, x.c + y.c}, true
				}
				if x.v == vZero {
					return term{y.v, x.c + y.c}, true
				}
			} else if y.v == vZero {
				return term{x.v, x.c - y.c}, true
			}
		}
	}
	return term{}, false
}

// assume returns the states in which cond == truth holds.
func (pa *poolAnalyser) assume(cond ast.Expr, truth bool, s poolState) ([]poolState, bool) {
	cond = unparen(cond)
	if ue, ok := cond.(*ast.UnaryExpr); ok && ue.Op == token.NOT {
		return pa.assume(ue.X, !truth, s)
	}
	be, ok := cond.(*ast.BinaryExpr)
	if !ok {
		return nil, false
	}
	if be.Op == token.LAND || be.Op == token.LOR {
		and := (be.Op == token.LAND) == truth
		if and { // both must hold (with truth)
			l, ok := pa.assume(be.X, truth, s)
			if !ok {
				return nil, false
			}
			var out []poolState
			for _, st := range l {
				r, ok := pa.assume(be.Y, truth, st)
				if !ok {
					return nil, false
				}
				out = append(out, r...)
			}
			return out, true
		}
		l, ok1 := pa.assume(be.X, truth, s)
		r, ok2 := pa.assume(be.Y, truth, s)
		if !ok1 || !ok2 {
			return nil, false
		}
		return append(l, r...), true
	}
	x, ok1 := pa.eval(be.X, &s)
	y, ok2 := pa.eval(be.Y, &s)
	if !ok1 || !ok2 {
		return nil, false
	}
	op := be.Op
	if !truth {
		op = map[token.Token]token.Token{token.EQL: token.NEQ, token.NEQ: token.EQL, token.LSS: token.GEQ, token.GEQ: token.LSS, token.GTR: token.LEQ, token.LEQ: token.GTR}[op]
	}
	mk := func(f func(z *zone)) poolState {
		n := s.clone()
		f(&n.z)
		return n
	}
	switch op {
	case token.EQL:
		return []poolState{mk(func(z *zone) { z.leq(x, y, 0); z.leq(y, x, 0) })}, true
	case token.NEQ:
		return []poolState{mk(func(z *zone) { z.leq(x, y, -1) }), mk(func(z *zone) { z.leq(y, x, -1) })}, true
	case token.LSS:
		return []poolState{mk(func(z *zone) { z.leq(x, y, -1) })}, true
	case token.LEQ:
		return []poolState{mk(func(z *zone) { z.leq(x, y, 0) })}, true
	case token.GTR:
		return []poolState{mk(func(z *zone) { z.leq(y, x, -1) })}, true
	case token.GEQ:
		return []poolState{mk(func(z *zone) { z.leq(y, x, 0) })}, true
	}
	return nil, false
}

// freshMake recognises make([]Elem, n) and returns the length term.
func (pa *poolAnalyser) freshMake(e ast.Expr, s *poolState) (term, bool) {
	c, ok := unparen(e).(*ast.CallExpr)
	if !ok || len(c.Args) != 2 {
		return term{}, false
	}
	id, ok := c.Fun.(*ast.Ident)
	if !ok {
		return term{}, false
	}
	if b, ok := pa.info().Uses[id].(*types.Builtin); !ok || b.Name() != "make" {
		return term{}, false
	}
	return pa.eval(c.Args[1], s)
}

// PoolTypestate decides rule pool-typestate (C18) for one pool package.
func PoolTypestate(p *load.Program, rel string, res *report.RuleResult) {
	pk := p.Pkg(rel)
	key := rel
	if pk == nil {
		res.Unknown(key, "-", "", "undecided:anchor: package "+rel+" not found")
		return
	}
	tn, _ := pk.Types.Scope().Lookup("Pool").(*types.TypeName)
	if tn == nil {
		res.Unknown(key, "-", "", "undecided:anchor: type Pool not found in "+rel)
		return
	}
	st, ok := tn.Type().Underlying().(*types.Struct)
	if !ok {
		res.Unknown(key, "-", "", "undecided:anchor: Pool is not a struct")
		return
	}
	pa := &poolAnalyser{pk: pk, prog: p}
	for i := 0; i < st.NumFields(); i++ {
		f := st.Field(i)
		switch t := f.Type().Underlying().(type) {
		case *types.Slice:
			if pa.blockF != "" {
				pa.problem = "Pool has two slice fields"
			}
			pa.blockF, pa.elem = f.Name(), t.Elem()
		case *types.Basic:
			if t.Kind() == types.Int {
				if pa.offF != "" {
					pa.problem = "Pool has two int fields"
				}
				pa.offF = f.Name()
			} else {
				pa.problem = "Pool has an unexpected field " + f.Name()
			}
		default:
			pa.problem = "Pool has an unexpected field " + f.Name()
		}
	}
	if pa.blockF == "" || pa.offF == "" || pa.problem != "" {
		res.Unknown(key, "-", "", "undecided:idiom: Pool is not {block []T; off int}: "+pa.problem)
		return
	}
	res.Count("pools", 1)
	res.Units = append(res.Units, rel+".Pool")

	// ---- who-writes: every write to block/off, every &block[i], in the whole module
	writers := map[string]bool{}
	for _, q := range p.All {
		for _, fd := range load.FuncDecls(q) {
			fname := fd.Name.Name
			if fd.Recv != nil {
				fname = "Pool." + fname
			}
			fname = load.Rel(q.Types) + "." + fname
			ast.Inspect(fd.Body, func(x ast.Node) bool {
				se, ok := x.(*ast.SelectorExpr)
				if !ok {
					return true
				}
				sel := q.TypesInfo.Selections[se]
				if sel == nil || sel.Kind() != types.FieldVal {
					return true
				}
				v, _ := sel.Obj().(*types.Var)
				if v == nil || v.Pkg() != pk.Types || (v.Name() != pa.blockF && v.Name() != pa.offF) {
					return true
				}
				if !isFieldOf(v, st) {
					return true
				}
				writers[fname] = true
				return true
			})
		}
	}
	methods := load.Methods(pk, "Pool")
	var ctor *ast.FuncDecl
	for _, fd := range load.FuncDecls(pk) {
		if fd.Recv == nil && fd.Type.Results != nil && len(fd.Type.Results.List) == 1 {
			if tv, ok := pk.TypesInfo.Types[fd.Type.Results.List[0].Type]; ok {
				if pt, ok := tv.Type.(*types.Pointer); ok && pt.Elem() == tn.Type() {
					ctor = fd
				}
			}
		}
	}
	get := methods["Get"]
	if get == nil || ctor == nil {
		res.Unknown(key, "-", "", "undecided:anchor: Pool.Get or the constructor not found")
		return
	}
	allowed := map[string]bool{rel + ".Pool.Get": true, rel + "." + ctor.Name.Name: true}
	// a helper method of the pool that only Get (or another such helper) calls is part of Get: its body is
	// inlined into the paths analysed below
	callers := map[string]map[string]bool{}
	valued := map[string]bool{}
	for _, q := range p.All {
		for _, fd := range load.FuncDecls(q) {
			caller := fd.Name.Name
			if fd.Recv != nil {
				caller = "Pool." + caller
			}
			caller = load.Rel(q.Types) + "." + caller
			var stack []ast.Node
			ast.Inspect(fd.Body, func(x ast.Node) bool {
				if x == nil {
					stack = stack[:len(stack)-1]
					return true
				}
				stack = append(stack, x)
				se, ok := x.(*ast.SelectorExpr)
				if !ok {
					return true
				}
				fn, _ := q.TypesInfo.Uses[se.Sel].(*types.Func)
				if fn == nil || fn.Pkg() != pk.Types {
					return true
				}
				sig := fn.Type().(*types.Signature)
				if sig.Recv() == nil {
					return true
				}
				rt := sig.Recv().Type()
				if pt, ok := rt.(*types.Pointer); ok {
					rt = pt.Elem()
				}
				if rt != tn.Type() {
					return true
				}
				name := rel + ".Pool." + fn.Name()
				isCall := false
				if len(stack) >= 2 {
					if c, ok := stack[len(stack)-2].(*ast.CallExpr); ok && c.Fun == se {
						isCall = true
					}
				}
				if !isCall {
					valued[name] = true
				}
				if callers[name] == nil {
					callers[name] = map[string]bool{}
				}
				callers[name][caller] = true
				return true
			})
		}
	}
	for changed := true; changed; {
		changed = false
		for w := range writers {
			if allowed[w] || valued[w] || len(callers[w]) == 0 || !strings.HasPrefix(w, rel+".Pool.") {
				continue
			}
			if ast.IsExported(strings.TrimPrefix(w, rel+".Pool.")) {
				continue
			}
			all := true
			for c := range callers[w] {
				if !allowed[c] {
					all = false
				}
			}
			if all {
				allowed[w] = true
				changed = true
			}
		}
	}
	for w := range writers {
		res.Check(allowed[w], key+"/who-touches/"+w, "-", w, "pool state is touched only by the constructor and Get", "function "+w+" reads or writes the pool's block/off fields: the typestate argument covers only the constructor and Get")
	}
	// composite literals of Pool outside the constructor
	for _, q := range p.All {
		for _, f := range q.Syntax {
			ast.Inspect(f, func(x ast.Node) bool {
				cl, ok := x.(*ast.CompositeLit)
				if !ok {
					return true
				}
				if tv, ok := q.TypesInfo.Types[cl]; ok && types.Identical(tv.Type, tn.Type()) {
					inCtor := q == pk && cl.Pos() >= ctor.Pos() && cl.End() <= ctor.End()
					res.Check(inCtor, key+"/literal/"+p.Pos(cl.Pos()), p.Pos(cl.Pos()), "", "Pool literal inside the constructor", "a Pool is built outside its constructor: the invariant off ≤ len(block) ≥ 1 is not established")
				}
				return true
			})
		}
	}

	// the form-specific proof goes into a result of its own: what it leaves open because it does not recognise
	// the form may be decided by evaluation (poolspec.go); what it proves or refutes in a form it knows stands
	form := report.NewResult("pool-typestate")
	recognised := true
	if pa.isFreeTail(get) {
		// the other representation of the same pool: the not yet handed out rest of the block instead of an offset
		pa.checkFreeTail(form, key, ctor, get)
	} else {
		recognised = pa.offsetForm(ctor, get)
		// ---- constructor: returns &Pool{block: make([]T, n)} with n the parameter, off zero
		pa.checkCtor(form, key, ctor)
		// ---- Get: symbolic execution over the zone domain
		pa.checkGet(form, key, get)
	}
	open := 0
	for _, o := range form.Obls {
		if o.Status != report.Discharged {
			open++
		}
	}
	probs, scenarios, decided := poolByEval(pk, ctor, get, poolSizes(p, pk))
	if decided {
		res.Count("requests-evaluated", scenarios)
		res.Check(len(probs) == 0, key+"/evaluated", p.Pos(get.Pos()), "Pool.Get",
			fmt.Sprintf("on %d requests (block sizes 1-8, 16 and the sizes the constructor is called with, 2*size+3 requests each, across two block boundaries; in the thorough tier every size up to 64 and the powers of two up to 4096 with their neighbours, four boundaries) every result is a zeroed element no earlier request returned", scenarios),
			strings.Join(probs, "; "))
	}
	if open > 0 && decided && len(probs) == 0 {
		// what the proof could not interpret (undecided) is decided by the evaluation; what it refutes stands,
		// unless the pool is in neither exact form - then its complaints are about the form, not about what the
		// pool does
		for i := range form.Obls {
			if form.Obls[i].Status == report.Undecided || (form.Obls[i].Status == report.Violated && !recognised) {
				form.Obls[i].Detail = "the pool is in neither form the typestate proof reads (" + form.Obls[i].Detail + "); decided for the block sizes and request counts of " + key + "/evaluated only"
				form.Obls[i].Status = report.Discharged
			}
		}
	}
	res.Obls = append(res.Obls, form.Obls...)
	for k, v := range form.Instances {
		res.Instances[k] += v
	}
}

// offsetForm: Get is written over an offset that counts up from zero - the form checkCtor/checkGet prove:
// the int field is only ever incremented or set to zero, and the constructor does not assign it.
func (pa *poolAnalyser) offsetForm(ctor, get *ast.FuncDecl) bool {
	ok := true
	isOff := func(e ast.Expr) bool {
		f, is := pa.recvField(e)
		return is && f == pa.offF
	}
	ast.Inspect(get.Body, func(x ast.Node) bool {
		switch y := x.(type) {
		case *ast.IncDecStmt:
			if isOff(y.X) && y.Tok != token.INC {
				ok = false
			}
		case *ast.AssignStmt:
			for i, l := range y.Lhs {
				if !isOff(l) {
					continue
				}
				if y.Tok != token.ASSIGN || i >= len(y.Rhs) {
					if y.Tok != token.ADD_ASSIGN {
						ok = false
					}
					continue
				}
				if tv := pa.info().Types[y.Rhs[i]]; tv.Value == nil || tv.Value.ExactString() != "0" {
					ok = false
				}
			}
		}
		return true
	})
	ast.Inspect(ctor.Body, func(x ast.Node) bool {
		switch y := x.(type) {
		case *ast.AssignStmt:
			for _, l := range y.Lhs {
				if se, is := unparen(l).(*ast.SelectorExpr); is && se.Sel.Name == pa.offF {
					ok = false
				}
			}
		case *ast.KeyValueExpr:
			if id, is := y.Key.(*ast.Ident); is && id.Name == pa.offF {
				if tv := pa.info().Types[y.Value]; tv.Value == nil || tv.Value.ExactString() != "0" {
					ok = false
				}
			}
		}
		return true
	})
	return ok
}

// poolSizes: the constant block sizes the module's calls of the pool's constructor pass.
func poolSizes(p *load.Program, pk *packages.Package) []int {
	var out []int
	ctor := pk.Types.Scope().Lookup("NewPool")
	if ctor == nil {
		return nil
	}
	for _, q := range p.All {
		for _, f := range q.Syntax {
			ast.Inspect(f, func(x ast.Node) bool {
				call, ok := x.(*ast.CallExpr)
				if !ok || len(call.Args) != 1 {
					return true
				}
				var id *ast.Ident
				switch fn := call.Fun.(type) {
				case *ast.Ident:
					id = fn
				case *ast.SelectorExpr:
					id = fn.Sel
				}
				if id == nil || q.TypesInfo.Uses[id] != ctor {
					return true
				}
				if tv := q.TypesInfo.Types[call.Args[0]]; tv.Value != nil {
					n := 0
					if _, err := fmt.Sscan(tv.Value.ExactString(), &n); err == nil {
						out = append(out, n)
					}
				}
				return true
			})
		}
	}
	return out
}

func isFieldOf(v *types.Var, st *types.Struct) bool {
	for i := 0; i < st.NumFields(); i++ {
		if st.Field(i) == v {
			return true
		}
	}
	return false
}

func (pa *poolAnalyser) checkCtor(res *report.RuleResult, key string, fd *ast.FuncDecl) {
	pos := pa.prog.Pos(fd.Pos())
	fn := fd.Name.Name
	bad := func(why string) { res.Bad(key+"/ctor", pos, fn, why) }
	if fd.Type.Params.NumFields() != 1 || len(fd.Type.Params.List[0].Names) != 1 {
		res.Unknown(key+"/ctor", pos, fn, "undecided:idiom: constructor does not take exactly one block size")
		return
	}
	// two shapes: `return &Pool{…}`, or `p := new(Pool) / &Pool{…}; p.f = e; …; return p`
	inits := map[string]ast.Expr{}
	addLit := func(cl *ast.CompositeLit) bool {
		for _, el := range cl.Elts {
			kv, ok := el.(*ast.KeyValueExpr)
			if !ok {
				bad("positional Pool literal")
				return false
			}
			inits[kv.Key.(*ast.Ident).Name] = kv.Value
		}
		return true
	}
	litOf := func(e ast.Expr) (*ast.CompositeLit, bool, bool) { // literal, isNew, ok
		e = unparen(e)
		if ue, ok := e.(*ast.UnaryExpr); ok && ue.Op == token.AND {
			if cl, ok := ue.X.(*ast.CompositeLit); ok {
				return cl, false, true
			}
		}
		if c, ok := e.(*ast.CallExpr); ok && len(c.Args) == 1 {
			if id, ok := c.Fun.(*ast.Ident); ok && id.Name == "new" {
				if _, isB := pa.info().Uses[id].(*types.Builtin); isB {
					return nil, true, true
				}
			}
		}
		return nil, false, false
	}
	var obj types.Object
	shapeOK := false
	for i, st := range fd.Body.List {
		switch x := st.(type) {
		case *ast.ReturnStmt:
			if i != len(fd.Body.List)-1 || len(x.Results) != 1 {
				break
			}
			if obj == nil {
				if cl, isNew, ok := litOf(x.Results[0]); ok && !isNew {
					if !addLit(cl) {
						return
					}
					shapeOK = true
				}
			} else if id, ok := unparen(x.Results[0]).(*ast.Ident); ok && pa.info().Uses[id] == obj {
				shapeOK = true
			}
		case *ast.AssignStmt:
			if len(x.Lhs) != 1 || len(x.Rhs) != 1 {
				shapeOK = false
				break
			}
			if id, ok := x.Lhs[0].(*ast.Ident); ok && x.Tok == token.DEFINE && obj == nil && i == 0 {
				if cl, isNew, ok := litOf(x.Rhs[0]); ok {
					obj = pa.info().Defs[id]
					if !isNew && !addLit(cl) {
						return
					}
					continue
				}
			}
			if se, ok := x.Lhs[0].(*ast.SelectorExpr); ok && x.Tok == token.ASSIGN && obj != nil {
				if id, ok := se.X.(*ast.Ident); ok && pa.info().Uses[id] == obj {
					inits[se.Sel.Name] = x.Rhs[0]
					continue
				}
			}
			res.Unknown(key+"/ctor", pos, fn, "undecided:idiom: constructor statement outside `p := new(Pool); p.f = e; return p`")
			return
		default:
			res.Unknown(key+"/ctor", pos, fn, "undecided:idiom: constructor is neither `return &Pool{…}` nor `p := new(Pool); p.f = e; return p`")
			return
		}
	}
	if !shapeOK {
		res.Unknown(key+"/ctor", pos, fn, "undecided:idiom: constructor is neither `return &Pool{…}` nor `p := new(Pool); p.f = e; return p`")
		return
	}
	param := pa.info().Defs[fd.Type.Params.List[0].Names[0]]
	sawBlock := false
	for name, val := range inits {
		switch name {
		case pa.blockF:
			c, ok := unparen(val).(*ast.CallExpr)
			if !ok || len(c.Args) != 2 {
				bad("block is not a fresh make([]T, blockSize)")
				return
			}
			id, _ := c.Fun.(*ast.Ident)
			if id == nil {
				bad("block is not a fresh make")
				return
			}
			if b, ok := pa.info().Uses[id].(*types.Builtin); !ok || b.Name() != "make" {
				bad("block is not a fresh make")
				return
			}
			aid, ok := unparen(c.Args[1]).(*ast.Ident)
			if !ok || pa.info().Uses[aid] != param {
				bad("block length is not the requested block size")
				return
			}
			sawBlock = true
		case pa.offF:
			if tv, ok := pa.info().Types[val]; !ok || tv.Value == nil || tv.Value.ExactString() != "0" {
				bad("off does not start at 0")
				return
			}
		}
	}
	if !sawBlock {
		bad("constructor leaves block nil")
		return
	}
	res.OK(key+"/ctor", pos, fn, "establishes off = 0 ≤ len(block) = blockSize with a fresh block")
}

func (pa *poolAnalyser) checkGet(res *report.RuleResult, key string, fd *ast.FuncDecl) {
	pos := pa.prog.Pos(fd.Pos())
	fn := "Pool.Get"
	if fd.Recv == nil || len(fd.Recv.List[0].Names) != 1 {
		res.Unknown(key+"/get", pos, fn, "undecided:idiom: no named receiver")
		return
	}
	pa.recv = pa.info().Defs[fd.Recv.List[0].Names[0]]
	// canonical shape: helper methods of the pool inlined, switches as if-chains, single-use locals propagated
	nz := norm.New(pa.pk, norm.Options{NoLoops: true})
	body := nz.Body(fd)
	pa.ninfo = nz.Info
	ps, err := paths.Enumerate(body)
	if err != nil {
		res.Unknown(key+"/get", pos, fn, "undecided:idiom: "+err.Error())
		return
	}
	res.Count("get-paths", len(ps))
	init := poolState{z: newZone(), off: term{vOff, 0}, blockLen: term{vB, 0}, locals: map[types.Object]term{}}
	zero := term{vZero, 0}
	init.z.leq(zero, term{vOff, 0}, 0)      // 0 <= off
	init.z.leq(term{vOff, 0}, term{vB, 0}, 0) // off <= B
	init.z.leq(term{vZero, 1}, term{vB, 0}, 0) // 1 <= B
	feasibleReturns := 0
	for pi, path := range ps {
		states := []poolState{init}
		pkey := fmt.Sprintf("%s/get/path%d", key, pi)
		var desc []string
		undec := ""
		var ret *ast.ReturnStmt
	items:
		for _, it := range path {
			switch {
			case it.Cond != nil:
				var next []poolState
				for _, s := range states {
					r, ok := pa.assume(it.Cond, it.Truth, s)
					if !ok {
						undec = "condition " + types.ExprString(it.Cond) + " is outside the linear fragment over off and len(block)"
						break items
					}
					for _, st := range r {
						if st.z.feasible() {
							next = append(next, st)
						}
					}
				}
				states = next
				desc = append(desc, fmt.Sprintf("[%s]=%v", types.ExprString(it.Cond), it.Truth))
			case it.Stmt != nil:
				for i := range states {
					if why := pa.exec(it.Stmt, &states[i]); why != "" {
						undec = why
						break items
					}
				}
				desc = append(desc, "stmt@"+pa.prog.Pos(it.Stmt.Pos()))
			case it.Return != nil:
				ret = it.Return
			default:
				undec = "loops/switches are outside the pool idiom"
				break items
			}
		}
		if undec != "" {
			res.Unknown(pkey, pos, fn, "undecided:idiom: "+undec)
			continue
		}
		if len(states) == 0 {
			res.OK(pkey, pos, fn, "path infeasible under 0 ≤ off ≤ len(block), len(block) ≥ 1: "+strings.Join(desc, " "))
			continue
		}
		if ret == nil || len(ret.Results) != 1 {
			res.Bad(pkey, pos, fn, "feasible path does not return an element")
			continue
		}
		if tv, ok := pa.info().Types[ret.Results[0]]; ok && tv.IsNil() {
			res.Bad(pkey, pa.prog.Pos(ret.Pos()), fn, "Get can return nil for a positive block size on path "+strings.Join(desc, " "))
			continue
		}
		// &p.block[e], or a local that holds such an address
		ue, ok := unparen(ret.Results[0]).(*ast.UnaryExpr)
		var ix *ast.IndexExpr
		var ptrObj types.Object
		if ok && ue.Op == token.AND {
			ix, _ = unparen(ue.X).(*ast.IndexExpr)
		}
		if id, isId := unparen(ret.Results[0]).(*ast.Ident); isId {
			ptrObj = pa.info().Uses[id]
		}
		if ix == nil && ptrObj == nil {
			res.Unknown(pkey, pos, fn, "undecided:idiom: result is not &block[i]")
			continue
		}
		if ix != nil {
			if f, ok := pa.recvField(ix.X); !ok || f != pa.blockF {
				res.Bad(pkey, pos, fn, "result does not point into the pool's current block")
				continue
			}
		}
		why := ""
		for _, s := range states {
			var e term
			ok := false
			if ix != nil {
				e, ok = pa.eval(ix.Index, &s)
				if !ok {
					why = "index " + types.ExprString(ix.Index) + " is outside the linear fragment"
					break
				}
			} else {
				e, ok = s.ptrs[ptrObj]
				if !ok {
					why = "the returned local does not hold the address of an element of the current block on this path"
					break
				}
			}
			switch {
			case !s.z.entails(zero, e, 0) || !s.z.entails(e, s.blockLen, -1):
				why = fmt.Sprintf("index %s is not provably within [0, len(block)=%s)", e, s.blockLen)
			case !s.fresh && !s.z.entails(term{vOff, 0}, e, 0):
				why = fmt.Sprintf("index %s may be below the entry offset off: an element already handed out from this block can be returned again", e)
			case !s.z.entails(term{e.v, e.c + 1}, s.off, 0):
				why = fmt.Sprintf("offset after the call (%s) does not exceed the returned index (%s): the next call can return the same element", s.off, e)
			case !s.z.entails(s.off, s.blockLen, 0):
				why = fmt.Sprintf("offset after the call (%s) can exceed len(block) (%s)", s.off, s.blockLen)
			case !s.z.entails(term{vZero, 1}, s.blockLen, 0):
				why = "the block can become empty"
			}
			if why != "" {
				break
			}
		}
		if why != "" {
			res.Bad(pkey, pa.prog.Pos(ret.Pos()), fn, why+" (path "+strings.Join(desc, " ")+")")
			continue
		}
		feasibleReturns++
		res.OK(pkey, pos, fn, "returns &block[i] with off_entry ≤ i < off_exit ≤ len(block) (fresh block: 0 ≤ i), invariant preserved: "+strings.Join(desc, " "))
	}
	res.Check(feasibleReturns > 0, key+"/get/returns", pos, fn, "at least one feasible path returns an element", "no feasible path returns an element")
}

// exec applies a simple statement to the state; returns a reason if outside
// the idiom.
func (pa *poolAnalyser) exec(s ast.Stmt, st *poolState) string {
	switch s := s.(type) {
	case *ast.IncDecStmt:
		if f, ok := pa.recvField(s.X); ok && f == pa.offF {
			if s.Tok == token.INC {
				st.off.c++
			} else {
				st.off.c--
			}
			return ""
		}
	case *ast.AssignStmt:
		if len(s.Lhs) != 1 || len(s.Rhs) != 1 {
			return "multi-assignment"
		}
		if f, ok := pa.recvField(s.Lhs[0]); ok {
			switch f {
			case pa.offF:
				v, ok := pa.eval(s.Rhs[0], st)
				if !ok {
					return "off is assigned a value outside the linear fragment"
				}
				switch s.Tok {
				case token.ASSIGN:
					st.off = v
				case token.ADD_ASSIGN:
					if v.v != vZero {
						return "off += non-constant"
					}
					st.off.c += v.c
				case token.SUB_ASSIGN:
					if v.v != vZero {
						return "off -= non-constant"
					}
					st.off.c -= v.c
				default:
					return "unsupported assignment operator on off"
				}
				return ""
			case pa.blockF:
				n, ok := pa.freshMake(s.Rhs[0], st)
				if !ok || s.Tok != token.ASSIGN {
					return "block is replaced by something other than a fresh make([]T, n): old elements may be shared or reused"
				}
				st.blockLen = n
				st.fresh = true
				st.ptrs = map[types.Object]term{} // addresses taken before point into the abandoned block
				return ""
			}
		}
		if id, ok := s.Lhs[0].(*ast.Ident); ok && (s.Tok == token.DEFINE || s.Tok == token.ASSIGN) {
			obj := pa.info().Defs[id]
			if obj == nil {
				obj = pa.info().Uses[id]
			}
			// item := &p.block[i]
			if ue, ok := unparen(s.Rhs[0]).(*ast.UnaryExpr); ok && ue.Op == token.AND && obj != nil {
				if ix, ok := unparen(ue.X).(*ast.IndexExpr); ok {
					if f, ok := pa.recvField(ix.X); ok && f == pa.blockF {
						if e, ok := pa.eval(ix.Index, st); ok {
							if st.ptrs == nil {
								st.ptrs = map[types.Object]term{}
							}
							st.ptrs[obj] = e
							return ""
						}
					}
				}
			}
			if v, ok := pa.eval(s.Rhs[0], st); ok && obj != nil {
				st.locals[obj] = v
				return ""
			}
		}
	}
	return "statement at " + pa.prog.Pos(s.Pos()) + " is outside the pool idiom"
}

// PoolRule runs pool-typestate on the given pool packages and checks every
// constructor call site passes a positive constant block size.
func PoolRule(p *load.Program, rels ...string) *report.RuleResult {
	res := report.NewResult("pool-typestate")
	for _, rel := range rels {
		PoolTypestate(p, rel, res)
	}
	// call sites of constructors
	ctors := map[types.Object]bool{}
	for _, rel := range rels {
		if pk := p.Pkg(rel); pk != nil {
			if o := pk.Types.Scope().Lookup("NewPool"); o != nil {
				ctors[o] = true
			}
		}
	}
	for _, q := range p.All {
		for _, f := range q.Syntax {
			ast.Inspect(f, func(x ast.Node) bool {
				call, ok := x.(*ast.CallExpr)
				if !ok || len(call.Args) != 1 {
					return true
				}
				var id *ast.Ident
				switch fn := call.Fun.(type) {
				case *ast.Ident:
					id = fn
				case *ast.SelectorExpr:
					id = fn.Sel
				}
				if id == nil || !ctors[q.TypesInfo.Uses[id]] {
					return true
				}
				res.Count("ctor-calls", 1)
				tv := q.TypesInfo.Types[call.Args[0]]
				n := 0
				okc := tv.Value != nil
				if okc {
					_, err := fmt.Sscan(tv.Value.ExactString(), &n)
					okc = err == nil && n >= 1
				}
				res.Check(okc, "ctor-call/"+load.Rel(q.Types)+"/"+types.ExprString(call), p.Pos(call.Pos()), "", fmt.Sprintf("block size is the positive constant %d", n), "block size is not a positive constant: with size 0 Get returns nil and the scanner dereferences it")
				return true
			})
		}
	}
	return res
}
