package small

import (
	"os"
	"fmt"
	"go/ast"
	"sort"

	"golang.org/x/tools/go/packages"

	"verif/internal/ceval"
)

// ---- pool by evaluation -----------------------------------------------------------------------------------
//
// The typestate proof of the pool (pool.go, poolfree.go) reads two exact forms of Get and decides them for
// every block size and every number of requests. A pool written another way - a countdown of the elements
// left, a cached length, a fast path first - is outside those forms. For it the constructor and Get are
// evaluated from source (package ceval): for every block size in a family (1..8, 16 and every constant a
// constructor call in the module passes, today 1024) a pool is made and 2*size+3 elements are requested,
// which crosses two block boundaries; every result must be an element (not nil), must be in its zero state,
// and must be an object no earlier request returned. That is a bounded statement - sizes and counts of the
// family, not all of them - and is reported as such; it is used only to decide obligations the proof left
// open because it did not recognise the form, and a scenario that fails is a violation with the size and the
// request number.

func poolByEval(pk *packages.Package, ctor, get *ast.FuncDecl, sizes []int) (problems []string, scenarios int, decided bool) {
	in := ceval.New(pk)
	in.Budget = 4000000
	seenSize := map[int]bool{}
	var family []int
	base := []int{1, 2, 3, 4, 5, 6, 7, 8, 16}
	rounds := 2
	if os.Getenv("VERIF_TIER") == "thorough" {
		// every size up to 64, powers of two up to 4096, their neighbours; four block boundaries
		for n := 9; n <= 64; n++ {
			base = append(base, n)
		}
		for n := 128; n <= 4096; n *= 2 {
			base = append(base, n-1, n, n+1)
		}
		rounds = 4
	}
	for _, n := range append(base, sizes...) {
		if n >= 1 && n <= 1<<14 && !seenSize[n] {
			seenSize[n] = true
			family = append(family, n)
		}
	}
	sort.Ints(family)
	for _, size := range family {
		out, st, why := in.Call(ctor, nil, []interface{}{int64(size)})
		if st == ceval.Panic {
			problems = append(problems, fmt.Sprintf("the constructor panics for block size %d: %s", size, why))
			continue
		}
		if st != ceval.OK || len(out) != 1 {
			return nil, scenarios, false
		}
		pool := out[0]
		seen := map[*ceval.Struct]int{}
		for k := 1; k <= rounds*size+3; k++ {
			scenarios++
			out, st, why := in.Call(get, pool, nil)
			if st == ceval.Panic {
				problems = append(problems, fmt.Sprintf("block size %d: request %d panics: %s", size, k, why))
				break
			}
			if st != ceval.OK || len(out) != 1 {
				return nil, scenarios, false
			}
			el, ok := out[0].(*ceval.Struct)
			if !ok {
				if _, isNil := out[0].(ceval.Nil); isNil {
					problems = append(problems, fmt.Sprintf("block size %d: request %d returns nil", size, k))
					break
				}
				return nil, scenarios, false
			}
			if first, dup := seen[el]; dup {
				problems = append(problems, fmt.Sprintf("block size %d: request %d returns the object request %d returned: writing through one changes the other", size, k, first))
				break
			}
			seen[el] = k
			if !zeroStruct(el) {
				problems = append(problems, fmt.Sprintf("block size %d: request %d returns an element that is not in its zero state", size, k))
				break
			}
			// the caller writes through what it got
			for f, v := range el.Fields {
				if _, isInt := v.(int64); isInt {
					el.Fields[f] = int64(k)
				}
			}
		}
		if len(problems) >= 3 {
			break
		}
	}
	return problems, scenarios, true
}

func zeroStruct(s *ceval.Struct) bool {
	for _, v := range s.Fields {
		switch x := v.(type) {
		case int64:
			if x != 0 {
				return false
			}
		case bool:
			if x {
				return false
			}
		case string:
			if x != "" {
				return false
			}
		case ceval.Nil:
		case ceval.Bytes:
			if len(x.B) != 0 {
				return false
			}
		case *ceval.Struct:
			if !zeroStruct(x) {
				return false
			}
		default:
			return false
		}
	}
	return true
}
