package small

import (
	"fmt"
	"go/ast"
	"go/constant"
	"go/token"
	"go/types"

	"golang.org/x/tools/go/packages"
)

// A tiny abstract interpreter for loop-free functions that touch their
// integer inputs only through comparisons. Integer inputs are "atoms": they
// support <,<=,==,!=,>=,> and nothing else, so evaluating a function on one
// representative of every ordering of its atoms (relative to each other and to
// the constants they are compared with) covers all inputs.

type atom struct{ v uint64 }           // comparison-only integer
type structVal struct{ f map[string]value } // pointer to struct
type globalRef struct{ name string }
type nilVal struct{}
type value interface{}

type interp struct {
	pk    *packages.Package
	decls map[types.Object]*ast.FuncDecl
	glob  map[types.Object]value
	steps int
}

type interpErr struct{ msg string }

func (e interpErr) Error() string { return e.msg }

func fail(format string, a ...interface{}) { panic(interpErr{fmt.Sprintf(format, a...)}) }

func newInterp(pk *packages.Package) *interp {
	in := &interp{pk: pk, decls: map[types.Object]*ast.FuncDecl{}, glob: map[types.Object]value{}}
	for _, f := range pk.Syntax {
		for _, d := range f.Decls {
			if fd, ok := d.(*ast.FuncDecl); ok && fd.Body != nil {
				in.decls[pk.TypesInfo.Defs[fd.Name]] = fd
			}
		}
	}
	return in
}

type frame struct {
	vars map[types.Object]value
}

type retSignal struct{ vals []value }

// Call evaluates function fn with receiver (may be nil) and args.
func (in *interp) Call(fd *ast.FuncDecl, recv value, args []value) (res []value, err error) {
	defer func() {
		if r := recover(); r != nil {
			if ie, ok := r.(interpErr); ok {
				err = ie
				return
			}
			panic(r)
		}
	}()
	return in.call(fd, recv, args), nil
}

func (in *interp) call(fd *ast.FuncDecl, recv value, args []value) []value {
	in.steps++
	if in.steps > 1_000_000 {
		fail("step limit")
	}
	fr := &frame{vars: map[types.Object]value{}}
	if fd.Recv != nil && len(fd.Recv.List[0].Names) == 1 {
		fr.vars[in.pk.TypesInfo.Defs[fd.Recv.List[0].Names[0]]] = recv
	}
	i := 0
	for _, f := range fd.Type.Params.List {
		for _, nm := range f.Names {
			if i >= len(args) {
				fail("arity")
			}
			fr.vars[in.pk.TypesInfo.Defs[nm]] = args[i]
			i++
		}
	}
	r := in.block(fd.Body.List, fr)
	if r == nil {
		return nil
	}
	return r.vals
}

func (in *interp) block(stmts []ast.Stmt, fr *frame) *retSignal {
	for _, s := range stmts {
		if r := in.stmt(s, fr); r != nil {
			return r
		}
	}
	return nil
}

func (in *interp) stmt(s ast.Stmt, fr *frame) *retSignal {
	switch s := s.(type) {
	case *ast.ReturnStmt:
		var vals []value
		for _, e := range s.Results {
			vals = append(vals, in.expr(e, fr))
		}
		return &retSignal{vals}
	case *ast.IfStmt:
		if s.Init != nil {
			if r := in.stmt(s.Init, fr); r != nil {
				return r
			}
		}
		c, ok := in.expr(s.Cond, fr).(bool)
		if !ok {
			fail("non-boolean condition")
		}
		if c {
			return in.block(s.Body.List, fr)
		}
		if s.Else != nil {
			return in.stmt(s.Else, fr)
		}
		return nil
	case *ast.BlockStmt:
		return in.block(s.List, fr)
	case *ast.AssignStmt:
		if len(s.Lhs) != len(s.Rhs) {
			fail("unsupported assignment at %v", s.Pos())
		}
		for i := range s.Lhs {
			id, ok := s.Lhs[i].(*ast.Ident)
			if !ok {
				fail("assignment to a non-variable")
			}
			v := in.expr(s.Rhs[i], fr)
			obj := in.pk.TypesInfo.Defs[id]
			if obj == nil {
				obj = in.pk.TypesInfo.Uses[id]
			}
			if obj == nil || obj.Parent() == in.pk.Types.Scope() {
				fail("assignment to package-level variable %s", id.Name)
			}
			fr.vars[obj] = v
		}
		return nil
	case *ast.ExprStmt:
		in.expr(s.X, fr)
		return nil
	case *ast.SwitchStmt:
		if s.Init != nil {
			if r := in.stmt(s.Init, fr); r != nil {
				return r
			}
		}
		var tag value
		if s.Tag != nil {
			tag = in.expr(s.Tag, fr)
		}
		var def *ast.CaseClause
		for _, c := range s.Body.List {
			cc := c.(*ast.CaseClause)
			if cc.List == nil {
				def = cc
				continue
			}
			for _, e := range cc.List {
				v := in.expr(e, fr)
				hit := false
				if s.Tag == nil {
					b, ok := v.(bool)
					if !ok {
						fail("non-boolean case in a tagless switch")
					}
					hit = b
				} else {
					hit = in.equal(tag, v)
				}
				if hit {
					return in.clause(cc, fr)
				}
			}
		}
		if def != nil {
			return in.clause(def, fr)
		}
		return nil
	case *ast.DeclStmt:
		if gd, ok := s.Decl.(*ast.GenDecl); ok {
			for _, sp := range gd.Specs {
				if vs, ok := sp.(*ast.ValueSpec); ok {
					for i, nm := range vs.Names {
						if i < len(vs.Values) {
							fr.vars[in.pk.TypesInfo.Defs[nm]] = in.expr(vs.Values[i], fr)
						} else if tv := in.pk.TypesInfo.TypeOf(nm); tv != nil {
							if b, ok := tv.Underlying().(*types.Basic); ok && b.Info()&types.IsInteger != 0 {
								fr.vars[in.pk.TypesInfo.Defs[nm]] = int64(0)
							} else {
								fail("declaration of %s without a value", nm.Name)
							}
						}
					}
				}
			}
			return nil
		}
	}
	fail("unsupported statement %T", s)
	return nil
}

// clause runs the body of a switch clause (no fallthrough, no break).
func (in *interp) clause(cc *ast.CaseClause, fr *frame) *retSignal {
	for _, st := range cc.Body {
		if b, ok := st.(*ast.BranchStmt); ok {
			fail("unsupported statement %s in a switch clause", b.Tok)
		}
	}
	return in.block(cc.Body, fr)
}

// equal: == on the values the interpreter knows (atoms and small integers).
func (in *interp) equal(a, b value) bool {
	switch x := a.(type) {
	case atom:
		if y, ok := b.(atom); ok {
			return x.v == y.v
		}
	case int64:
		if y, ok := b.(int64); ok {
			return x == y
		}
	case bool:
		if y, ok := b.(bool); ok {
			return x == y
		}
	}
	fail("comparison of unlike values in a switch")
	return false
}

func (in *interp) global(obj types.Object) value {
	if v, ok := in.glob[obj]; ok {
		return v
	}
	// find initialiser
	for _, f := range in.pk.Syntax {
		for _, d := range f.Decls {
			gd, ok := d.(*ast.GenDecl)
			if !ok || gd.Tok != token.VAR {
				continue
			}
			for _, sp := range gd.Specs {
				vs := sp.(*ast.ValueSpec)
				for i, nm := range vs.Names {
					if in.pk.TypesInfo.Defs[nm] == obj && i < len(vs.Values) {
						var v value
						if _, isCall := vs.Values[i].(*ast.CallExpr); isCall {
							v = globalRef{nm.Name} // e.g. errors.New(...): opaque identity
						} else {
							v = in.expr(vs.Values[i], &frame{vars: map[types.Object]value{}})
						}
						in.glob[obj] = v
						return v
					}
				}
			}
		}
	}
	fail("no initialiser for %s", obj.Name())
	return nil
}

func (in *interp) expr(e ast.Expr, fr *frame) value {
	info := in.pk.TypesInfo
	if tv, ok := info.Types[e]; ok {
		if tv.IsNil() {
			return nilVal{}
		}
		if tv.Value != nil {
			switch tv.Value.Kind() {
			case constant.Bool:
				return constant.BoolVal(tv.Value)
			case constant.Int:
				if b, ok := tv.Type.Underlying().(*types.Basic); ok && b.Info()&types.IsUnsigned != 0 {
					u, _ := constant.Uint64Val(tv.Value)
					return atom{u}
				}
				i, _ := constant.Int64Val(tv.Value)
				return i
			}
		}
	}
	switch e := e.(type) {
	case *ast.ParenExpr:
		return in.expr(e.X, fr)
	case *ast.Ident:
		obj := info.Uses[e]
		if v, ok := fr.vars[obj]; ok {
			return v
		}
		if obj != nil && obj.Parent() == in.pk.Types.Scope() {
			return in.global(obj)
		}
		fail("unknown identifier %s", e.Name)
	case *ast.SelectorExpr:
		x := in.expr(e.X, fr)
		sv, ok := x.(*structVal)
		if !ok {
			fail("selector on non-struct (possibly nil) value: %s", types.ExprString(e))
		}
		v, ok := sv.f[e.Sel.Name]
		if !ok {
			fail("unknown field %s", e.Sel.Name)
		}
		return v
	case *ast.UnaryExpr:
		switch e.Op {
		case token.NOT:
			b, ok := in.expr(e.X, fr).(bool)
			if !ok {
				fail("! on non-bool")
			}
			return !b
		case token.SUB:
			i, ok := in.expr(e.X, fr).(int64)
			if !ok {
				fail("arithmetic on a comparison-only value")
			}
			return -i
		case token.AND:
			if cl, ok := e.X.(*ast.CompositeLit); ok {
				return in.composite(cl, fr)
			}
		}
		fail("unsupported unary %s", e.Op)
	case *ast.BinaryExpr:
		if e.Op == token.LAND || e.Op == token.LOR {
			l, ok := in.expr(e.X, fr).(bool)
			if !ok {
				fail("&&/|| on non-bool")
			}
			if (e.Op == token.LAND && !l) || (e.Op == token.LOR && l) {
				return l
			}
			r, ok := in.expr(e.Y, fr).(bool)
			if !ok {
				fail("&&/|| on non-bool")
			}
			return r
		}
		l, r := in.expr(e.X, fr), in.expr(e.Y, fr)
		switch lv := l.(type) {
		case atom:
			rv, ok := r.(atom)
			if !ok {
				fail("comparison of unlike values")
			}
			switch e.Op {
			case token.LSS:
				return lv.v < rv.v
			case token.LEQ:
				return lv.v <= rv.v
			case token.GTR:
				return lv.v > rv.v
			case token.GEQ:
				return lv.v >= rv.v
			case token.EQL:
				return lv.v == rv.v
			case token.NEQ:
				return lv.v != rv.v
			}
			fail("arithmetic (%s) on a comparison-only value", e.Op)
		case int64:
			rv, ok := r.(int64)
			if !ok {
				fail("comparison of unlike values")
			}
			switch e.Op {
			case token.LSS:
				return lv < rv
			case token.LEQ:
				return lv <= rv
			case token.GTR:
				return lv > rv
			case token.GEQ:
				return lv >= rv
			case token.EQL:
				return lv == rv
			case token.NEQ:
				return lv != rv
			case token.ADD:
				return lv + rv
			case token.SUB:
				return lv - rv
			case token.MUL:
				return lv * rv
			}
		case bool:
			rv, ok := r.(bool)
			if ok && e.Op == token.EQL {
				return lv == rv
			}
			if ok && e.Op == token.NEQ {
				return lv != rv
			}
		case nilVal, globalRef:
			if e.Op == token.EQL {
				return l == r
			}
			if e.Op == token.NEQ {
				return l != r
			}
		}
		fail("unsupported binary expression %s", types.ExprString(e))
	case *ast.CallExpr:
		var callee types.Object
		var recv value
		switch f := e.Fun.(type) {
		case *ast.Ident:
			callee = info.Uses[f]
		case *ast.SelectorExpr:
			callee = info.Uses[f.Sel]
			if sel := info.Selections[f]; sel != nil && sel.Kind() == types.MethodVal {
				recv = in.expr(f.X, fr)
			}
		}
		fd := in.decls[callee]
		if fd == nil {
			fail("call of %s, which is not a function of the analysed package", types.ExprString(e.Fun))
		}
		var args []value
		for _, a := range e.Args {
			args = append(args, in.expr(a, fr))
		}
		res := in.call(fd, recv, args)
		if len(res) != 1 {
			fail("call used as value does not return one result")
		}
		return res[0]
	case *ast.CompositeLit:
		return in.composite(e, fr)
	}
	fail("unsupported expression %T", e)
	return nil
}

func (in *interp) composite(cl *ast.CompositeLit, fr *frame) value {
	tv := in.pk.TypesInfo.Types[cl]
	st, ok := tv.Type.Underlying().(*types.Struct)
	if !ok {
		fail("composite literal of non-struct")
	}
	sv := &structVal{f: map[string]value{}}
	for i := 0; i < st.NumFields(); i++ {
		f := st.Field(i)
		if b, ok := f.Type().Underlying().(*types.Basic); ok && b.Info()&types.IsUnsigned != 0 {
			sv.f[f.Name()] = atom{0}
		} else {
			fail("struct field %s is not an unsigned integer", f.Name())
		}
	}
	for _, el := range cl.Elts {
		kv, ok := el.(*ast.KeyValueExpr)
		if !ok {
			fail("positional composite literal")
		}
		sv.f[kv.Key.(*ast.Ident).Name] = in.expr(kv.Value, fr)
	}
	return sv
}
