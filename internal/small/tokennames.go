package small

import (
	"fmt"
	"go/ast"
	"go/constant"
	"go/token"
	"go/types"
	"sort"

	"verif/internal/load"
	"verif/internal/report"
)

// TokenNames decides that the name table behind token.ID.String (the
// stringer-generated _ID_name / _ID_index pair the dumper prints token ids
// with) agrees with the constants: for every constant C of type ID the text
// _ID_name[_ID_index[C-base]:_ID_index[C-base+1]] is the identifier "C", and
// String has the table-lookup shape. The writer (String) and the reader (Go
// source that must name the same constant) agree exactly when this holds.
func TokenNames(p *load.Program, rel, typeName string) *report.RuleResult {
	res := report.NewResult("token-names")
	pk := p.Pkg(rel)
	if pk == nil {
		res.Unknown("pkg", rel, "", "undecided:anchor: package "+rel+" not found")
		return res
	}
	info := pk.TypesInfo
	tn, _ := pk.Types.Scope().Lookup(typeName).(*types.TypeName)
	if tn == nil {
		res.Unknown("type", rel, "", "undecided:anchor: type "+typeName+" not found")
		return res
	}
	// the constants of the type
	consts := map[string]int64{}
	for _, name := range pk.Types.Scope().Names() {
		if c, ok := pk.Types.Scope().Lookup(name).(*types.Const); ok && types.Identical(c.Type(), tn.Type()) {
			if v, ok := constant.Int64Val(c.Val()); ok {
				consts[name] = v
			}
		}
	}
	// String method
	var str *ast.FuncDecl
	for _, fd := range load.FuncDecls(pk) {
		if fd.Name.Name == "String" && fd.Recv != nil && len(fd.Recv.List) == 1 {
			if t := info.TypeOf(fd.Recv.List[0].Type); t != nil && types.Identical(t, tn.Type()) {
				str = fd
			}
		}
	}
	if str == nil || len(str.Recv.List[0].Names) != 1 {
		res.Unknown("String", rel, "", "undecided:anchor: method String of "+typeName+" not found")
		return res
	}
	pos := p.Pos(str.Pos())
	recv := info.Defs[str.Recv.List[0].Names[0]]
	// shape: [recv -= base]; [if … { return fallback }]; return NAME[INDEX[recv]:INDEX[recv+1]]
	base := int64(0)
	var last *ast.ReturnStmt
	shapeOK := true
	for i, st := range str.Body.List {
		switch x := st.(type) {
		case *ast.AssignStmt:
			id, _ := x.Lhs[0].(*ast.Ident)
			tv := info.Types[x.Rhs[0]]
			if len(x.Lhs) == 1 && id != nil && info.Uses[id] == recv && x.Tok == token.SUB_ASSIGN && tv.Value != nil {
				v, _ := constant.Int64Val(constant.ToInt(tv.Value))
				base += v
			} else {
				shapeOK = false
			}
		case *ast.IfStmt:
			// the out-of-range fallback: must return, and must not be the last statement
			if i == len(str.Body.List)-1 {
				shapeOK = false
			}
		case *ast.ReturnStmt:
			if i == len(str.Body.List)-1 {
				last = x
			} else {
				shapeOK = false
			}
		default:
			shapeOK = false
		}
	}
	var nameObj, indexObj types.Object
	if last != nil && len(last.Results) == 1 {
		if se, ok := last.Results[0].(*ast.SliceExpr); ok && se.Low != nil && se.High != nil && se.Max == nil {
			if id, ok := se.X.(*ast.Ident); ok {
				nameObj = info.Uses[id]
			}
			lo, ok1 := se.Low.(*ast.IndexExpr)
			hi, ok2 := se.High.(*ast.IndexExpr)
			if ok1 && ok2 {
				li, _ := lo.X.(*ast.Ident)
				hi2, _ := hi.X.(*ast.Ident)
				lidx, _ := lo.Index.(*ast.Ident)
				if li != nil && hi2 != nil && info.Uses[li] == info.Uses[hi2] && lidx != nil && info.Uses[lidx] == recv {
					if be, ok := hi.Index.(*ast.BinaryExpr); ok && be.Op == token.ADD {
						if bi, ok := be.X.(*ast.Ident); ok && info.Uses[bi] == recv {
							if tv := info.Types[be.Y]; tv.Value != nil && tv.Value.String() == "1" {
								indexObj = info.Uses[li]
							}
						}
					}
				}
			}
		}
	}
	if !shapeOK || nameObj == nil || indexObj == nil {
		res.Unknown("String/shape", pos, "String", "undecided:idiom: "+typeName+".String is not the table lookup `i -= base; if out of range {…}; return NAME[INDEX[i]:INDEX[i+1]]`")
		return res
	}
	nameC, _ := nameObj.(*types.Const)
	if nameC == nil || nameC.Val().Kind() != constant.String {
		res.Unknown("String/name-table", pos, "String", "undecided:idiom: the name table is not a string constant")
		return res
	}
	names := constant.StringVal(nameC.Val())
	// the index table: a package-level var with a composite literal of constants
	var index []int64
	for _, f := range pk.Syntax {
		for _, d := range f.Decls {
			gd, ok := d.(*ast.GenDecl)
			if !ok {
				continue
			}
			for _, sp := range gd.Specs {
				vs, ok := sp.(*ast.ValueSpec)
				if !ok {
					continue
				}
				for i, nm := range vs.Names {
					if info.Defs[nm] != indexObj || i >= len(vs.Values) {
						continue
					}
					if cl, ok := vs.Values[i].(*ast.CompositeLit); ok {
						for _, el := range cl.Elts {
							tv := info.Types[el]
							if tv.Value == nil {
								index = nil
								break
							}
							v, _ := constant.Int64Val(constant.ToInt(tv.Value))
							index = append(index, v)
						}
					}
				}
			}
		}
	}
	if len(index) < 2 {
		res.Unknown("String/index-table", pos, "String", "undecided:idiom: the index table is not a composite literal of constants")
		return res
	}
	// writers of the index table (it is a var): none
	for _, f := range pk.Syntax {
		ast.Inspect(f, func(n ast.Node) bool {
			switch x := n.(type) {
			case *ast.AssignStmt:
				for _, l := range x.Lhs {
					root := l
					for {
						if ix, ok := root.(*ast.IndexExpr); ok {
							root = ix.X
							continue
						}
						break
					}
					if id, ok := root.(*ast.Ident); ok && info.Uses[id] == indexObj {
						res.Bad("String/index-table/written", p.Pos(x.Pos()), "", "the index table of "+typeName+".String is assigned at run time")
					}
				}
			}
			return true
		})
	}
	var cn []string
	for n := range consts {
		cn = append(cn, n)
	}
	sort.Strings(cn)
	covered := map[int64]bool{}
	for _, n := range cn {
		res.Count("constants", 1)
		k := consts[n] - base
		if k < 0 || k+1 >= int64(len(index)) {
			res.Bad(n, pos, "String", fmt.Sprintf("constant %s (%d) lies outside the name table: String prints it as a number, not as the identifier", n, consts[n]))
			continue
		}
		lo, hi := index[k], index[k+1]
		if lo < 0 || hi < lo || hi > int64(len(names)) {
			res.Bad(n, pos, "String", fmt.Sprintf("index table entry %d for %s is out of range of the name table", k, n))
			continue
		}
		covered[k] = true
		got := names[lo:hi]
		res.Check(got == n, n, pos, "String", "String() = "+n, fmt.Sprintf("String() of %s yields %q: the dump names another constant (or no constant) for this token id", n, got))
	}
	for k := int64(0); k+1 < int64(len(index)); k++ {
		if !covered[k] {
			res.Bad(fmt.Sprintf("slot%d", k), pos, "String", fmt.Sprintf("name table entry %d (%q) belongs to no constant of type %s", k, names[index[k]:index[k+1]], typeName))
		}
	}
	return res
}
