package small

import (
	"fmt"
	"go/ast"
	"go/token"
	"go/types"
	"strings"

	"verif/internal/norm"
	"verif/internal/paths"
	"verif/internal/report"
)

// ---- the free-tail form of a pool -----------------------------------------------------------------------
//
// A pool can keep, instead of a block and an offset into it, the part of the current block that has not been
// handed out yet:
//
//	type Pool struct { free []T; size int }
//	func (p *Pool) Get() *T {
//	    if len(p.free) == 0 { p.free = make([]T, p.size) }
//	    v := &p.free[0]; p.free = p.free[1:]; return v
//	}
//
// Distinctness is then: the element returned is the first of a non-empty free list, the list is advanced past
// it exactly once before the return and never moved back, and a refill is a fresh allocation of `size` (> 0)
// elements. The rule decides this on every path of Get (helpers inlined, canonical shape), for the
// constructor, and for who touches the two fields.

// isFreeTail: Get reslices the slice field from index 1.
func (pa *poolAnalyser) isFreeTail(get *ast.FuncDecl) bool {
	if get.Recv == nil || len(get.Recv.List) != 1 || len(get.Recv.List[0].Names) != 1 {
		return false
	}
	pa.recv = pa.pk.TypesInfo.Defs[get.Recv.List[0].Names[0]]
	found := false
	ast.Inspect(get.Body, func(n ast.Node) bool {
		if as, ok := n.(*ast.AssignStmt); ok && len(as.Lhs) == 1 && len(as.Rhs) == 1 {
			if f, ok := pa.recvField(as.Lhs[0]); ok && f == pa.blockF {
				if se, ok := unparen(as.Rhs[0]).(*ast.SliceExpr); ok && se.Low != nil && se.High == nil {
					if g, ok := pa.recvField(se.X); ok && g == pa.blockF {
						found = true
					}
				}
			}
		}
		return true
	})
	return found
}

func (pa *poolAnalyser) checkFreeTail(res *report.RuleResult, key string, ctor, get *ast.FuncDecl) {
	info := pa.pk.TypesInfo
	// ---- constructor: size is the parameter (or the length of a block made from it), free is nil or that block
	ctorOK, ctorWhy := false, "the constructor is not `&Pool{free: make([]T, n), size: n}` with n its parameter"
	var param types.Object
	if ctor.Type.Params.NumFields() == 1 && len(ctor.Type.Params.List[0].Names) == 1 {
		param = info.Defs[ctor.Type.Params.List[0].Names[0]]
	}
	isParam := func(e ast.Expr) bool {
		id, ok := unparen(e).(*ast.Ident)
		return ok && param != nil && info.Uses[id] == param
	}
	locals := map[types.Object]ast.Expr{} // local := make([]T, param)
	isMakeN := func(e ast.Expr) bool {
		c, ok := unparen(e).(*ast.CallExpr)
		if !ok || len(c.Args) != 2 {
			return false
		}
		id, ok := c.Fun.(*ast.Ident)
		if !ok || id.Name != "make" {
			return false
		}
		if sl, ok := info.TypeOf(c).Underlying().(*types.Slice); !ok || !types.Identical(sl.Elem(), pa.elem) {
			return false
		}
		return isParam(c.Args[1])
	}
	var lit *ast.CompositeLit
	simple := true
	for _, st := range ctor.Body.List {
		switch x := st.(type) {
		case *ast.AssignStmt:
			if x.Tok == token.DEFINE && len(x.Lhs) == 1 && len(x.Rhs) == 1 && isMakeN(x.Rhs[0]) {
				if id, ok := x.Lhs[0].(*ast.Ident); ok {
					locals[info.Defs[id]] = x.Rhs[0]
					continue
				}
			}
			simple = false
		case *ast.ReturnStmt:
			if len(x.Results) == 1 {
				if u, ok := unparen(x.Results[0]).(*ast.UnaryExpr); ok && u.Op == token.AND {
					lit, _ = unparen(u.X).(*ast.CompositeLit)
				}
			}
		default:
			simple = false
		}
	}
	if simple && lit != nil {
		sizeOK, freeOK := false, true
		for _, el := range lit.Elts {
			kv, ok := el.(*ast.KeyValueExpr)
			if !ok {
				freeOK = false
				continue
			}
			k, _ := kv.Key.(*ast.Ident)
			if k == nil {
				continue
			}
			switch k.Name {
			case pa.offF:
				if isParam(kv.Value) {
					sizeOK = true
				} else if c, ok := unparen(kv.Value).(*ast.CallExpr); ok && len(c.Args) == 1 {
					if id, ok := c.Fun.(*ast.Ident); ok && id.Name == "len" {
						if a, ok := unparen(c.Args[0]).(*ast.Ident); ok && locals[info.Uses[a]] != nil {
							sizeOK = true
						}
					}
				}
			case pa.blockF:
				if isMakeN(kv.Value) {
					break
				}
				if a, ok := unparen(kv.Value).(*ast.Ident); ok && locals[info.Uses[a]] != nil {
					break
				}
				freeOK = false
			}
		}
		switch {
		case !sizeOK:
			ctorWhy = "the size field is not set to the block size the constructor is given"
		case !freeOK:
			ctorWhy = "the free list does not start as a fresh block of that size (or empty)"
		default:
			ctorOK = true
		}
	}
	res.Check(ctorOK, key+"/ctor", pa.prog.Pos(ctor.Pos()), ctor.Name.Name, "free-tail form: size is the block size given, the free list starts as a fresh block of that size", ctorWhy)

	// ---- Get
	nz := norm.New(pa.pk, norm.Options{})
	body := nz.Body(get)
	pa.ninfo = nz.Info
	defer func() { pa.ninfo = nil }()
	ps, err := paths.Enumerate(body)
	if err != nil {
		res.Unknown(key+"/get", pa.prog.Pos(get.Pos()), "Pool.Get", "undecided:idiom: "+err.Error())
		return
	}
	res.Count("get-paths", len(ps))
	isLenFree := func(e ast.Expr) bool {
		c, ok := unparen(e).(*ast.CallExpr)
		if !ok || len(c.Args) != 1 {
			return false
		}
		id, ok := c.Fun.(*ast.Ident)
		if !ok || id.Name != "len" {
			return false
		}
		f, ok := pa.recvField(c.Args[0])
		return ok && f == pa.blockF
	}
	isZero := func(e ast.Expr) bool {
		l, ok := unparen(e).(*ast.BasicLit)
		return ok && l.Value == "0"
	}
	isOne := func(e ast.Expr) bool {
		l, ok := unparen(e).(*ast.BasicLit)
		return ok && l.Value == "1"
	}
	isFirstAddr := func(e ast.Expr) bool {
		u, ok := unparen(e).(*ast.UnaryExpr)
		if !ok || u.Op != token.AND {
			return false
		}
		ix, ok := unparen(u.X).(*ast.IndexExpr)
		if !ok || !isZero(ix.Index) {
			return false
		}
		f, ok := pa.recvField(ix.X)
		return ok && f == pa.blockF
	}
	for pi, path := range ps {
		pkey := fmt.Sprintf("%s/get/path%d", key, pi)
		pos := pa.prog.Pos(get.Pos())
		nonEmpty, unreachable := false, false
		var taken types.Object
		advanced := 0
		why := ""
		var desc []string
		for _, it := range path {
			if why != "" || unreachable {
				break
			}
			switch {
			case it.Cond != nil:
				be, ok := unparen(it.Cond).(*ast.BinaryExpr)
				if !ok {
					why = "condition " + types.ExprString(it.Cond) + " is outside the idiom"
					break
				}
				desc = append(desc, fmt.Sprintf("[%s]=%v", types.ExprString(it.Cond), it.Truth))
				switch {
				case isLenFree(be.X) && isZero(be.Y) && (be.Op == token.EQL || be.Op == token.NEQ || be.Op == token.GTR):
					empty := (be.Op == token.EQL) == it.Truth
					nonEmpty = !empty
				case isLenFree(be.X) && isOne(be.Y) && (be.Op == token.LSS || be.Op == token.GEQ):
					empty := (be.Op == token.LSS) == it.Truth
					nonEmpty = !empty
				default:
					if f, ok := pa.recvField(be.X); ok && f == pa.offF && isZero(be.Y) && (be.Op == token.EQL || be.Op == token.LEQ || be.Op == token.NEQ || be.Op == token.GTR) {
						zero := (be.Op == token.EQL || be.Op == token.LEQ) == it.Truth
						if zero {
							unreachable = true // the block size is positive (constructor call sites)
						}
						break
					}
					why = "condition " + types.ExprString(it.Cond) + " is outside the idiom"
				}
			case it.Return != nil:
				x := it.Return
				func() {
					if len(x.Results) != 1 {
						why = "return shape"
						return
					}
					r := unparen(x.Results[0])
					if id, ok := r.(*ast.Ident); ok && id.Name == "nil" {
						why = "Get can return nil for a positive block size"
						return
					}
					if id, ok := r.(*ast.Ident); ok && taken != nil && pa.info().Uses[id] == taken {
						if advanced != 1 {
							why = fmt.Sprintf("the element is returned after the free list was advanced %d times (want exactly once): the next call can return it again", advanced)
						}
						return
					}
					why = "what is returned is not the element taken from the head of the free list"
				}()
			case it.Stmt != nil:
				switch x := it.Stmt.(type) {
				case *ast.AssignStmt:
					if len(x.Lhs) != 1 || len(x.Rhs) != 1 {
						why = "statement outside the idiom"
						break
					}
					if f, ok := pa.recvField(x.Lhs[0]); ok {
						if f != pa.blockF {
							why = "the size field is assigned in Get"
							break
						}
						rhs := unparen(x.Rhs[0])
						if c, ok := rhs.(*ast.CallExpr); ok {
							// refill: make([]T, p.size)
							id, _ := c.Fun.(*ast.Ident)
							if id != nil && id.Name == "make" && len(c.Args) == 2 {
								if g, ok := pa.recvField(c.Args[1]); ok && g == pa.offF {
									if taken != nil {
										why = "the free list is refilled after an element was taken"
										break
									}
									nonEmpty = true
									break
								}
							}
							why = "the free list is replaced by something other than a fresh block of `size` elements"
							break
						}
						if se, ok := rhs.(*ast.SliceExpr); ok && se.High == nil && se.Max == nil && se.Low != nil && isOne(se.Low) {
							if g, ok := pa.recvField(se.X); ok && g == pa.blockF {
								if !nonEmpty {
									why = "the free list is advanced without knowing that it is non-empty"
									break
								}
								advanced++
								nonEmpty = false
								break
							}
						}
						why = "the free list is assigned " + types.ExprString(x.Rhs[0]) + ": only a refill or an advance by one keeps handed-out elements out of it"
						break
					}
					if id, ok := x.Lhs[0].(*ast.Ident); ok && isFirstAddr(x.Rhs[0]) {
						if !nonEmpty {
							why = "the first element of the free list is taken without knowing that the list is non-empty"
							break
						}
						if advanced > 0 {
							why = "an element is taken after the list was advanced"
							break
						}
						o := pa.info().Defs[id]
						if o == nil {
							o = pa.info().Uses[id]
						}
						taken = o
						break
					}
					why = "statement " + strings.TrimSpace(types.ExprString(x.Lhs[0])) + " = … is outside the idiom"
				case *ast.DeclStmt, *ast.EmptyStmt:
				default:
					why = fmt.Sprintf("statement %T is outside the idiom", it.Stmt)
				}
			}
		}
		label := strings.Join(desc, " ")
		switch {
		case unreachable:
			res.OK(pkey, pos, "Pool.Get", "unreachable for a positive block size "+label)
		case why == "":
			res.OK(pkey, pos, "Pool.Get", "returns the head of a non-empty free list and advances past it exactly once "+label)
		case strings.Contains(why, "outside the idiom"):
			res.Unknown(pkey, pos, "Pool.Get", "undecided:idiom: "+why+" on path "+label)
		default:
			res.Bad(pkey, pos, "Pool.Get", why+" on path "+label)
		}
	}
}
