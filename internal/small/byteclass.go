package small

import (
	"fmt"
	"go/ast"
	"go/constant"
	"go/token"
	"go/types"
	"unicode"

	"golang.org/x/tools/go/packages"
	"golang.org/x/tools/go/types/typeutil"

	"verif/internal/load"
	"verif/internal/ceval"
	"verif/internal/report"
)

// evalBytePred evaluates a pure `func(r byte) bool` for byte b. The fragment:
// returns, if/else, switch (tagless, or on an integer expression), comparisons
// of integer expressions over the parameter and constants (+ - | & ^,
// conversions), && || !, calls of other predicates of the same package with the
// same shape, and the unicode.Is… predicates on rune(parameter).
func evalBytePred(pk *packages.Package, fd *ast.FuncDecl, b byte) (bool, error) {
	return evalPred(pk, fd, int64(b), 0)
}

func evalPred(pk *packages.Package, fd *ast.FuncDecl, arg int64, depth int) (bool, error) {
	if depth > 4 {
		return false, fmt.Errorf("predicates call each other too deeply")
	}
	if fd.Type.Params.NumFields() != 1 || len(fd.Type.Params.List[0].Names) != 1 || fd.Body == nil {
		return false, fmt.Errorf("not a single-parameter function")
	}
	info := pk.TypesInfo
	param := info.Defs[fd.Type.Params.List[0].Names[0]]
	var num func(e ast.Expr) (int64, error)
	var cond func(e ast.Expr) (bool, error)
	mask := func(e ast.Expr, v int64) int64 {
		if tv, ok := info.Types[e]; ok && tv.Type != nil {
			if bt, ok := tv.Type.Underlying().(*types.Basic); ok {
				switch bt.Kind() {
				case types.Uint8:
					return v & 0xff
				case types.Uint16:
					return v & 0xffff
				case types.Int8:
					return int64(int8(v))
				}
			}
		}
		return v
	}
	num = func(e ast.Expr) (int64, error) {
		if p, ok := e.(*ast.ParenExpr); ok {
			return num(p.X)
		}
		if tv := info.Types[e]; tv.Value != nil {
			if v, ok := constant.Int64Val(constant.ToInt(tv.Value)); ok {
				return v, nil
			}
		}
		switch x := e.(type) {
		case *ast.Ident:
			if info.Uses[x] == param {
				return arg, nil
			}
		case *ast.CallExpr:
			if tv, ok := info.Types[x.Fun]; ok && tv.IsType() && len(x.Args) == 1 {
				v, err := num(x.Args[0])
				return mask(x, v), err
			}
		case *ast.BinaryExpr:
			l, err := num(x.X)
			if err != nil {
				return 0, err
			}
			r, err := num(x.Y)
			if err != nil {
				return 0, err
			}
			switch x.Op {
			case token.ADD:
				return mask(x, l+r), nil
			case token.SUB:
				return mask(x, l-r), nil
			case token.OR:
				return mask(x, l|r), nil
			case token.AND:
				return mask(x, l&r), nil
			case token.XOR:
				return mask(x, l^r), nil
			case token.AND_NOT:
				return mask(x, l&^r), nil
			}
		}
		return 0, fmt.Errorf("operand %s is neither the parameter nor a constant", types.ExprString(e))
	}
	cond = func(e ast.Expr) (bool, error) {
		if tv := info.Types[e]; tv.Value != nil && tv.Value.Kind() == constant.Bool {
			return constant.BoolVal(tv.Value), nil
		}
		switch x := e.(type) {
		case *ast.ParenExpr:
			return cond(x.X)
		case *ast.UnaryExpr:
			if x.Op == token.NOT {
				v, err := cond(x.X)
				return !v, err
			}
		case *ast.CallExpr:
			if len(x.Args) != 1 {
				break
			}
			a, err := num(x.Args[0])
			if err != nil {
				return false, err
			}
			fn, _ := typeutil.Callee(info, x).(*types.Func)
			if fn == nil {
				break
			}
			if fn.Pkg() != nil && fn.Pkg().Path() == "unicode" {
				switch fn.Name() {
				case "IsLetter":
					return unicode.IsLetter(rune(a)), nil
				case "IsDigit":
					return unicode.IsDigit(rune(a)), nil
				case "IsNumber":
					return unicode.IsNumber(rune(a)), nil
				case "IsUpper":
					return unicode.IsUpper(rune(a)), nil
				case "IsLower":
					return unicode.IsLower(rune(a)), nil
				case "IsSpace":
					return unicode.IsSpace(rune(a)), nil
				case "IsPunct":
					return unicode.IsPunct(rune(a)), nil
				}
			}
			if fn.Pkg() == pk.Types {
				for _, d := range load.FuncDecls(pk) {
					if info.Defs[d.Name] == fn {
						return evalPred(pk, d, a, depth+1)
					}
				}
			}
		case *ast.BinaryExpr:
			switch x.Op {
			case token.LAND, token.LOR:
				l, err := cond(x.X)
				if err != nil {
					return false, err
				}
				if x.Op == token.LAND && !l {
					return false, nil
				}
				if x.Op == token.LOR && l {
					return true, nil
				}
				return cond(x.Y)
			case token.LSS, token.LEQ, token.GTR, token.GEQ, token.EQL, token.NEQ:
				if tv, ok := info.Types[x.X]; ok && tv.Type != nil {
					if bt, ok := tv.Type.Underlying().(*types.Basic); ok && bt.Info()&types.IsBoolean != 0 {
						l, err := cond(x.X)
						if err != nil {
							return false, err
						}
						r, err := cond(x.Y)
						if err != nil {
							return false, err
						}
						if x.Op == token.EQL {
							return l == r, nil
						}
						if x.Op == token.NEQ {
							return l != r, nil
						}
					}
				}
				l, err := num(x.X)
				if err != nil {
					return false, err
				}
				r, err := num(x.Y)
				if err != nil {
					return false, err
				}
				switch x.Op {
				case token.LSS:
					return l < r, nil
				case token.LEQ:
					return l <= r, nil
				case token.GTR:
					return l > r, nil
				case token.GEQ:
					return l >= r, nil
				case token.EQL:
					return l == r, nil
				default:
					return l != r, nil
				}
			}
		}
		return false, fmt.Errorf("expression %s is outside the fragment (comparisons of the parameter with constants, && || !, predicates)", types.ExprString(e))
	}
	// exec: (value, returned, error)
	var exec func(list []ast.Stmt) (bool, bool, error)
	exec = func(list []ast.Stmt) (bool, bool, error) {
		for _, s := range list {
			switch x := s.(type) {
			case *ast.ReturnStmt:
				if len(x.Results) != 1 {
					return false, false, fmt.Errorf("return without a single value")
				}
				v, err := cond(x.Results[0])
				return v, true, err
			case *ast.BlockStmt:
				if v, r, err := exec(x.List); r || err != nil {
					return v, r, err
				}
			case *ast.IfStmt:
				if x.Init != nil {
					return false, false, fmt.Errorf("if with an init statement")
				}
				c, err := cond(x.Cond)
				if err != nil {
					return false, false, err
				}
				if c {
					if v, r, err := exec(x.Body.List); r || err != nil {
						return v, r, err
					}
				} else if x.Else != nil {
					if v, r, err := exec([]ast.Stmt{x.Else}); r || err != nil {
						return v, r, err
					}
				}
			case *ast.SwitchStmt:
				if x.Init != nil {
					return false, false, fmt.Errorf("switch with an init statement")
				}
				var tag int64
				var tagBool, isBool bool
				if x.Tag != nil {
					if tv, ok := info.Types[x.Tag]; ok && tv.Type != nil {
						if bt, ok := tv.Type.Underlying().(*types.Basic); ok && bt.Info()&types.IsBoolean != 0 {
							isBool = true
						}
					}
					var err error
					if isBool {
						tagBool, err = cond(x.Tag)
					} else {
						tag, err = num(x.Tag)
					}
					if err != nil {
						return false, false, err
					}
				}
				var chosen, def *ast.CaseClause
				for _, c := range x.Body.List {
					cc := c.(*ast.CaseClause)
					if cc.List == nil {
						def = cc
						continue
					}
					if chosen != nil {
						continue
					}
					for _, ce := range cc.List {
						var hit bool
						var err error
						switch {
						case x.Tag == nil:
							hit, err = cond(ce)
						case isBool:
							var v bool
							v, err = cond(ce)
							hit = v == tagBool
						default:
							var v int64
							v, err = num(ce)
							hit = v == tag
						}
						if err != nil {
							return false, false, err
						}
						if hit {
							chosen = cc
							break
						}
					}
				}
				if chosen == nil {
					chosen = def
				}
				if chosen != nil {
					for _, st := range chosen.Body {
						if bs, ok := st.(*ast.BranchStmt); ok {
							return false, false, fmt.Errorf("%s in a switch", bs.Tok)
						}
					}
					if v, r, err := exec(chosen.Body); r || err != nil {
						return v, r, err
					}
				}
			default:
				return false, false, fmt.Errorf("statement %T is outside the fragment", s)
			}
		}
		return false, false, nil
	}
	v, returned, err := exec(fd.Body.List)
	if err != nil {
		return false, err
	}
	if !returned {
		return false, fmt.Errorf("a path through the body does not return")
	}
	return v, nil
}

// PHP's label characters: [A-Za-z_\x80-\xff][A-Za-z0-9_\x80-\xff]*
func oracleLabel(b byte, start bool) bool {
	if (b >= 'A' && b <= 'Z') || (b >= 'a' && b <= 'z') || b == '_' || b >= 0x80 {
		return true
	}
	return !start && b >= '0' && b <= '9'
}

type bytePredRef struct {
	Rel, Name string
	Start     bool
}

// ByteClasses decides rule byte-class: the byte predicates that stand for
// "label character" in the scanner and in the printer agree with PHP's
// definition on all 256 bytes (and hence with each other).
func ByteClasses(p *load.Program, refs ...bytePredRef) *report.RuleResult {
	res := report.NewResult("byte-class")
	for _, ref := range refs {
		key := ref.Rel + "." + ref.Name
		pk := p.Pkg(ref.Rel)
		var fd *ast.FuncDecl
		if pk != nil {
			for _, d := range load.FuncDecls(pk) {
				if d.Name.Name == ref.Name && d.Recv == nil {
					fd = d
				}
			}
		}
		if fd == nil {
			res.Unknown(key, ref.Rel, ref.Name, "undecided:anchor: function not found")
			continue
		}
		res.Count("predicates", 1)
		var diff []string
		undec := ""
		var cev *ceval.Interp
		for b := 0; b < 256; b++ {
			got, err := evalBytePred(pk, fd, byte(b))
			if err != nil {
				// the fragment knows comparison chains; anything else (lookup tables built at start-up, bit classes) is
				// evaluated from source by the general evaluator
				if cev == nil {
					cev = ceval.New(pk)
					cev.Budget = 200000
				}
				out, st, why := cev.Call(fd, nil, []interface{}{int64(b)})
				if v, ok := func() (bool, bool) {
					if st != ceval.OK || len(out) != 1 {
						return false, false
					}
					v, ok := out[0].(bool)
					return v, ok
				}(); ok {
					got, err = v, nil
				} else if st == ceval.Panic {
					err = fmt.Errorf("panics on byte 0x%02x: %s", b, why)
				} else if why != "" {
					err = fmt.Errorf("%v; general evaluator: %s", err, why)
				}
			}
			if err != nil {
				undec = err.Error()
				break
			}
			res.Count("evaluations", 1)
			if got != oracleLabel(byte(b), ref.Start) {
				diff = append(diff, fmt.Sprintf("0x%02x", b))
			}
		}
		switch {
		case undec != "":
			res.Unknown(key, p.Pos(fd.Pos()), ref.Name, "undecided:idiom: "+undec)
		case len(diff) > 0:
			if len(diff) > 8 {
				diff = append(diff[:8], fmt.Sprintf("… %d more", len(diff)-8))
			}
			res.Bad(key, p.Pos(fd.Pos()), ref.Name, fmt.Sprintf("differs from PHP's label characters on bytes %v: the printer's separating space / the scanner's variable detection change for identifiers containing them", diff))
		default:
			res.OK(key, p.Pos(fd.Pos()), ref.Name, "equals PHP's label character class on all 256 bytes")
		}
	}
	return res
}

// LabelPredicates: the predicates of the real tree.
func LabelPredicates() []bytePredRef {
	return []bytePredRef{
		{"pkg/visitor/printer", "isValidVarName", false},
		{"internal/scanner", "isValidVarName", false},
		{"internal/scanner", "isValidVarNameStart", true},
	}
}

func LabelPredicate(rel, name string, start bool) bytePredRef { return bytePredRef{rel, name, start} }
