package small

import (
	"fmt"
	"go/ast"
	"go/constant"
	"go/token"
	"go/types"

	"golang.org/x/tools/go/packages"

	"verif/internal/load"
	"verif/internal/report"
)

// evalBytePred evaluates a pure `func(r byte) bool` whose body is a single
// return of comparisons combined with && || ! for byte b.
func evalBytePred(pk *packages.Package, fd *ast.FuncDecl, b byte) (bool, error) {
	if fd.Type.Params.NumFields() != 1 || len(fd.Body.List) != 1 {
		return false, fmt.Errorf("not a single-parameter, single-statement function")
	}
	ret, ok := fd.Body.List[0].(*ast.ReturnStmt)
	if !ok || len(ret.Results) != 1 {
		return false, fmt.Errorf("body is not a single return")
	}
	param := pk.TypesInfo.Defs[fd.Type.Params.List[0].Names[0]]
	var num func(e ast.Expr) (int64, error)
	num = func(e ast.Expr) (int64, error) {
		if p, ok := e.(*ast.ParenExpr); ok {
			return num(p.X)
		}
		if tv := pk.TypesInfo.Types[e]; tv.Value != nil {
			if v, ok := constant.Int64Val(constant.ToInt(tv.Value)); ok {
				return v, nil
			}
		}
		if id, ok := e.(*ast.Ident); ok && pk.TypesInfo.Uses[id] == param {
			return int64(b), nil
		}
		return 0, fmt.Errorf("operand %s is neither the parameter nor a constant", types.ExprString(e))
	}
	var cond func(e ast.Expr) (bool, error)
	cond = func(e ast.Expr) (bool, error) {
		switch x := e.(type) {
		case *ast.ParenExpr:
			return cond(x.X)
		case *ast.UnaryExpr:
			if x.Op == token.NOT {
				v, err := cond(x.X)
				return !v, err
			}
		case *ast.BinaryExpr:
			switch x.Op {
			case token.LAND, token.LOR:
				l, err := cond(x.X)
				if err != nil {
					return false, err
				}
				r, err := cond(x.Y)
				if err != nil {
					return false, err
				}
				if x.Op == token.LAND {
					return l && r, nil
				}
				return l || r, nil
			case token.LSS, token.LEQ, token.GTR, token.GEQ, token.EQL, token.NEQ:
				l, err := num(x.X)
				if err != nil {
					return false, err
				}
				r, err := num(x.Y)
				if err != nil {
					return false, err
				}
				switch x.Op {
				case token.LSS:
					return l < r, nil
				case token.LEQ:
					return l <= r, nil
				case token.GTR:
					return l > r, nil
				case token.GEQ:
					return l >= r, nil
				case token.EQL:
					return l == r, nil
				default:
					return l != r, nil
				}
			}
		}
		return false, fmt.Errorf("expression %s is outside the fragment (comparisons of the parameter with constants, && || !)", types.ExprString(e))
	}
	return cond(ret.Results[0])
}

// PHP's label characters: [A-Za-z_\x80-\xff][A-Za-z0-9_\x80-\xff]*
func oracleLabel(b byte, start bool) bool {
	if (b >= 'A' && b <= 'Z') || (b >= 'a' && b <= 'z') || b == '_' || b >= 0x80 {
		return true
	}
	return !start && b >= '0' && b <= '9'
}

type bytePredRef struct {
	Rel, Name string
	Start     bool
}

// ByteClasses decides rule byte-class: the byte predicates that stand for
// "label character" in the scanner and in the printer agree with PHP's
// definition on all 256 bytes (and hence with each other).
func ByteClasses(p *load.Program, refs ...bytePredRef) *report.RuleResult {
	res := report.NewResult("byte-class")
	for _, ref := range refs {
		key := ref.Rel + "." + ref.Name
		pk := p.Pkg(ref.Rel)
		var fd *ast.FuncDecl
		if pk != nil {
			for _, d := range load.FuncDecls(pk) {
				if d.Name.Name == ref.Name && d.Recv == nil {
					fd = d
				}
			}
		}
		if fd == nil {
			res.Unknown(key, ref.Rel, ref.Name, "undecided:anchor: function not found")
			continue
		}
		res.Count("predicates", 1)
		var diff []string
		undec := ""
		for b := 0; b < 256; b++ {
			got, err := evalBytePred(pk, fd, byte(b))
			if err != nil {
				undec = err.Error()
				break
			}
			res.Count("evaluations", 1)
			if got != oracleLabel(byte(b), ref.Start) {
				diff = append(diff, fmt.Sprintf("0x%02x", b))
			}
		}
		switch {
		case undec != "":
			res.Unknown(key, p.Pos(fd.Pos()), ref.Name, "undecided:idiom: "+undec)
		case len(diff) > 0:
			if len(diff) > 8 {
				diff = append(diff[:8], fmt.Sprintf("… %d more", len(diff)-8))
			}
			res.Bad(key, p.Pos(fd.Pos()), ref.Name, fmt.Sprintf("differs from PHP's label characters on bytes %v: the printer's separating space / the scanner's variable detection change for identifiers containing them", diff))
		default:
			res.OK(key, p.Pos(fd.Pos()), ref.Name, "equals PHP's label character class on all 256 bytes")
		}
	}
	return res
}

// LabelPredicates: the predicates of the real tree.
func LabelPredicates() []bytePredRef {
	return []bytePredRef{
		{"pkg/visitor/printer", "isValidVarName", false},
		{"internal/scanner", "isValidVarName", false},
		{"internal/scanner", "isValidVarNameStart", true},
	}
}

func LabelPredicate(rel, name string, start bool) bytePredRef { return bytePredRef{rel, name, start} }
