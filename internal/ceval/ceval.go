// Package ceval evaluates small, loop-bounded Go functions of the repository
// from their type-checked syntax trees on given argument values. It is used by
// the *-spec rules, which compare what a hand-written predicate or helper
// computes with a specification on every member of a finite family of
// scenarios chosen from the constants the code itself compares bytes with.
// Nothing of the repository is compiled or run: the evaluator walks the AST.
// Anything outside its vocabulary ends the evaluation with Unsupported, which
// the rules report as undecided (and undecided fails).
package ceval

import (
	"sort"
	"bytes"
	"fmt"
	"go/ast"
	"go/constant"
	"go/token"
	"go/types"
	"strconv"
	"strings"

	"golang.org/x/tools/go/packages"
	"golang.org/x/tools/go/types/typeutil"
)

// values: int64, bool, string, Bytes, *Struct, Nil, Tuple (multi-value), Opaque
type Bytes struct {
	B   []byte
	Nil bool
}
type Struct struct {
	Type   string
	Fields map[string]interface{}
}
type Nil struct{}
type Opaque struct{ What string }

// List is an array or slice of anything but bytes; elements that are structs are references, so &list[i]
// is the element itself.
type List struct{ Elems []interface{} }

// Func is a function value: a function literal with the frame it was made in, or a declared function.
type Func struct {
	Lit  *ast.FuncLit
	Decl *ast.FuncDecl
	Std  *types.Func // a library function used as a value (strings.ToLower)
	fr   *frame
}

type Status int

const (
	OK          Status = iota
	Panic              // index or slice out of range, nil dereference
	Unsupported        // outside the evaluator's vocabulary
	Diverged           // step budget exhausted
)

type stop struct {
	st  Status
	why string
}

// External lets a rule give meaning to calls the evaluator has no source for
// (methods of interface values, functions of other modules). It returns
// handled=false to fall back to the built-in table.
type External func(fn *types.Func, recv interface{}, args []interface{}) (res []interface{}, handled bool)

type Interp struct {
	Pkgs    []*packages.Package
	Ext     External
	Budget  int
	decls   map[*types.Func]*ast.FuncDecl
	infoOf  map[*ast.FuncDecl]*types.Info
	steps   int
	globals map[types.Object]interface{}
	Reads   func(base string, index int) // optional: called for every element read of a Bytes field of a receiver
}

func New(pkgs ...*packages.Package) *Interp {
	in := &Interp{Pkgs: pkgs, Budget: 20000, decls: map[*types.Func]*ast.FuncDecl{}, infoOf: map[*ast.FuncDecl]*types.Info{}}
	for _, pk := range pkgs {
		for _, f := range pk.Syntax {
			for _, d := range f.Decls {
				if fd, ok := d.(*ast.FuncDecl); ok && fd.Body != nil {
					if o, ok := pk.TypesInfo.Defs[fd.Name].(*types.Func); ok {
						in.decls[o] = fd
						in.infoOf[fd] = pk.TypesInfo
					}
				}
			}
		}
	}
	return in
}

// Decl finds a function or method declaration by name (recv "" for a function).
func (in *Interp) Decl(recv, name string) *ast.FuncDecl {
	for o, fd := range in.decls {
		if o.Name() != name {
			continue
		}
		sig := o.Type().(*types.Signature)
		if recv == "" && sig.Recv() == nil {
			return fd
		}
		if recv != "" && sig.Recv() != nil {
			t := sig.Recv().Type()
			if p, ok := t.(*types.Pointer); ok {
				t = p.Elem()
			}
			if n, ok := t.(*types.Named); ok && n.Obj().Name() == recv {
				return fd
			}
		}
	}
	return nil
}

type frame struct {
	info *types.Info
	vars map[types.Object]interface{}
}

type retSig struct{ vals []interface{} }
type brkSig struct{}
type contSig struct{}
type fallSig struct{}

// Map is a map with comparable scalar keys (string, int64, bool); Nil is the nil map.
type Map struct {
	M    map[interface{}]interface{}
	Elem types.Type
}

// dynType: the name of the dynamic type of an interface value, as the type switches of the repository
// tell the kinds of node apart ("Name" for *ast.Name and ast.Name alike).
func dynType(v interface{}) (string, bool) {
	switch x := v.(type) {
	case *Struct:
		return x.Type, true
	case string:
		return "string", true
	case int64:
		return "int", true
	case bool:
		return "bool", true
	}
	return "", false
}

func typeName(t types.Type) string {
	if p, ok := t.(*types.Pointer); ok {
		t = p.Elem()
	}
	if n, ok := t.(*types.Named); ok {
		return n.Obj().Name()
	}
	if b, ok := t.(*types.Basic); ok {
		return b.Name()
	}
	return t.String()
}

// hasType: does the interface value v hold a value of type t?
func (in *Interp) hasType(v interface{}, t types.Type) bool {
	if _, isNil := v.(Nil); isNil {
		return false
	}
	if _, isIface := t.Underlying().(*types.Interface); isIface {
		return true // the scenarios only hold values of the interface's implementations
	}
	dn, ok := dynType(v)
	if !ok {
		in.fail(Unsupported, "dynamic type of %T", v)
	}
	return dn == typeName(t)
}

// Call evaluates fd on the receiver and arguments.
func (in *Interp) Call(fd *ast.FuncDecl, recv interface{}, args []interface{}) (res []interface{}, st Status, why string) {
	in.steps = 0
	defer func() {
		if r := recover(); r != nil {
			if s, ok := r.(stop); ok {
				res, st, why = nil, s.st, s.why
				return
			}
			panic(r)
		}
	}()
	return in.call(fd, recv, args), OK, ""
}

// Eval evaluates an expression of one of the packages in an environment of values for the variables it mentions.
func (in *Interp) Eval(e ast.Expr, info *types.Info, vars map[types.Object]interface{}) (res interface{}, st Status, why string) {
	in.steps = 0
	defer func() {
		if r := recover(); r != nil {
			if s, ok := r.(stop); ok {
				res, st, why = nil, s.st, s.why
				return
			}
			panic(r)
		}
	}()
	return in.expr(e, &frame{info: info, vars: vars}), OK, ""
}

type gotoSig struct{ label string }

// Exec runs a statement list (an action block of a generated function) in an environment of values for the
// variables it mentions. A goto ends the run and its label is returned; a return ends it with exit "return".
func (in *Interp) Exec(stmts []ast.Stmt, info *types.Info, vars map[types.Object]interface{}) (exit string, st Status, why string) {
	in.steps = 0
	defer func() {
		if r := recover(); r != nil {
			if s, ok := r.(stop); ok {
				exit, st, why = "", s.st, s.why
				return
			}
			panic(r)
		}
	}()
	switch sig := in.block(stmts, &frame{info: info, vars: vars}).(type) {
	case gotoSig:
		return sig.label, OK, ""
	case retSig:
		return "return", OK, ""
	}
	return "", OK, ""
}

func (in *Interp) fail(st Status, format string, a ...interface{}) {
	panic(stop{st, fmt.Sprintf(format, a...)})
}

func (in *Interp) call(fd *ast.FuncDecl, recv interface{}, args []interface{}) []interface{} {
	info := in.infoOf[fd]
	fr := &frame{info: info, vars: map[types.Object]interface{}{}}
	if fd.Recv != nil && len(fd.Recv.List) == 1 && len(fd.Recv.List[0].Names) == 1 {
		fr.vars[info.Defs[fd.Recv.List[0].Names[0]]] = recv
	}
	bindParams(fd.Type, fr, args)
	if fd.Type.Results != nil {
		for _, f := range fd.Type.Results.List {
			for _, nm := range f.Names {
				fr.vars[info.Defs[nm]] = zeroOf(info.TypeOf(f.Type))
			}
		}
	}
	sig := in.block(fd.Body.List, fr)
	if r, ok := sig.(retSig); ok {
		if len(r.vals) == 0 && fd.Type.Results != nil {
			var out []interface{}
			for _, f := range fd.Type.Results.List {
				for _, nm := range f.Names {
					out = append(out, fr.vars[info.Defs[nm]])
				}
			}
			return out
		}
		return r.vals
	}
	return nil
}

func zeroOf(t types.Type) interface{} {
	if t == nil {
		return Nil{}
	}
	switch u := t.Underlying().(type) {
	case *types.Basic:
		switch {
		case u.Info()&types.IsBoolean != 0:
			return false
		case u.Info()&types.IsString != 0:
			return ""
		case u.Info()&types.IsNumeric != 0:
			return int64(0)
		}
	case *types.Slice:
		if b, ok := u.Elem().Underlying().(*types.Basic); ok && b.Kind() == types.Byte {
			return Bytes{Nil: true}
		}
	case *types.Struct:
		// a struct held by value: its zero value, field by field
		name := "struct"
		if n, ok := t.(*types.Named); ok {
			name = n.Obj().Name()
		}
		st := &Struct{Type: name, Fields: map[string]interface{}{}}
		for i := 0; i < u.NumFields(); i++ {
			st.Fields[u.Field(i).Name()] = zeroOf(u.Field(i).Type())
		}
		return st
	case *types.Array:
		if u.Len() > 1<<16 {
			return Nil{}
		}
		if b, ok := u.Elem().Underlying().(*types.Basic); ok && b.Kind() == types.Byte {
			return Bytes{B: make([]byte, u.Len())}
		}
		l := &List{}
		for i := int64(0); i < u.Len(); i++ {
			l.Elems = append(l.Elems, zeroOf(u.Elem()))
		}
		return l
	}
	return Nil{}
}

func (in *Interp) block(stmts []ast.Stmt, fr *frame) interface{} {
	for _, s := range stmts {
		if sig := in.stmt(s, fr); sig != nil {
			return sig
		}
	}
	return nil
}

func (in *Interp) tick() {
	in.steps++
	if in.steps > in.Budget {
		in.fail(Diverged, "more than %d steps", in.Budget)
	}
}

func (in *Interp) stmt(s ast.Stmt, fr *frame) interface{} {
	in.tick()
	switch x := s.(type) {
	case *ast.EmptyStmt:
		return nil
	case *ast.BlockStmt:
		return in.block(x.List, fr)
	case *ast.ExprStmt:
		in.expr(x.X, fr)
		return nil
	case *ast.ReturnStmt:
		var vals []interface{}
		for _, r := range x.Results {
			v := in.expr(r, fr)
			if t, ok := v.([]interface{}); ok {
				vals = append(vals, t...)
			} else {
				vals = append(vals, v)
			}
		}
		return retSig{vals}
	case *ast.IfStmt:
		if x.Init != nil {
			if sig := in.stmt(x.Init, fr); sig != nil {
				return sig
			}
		}
		if in.boolean(in.expr(x.Cond, fr), x.Cond) {
			return in.block(x.Body.List, fr)
		}
		if x.Else != nil {
			return in.stmt(x.Else, fr)
		}
		return nil
	case *ast.ForStmt:
		if x.Init != nil {
			in.stmt(x.Init, fr)
		}
		for {
			in.tick()
			if x.Cond != nil && !in.boolean(in.expr(x.Cond, fr), x.Cond) {
				break
			}
			sig := in.block(x.Body.List, fr)
			if _, ok := sig.(brkSig); ok {
				break
			}
			if _, ok := sig.(retSig); ok {
				return sig
			}
			if x.Post != nil {
				in.stmt(x.Post, fr)
			}
		}
		return nil
	case *ast.RangeStmt:
		coll := in.expr(x.X, fr)
		var n int
		var elem func(i int) interface{}
		var mapKeys []interface{}
		switch c := coll.(type) {
		case Bytes:
			n = len(c.B)
			elem = func(i int) interface{} { return int64(c.B[i]) }
		case string:
			in.fail(Unsupported, "range over a string")
		case int64:
			n = int(c)
			elem = func(i int) interface{} { return int64(i) }
		case *List:
			n = len(c.Elems)
			elem = func(i int) interface{} { return copyIfValue(c.Elems[i], fr.info.TypeOf(x.X)) }
		case *Map:
			// in the order of the keys (the scenarios must not depend on the order)
			var keys []interface{}
			for k := range c.M {
				keys = append(keys, k)
			}
			sort.Slice(keys, func(i, j int) bool { return fmt.Sprint(keys[i]) < fmt.Sprint(keys[j]) })
			n = len(keys)
			mapKeys = keys
			elem = func(i int) interface{} { return c.M[keys[i]] }
		case Nil:
			n = 0
		default:
			in.fail(Unsupported, "range over %T", coll)
		}
		for i := 0; i < n; i++ {
			in.tick()
			if x.Key != nil {
				if mapKeys != nil {
					in.assign(x.Key, mapKeys[i], x.Tok == token.DEFINE, fr)
				} else {
					in.assign(x.Key, int64(i), x.Tok == token.DEFINE, fr)
				}
			}
			if x.Value != nil {
				in.assign(x.Value, elem(i), x.Tok == token.DEFINE, fr)
			}
			sig := in.block(x.Body.List, fr)
			if _, ok := sig.(brkSig); ok {
				break
			}
			if _, ok := sig.(retSig); ok {
				return sig
			}
		}
		return nil
	case *ast.BranchStmt:
		if x.Tok == token.GOTO && x.Label != nil {
			return gotoSig{x.Label.Name}
		}
		if x.Label != nil {
			in.fail(Unsupported, "labelled branch")
		}
		switch x.Tok {
		case token.BREAK:
			return brkSig{}
		case token.CONTINUE:
			return contSig{}
		case token.FALLTHROUGH:
			return fallSig{}
		}
		in.fail(Unsupported, "branch %s", x.Tok)
	case *ast.IncDecStmt:
		v, ok := in.expr(x.X, fr).(int64)
		if !ok {
			in.fail(Unsupported, "inc/dec of a non-integer")
		}
		if x.Tok == token.INC {
			v++
		} else {
			v--
		}
		in.assign(x.X, v, false, fr)
		return nil
	case *ast.AssignStmt:
		if x.Tok != token.ASSIGN && x.Tok != token.DEFINE {
			if len(x.Lhs) != 1 || len(x.Rhs) != 1 {
				in.fail(Unsupported, "compound assignment with several operands")
			}
			op := map[token.Token]token.Token{token.ADD_ASSIGN: token.ADD, token.SUB_ASSIGN: token.SUB, token.MUL_ASSIGN: token.MUL, token.OR_ASSIGN: token.OR, token.AND_ASSIGN: token.AND, token.XOR_ASSIGN: token.XOR, token.SHL_ASSIGN: token.SHL, token.SHR_ASSIGN: token.SHR, token.QUO_ASSIGN: token.QUO, token.REM_ASSIGN: token.REM}[x.Tok]
			if op == 0 {
				in.fail(Unsupported, "assignment operator %s", x.Tok)
			}
			v := in.binary(op, in.expr(x.Lhs[0], fr), in.expr(x.Rhs[0], fr), x)
			in.assign(x.Lhs[0], v, false, fr)
			return nil
		}
		var vals []interface{}
		if len(x.Rhs) == 1 && len(x.Lhs) == 2 {
			// v, ok := m[k]   v, ok := x.(T)
			switch r := unparen(x.Rhs[0]).(type) {
			case *ast.IndexExpr:
				if _, isMap := fr.info.TypeOf(r.X).Underlying().(*types.Map); isMap {
					v, ok := in.mapGet(r, fr)
					in.assign(x.Lhs[0], v, x.Tok == token.DEFINE, fr)
					in.assign(x.Lhs[1], ok, x.Tok == token.DEFINE, fr)
					return nil
				}
			case *ast.TypeAssertExpr:
				v := in.expr(r.X, fr)
				t := fr.info.TypeOf(r.Type)
				ok := in.hasType(v, t)
				if !ok {
					v = zeroOf(t)
				}
				in.assign(x.Lhs[0], v, x.Tok == token.DEFINE, fr)
				in.assign(x.Lhs[1], ok, x.Tok == token.DEFINE, fr)
				return nil
			}
		}
		if len(x.Rhs) == 1 && len(x.Lhs) > 1 {
			v := in.expr(x.Rhs[0], fr)
			t, ok := v.([]interface{})
			if !ok || len(t) != len(x.Lhs) {
				in.fail(Unsupported, "multi-value assignment from %T", v)
			}
			vals = t
		} else {
			for _, r := range x.Rhs {
				vals = append(vals, in.expr(r, fr))
			}
		}
		for i, l := range x.Lhs {
			in.assign(l, vals[i], x.Tok == token.DEFINE, fr)
		}
		return nil
	case *ast.DeclStmt:
		gd, ok := x.Decl.(*ast.GenDecl)
		if !ok || gd.Tok != token.VAR {
			return nil
		}
		for _, sp := range gd.Specs {
			vs := sp.(*ast.ValueSpec)
			for i, nm := range vs.Names {
				var v interface{}
				if i < len(vs.Values) {
					v = in.expr(vs.Values[i], fr)
				} else {
					v = zeroOf(fr.info.TypeOf(nm))
				}
				fr.vars[fr.info.Defs[nm]] = v
			}
		}
		return nil
	case *ast.SwitchStmt:
		if x.Init != nil {
			in.stmt(x.Init, fr)
		}
		var tag interface{}
		if x.Tag != nil {
			tag = in.expr(x.Tag, fr)
		}
		var deflt *ast.CaseClause
		for ci, c := range x.Body.List {
			cc := c.(*ast.CaseClause)
			if cc.List == nil {
				deflt = cc
				continue
			}
			for _, e := range cc.List {
				v := in.expr(e, fr)
				hit := false
				if x.Tag != nil {
					hit = in.equal(tag, v)
				} else {
					hit = in.boolean(v, e)
				}
				if hit {
					sig := in.block(cc.Body, fr)
					// fallthrough: the bodies that follow run without their tests
					for k := ci + 1; k < len(x.Body.List); k++ {
						if _, ok := sig.(fallSig); !ok {
							break
						}
						sig = in.block(x.Body.List[k].(*ast.CaseClause).Body, fr)
					}
					if _, ok := sig.(brkSig); ok {
						return nil
					}
					return sig
				}
			}
		}
		if deflt != nil {
			sig := in.block(deflt.Body, fr)
			if _, ok := sig.(brkSig); ok {
				return nil
			}
			return sig
		}
		return nil
	case *ast.TypeSwitchStmt:
		if x.Init != nil {
			in.stmt(x.Init, fr)
		}
		var ta *ast.TypeAssertExpr
		var bind *ast.Ident
		switch a := x.Assign.(type) {
		case *ast.ExprStmt:
			ta, _ = unparen(a.X).(*ast.TypeAssertExpr)
		case *ast.AssignStmt:
			if len(a.Lhs) == 1 && len(a.Rhs) == 1 {
				bind, _ = a.Lhs[0].(*ast.Ident)
				ta, _ = unparen(a.Rhs[0]).(*ast.TypeAssertExpr)
			}
		}
		if ta == nil {
			in.fail(Unsupported, "type switch of this form")
		}
		v := in.expr(ta.X, fr)
		var chosen *ast.CaseClause
		var deflt *ast.CaseClause
	clauses:
		for _, c := range x.Body.List {
			cc := c.(*ast.CaseClause)
			if cc.List == nil {
				deflt = cc
				continue
			}
			for _, e := range cc.List {
				if id, ok := unparen(e).(*ast.Ident); ok && id.Name == "nil" {
					if _, isNil := v.(Nil); isNil {
						chosen = cc
						break clauses
					}
					continue
				}
				if in.hasType(v, fr.info.TypeOf(e)) {
					chosen = cc
					break clauses
				}
			}
		}
		if chosen == nil {
			chosen = deflt
		}
		if chosen == nil {
			return nil
		}
		if bind != nil {
			if o := fr.info.Implicits[chosen]; o != nil {
				fr.vars[o] = v
			}
		}
		sig := in.block(chosen.Body, fr)
		if _, ok := sig.(brkSig); ok {
			return nil
		}
		return sig
	}
	in.fail(Unsupported, "statement %T", s)
	return nil
}

func (in *Interp) boolean(v interface{}, at ast.Node) bool {
	b, ok := v.(bool)
	if !ok {
		in.fail(Unsupported, "condition is %T", v)
	}
	return b
}

func (in *Interp) assign(l ast.Expr, v interface{}, define bool, fr *frame) {
	switch x := unparen(l).(type) {
	case *ast.Ident:
		if x.Name == "_" {
			return
		}
		var o types.Object
		if define {
			o = fr.info.Defs[x]
		}
		if o == nil {
			o = fr.info.Uses[x]
		}
		if o == nil {
			o = fr.info.Defs[x]
		}
		fr.vars[o] = v
	case *ast.SelectorExpr:
		base := in.expr(x.X, fr)
		st, ok := base.(*Struct)
		if !ok {
			in.fail(Unsupported, "assignment to a field of %T", base)
		}
		st.Fields[x.Sel.Name] = v
	case *ast.IndexExpr:
		base := in.expr(x.X, fr)
		if m, ok := base.(*Map); ok {
			m.M[in.mapKey(in.expr(x.Index, fr))] = v
			return
		}
		if _, isMap := fr.info.TypeOf(x.X).Underlying().(*types.Map); isMap {
			in.fail(Panic, "assignment to an entry of a nil map in %s", types.ExprString(x))
		}
		idx, ok := in.expr(x.Index, fr).(int64)
		if !ok {
			in.fail(Unsupported, "non-integer index")
		}
		switch b := base.(type) {
		case *List:
			if idx < 0 || int(idx) >= len(b.Elems) {
				in.fail(Panic, "index %d out of range [0,%d) in %s", idx, len(b.Elems), types.ExprString(x))
			}
			b.Elems[idx] = v
		case Bytes:
			if idx < 0 || int(idx) >= len(b.B) {
				in.fail(Panic, "index %d out of range [0,%d) in %s", idx, len(b.B), types.ExprString(x))
			}
			n, ok := v.(int64)
			if !ok {
				in.fail(Unsupported, "non-integer byte element")
			}
			b.B[idx] = byte(n)
		default:
			in.fail(Unsupported, "assignment to an element of %T", base)
		}
	default:
		in.fail(Unsupported, "assignment to %T", l)
	}
}

func unparen(e ast.Expr) ast.Expr {
	for {
		p, ok := e.(*ast.ParenExpr)
		if !ok {
			return e
		}
		e = p.X
	}
}

func (in *Interp) equal(a, b interface{}) bool {
	switch x := a.(type) {
	case int64:
		y, ok := b.(int64)
		return ok && x == y
	case bool:
		y, ok := b.(bool)
		return ok && x == y
	case string:
		y, ok := b.(string)
		return ok && x == y
	case Nil:
		switch y := b.(type) {
		case Nil:
			return true
		case Bytes:
			return y.Nil
		}
		return false
	case *Func:
		if _, ok := b.(Nil); ok {
			return false
		}
	case Opaque:
		if _, ok := b.(Nil); ok {
			return false
		}
		if y, ok := b.(Opaque); ok {
			return x == y
		}
	case Bytes:
		if _, ok := b.(Nil); ok {
			return x.Nil
		}
	case *Struct:
		if _, ok := b.(Nil); ok {
			return false
		}
		y, ok := b.(*Struct)
		return ok && x == y
	case *Map:
		if _, ok := b.(Nil); ok {
			return false
		}
	case *List:
		if _, ok := b.(Nil); ok {
			return false
		}
	}
	in.fail(Unsupported, "comparison of %T with %T", a, b)
	return false
}

func (in *Interp) binary(op token.Token, a, b interface{}, at ast.Node) interface{} {
	switch x := a.(type) {
	case int64:
		y, ok := b.(int64)
		if !ok {
			in.fail(Unsupported, "integer %s %T", op, b)
		}
		switch op {
		case token.ADD:
			return x + y
		case token.SUB:
			return x - y
		case token.MUL:
			return x * y
		case token.QUO:
			if y == 0 {
				in.fail(Panic, "division by zero")
			}
			return x / y
		case token.REM:
			if y == 0 {
				in.fail(Panic, "division by zero")
			}
			return x % y
		case token.AND:
			return x & y
		case token.OR:
			return x | y
		case token.XOR:
			return x ^ y
		case token.SHL:
			return x << uint(y)
		case token.SHR:
			return x >> uint(y)
		case token.LSS:
			return x < y
		case token.LEQ:
			return x <= y
		case token.GTR:
			return x > y
		case token.GEQ:
			return x >= y
		case token.EQL:
			return x == y
		case token.NEQ:
			return x != y
		}
	case string:
		y, ok := b.(string)
		if !ok {
			in.fail(Unsupported, "string %s %T", op, b)
		}
		switch op {
		case token.ADD:
			return x + y
		case token.EQL:
			return x == y
		case token.NEQ:
			return x != y
		case token.LSS:
			return x < y
		}
	}
	switch op {
	case token.EQL:
		return in.equal(a, b)
	case token.NEQ:
		return !in.equal(a, b)
	}
	in.fail(Unsupported, "operator %s on %T, %T", op, a, b)
	return nil
}

func (in *Interp) expr(e ast.Expr, fr *frame) interface{} {
	in.tick()
	e = unparen(e)
	if tv, ok := fr.info.Types[e]; ok && tv.Value != nil {
		switch tv.Value.Kind() {
		case constant.Int:
			if v, ok := constant.Int64Val(tv.Value); ok {
				return v
			}
		case constant.Bool:
			return constant.BoolVal(tv.Value)
		case constant.String:
			return constant.StringVal(tv.Value)
		}
	}
	switch x := e.(type) {
	case *ast.Ident:
		switch x.Name {
		case "nil":
			return Nil{}
		case "true":
			return true
		case "false":
			return false
		}
		o := fr.info.Uses[x]
		if o == nil {
			o = fr.info.Defs[x]
		}
		if v, ok := fr.vars[o]; ok {
			return v
		}
		if v, ok := in.global(o); ok {
			return v
		}
		if f, ok := o.(*types.Func); ok {
			if fd := in.decls[f]; fd != nil {
				return &Func{Decl: fd}
			}
		}
		in.fail(Unsupported, "variable %s has no value here", x.Name)
	case *ast.BinaryExpr:
		if x.Op == token.LAND {
			if !in.boolean(in.expr(x.X, fr), x.X) {
				return false
			}
			return in.boolean(in.expr(x.Y, fr), x.Y)
		}
		if x.Op == token.LOR {
			if in.boolean(in.expr(x.X, fr), x.X) {
				return true
			}
			return in.boolean(in.expr(x.Y, fr), x.Y)
		}
		return in.binary(x.Op, in.expr(x.X, fr), in.expr(x.Y, fr), x)
	case *ast.UnaryExpr:
		v := in.expr(x.X, fr)
		switch x.Op {
		case token.NOT:
			return !in.boolean(v, x.X)
		case token.SUB:
			if i, ok := v.(int64); ok {
				return -i
			}
		case token.AND:
			return v // &T{…}: structs are references already
		}
		in.fail(Unsupported, "unary %s on %T", x.Op, v)
	case *ast.StarExpr:
		return in.expr(x.X, fr)
	case *ast.SelectorExpr:
		if sel := fr.info.Selections[x]; sel != nil && sel.Kind() == types.FieldVal {
			base := in.expr(x.X, fr)
			st, ok := base.(*Struct)
			if !ok {
				if _, isNil := base.(Nil); isNil {
					in.fail(Panic, "nil dereference reading %s", x.Sel.Name)
				}
				in.fail(Unsupported, "field %s of %T", x.Sel.Name, base)
			}
			v, ok := st.Fields[x.Sel.Name]
			if !ok {
				in.fail(Unsupported, "field %s.%s has no value in this scenario", st.Type, x.Sel.Name)
			}
			return v
		}
		if fn, ok := fr.info.Uses[x.Sel].(*types.Func); ok && fr.info.Selections[x] == nil {
			// a function of another package used as a value
			if fd := in.decls[fn]; fd != nil {
				return &Func{Decl: fd}
			}
			return &Func{Std: fn}
		}
		in.fail(Unsupported, "selector %s", types.ExprString(x))
	case *ast.TypeAssertExpr:
		v := in.expr(x.X, fr)
		if x.Type == nil {
			in.fail(Unsupported, "type switch guard outside a type switch")
		}
		t := fr.info.TypeOf(x.Type)
		if !in.hasType(v, t) {
			dn, _ := dynType(v)
			if _, isNil := v.(Nil); isNil {
				dn = "nil"
			}
			in.fail(Panic, "interface conversion in %s: the value is %s", types.ExprString(x), dn)
		}
		return v
	case *ast.IndexExpr:
		if _, isMap := fr.info.TypeOf(x.X).Underlying().(*types.Map); isMap {
			v, _ := in.mapGet(x, fr)
			return v
		}
		base := in.expr(x.X, fr)
		idx, ok := in.expr(x.Index, fr).(int64)
		if !ok {
			in.fail(Unsupported, "non-integer index")
		}
		switch b := base.(type) {
		case Bytes:
			if idx < 0 || int(idx) >= len(b.B) {
				in.fail(Panic, "index %d out of range [0,%d) in %s", idx, len(b.B), types.ExprString(x))
			}
			if in.Reads != nil {
				in.Reads(types.ExprString(unparen(x.X)), int(idx))
			}
			return int64(b.B[idx])
		case string:
			if idx < 0 || int(idx) >= len(b) {
				in.fail(Panic, "index %d out of range in %s", idx, types.ExprString(x))
			}
			return int64(b[idx])
		case *List:
			if idx < 0 || int(idx) >= len(b.Elems) {
				in.fail(Panic, "index %d out of range [0,%d) in %s", idx, len(b.Elems), types.ExprString(x))
			}
			return b.Elems[idx]
		}
		in.fail(Unsupported, "index into %T", base)
	case *ast.SliceExpr:
		base := in.expr(x.X, fr)
		get := func(e ast.Expr, def int64) int64 {
			if e == nil {
				return def
			}
			v, ok := in.expr(e, fr).(int64)
			if !ok {
				in.fail(Unsupported, "non-integer slice bound")
			}
			return v
		}
		switch b := base.(type) {
		case Bytes:
			lo, hi := get(x.Low, 0), get(x.High, int64(len(b.B)))
			if lo < 0 || hi < lo || int(hi) > len(b.B) {
				in.fail(Panic, "slice bounds [%d:%d] out of range (len %d) in %s", lo, hi, len(b.B), types.ExprString(x))
			}
			return Bytes{B: b.B[lo:hi]}
		case string:
			lo, hi := get(x.Low, 0), get(x.High, int64(len(b)))
			if lo < 0 || hi < lo || int(hi) > len(b) {
				in.fail(Panic, "slice bounds out of range in %s", types.ExprString(x))
			}
			return b[lo:hi]
		case *List:
			// a slice header of its own over the same backing array: Go's own slices model Go's slices
			lo, hi := get(x.Low, 0), get(x.High, int64(len(b.Elems)))
			if lo < 0 || hi < lo || int(hi) > cap(b.Elems) {
				in.fail(Panic, "slice bounds [%d:%d] out of range (len %d, cap %d) in %s", lo, hi, len(b.Elems), cap(b.Elems), types.ExprString(x))
			}
			return &List{Elems: b.Elems[lo:hi]}
		}
		in.fail(Unsupported, "slice of %T", base)
	case *ast.CallExpr:
		return in.callExpr(x, fr)
	case *ast.CompositeLit:
		t := fr.info.TypeOf(x)
		if mt, ok := t.Underlying().(*types.Map); ok {
			return in.mapLit(x, mt, fr)
		}
		if sl, ok := t.Underlying().(*types.Slice); ok {
			if b, ok := sl.Elem().Underlying().(*types.Basic); ok && b.Kind() == types.Byte {
				var out []byte
				for _, el := range x.Elts {
					v, ok := in.expr(el, fr).(int64)
					if !ok {
						in.fail(Unsupported, "byte literal element")
					}
					out = append(out, byte(v))
				}
				return Bytes{B: out}
			}
		}
		var elemT types.Type
		switch u := t.Underlying().(type) {
		case *types.Slice:
			elemT = u.Elem()
		case *types.Array:
			elemT = u.Elem()
		}
		if b, ok := func() (*types.Basic, bool) {
			if elemT == nil {
				return nil, false
			}
			b, ok := elemT.Underlying().(*types.Basic)
			return b, ok
		}(); ok && b.Kind() == types.Byte {
			n := len(x.Elts)
			if at, isArr := t.Underlying().(*types.Array); isArr {
				n = int(at.Len())
			}
			out := make([]byte, n)
			for i, el := range x.Elts {
				if _, isKV := el.(*ast.KeyValueExpr); isKV {
					in.fail(Unsupported, "keyed array literal")
				}
				v, ok := in.expr(el, fr).(int64)
				if !ok || i >= n {
					in.fail(Unsupported, "byte literal element")
				}
				out[i] = byte(v)
			}
			return Bytes{B: out}
		}
		if elemT != nil {
			l := &List{}
			for _, el := range x.Elts {
				if _, isKV := el.(*ast.KeyValueExpr); isKV {
					in.fail(Unsupported, "keyed array literal")
				}
				if cl, ok := el.(*ast.CompositeLit); ok && cl.Type == nil {
					// {…} with the element type elided
					l.Elems = append(l.Elems, in.structLit(cl, elemT, fr))
					continue
				}
				l.Elems = append(l.Elems, in.expr(el, fr))
			}
			return l
		}
		if n, ok := t.(*types.Named); ok {
			if stt, ok := n.Underlying().(*types.Struct); ok {
				st := &Struct{Type: n.Obj().Name(), Fields: map[string]interface{}{}}
				for i := 0; i < stt.NumFields(); i++ {
					st.Fields[stt.Field(i).Name()] = zeroOf(stt.Field(i).Type())
				}
				for i, el := range x.Elts {
					if kv, ok := el.(*ast.KeyValueExpr); ok {
						if id, ok := kv.Key.(*ast.Ident); ok {
							st.Fields[id.Name] = in.expr(kv.Value, fr)
							continue
						}
						in.fail(Unsupported, "composite literal key")
					}
					if i < stt.NumFields() {
						st.Fields[stt.Field(i).Name()] = in.expr(el, fr)
					}
				}
				return st
			}
		}
		in.fail(Unsupported, "composite literal of %s", t)
	case *ast.FuncLit:
		return &Func{Lit: x, fr: fr}
	case *ast.BasicLit:
		in.fail(Unsupported, "literal %s", x.Value)
	}
	in.fail(Unsupported, "expression %T", e)
	return nil
}

func (in *Interp) mapKey(k interface{}) interface{} {
	switch k.(type) {
	case string, int64, bool:
		return k
	}
	in.fail(Unsupported, "map key of %T", k)
	return nil
}

// mapGet: m[k] with the comma-ok flag; a nil map reads as empty.
func (in *Interp) mapGet(x *ast.IndexExpr, fr *frame) (interface{}, bool) {
	base := in.expr(x.X, fr)
	k := in.mapKey(in.expr(x.Index, fr))
	mt := fr.info.TypeOf(x.X).Underlying().(*types.Map)
	switch m := base.(type) {
	case *Map:
		if v, ok := m.M[k]; ok {
			return v, true
		}
	case Nil:
	default:
		in.fail(Unsupported, "map read from %T", base)
	}
	return zeroOf(mt.Elem()), false
}

func (in *Interp) mapLit(x *ast.CompositeLit, mt *types.Map, fr *frame) interface{} {
	m := &Map{M: map[interface{}]interface{}{}, Elem: mt.Elem()}
	for _, el := range x.Elts {
		kv, ok := el.(*ast.KeyValueExpr)
		if !ok {
			in.fail(Unsupported, "map literal element")
		}
		k := in.mapKey(in.expr(kv.Key, fr))
		if cl, ok := kv.Value.(*ast.CompositeLit); ok && cl.Type == nil {
			// {…} with the element type elided
			switch et := mt.Elem().Underlying().(type) {
			case *types.Map:
				m.M[k] = in.mapLit(cl, et, fr)
			case *types.Struct:
				m.M[k] = in.structLit(cl, mt.Elem(), fr)
			case *types.Pointer:
				m.M[k] = in.structLit(cl, mt.Elem(), fr)
			default:
				in.fail(Unsupported, "map literal element of %s", mt.Elem())
			}
			continue
		}
		m.M[k] = in.expr(kv.Value, fr)
	}
	return m
}

// structLit: a struct literal whose type is given by the context (element of an array literal).
func (in *Interp) structLit(x *ast.CompositeLit, t types.Type, fr *frame) interface{} {
	if p, ok := t.Underlying().(*types.Pointer); ok {
		t = p.Elem()
	}
	n, _ := t.(*types.Named)
	stt, ok := t.Underlying().(*types.Struct)
	if !ok {
		in.fail(Unsupported, "composite literal of %s", t)
	}
	name := "struct"
	if n != nil {
		name = n.Obj().Name()
	}
	st := &Struct{Type: name, Fields: map[string]interface{}{}}
	for i := 0; i < stt.NumFields(); i++ {
		st.Fields[stt.Field(i).Name()] = zeroOf(stt.Field(i).Type())
	}
	for i, el := range x.Elts {
		if kv, ok := el.(*ast.KeyValueExpr); ok {
			if id, ok := kv.Key.(*ast.Ident); ok {
				st.Fields[id.Name] = in.expr(kv.Value, fr)
				continue
			}
			in.fail(Unsupported, "composite literal key")
		}
		if i < stt.NumFields() {
			st.Fields[stt.Field(i).Name()] = in.expr(el, fr)
		}
	}
	return st
}

// copyIfValue: a struct held by value (not through a pointer) is copied when it is assigned, passed or ranged
// over; the evaluator keeps structs as references, so the copy is made where the static type says "value".
func copyIfValue(v interface{}, collT types.Type) interface{} {
	st, ok := v.(*Struct)
	if !ok || collT == nil {
		return v
	}
	var elemT types.Type
	switch u := collT.Underlying().(type) {
	case *types.Slice:
		elemT = u.Elem()
	case *types.Array:
		elemT = u.Elem()
	default:
		elemT = collT
	}
	if _, isStruct := elemT.Underlying().(*types.Struct); !isStruct {
		return v
	}
	return st.Copy()
}

// Copy is a shallow copy (what assigning a struct value does).
func (s *Struct) Copy() *Struct {
	n := &Struct{Type: s.Type, Fields: map[string]interface{}{}}
	for k, v := range s.Fields {
		n.Fields[k] = v
	}
	return n
}

// global: the initial value of a package-level variable of one of the packages (that library code never
// reassigns its package-level variables is decided by rule no-global-writes).
func (in *Interp) global(o types.Object) (interface{}, bool) {
	v, ok := o.(*types.Var)
	if !ok || v.Pkg() == nil || v.Parent() != v.Pkg().Scope() {
		return nil, false
	}
	if in.globals == nil {
		in.globals = map[types.Object]interface{}{}
	}
	if val, ok := in.globals[o]; ok {
		return val, true
	}
	for _, pk := range in.Pkgs {
		if pk.Types != v.Pkg() {
			continue
		}
		for _, f := range pk.Syntax {
			for _, d := range f.Decls {
				gd, ok := d.(*ast.GenDecl)
				if !ok || gd.Tok != token.VAR {
					continue
				}
				for _, sp := range gd.Specs {
					vs := sp.(*ast.ValueSpec)
					for i, nm := range vs.Names {
						if pk.TypesInfo.Defs[nm] != o {
							continue
						}
						fr := &frame{info: pk.TypesInfo, vars: map[types.Object]interface{}{}}
						var val interface{}
						switch {
						case len(vs.Values) == len(vs.Names):
							val = in.expr(vs.Values[i], fr)
						case len(vs.Values) == 1:
							t, ok := in.expr(vs.Values[0], fr).([]interface{})
							if !ok || i >= len(t) {
								return nil, false
							}
							val = t[i]
						default:
							val = zeroOf(v.Type())
						}
						in.globals[o] = val
						return val, true
					}
				}
			}
		}
	}
	return nil, false
}

func (in *Interp) callExpr(c *ast.CallExpr, fr *frame) interface{} {
	// conversions
	if tv, ok := fr.info.Types[c.Fun]; ok && tv.IsType() && len(c.Args) == 1 {
		v := in.expr(c.Args[0], fr)
		switch u := tv.Type.Underlying().(type) {
		case *types.Basic:
			switch {
			case u.Info()&types.IsString != 0:
				switch y := v.(type) {
				case Bytes:
					return string(y.B)
				case string:
					return y
				case int64:
					return string(rune(y))
				}
			case u.Info()&types.IsInteger != 0:
				if y, ok := v.(int64); ok {
					switch u.Kind() {
					case types.Uint8:
						return int64(uint8(y))
					case types.Int8:
						return int64(int8(y))
					case types.Uint16:
						return int64(uint16(y))
					case types.Int16:
						return int64(int16(y))
					case types.Uint32:
						return int64(uint32(y))
					case types.Int32:
						return int64(int32(y))
					}
					return y
				}
			}
		case *types.Slice:
			if b, ok := u.Elem().Underlying().(*types.Basic); ok && b.Kind() == types.Byte {
				switch y := v.(type) {
				case string:
					return Bytes{B: []byte(y)}
				case Bytes:
					return y
				}
			}
		}
		in.fail(Unsupported, "conversion %s of %T", types.ExprString(c.Fun), v)
	}
	// builtins
	if id, ok := unparen(c.Fun).(*ast.Ident); ok {
		if _, isBuiltin := fr.info.Uses[id].(*types.Builtin); isBuiltin {
			switch id.Name {
			case "len":
				switch y := in.expr(c.Args[0], fr).(type) {
				case Bytes:
					return int64(len(y.B))
				case string:
					return int64(len(y))
				case *List:
					return int64(len(y.Elems))
				case *Map:
					return int64(len(y.M))
				case Nil:
					return int64(0)
				}
				in.fail(Unsupported, "len of this operand")
			case "delete":
				if m, ok := in.expr(c.Args[0], fr).(*Map); ok {
					delete(m.M, in.mapKey(in.expr(c.Args[1], fr)))
				}
				return nil
			case "cap":
				switch y := in.expr(c.Args[0], fr).(type) {
				case *List:
					return int64(cap(y.Elems))
				case Bytes:
					return int64(cap(y.B))
				}
				in.fail(Unsupported, "cap of this operand")
			case "copy":
				dst, src := in.expr(c.Args[0], fr), in.expr(c.Args[1], fr)
				if d, ok := dst.(*List); ok {
					if sl, ok := src.(*List); ok {
						return int64(copy(d.Elems, sl.Elems))
					}
				}
				in.fail(Unsupported, "copy of these operands")
			case "make":
				if tv, ok := fr.info.Types[c.Args[0]]; ok && tv.IsType() {
					if mt, ok := tv.Type.Underlying().(*types.Map); ok {
						return &Map{M: map[interface{}]interface{}{}, Elem: mt.Elem()}
					}
				}
				if tv, ok := fr.info.Types[c.Args[0]]; ok && tv.IsType() && len(c.Args) >= 2 {
					if sl, ok := tv.Type.Underlying().(*types.Slice); ok {
						n, ok1 := in.expr(c.Args[1], fr).(int64)
						cp := n
						if len(c.Args) == 3 {
							cp, _ = in.expr(c.Args[2], fr).(int64)
						}
						if ok1 && n >= 0 && cp >= n && cp < 1<<20 {
							if b, isB := sl.Elem().Underlying().(*types.Basic); isB && b.Kind() == types.Byte {
								return Bytes{B: make([]byte, n, cp)}
							}
							l := &List{Elems: make([]interface{}, n, cp)}
							for i := range l.Elems {
								l.Elems[i] = zeroOf(sl.Elem())
							}
							return l
						}
					}
				}
				in.fail(Unsupported, "make of this type")
			case "append":
				if l, ok := in.expr(c.Args[0], fr).(*List); ok {
					out := l.Elems
					if c.Ellipsis.IsValid() && len(c.Args) == 2 {
						if more, ok := in.expr(c.Args[1], fr).(*List); ok {
							return &List{Elems: append(out, more.Elems...)}
						}
						in.fail(Unsupported, "append of this operand")
					}
					for _, a := range c.Args[1:] {
						out = append(out, in.expr(a, fr))
					}
					return &List{Elems: out}
				}
				if _, isNil := in.expr(c.Args[0], fr).(Nil); isNil {
					var out []interface{}
					for _, a := range c.Args[1:] {
						out = append(out, in.expr(a, fr))
					}
					return &List{Elems: out}
				}
				in.fail(Unsupported, "append to this operand")
			case "panic":
				in.fail(Panic, "explicit panic")
			case "new":
				if tv, ok := fr.info.Types[c.Args[0]]; ok && tv.IsType() {
					if n, ok := tv.Type.(*types.Named); ok {
						if stt, ok := n.Underlying().(*types.Struct); ok {
							st := &Struct{Type: n.Obj().Name(), Fields: map[string]interface{}{}}
							for i := 0; i < stt.NumFields(); i++ {
								st.Fields[stt.Field(i).Name()] = zeroOf(stt.Field(i).Type())
							}
							return st
						}
					}
					if z := zeroOf(tv.Type); z != (Nil{}) {
						return z
					}
				}
				in.fail(Unsupported, "new of this type")
			}
			in.fail(Unsupported, "builtin %s", id.Name)
		}
	}
	fn, _ := typeutil.Callee(fr.info, c).(*types.Func)
	if fn == nil {
		// a function value: a literal, a declared function kept in a variable or a field
		fv, ok := in.expr(c.Fun, fr).(*Func)
		if !ok {
			in.fail(Unsupported, "call of %s", types.ExprString(c.Fun))
		}
		var args []interface{}
		sig, _ := fr.info.TypeOf(c.Fun).Underlying().(*types.Signature)
		for i, a := range c.Args {
			v := in.expr(a, fr)
			if sig != nil && i < sig.Params().Len() {
				v = copyIfValue(v, sig.Params().At(i).Type())
			}
			args = append(args, v)
		}
		return pack(in.callFunc(fv, args))
	}
	var recv interface{}
	if se, ok := unparen(c.Fun).(*ast.SelectorExpr); ok {
		if sel := fr.info.Selections[se]; sel != nil {
			recv = in.expr(se.X, fr)
		}
	}
	var args []interface{}
	fsig, _ := fn.Type().(*types.Signature)
	for i, a := range c.Args {
		v := in.expr(a, fr)
		if t, ok := v.([]interface{}); ok && len(c.Args) == 1 {
			args = append(args, t...)
		} else {
			if fsig != nil && i < fsig.Params().Len() && !(fsig.Variadic() && i >= fsig.Params().Len()-1) {
				v = copyIfValue(v, fsig.Params().At(i).Type())
			}
			args = append(args, v)
		}
	}
	if in.Ext != nil {
		if res, handled := in.Ext(fn, recv, args); handled {
			return pack(res)
		}
	}
	if fd := in.decls[fn]; fd != nil {
		return pack(in.call(fd, recv, args))
	}
	if res, ok := in.stdlib(fn, args); ok {
		return pack(res)
	}
	in.fail(Unsupported, "call of %s, which has no source here and no model", fn.FullName())
	return nil
}

// callFunc calls a function value.
func (in *Interp) callFunc(fv *Func, args []interface{}) []interface{} {
	switch {
	case fv.Decl != nil:
		return in.call(fv.Decl, nil, args)
	case fv.Std != nil:
		if in.Ext != nil {
			if res, handled := in.Ext(fv.Std, nil, args); handled {
				return res
			}
		}
		if res, ok := in.stdlib(fv.Std, args); ok {
			return res
		}
		in.fail(Unsupported, "call of %s, which has no source here and no model", fv.Std.FullName())
	}
	return in.callLit(fv, args)
}

// callLit runs a function literal in a frame that sees the variables of the frame it was made in.
func (in *Interp) callLit(fv *Func, args []interface{}) []interface{} {
	fr := &frame{info: fv.fr.info, vars: map[types.Object]interface{}{}}
	for k, v := range fv.fr.vars {
		fr.vars[k] = v
	}
	bindParams(fv.Lit.Type, fr, args)
	var named []types.Object
	if fv.Lit.Type.Results != nil {
		for _, f := range fv.Lit.Type.Results.List {
			for _, nm := range f.Names {
				o := fr.info.Defs[nm]
				fr.vars[o] = zeroOf(fr.info.TypeOf(f.Type))
				named = append(named, o)
			}
		}
	}
	sig := in.block(fv.Lit.Body.List, fr)
	if r, ok := sig.(retSig); ok {
		if len(r.vals) == 0 && len(named) > 0 {
			var out []interface{}
			for _, o := range named {
				out = append(out, fr.vars[o])
			}
			return out
		}
		return r.vals
	}
	return nil
}

// bindParams binds arguments to parameters; the arguments beyond the fixed ones of a variadic function become a list.
func bindParams(ft *ast.FuncType, fr *frame, args []interface{}) {
	i := 0
	for _, f := range ft.Params.List {
		_, variadic := f.Type.(*ast.Ellipsis)
		for _, nm := range f.Names {
			switch {
			case variadic:
				l := &List{}
				if i < len(args) {
					l.Elems = append(l.Elems, args[i:]...)
				}
				fr.vars[fr.info.Defs[nm]] = l
				i = len(args)
			case i < len(args):
				fr.vars[fr.info.Defs[nm]] = args[i]
				i++
			default:
				i++
			}
		}
	}
}

func pack(res []interface{}) interface{} {
	switch len(res) {
	case 0:
		return Nil{}
	case 1:
		return res[0]
	}
	return res
}

func (in *Interp) stdlib(fn *types.Func, args []interface{}) ([]interface{}, bool) {
	bs := func(i int) ([]byte, bool) {
		if i >= len(args) {
			return nil, false
		}
		switch y := args[i].(type) {
		case Bytes:
			return y.B, true
		case Nil:
			return nil, true
		}
		return nil, false
	}
	str := func(i int) (string, bool) {
		if i >= len(args) {
			return "", false
		}
		s, ok := args[i].(string)
		return s, ok
	}
	switch fn.FullName() {
	case "bytes.Equal", "bytes.HasPrefix", "bytes.HasSuffix", "bytes.Contains", "bytes.Index", "bytes.LastIndex", "bytes.Compare":
		a, ok1 := bs(0)
		b, ok2 := bs(1)
		if !ok1 || !ok2 {
			return nil, false
		}
		switch fn.Name() {
		case "Equal":
			return []interface{}{bytes.Equal(a, b)}, true
		case "HasPrefix":
			return []interface{}{bytes.HasPrefix(a, b)}, true
		case "HasSuffix":
			return []interface{}{bytes.HasSuffix(a, b)}, true
		case "Contains":
			return []interface{}{bytes.Contains(a, b)}, true
		case "Index":
			return []interface{}{int64(bytes.Index(a, b))}, true
		case "LastIndex":
			return []interface{}{int64(bytes.LastIndex(a, b))}, true
		case "Compare":
			return []interface{}{int64(bytes.Compare(a, b))}, true
		}
	case "bytes.IndexByte":
		a, ok := bs(0)
		c, ok2 := args[1].(int64)
		if ok && ok2 {
			return []interface{}{int64(bytes.IndexByte(a, byte(c)))}, true
		}
	case "bytes.ToLower", "bytes.ToUpper", "bytes.TrimSpace":
		a, ok := bs(0)
		if ok {
			switch fn.Name() {
			case "ToLower":
				return []interface{}{Bytes{B: bytes.ToLower(a)}}, true
			case "ToUpper":
				return []interface{}{Bytes{B: bytes.ToUpper(a)}}, true
			case "TrimSpace":
				return []interface{}{Bytes{B: bytes.TrimSpace(a)}}, true
			}
		}
	case "strings.HasPrefix", "strings.HasSuffix", "strings.Contains", "strings.Index", "strings.EqualFold":
		a, ok1 := str(0)
		b, ok2 := str(1)
		if !ok1 || !ok2 {
			return nil, false
		}
		switch fn.Name() {
		case "HasPrefix":
			return []interface{}{strings.HasPrefix(a, b)}, true
		case "HasSuffix":
			return []interface{}{strings.HasSuffix(a, b)}, true
		case "Contains":
			return []interface{}{strings.Contains(a, b)}, true
		case "Index":
			return []interface{}{int64(strings.Index(a, b))}, true
		case "EqualFold":
			return []interface{}{strings.EqualFold(a, b)}, true
		}
	case "sort.SearchStrings":
		if l, ok := args[0].(*List); ok {
			if x, ok := args[1].(string); ok {
				var ss []string
				for _, e := range l.Elems {
					es, ok := e.(string)
					if !ok {
						return nil, false
					}
					ss = append(ss, es)
				}
				return []interface{}{int64(sort.SearchStrings(ss, x))}, true
			}
		}
	case "sort.SearchInts":
		if l, ok := args[0].(*List); ok {
			if x, ok := args[1].(int64); ok {
				var is []int
				for _, e := range l.Elems {
					ei, ok := e.(int64)
					if !ok {
						return nil, false
					}
					is = append(is, int(ei))
				}
				return []interface{}{int64(sort.SearchInts(is, int(x)))}, true
			}
		}
	case "sort.Search":
		if n, ok := args[0].(int64); ok {
			if fv, ok := args[1].(*Func); ok {
				r := sort.Search(int(n), func(i int) bool {
					out := in.callFunc(fv, []interface{}{int64(i)})
					return len(out) == 1 && in.boolean(out[0], nil)
				})
				return []interface{}{int64(r)}, true
			}
		}
	case "strings.Join":
		if l, ok := args[0].(*List); ok {
			if sep, ok := args[1].(string); ok {
				var ss []string
				for _, e := range l.Elems {
					es, ok := e.(string)
					if !ok {
						return nil, false
					}
					ss = append(ss, es)
				}
				return []interface{}{strings.Join(ss, sep)}, true
			}
		}
		if _, ok := args[0].(Nil); ok {
			return []interface{}{""}, true
		}
	case "strings.SplitN", "strings.Split", "strings.SplitAfter", "strings.SplitAfterN":
		a, ok1 := str(0)
		b, ok2 := str(1)
		n := int64(-1)
		ok3 := true
		if len(args) == 3 {
			n, ok3 = args[2].(int64)
		}
		if ok1 && ok2 && ok3 {
			var parts []string
			if strings.HasPrefix(fn.Name(), "SplitAfter") {
				parts = strings.SplitAfterN(a, b, int(n))
			} else {
				parts = strings.SplitN(a, b, int(n))
			}
			if parts == nil {
				return []interface{}{Nil{}}, true
			}
			l := &List{}
			for _, p := range parts {
				l.Elems = append(l.Elems, p)
			}
			return []interface{}{l}, true
		}
	case "strings.IndexByte", "strings.LastIndexByte", "strings.IndexRune":
		a, ok1 := str(0)
		c, ok2 := args[1].(int64)
		if ok1 && ok2 {
			switch fn.Name() {
			case "IndexByte":
				return []interface{}{int64(strings.IndexByte(a, byte(c)))}, true
			case "LastIndexByte":
				return []interface{}{int64(strings.LastIndexByte(a, byte(c)))}, true
			case "IndexRune":
				return []interface{}{int64(strings.IndexRune(a, rune(c)))}, true
			}
		}
	case "strings.LastIndex", "strings.Count", "strings.IndexAny":
		a, ok1 := str(0)
		b, ok2 := str(1)
		if ok1 && ok2 {
			switch fn.Name() {
			case "LastIndex":
				return []interface{}{int64(strings.LastIndex(a, b))}, true
			case "Count":
				return []interface{}{int64(strings.Count(a, b))}, true
			case "IndexAny":
				return []interface{}{int64(strings.IndexAny(a, b))}, true
			}
		}
	case "strings.Cut":
		a, ok1 := str(0)
		b, ok2 := str(1)
		if ok1 && ok2 {
			x, y, f := strings.Cut(a, b)
			return []interface{}{x, y, f}, true
		}
	case "strings.TrimLeft", "strings.TrimRight", "strings.Trim", "strings.TrimPrefix", "strings.TrimSuffix":
		a, ok1 := str(0)
		b, ok2 := str(1)
		if ok1 && ok2 {
			switch fn.Name() {
			case "TrimLeft":
				return []interface{}{strings.TrimLeft(a, b)}, true
			case "TrimRight":
				return []interface{}{strings.TrimRight(a, b)}, true
			case "Trim":
				return []interface{}{strings.Trim(a, b)}, true
			case "TrimPrefix":
				return []interface{}{strings.TrimPrefix(a, b)}, true
			case "TrimSuffix":
				return []interface{}{strings.TrimSuffix(a, b)}, true
			}
		}
	case "strings.Replace", "strings.ReplaceAll":
		a, ok1 := str(0)
		b, ok2 := str(1)
		c, ok3 := str(2)
		if ok1 && ok2 && ok3 {
			n := int64(-1)
			if fn.Name() == "Replace" && len(args) == 4 {
				n, _ = args[3].(int64)
			}
			return []interface{}{strings.Replace(a, b, c, int(n))}, true
		}
	case "strconv.ParseInt", "strconv.ParseUint":
		a, ok := str(0)
		base, ok2 := args[1].(int64)
		bits, ok3 := args[2].(int64)
		if ok && ok2 && ok3 {
			var v int64
			var err error
			if fn.Name() == "ParseInt" {
				v, err = strconv.ParseInt(a, int(base), int(bits))
			} else {
				var u uint64
				u, err = strconv.ParseUint(a, int(base), int(bits))
				v = int64(u)
			}
			if err != nil {
				return []interface{}{v, &Struct{Type: "error", Fields: map[string]interface{}{"msg": err.Error()}}}, true
			}
			return []interface{}{v, Nil{}}, true
		}
	case "errors.New":
		if a, ok := str(0); ok {
			return []interface{}{&Struct{Type: "error", Fields: map[string]interface{}{"msg": a}}}, true
		}
	case "strconv.Atoi":
		if a, ok := str(0); ok {
			v, err := strconv.Atoi(a)
			if err != nil {
				return []interface{}{int64(v), &Struct{Type: "error", Fields: map[string]interface{}{"msg": err.Error()}}}, true
			}
			return []interface{}{int64(v), Nil{}}, true
		}
	case "strings.ToLower", "strings.ToUpper", "strings.TrimSpace":
		a, ok := str(0)
		if ok {
			switch fn.Name() {
			case "ToLower":
				return []interface{}{strings.ToLower(a)}, true
			case "ToUpper":
				return []interface{}{strings.ToUpper(a)}, true
			case "TrimSpace":
				return []interface{}{strings.TrimSpace(a)}, true
			}
		}
	}
	return nil, false
}
