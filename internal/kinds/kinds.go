// Package kinds extracts the node-kind table from pkg/ast: every struct type
// that implements ast.Vertex, its fields classified by type, and the bijection
// between ast.Visitor methods and kinds.
package kinds

import (
	"fmt"
	"go/types"
	"sort"

	"verif/internal/load"
)

type Class int

const (
	Other Class = iota
	Pos         // *position.Position
	Tok         // *token.Token
	TokList     // []*token.Token
	Node        // ast.Vertex
	NodeList    // []ast.Vertex
	Bytes       // []byte
)

func (c Class) String() string {
	return [...]string{"other", "pos", "tok", "toklist", "node", "nodelist", "bytes"}[c]
}

type Field struct {
	Name  string
	Class Class
	Index int
	Var   *types.Var
}

type Kind struct {
	Name   string
	Named  *types.Named
	Struct *types.Struct
	Fields []Field
	Method string // ast.Visitor method that receives it
}

func (k *Kind) Field(name string) *Field {
	for i := range k.Fields {
		if k.Fields[i].Name == name {
			return &k.Fields[i]
		}
	}
	return nil
}

// Slots returns the fields a printer/formatter has to deal with: tokens,
// token lists, nodes and node lists (not Position, not Value).
func (k *Kind) Slots() []Field {
	var out []Field
	for _, f := range k.Fields {
		switch f.Class {
		case Tok, TokList, Node, NodeList:
			out = append(out, f)
		}
	}
	return out
}

type Table struct {
	Kinds     []*Kind
	ByName    map[string]*Kind
	ByMethod  map[string]*Kind
	Visitor   *types.Interface
	Vertex    *types.Interface
	AstPkg    *types.Package
	TokenT    *types.Named // token.Token
	PositionT *types.Named // position.Position
	Problems  []string
}

func Classify(t types.Type, tb *Table) Class {
	switch u := t.(type) {
	case *types.Pointer:
		if n, ok := u.Elem().(*types.Named); ok {
			if isNamed(n, "pkg/position", "Position") {
				return Pos
			}
			if isNamed(n, "pkg/token", "Token") {
				return Tok
			}
		}
	case *types.Slice:
		if b, ok := u.Elem().(*types.Basic); ok && b.Kind() == types.Byte {
			return Bytes
		}
		if p, ok := u.Elem().(*types.Pointer); ok {
			if n, ok := p.Elem().(*types.Named); ok && isNamed(n, "pkg/token", "Token") {
				return TokList
			}
		}
		if n, ok := u.Elem().(*types.Named); ok && isNamed(n, "pkg/ast", "Vertex") {
			return NodeList
		}
	case *types.Named:
		if isNamed(u, "pkg/ast", "Vertex") {
			return Node
		}
	}
	return Other
}

func isNamed(n *types.Named, rel, name string) bool {
	return n.Obj().Name() == name && load.Rel(n.Obj().Pkg()) == rel
}

// Build extracts the table; Problems lists anything irregular.
func Build(p *load.Program) (*Table, error) {
	ap := p.Pkg("pkg/ast")
	if ap == nil {
		return nil, fmt.Errorf("package pkg/ast not found")
	}
	tb := &Table{ByName: map[string]*Kind{}, ByMethod: map[string]*Kind{}, AstPkg: ap.Types}
	vo := ap.Types.Scope().Lookup("Visitor")
	xo := ap.Types.Scope().Lookup("Vertex")
	if vo == nil || xo == nil {
		return nil, fmt.Errorf("ast.Visitor / ast.Vertex not found")
	}
	var ok bool
	if tb.Visitor, ok = vo.Type().Underlying().(*types.Interface); !ok {
		return nil, fmt.Errorf("ast.Visitor is not an interface")
	}
	if tb.Vertex, ok = xo.Type().Underlying().(*types.Interface); !ok {
		return nil, fmt.Errorf("ast.Vertex is not an interface")
	}
	names := ap.Types.Scope().Names()
	sort.Strings(names)
	for _, name := range names {
		tn, ok := ap.Types.Scope().Lookup(name).(*types.TypeName)
		if !ok {
			continue
		}
		named, ok := tn.Type().(*types.Named)
		if !ok {
			continue
		}
		st, ok := named.Underlying().(*types.Struct)
		if !ok {
			continue
		}
		if !types.Implements(types.NewPointer(named), tb.Vertex) {
			continue
		}
		k := &Kind{Name: name, Named: named, Struct: st}
		for i := 0; i < st.NumFields(); i++ {
			f := st.Field(i)
			c := Classify(f.Type(), tb)
			if c == Other {
				tb.Problems = append(tb.Problems, fmt.Sprintf("%s.%s has unclassified type %s", name, f.Name(), f.Type()))
			}
			k.Fields = append(k.Fields, Field{Name: f.Name(), Class: c, Index: i, Var: f})
		}
		tb.Kinds = append(tb.Kinds, k)
		tb.ByName[name] = k
	}
	// visitor methods <-> kinds
	seen := map[*Kind]string{}
	for i := 0; i < tb.Visitor.NumMethods(); i++ {
		m := tb.Visitor.Method(i)
		sig := m.Type().(*types.Signature)
		if sig.Params().Len() != 1 || sig.Results().Len() != 0 {
			tb.Problems = append(tb.Problems, "visitor method "+m.Name()+" has an unexpected signature")
			continue
		}
		pt, ok := sig.Params().At(0).Type().(*types.Pointer)
		if !ok {
			tb.Problems = append(tb.Problems, "visitor method "+m.Name()+" parameter is not a pointer")
			continue
		}
		n, ok := pt.Elem().(*types.Named)
		if !ok || tb.ByName[n.Obj().Name()] == nil || n.Obj().Pkg() != ap.Types {
			tb.Problems = append(tb.Problems, "visitor method "+m.Name()+" parameter is not a node kind")
			continue
		}
		k := tb.ByName[n.Obj().Name()]
		if prev, dup := seen[k]; dup {
			tb.Problems = append(tb.Problems, fmt.Sprintf("kind %s is received by two visitor methods %s and %s", k.Name, prev, m.Name()))
		}
		seen[k] = m.Name()
		k.Method = m.Name()
		tb.ByMethod[m.Name()] = k
	}
	for _, k := range tb.Kinds {
		if k.Method == "" {
			tb.Problems = append(tb.Problems, "kind "+k.Name+" has no visitor method")
		}
	}
	if o := p.Pkg("pkg/token"); o != nil {
		if tn, ok := o.Types.Scope().Lookup("Token").(*types.TypeName); ok {
			tb.TokenT, _ = tn.Type().(*types.Named)
		}
	}
	if o := p.Pkg("pkg/position"); o != nil {
		if tn, ok := o.Types.Scope().Lookup("Position").(*types.TypeName); ok {
			tb.PositionT, _ = tn.Type().(*types.Named)
		}
	}
	return tb, nil
}
