package yacc

import (
	"fmt"
	"os"
	"path/filepath"
	"sort"
	"strings"

	"verif/internal/report"
)

// Lang bundles everything engine A knows about one grammar.
type Lang struct {
	Label     string // php5 | php7
	G         *Grammar
	A         *Automaton
	Committed string // path of the committed php?.go
}

// LoadLang reads <repo>/internal/<label>/<label>.y, regenerates it with goyacc
// into a scratch directory (removed by the returned cleanup) and parses y.output.
func LoadLang(repo, goyacc, label string) (*Lang, func(), error) {
	yfile := filepath.Join(repo, "internal", label, label+".y")
	g, err := Read(yfile)
	if err != nil {
		return nil, func() {}, err
	}
	dir, err := os.MkdirTemp("", "phpverif-yacc-")
	if err != nil {
		return nil, func() {}, err
	}
	cleanup := func() { os.RemoveAll(dir) }
	a, err := Regenerate(goyacc, yfile, dir)
	if err != nil {
		cleanup()
		return nil, func() {}, err
	}
	return &Lang{Label: label, G: g, A: a, Committed: filepath.Join(repo, "internal", label, label+".go")}, cleanup, nil
}

// ---- prec-oracle -----------------------------------------------------------

// PHP's documented operator precedence (php.net "Operator Precedence", PHP 5.6
// and 7.x), lowest binding first. assoc "" = not checked (unary operators, and
// assignment, whose left operand is syntactically restricted to a variable).
type oracleLevel struct {
	toks  []string
	assoc string
}

var precOracle = []oracleLevel{
	// the two lowest levels are not in the manual's table; they are the first two precedence lines of PHP's own
	// grammar (zend_language_parser.y): `include $a or die()` includes `$a or die()`
	{[]string{"T_INCLUDE", "T_INCLUDE_ONCE", "T_EVAL", "T_REQUIRE", "T_REQUIRE_ONCE"}, ""},
	{[]string{"','"}, ""},
	{[]string{"T_LOGICAL_OR"}, "left"},
	{[]string{"T_LOGICAL_XOR"}, "left"},
	{[]string{"T_LOGICAL_AND"}, "left"},
	{[]string{"T_PRINT"}, ""},
	{[]string{"T_YIELD"}, ""},
	{[]string{"T_YIELD_FROM"}, ""},
	{[]string{"'='", "T_PLUS_EQUAL", "T_MINUS_EQUAL", "T_MUL_EQUAL", "T_DIV_EQUAL", "T_CONCAT_EQUAL", "T_MOD_EQUAL", "T_AND_EQUAL", "T_OR_EQUAL", "T_XOR_EQUAL", "T_SL_EQUAL", "T_SR_EQUAL", "T_POW_EQUAL", "T_COALESCE_EQUAL"}, ""},
	{[]string{"'?'", "':'"}, "left"},
	{[]string{"T_COALESCE"}, "right"},
	{[]string{"T_BOOLEAN_OR"}, "left"},
	{[]string{"T_BOOLEAN_AND"}, "left"},
	{[]string{"'|'"}, "left"},
	{[]string{"'^'"}, "left"},
	{[]string{"'&'"}, "left"},
	{[]string{"T_IS_EQUAL", "T_IS_NOT_EQUAL", "T_IS_IDENTICAL", "T_IS_NOT_IDENTICAL", "T_SPACESHIP"}, "nonassoc"},
	{[]string{"'<'", "T_IS_SMALLER_OR_EQUAL", "'>'", "T_IS_GREATER_OR_EQUAL"}, "nonassoc"},
	{[]string{"T_SL", "T_SR"}, "left"},
	{[]string{"'+'", "'-'", "'.'"}, "left"},
	{[]string{"'*'", "'/'", "'%'"}, "left"},
	{[]string{"'!'"}, ""},
	{[]string{"T_INSTANCEOF"}, ""},
	{[]string{"'~'", "T_INC", "T_DEC", "T_INT_CAST", "T_DOUBLE_CAST", "T_STRING_CAST", "T_ARRAY_CAST", "T_OBJECT_CAST", "T_BOOL_CAST", "T_UNSET_CAST", "'@'"}, ""},
	{[]string{"T_POW"}, "right"},
	{[]string{"'['"}, ""},
	{[]string{"T_NEW", "T_CLONE"}, ""},
}

// unary +/-: bind like ++/-- (oracle: same manual row as the casts).
var unaryLike = map[string]string{"'+'": "T_INC", "'-'": "T_INC"}

func PrecOracle(l *Lang) *report.RuleResult {
	res := report.NewResult("prec-oracle")
	g := l.G
	olevel := map[string]int{}
	oassoc := map[string]string{}
	for i, lv := range precOracle {
		for _, t := range lv.toks {
			olevel[t] = i + 1
			oassoc[t] = lv.assoc
		}
	}
	var present []string
	for t := range olevel {
		if s := g.Symbols[t]; s != nil && s.Terminal && usedInRules(g, t) {
			present = append(present, t)
		}
	}
	sort.Strings(present)
	res.Count("operators", len(present))
	for _, t := range present {
		s := g.Symbols[t]
		key := l.Label + "/" + t
		if s.Prec == 0 {
			res.Bad(key, g.File, "", "operator token "+t+" has no precedence declaration: its conflicts are resolved by goyacc's default (shift), not by PHP's table")
			continue
		}
		var bad []string
		for _, u := range present {
			if u == t {
				continue
			}
			su := g.Symbols[u]
			if su.Prec == 0 {
				continue
			}
			if sign(s.Prec-su.Prec) != sign(olevel[t]-olevel[u]) {
				bad = append(bad, u)
			}
		}
		if want := oassoc[t]; want != "" && s.Assoc.String() != want {
			res.Bad(key+"/assoc", g.File, "", fmt.Sprintf("%s is declared %%%s; PHP documents it as %s-associative", t, s.Assoc, want))
		}
		if len(bad) > 0 {
			res.Bad(key, g.File, "", fmt.Sprintf("precedence of %s relative to %s differs from PHP's documented operator table", t, strings.Join(bad, " ")))
		} else {
			res.OK(key, g.File, "", fmt.Sprintf("level %d (%s): ordered like PHP's table against %d other operators", s.Prec, s.Assoc, len(present)-1))
		}
	}
	// %prec uses and unary productions
	for _, p := range g.Prods[1:] {
		if len(p.RHS) == 2 && (p.RHS[0] == "'+'" || p.RHS[0] == "'-'") && !g.Symbols[p.RHS[1]].Terminal && (p.LHS == "expr" || p.LHS == "expr_without_variable" || strings.Contains(p.LHS, "scalar")) {
			res.Count("unary-rules", 1)
			want := g.Symbols[unaryLike[p.RHS[0]]]
			prec, _, via := g.RulePrec(p)
			key := l.Label + "/unary:" + g.Key(p)
			if want == nil || prec != want.Prec {
				res.Bad(key, fmt.Sprintf("%s:%d", g.File, p.Line), "", fmt.Sprintf("unary %s production has the precedence of %s; PHP gives unary +/- the precedence of ++/-- and the casts", p.RHS[0], via))
			} else {
				res.OK(key, fmt.Sprintf("%s:%d", g.File, p.Line), "", "unary "+p.RHS[0]+" binds like "+unaryLike[p.RHS[0]])
			}
		}
		// a production `a OP b` (and a prefix production `OP a`, other than unary +/-) is reduced or not, when the next
		// token is another operator, by comparing ITS precedence with that token's: it must be OP's own level. A
		// %prec that gives the production another level changes how `a OP b OP2 c` groups although the operator
		// table itself is right (seed C10-12: %prec T_INC on the binary minus of constant expressions).
		if opIdx := operatorOf(g, p, olevel); opIdx >= 0 {
			op := p.RHS[opIdx]
			res.Count("operator-rules", 1)
			prec, _, via := g.RulePrec(p)
			key := l.Label + "/rule:" + g.Key(p)
			if so := g.Symbols[op]; so != nil && so.Prec != 0 && prec != so.Prec {
				res.Bad(key, fmt.Sprintf("%s:%d", g.File, p.Line), "", fmt.Sprintf("the production %s: %s has the precedence of %s, not that of its operator %s: next to an operator whose level lies between the two it groups differently from PHP's table", p.LHS, strings.Join(p.RHS, " "), via, op))
			} else {
				res.OK(key, fmt.Sprintf("%s:%d", g.File, p.Line), "", "the production has the precedence of its operator "+op)
			}
		}
		if p.PrecSym != "" {
			res.Count("prec-directives", 1)
			if s := g.Symbols[p.PrecSym]; s == nil || s.Prec == 0 {
				res.Bad(l.Label+"/%prec:"+g.Key(p), fmt.Sprintf("%s:%d", g.File, p.Line), "", "%prec names "+p.PrecSym+", which has no precedence level")
			}
		}
	}
	return res
}

// operatorOf: the index of the operator of a production `a OP b` or `OP a` whose operands are nonterminals and
// whose operator is in the oracle table; -1 otherwise (unary +/- are judged by the unary rule above).
func operatorOf(g *Grammar, p *Production, olevel map[string]int) int {
	nt := func(s string) bool { y := g.Symbols[s]; return y != nil && !y.Terminal }
	switch len(p.RHS) {
	case 3:
		if nt(p.RHS[0]) && nt(p.RHS[2]) && olevel[p.RHS[1]] != 0 {
			return 1
		}
	case 2:
		if nt(p.RHS[1]) && olevel[p.RHS[0]] != 0 && p.RHS[0] != "'+'" && p.RHS[0] != "'-'" {
			return 0
		}
	}
	return -1
}

func usedInRules(g *Grammar, t string) bool {
	for _, p := range g.Prods[1:] {
		for _, r := range p.RHS {
			if r == t {
				return true
			}
		}
	}
	return false
}

func sign(x int) int {
	switch {
	case x < 0:
		return -1
	case x > 0:
		return 1
	}
	return 0
}

// ---- else-binds-nearest ------------------------------------------------------

// In every state that can both shift T_ELSE / T_ELSEIF and reduce some
// production, the generated action on that token must be the shift.
func ElseBindsNearest(l *Lang) *report.RuleResult {
	res := report.NewResult("else-binds-nearest")
	for _, st := range l.A.States {
		for _, tok := range []string{"T_ELSE", "T_ELSEIF"} {
			canShift, canReduce := false, false
			var red Item
			for _, it := range st.Items {
				if it.Dot < len(it.RHS) && it.RHS[it.Dot] == tok {
					canShift = true
				}
				if it.Dot == len(it.RHS) && it.LHS != "$accept" {
					canReduce = true
					red = it
				}
			}
			if !canShift || !canReduce {
				continue
			}
			// is the token in the follow of the reducible item at all? only states where an `if` is complete matter
			if !strings.Contains(red.LHS, "if") && !strings.Contains(red.LHS, "else") {
				continue
			}
			res.Count("states", 1)
			key := fmt.Sprintf("%s/%s/on:%s", l.Label, red.String(), tok)
			act, ok := st.Actions[tok]
			if ok && act.Kind == "shift" {
				res.OK(key, fmt.Sprintf("state %d", st.Num), "", "shift: the else clause attaches to the innermost open if")
			} else {
				res.Bad(key, fmt.Sprintf("state %d", st.Num), "", fmt.Sprintf("on %s the automaton reduces %q instead of shifting: else would bind to an outer if", tok, red.String()))
			}
		}
	}
	return res
}

// ---- conflicts-triaged -------------------------------------------------------

// reviewed unresolved conflicts: reduce production (by item text), look-ahead → reason
var reviewedConflicts = map[string]string{
	"php5|expr_without_variable: new_expr .|')'":     "same as PHP 5.6's own grammar (%expect): '(' new_expr ')' instance_call prefers the shift, i.e. the dereferencing form",
	"php5|scalar: T_STRING_VARNAME .|'}'":           "same as PHP 5.6's own grammar: \"${name}\" is the simple variable form, shift",
	"php5|r_variable: variable .|')'":                "same as PHP 5.6's own grammar: empty(variable) takes the variable form, shift",
	"php5|else_single: .|T_ELSEIF":                   "dangling else: shift = innermost if (also checked by else-binds-nearest)",
	"php5|else_single: .|T_ELSE":                     "dangling else: shift = innermost if (also checked by else-binds-nearest)",
}

func ConflictsTriaged(l *Lang) *report.RuleResult {
	res := report.NewResult("conflicts-triaged")
	res.Count("conflicts", len(l.A.Conflicts))
	byNum := map[int]*State{}
	for _, s := range l.A.States {
		byNum[s.Num] = s
	}
	for _, c := range l.A.Conflicts {
		st := byNum[c.State]
		redItem := "?"
		if st != nil {
			for _, it := range st.Items {
				if it.Dot == len(it.RHS) && it.Num == c.Reduce {
					redItem = it.String()
				}
			}
		}
		key := fmt.Sprintf("%s|%s|%s", l.Label, redItem, c.On)
		chosen := "?"
		if st != nil {
			chosen = st.Actions[c.On].Kind
		}
		if why, ok := reviewedConflicts[key]; ok && c.Kind == "shift/reduce" && chosen == "shift" {
			res.OK(key, fmt.Sprintf("state %d", c.State), "", "reviewed: "+why)
		} else {
			res.Unknown(key, fmt.Sprintf("state %d", c.State), "", fmt.Sprintf("undecided:conflict: unreviewed %s conflict on %s (chosen: %s) — the language accepted here is decided by goyacc's default, not by the grammar author", c.Kind, c.On, chosen))
		}
	}
	if len(l.A.Conflicts) == 0 {
		res.OK(l.Label+"/none", l.G.File, "", "goyacc reports no unresolved conflicts")
	}
	return res
}

// ---- error-productions -------------------------------------------------------

var stmtLists = map[string]string{"top_statement_list": "top_statement", "inner_statement_list": "inner_statement"}

func ErrorProductions(l *Lang) *report.RuleResult {
	res := report.NewResult("error-productions")
	g := l.G
	elems := map[string]bool{}
	for list, elem := range stmtLists {
		// list: list elem | ε
		okShape := false
		for _, p := range g.ByLHS[list] {
			if len(p.RHS) == 2 && p.RHS[0] == list && p.RHS[1] == elem {
				okShape = true
			}
		}
		res.Check(okShape, l.Label+"/"+list+"/shape", g.File, "", "left-recursive list of "+elem, "statement list "+list+" is no longer `"+list+" "+elem+"`")
		has := false
		for _, p := range g.ByLHS[elem] {
			if len(p.RHS) == 1 && p.RHS[0] == "error" {
				has = true
				res.Count("error-productions", 1)
			}
		}
		res.Check(has, l.Label+"/"+elem+"/error", g.File, "", elem+": error exists", "no `"+elem+": error` production: a syntax error inside a statement aborts the whole parse")
		elems[elem] = true
	}
	// no other use of error
	for _, p := range g.Prods[1:] {
		for _, r := range p.RHS {
			if r == "error" && !(len(p.RHS) == 1 && elems[p.LHS]) {
				res.Bad(l.Label+"/extra:"+g.Key(p), fmt.Sprintf("%s:%d", g.File, p.Line), "", "error token used in "+p.String()+": recovery could resume inside a statement")
			}
		}
	}
	// states that shift error are exactly those whose items have the dot in front of a statement element
	for _, st := range l.A.States {
		before := false
		for _, it := range st.Items {
			if it.Dot < len(it.RHS) && elems[it.RHS[it.Dot]] && stmtLists[it.LHS] == it.RHS[it.Dot] {
				before = true
			}
		}
		act, has := st.Actions["error"]
		shifts := has && act.Kind == "shift"
		if !before && !shifts {
			continue
		}
		res.Count("recovery-states", 1)
		key := fmt.Sprintf("%s/state:%s", l.Label, kernelKey(st))
		if before && shifts {
			res.OK(key, fmt.Sprintf("state %d", st.Num), "", "a statement may start here and the error token is shifted: recovery resumes at this list with the preceding statements on the stack")
		} else if before {
			res.Bad(key, fmt.Sprintf("state %d", st.Num), "", "a statement may start here but error is not shifted")
		} else {
			res.Bad(key, fmt.Sprintf("state %d", st.Num), "", "error is shifted in a state that is not the start of a statement")
		}
	}
	return res
}

func kernelKey(st *State) string {
	var ks []string
	for _, it := range st.Items {
		if it.Dot > 0 || it.LHS == "$accept" {
			ks = append(ks, it.String())
		}
	}
	if len(ks) == 0 && len(st.Items) > 0 {
		ks = append(ks, st.Items[0].String())
	}
	if len(ks) > 2 {
		ks = ks[:2]
	}
	return strings.Join(ks, " ; ")
}

// ---- family-only-tokens -------------------------------------------------------

var php7Only = []string{"T_COALESCE", "T_SPACESHIP", "T_COALESCE_EQUAL", "T_FN", "T_YIELD_FROM"}

func FamilyOnlyTokens(l5, l7 *Lang) *report.RuleResult {
	res := report.NewResult("family-only-tokens")
	for _, t := range php7Only {
		res.Count("tokens", 1)
		in5, in7 := usedInRules(l5.G, t), usedInRules(l7.G, t)
		res.Check(!in5, "php5/"+t, l5.G.File, "", "not used by any PHP 5 production", "PHP 7-only token "+t+" occurs in a PHP 5 production: PHP 7 syntax would be accepted under 5.x versions")
		res.Check(in7, "php7/"+t, l7.G.File, "", "used by the PHP 7 grammar", "token "+t+" is not used by any PHP 7 production: the construct is no longer accepted under 7.x")
	}
	return res
}
