package yacc

import (
	"bufio"
	"fmt"
	"os"
	"os/exec"
	"path/filepath"
	"regexp"
	"strconv"
	"strings"
)

type Item struct {
	LHS string
	RHS []string
	Dot int
	Num int // production number if the item is complete (printed by goyacc), else 0
}

func (it Item) String() string {
	var parts []string
	for i, s := range it.RHS {
		if i == it.Dot {
			parts = append(parts, ".")
		}
		parts = append(parts, s)
	}
	if it.Dot == len(it.RHS) {
		parts = append(parts, ".")
	}
	return it.LHS + ": " + strings.Join(parts, " ")
}

type Action struct {
	Kind   string // shift, reduce, accept, error, goto
	Target int    // state or production
}

type State struct {
	Num     int
	Items   []Item
	Actions map[string]Action // by terminal name; "." is the default
	Gotos   map[string]int
}

type Conflict struct {
	State  int
	Kind   string // shift/reduce or reduce/reduce
	Shift  int
	Reduce int
	On     string
}

type Automaton struct {
	States    []*State
	Conflicts []Conflict
	GoFile    string // regenerated parser
}

// Regenerate runs goyacc on the grammar into dir and parses y.output.
func Regenerate(goyacc, yfile, dir string) (*Automaton, error) {
	out := filepath.Join(dir, "y.go")
	yo := filepath.Join(dir, "y.output")
	cmd := exec.Command(goyacc, "-o", out, "-v", yo, yfile)
	cmd.Dir = dir
	b, err := cmd.CombinedOutput()
	if err != nil {
		return nil, fmt.Errorf("goyacc: %v: %s", err, strings.TrimSpace(string(b)))
	}
	a, err := ParseOutput(yo)
	if err != nil {
		return nil, err
	}
	a.GoFile = out
	return a, nil
}

var (
	reState    = regexp.MustCompile(`^state (\d+)$`)
	reConflict = regexp.MustCompile(`^(\d+): (shift/reduce|reduce/reduce) conflict \((?:shift (\d+)\(\d+\), )?red'n (\d+)\(\d+\)(?:, red'n (\d+)\(\d+\))?\) on (\S+)`)
	reItemNum  = regexp.MustCompile(`\((\d+)\)\s*$`)
)

func ParseOutput(path string) (*Automaton, error) {
	f, err := os.Open(path)
	if err != nil {
		return nil, err
	}
	defer f.Close()
	a := &Automaton{}
	var cur *State
	sc := bufio.NewScanner(f)
	sc.Buffer(make([]byte, 1<<20), 1<<24)
	for sc.Scan() {
		line := sc.Text()
		if m := reState.FindStringSubmatch(line); m != nil {
			n, _ := strconv.Atoi(m[1])
			cur = &State{Num: n, Actions: map[string]Action{}, Gotos: map[string]int{}}
			a.States = append(a.States, cur)
			continue
		}
		if m := reConflict.FindStringSubmatch(line); m != nil {
			st, _ := strconv.Atoi(m[1])
			c := Conflict{State: st, Kind: m[2], On: m[6]}
			if m[3] != "" {
				c.Shift, _ = strconv.Atoi(m[3])
			}
			c.Reduce, _ = strconv.Atoi(m[4])
			a.Conflicts = append(a.Conflicts, c)
			continue
		}
		if cur == nil || !strings.HasPrefix(line, "\t") {
			continue
		}
		body := strings.TrimSpace(line)
		if body == "" {
			continue
		}
		if i := strings.Index(body, ": "); i > 0 && !strings.Contains(body[:i], " ") && (strings.Contains(body, ".")) && !strings.HasPrefix(body, ".  ") {
			// item line:  lhs:  a.b c    (n)
			it := Item{LHS: body[:i]}
			rest := body[i+1:]
			if m := reItemNum.FindStringSubmatch(rest); m != nil {
				it.Num, _ = strconv.Atoi(m[1])
				rest = rest[:len(rest)-len(m[0])]
			}
			// goyacc prints the dot glued to neighbours: "top_statement_list.top_statement"
			it.RHS, it.Dot = splitItem(rest)
			cur.Items = append(cur.Items, it)
			continue
		}
		fs := strings.Fields(body)
		if len(fs) >= 2 {
			sym := fs[0]
			switch fs[1] {
			case "shift", "reduce", "goto":
				if len(fs) < 3 {
					continue
				}
				n, _ := strconv.Atoi(fs[2])
				if fs[1] == "goto" {
					cur.Gotos[sym] = n
				} else {
					cur.Actions[sym] = Action{fs[1], n}
				}
			case "accept":
				cur.Actions[sym] = Action{"accept", 0}
			case "error":
				cur.Actions[sym] = Action{"error", 0}
			}
		}
	}
	if err := sc.Err(); err != nil {
		return nil, err
	}
	if len(a.States) == 0 {
		return nil, fmt.Errorf("%s: no states", path)
	}
	return a, nil
}

// splitItem splits the right-hand side of an item as printed by goyacc, where
// the dot is glued to its neighbours, into symbols and the dot position.
// Character literals such as '.' are kept whole.
func splitItem(s string) ([]string, int) {
	var syms []string
	dot := -1
	i := 0
	cur := ""
	flush := func() {
		if cur != "" {
			syms = append(syms, cur)
			cur = ""
		}
	}
	for i < len(s) {
		c := s[i]
		switch {
		case c == '\'':
			// quoted literal up to the closing quote
			j := i + 1
			for j < len(s) && s[j] != '\'' {
				if s[j] == '\\' {
					j++
				}
				j++
			}
			flush()
			syms = append(syms, s[i:j+1])
			i = j + 1
		case c == '.':
			flush()
			dot = len(syms)
			i++
		case c == ' ' || c == '\t':
			flush()
			i++
		default:
			cur += string(c)
			i++
		}
	}
	flush()
	if dot < 0 {
		dot = len(syms)
	}
	return syms, dot
}
