// Package yacc implements engine A: the goyacc grammars of both parsers, the
// regenerated LALR automaton, and the link between productions and the
// compiled action bodies in php5.go / php7.go.
package yacc

import (
	"fmt"
	"os"
	"strings"
	"unicode"
)

type Assoc int

const (
	NoPrec Assoc = iota
	Left
	Right
	NonAssoc
)

func (a Assoc) String() string { return [...]string{"none", "left", "right", "nonassoc"}[a] }

type Symbol struct {
	Name     string
	Terminal bool
	Type     string // union member: token, node, list, "" if undeclared
	Prec     int    // precedence level (1 = lowest), 0 = none
	Assoc    Assoc
}

type Production struct {
	Num     int // 1-based, as goyacc numbers them
	LHS     string
	RHS     []string
	PrecSym string // %prec
	Line    int    // line of the alternative in the .y file (for messages only)
	HasCode bool
	MidRule bool // an action that is not at the end (unsupported)
}

func (p *Production) String() string {
	if len(p.RHS) == 0 {
		return fmt.Sprintf("%s: /* empty */", p.LHS)
	}
	return fmt.Sprintf("%s: %s", p.LHS, strings.Join(p.RHS, " "))
}

// Key identifies a production independently of line numbers: LHS#k (k-th alternative of LHS).
type Grammar struct {
	File     string
	Symbols  map[string]*Symbol
	Prods    []*Production // index 0 unused ($accept)
	ByLHS    map[string][]*Production
	Start    string
	Levels   [][]string // precedence levels, lowest first
	LevelAsc []Assoc
	Problems []string
}

func (g *Grammar) Key(p *Production) string {
	for i, q := range g.ByLHS[p.LHS] {
		if q == p {
			return fmt.Sprintf("%s#%d", p.LHS, i+1)
		}
	}
	return p.LHS + "#?"
}

func (g *Grammar) sym(name string) *Symbol {
	s := g.Symbols[name]
	if s == nil {
		s = &Symbol{Name: name}
		g.Symbols[name] = s
	}
	return s
}

// lexer for the .y file
type ylex struct {
	src  []byte
	pos  int
	line int
}

func (l *ylex) peek() byte {
	if l.pos >= len(l.src) {
		return 0
	}
	return l.src[l.pos]
}

func (l *ylex) skipSpace() {
	for l.pos < len(l.src) {
		c := l.src[l.pos]
		switch {
		case c == '\n':
			l.line++
			l.pos++
		case c == ' ' || c == '\t' || c == '\r':
			l.pos++
		case c == '/' && l.pos+1 < len(l.src) && l.src[l.pos+1] == '/':
			for l.pos < len(l.src) && l.src[l.pos] != '\n' {
				l.pos++
			}
		case c == '/' && l.pos+1 < len(l.src) && l.src[l.pos+1] == '*':
			l.pos += 2
			for l.pos+1 < len(l.src) && !(l.src[l.pos] == '*' && l.src[l.pos+1] == '/') {
				if l.src[l.pos] == '\n' {
					l.line++
				}
				l.pos++
			}
			l.pos += 2
		default:
			return
		}
	}
}

// skipCode skips a { ... } block honouring strings, runes and comments.
func (l *ylex) skipCode() error {
	if l.peek() != '{' {
		return fmt.Errorf("line %d: expected {", l.line)
	}
	depth := 0
	for l.pos < len(l.src) {
		c := l.src[l.pos]
		switch c {
		case '\n':
			l.line++
			l.pos++
		case '{':
			depth++
			l.pos++
		case '}':
			depth--
			l.pos++
			if depth == 0 {
				return nil
			}
		case '"':
			l.pos++
			for l.pos < len(l.src) && l.src[l.pos] != '"' {
				if l.src[l.pos] == '\\' {
					l.pos++
				}
				l.pos++
			}
			l.pos++
		case '`':
			l.pos++
			for l.pos < len(l.src) && l.src[l.pos] != '`' {
				if l.src[l.pos] == '\n' {
					l.line++
				}
				l.pos++
			}
			l.pos++
		case '\'':
			l.pos++
			for l.pos < len(l.src) && l.src[l.pos] != '\'' {
				if l.src[l.pos] == '\\' {
					l.pos++
				}
				l.pos++
			}
			l.pos++
		case '/':
			if l.pos+1 < len(l.src) && l.src[l.pos+1] == '/' {
				for l.pos < len(l.src) && l.src[l.pos] != '\n' {
					l.pos++
				}
			} else if l.pos+1 < len(l.src) && l.src[l.pos+1] == '*' {
				l.pos += 2
				for l.pos+1 < len(l.src) && !(l.src[l.pos] == '*' && l.src[l.pos+1] == '/') {
					if l.src[l.pos] == '\n' {
						l.line++
					}
					l.pos++
				}
				l.pos += 2
			} else {
				l.pos++
			}
		default:
			l.pos++
		}
	}
	return fmt.Errorf("unterminated action")
}

func isIdent(c byte) bool {
	return c == '_' || c == '.' || c == '$' || unicode.IsLetter(rune(c)) || unicode.IsDigit(rune(c))
}

// word reads an identifier or a character literal ('x').
func (l *ylex) word() string {
	l.skipSpace()
	start := l.pos
	if l.peek() == '\'' {
		l.pos++
		for l.pos < len(l.src) && l.src[l.pos] != '\'' {
			if l.src[l.pos] == '\\' {
				l.pos++
			}
			l.pos++
		}
		l.pos++
		return string(l.src[start:l.pos])
	}
	for l.pos < len(l.src) && isIdent(l.src[l.pos]) {
		l.pos++
	}
	return string(l.src[start:l.pos])
}

// Read parses a goyacc grammar file.
func Read(path string) (*Grammar, error) {
	src, err := os.ReadFile(path)
	if err != nil {
		return nil, err
	}
	g := &Grammar{File: path, Symbols: map[string]*Symbol{}, ByLHS: map[string][]*Production{}, Prods: []*Production{nil}}
	l := &ylex{src: src, line: 1}
	// ---- declarations
	for {
		l.skipSpace()
		if l.pos >= len(l.src) {
			return nil, fmt.Errorf("%s: no %%%% found", path)
		}
		if l.peek() != '%' {
			return nil, fmt.Errorf("%s:%d: unexpected %q in declarations", path, l.line, l.peek())
		}
		l.pos++
		if l.peek() == '%' {
			l.pos++
			break
		}
		if l.peek() == '{' {
			// %{ ... %}
			for l.pos+1 < len(l.src) && !(l.src[l.pos] == '%' && l.src[l.pos+1] == '}') {
				if l.src[l.pos] == '\n' {
					l.line++
				}
				l.pos++
			}
			l.pos += 2
			continue
		}
		kw := l.word()
		switch kw {
		case "union":
			l.skipSpace()
			if err := l.skipCode(); err != nil {
				return nil, err
			}
		case "token", "left", "right", "nonassoc", "type":
			l.skipSpace()
			typ := ""
			if l.peek() == '<' {
				l.pos++
				typ = l.word()
				l.skipSpace()
				if l.peek() == '>' {
					l.pos++
				}
			}
			var names []string
			for {
				l.skipSpace()
				if l.peek() == '%' || l.pos >= len(l.src) {
					break
				}
				w := l.word()
				if w == "" {
					return nil, fmt.Errorf("%s:%d: unexpected %q in %%%s", path, l.line, l.peek(), kw)
				}
				names = append(names, w)
			}
			if kw == "left" || kw == "right" || kw == "nonassoc" {
				g.Levels = append(g.Levels, names)
				as := map[string]Assoc{"left": Left, "right": Right, "nonassoc": NonAssoc}[kw]
				g.LevelAsc = append(g.LevelAsc, as)
			}
			for _, n := range names {
				s := g.sym(n)
				if typ != "" {
					s.Type = typ
				}
				switch kw {
				case "token":
					s.Terminal = true
				case "left", "right", "nonassoc":
					s.Terminal = true
					s.Prec = len(g.Levels)
					s.Assoc = g.LevelAsc[len(g.LevelAsc)-1]
				}
			}
		case "start":
			g.Start = l.word()
		default:
			return nil, fmt.Errorf("%s:%d: unknown declaration %%%s", path, l.line, kw)
		}
	}
	// ---- rules
	pendingLHS := ""
	for {
		l.skipSpace()
		if l.pos >= len(l.src) {
			break
		}
		if l.peek() == '%' && l.pos+1 < len(l.src) && l.src[l.pos+1] == '%' {
			break
		}
		lhs := pendingLHS
		pendingLHS = ""
		if lhs == "" {
			lhs = l.word()
		}
		if lhs == "" {
			return nil, fmt.Errorf("%s:%d: expected rule name, found %q", path, l.line, l.peek())
		}
		l.skipSpace()
		if l.peek() != ':' {
			return nil, fmt.Errorf("%s:%d: expected ':' after %s", path, l.line, lhs)
		}
		l.pos++
		endRule := false
		if g.Start == "" {
			g.Start = lhs
		}
		for {
			l.skipSpace()
			p := &Production{Num: len(g.Prods), LHS: lhs, Line: l.line}
			for {
				l.skipSpace()
				c := l.peek()
				if c == '|' || c == ';' {
					break
				}
				if c == '{' {
					if err := l.skipCode(); err != nil {
						return nil, fmt.Errorf("%s:%d: %v", path, l.line, err)
					}
					p.HasCode = true
					continue
				}
				if c == '%' {
					l.pos++
					if w := l.word(); w != "prec" {
						return nil, fmt.Errorf("%s:%d: unexpected %%%s in rule", path, l.line, w)
					}
					p.PrecSym = l.word()
					continue
				}
				w := l.word()
				if w == "" {
					return nil, fmt.Errorf("%s:%d: unexpected %q in rule %s", path, l.line, c, lhs)
				}
				// a rule may end without ';': `name :` starts the next one
				l.skipSpace()
				if l.peek() == ':' && !strings.HasPrefix(w, "'") {
					pendingLHS = w
					endRule = true
					break
				}
				if p.HasCode {
					p.MidRule = true
				}
				p.RHS = append(p.RHS, w)
			}
			g.Prods = append(g.Prods, p)
			g.ByLHS[lhs] = append(g.ByLHS[lhs], p)
			if p.MidRule {
				g.Problems = append(g.Problems, fmt.Sprintf("%s: mid-rule action (line %d)", p, p.Line))
			}
			if endRule {
				break
			}
			if l.peek() == ';' {
				l.pos++
				break
			}
			l.pos++ // '|'
		}
	}
	// classify symbols: anything with productions is a nonterminal; char literals and error are terminals
	for name, s := range g.Symbols {
		if _, ok := g.ByLHS[name]; ok && s.Terminal {
			g.Problems = append(g.Problems, "symbol "+name+" is both a token and a rule")
		}
	}
	for _, p := range g.Prods[1:] {
		for _, r := range p.RHS {
			s := g.sym(r)
			if _, ok := g.ByLHS[r]; !ok {
				if !s.Terminal && r != "error" && !strings.HasPrefix(r, "'") {
					g.Problems = append(g.Problems, fmt.Sprintf("%s: symbol %s is neither a declared token nor a rule", p, r))
				}
				s.Terminal = true
			}
		}
		g.sym(p.LHS)
	}
	return g, nil
}

// RulePrec: the precedence of a production = %prec symbol or its last terminal.
func (g *Grammar) RulePrec(p *Production) (int, Assoc, string) {
	if p.PrecSym != "" {
		s := g.sym(p.PrecSym)
		return s.Prec, s.Assoc, p.PrecSym
	}
	for i := len(p.RHS) - 1; i >= 0; i-- {
		s := g.Symbols[p.RHS[i]]
		if s != nil && s.Terminal {
			return s.Prec, s.Assoc, p.RHS[i]
		}
	}
	return 0, NoPrec, ""
}
