package yacc

import (
	"bytes"
	"fmt"
	"go/ast"
	"go/parser"
	"go/printer"
	"go/token"
	"strconv"
	"strings"

	"verif/internal/report"
)

var tableNames = []string{"yyExca", "yyAct", "yyPact", "yyPgo", "yyR1", "yyR2", "yyChk", "yyDef", "yyTok1", "yyTok2", "yyTok3"}

type genFile struct {
	fset   *token.FileSet
	file   *ast.File
	tables map[string][]int64
	names  map[string][]string // yyToknames, yyStatenames
	consts map[string]string
	funcs  map[string]*ast.FuncDecl
}

func evalInt(e ast.Expr) (int64, bool) {
	switch x := e.(type) {
	case *ast.BasicLit:
		if x.Kind == token.INT {
			v, err := strconv.ParseInt(x.Value, 0, 64)
			return v, err == nil
		}
		if x.Kind == token.CHAR {
			r, _, _, err := strconv.UnquoteChar(x.Value[1:len(x.Value)-1], '\'')
			return int64(r), err == nil
		}
	case *ast.UnaryExpr:
		if v, ok := evalInt(x.X); ok {
			if x.Op == token.SUB {
				return -v, true
			}
			if x.Op == token.ADD {
				return v, true
			}
		}
	case *ast.ParenExpr:
		return evalInt(x.X)
	case *ast.CallExpr:
		if len(x.Args) == 1 {
			return evalInt(x.Args[0])
		}
	}
	return 0, false
}

func readGen(path string) (*genFile, error) {
	fset := token.NewFileSet()
	f, err := parser.ParseFile(fset, path, nil, parser.SkipObjectResolution)
	if err != nil {
		return nil, err
	}
	g := &genFile{fset: fset, file: f, tables: map[string][]int64{}, names: map[string][]string{}, consts: map[string]string{}, funcs: map[string]*ast.FuncDecl{}}
	for _, d := range f.Decls {
		switch x := d.(type) {
		case *ast.FuncDecl:
			name := x.Name.Name
			if x.Recv != nil {
				name = "method:" + name
			}
			g.funcs[name] = x
		case *ast.GenDecl:
			for _, sp := range x.Specs {
				vs, ok := sp.(*ast.ValueSpec)
				if !ok || len(vs.Names) != 1 || len(vs.Values) != 1 {
					continue
				}
				name := vs.Names[0].Name
				if x.Tok == token.CONST {
					var buf bytes.Buffer
					printer.Fprint(&buf, fset, vs.Values[0])
					g.consts[name] = buf.String()
					continue
				}
				cl, ok := vs.Values[0].(*ast.CompositeLit)
				if !ok {
					var buf bytes.Buffer
					printer.Fprint(&buf, fset, vs.Values[0])
					g.consts["var "+name] = buf.String()
					continue
				}
				if name == "yyToknames" || name == "yyStatenames" {
					var ss []string
					for _, el := range cl.Elts {
						if bl, ok := el.(*ast.BasicLit); ok {
							s, _ := strconv.Unquote(bl.Value)
							ss = append(ss, s)
						}
					}
					g.names[name] = ss
					continue
				}
				isTable := false
				for _, t := range tableNames {
					if t == name {
						isTable = true
					}
				}
				if !isTable {
					continue
				}
				var vals []int64
				for _, el := range cl.Elts {
					v, ok := evalInt(el)
					if !ok {
						return nil, fmt.Errorf("%s: table %s has a non-constant element", path, name)
					}
					vals = append(vals, v)
				}
				g.tables[name] = vals
			}
		}
	}
	return g, nil
}

// stripInt rewrites int(x) → x everywhere and removes the case clauses of
// `switch yynt`, so that the committed and the regenerated driver can be
// compared structurally.
func normaliseSkeleton(fd *ast.FuncDecl) string {
	fset := token.NewFileSet()
	var rewrite func(n ast.Node) ast.Node
	rewrite = func(n ast.Node) ast.Node {
		ast.Inspect(n, func(nd ast.Node) bool {
			if sw, ok := nd.(*ast.SwitchStmt); ok {
				if id, ok := sw.Tag.(*ast.Ident); ok && id.Name == "yynt" {
					sw.Body = &ast.BlockStmt{}
					return false
				}
			}
			return true
		})
		return n
	}
	rewrite(fd)
	var buf bytes.Buffer
	cfg := printer.Config{Mode: printer.RawFormat}
	// print without comments: clear doc
	fd.Doc = nil
	cfg.Fprint(&buf, fset, fd)
	s := buf.String()
	// int(expr) → expr: done textually on the printed form with a balanced scan
	return stripIntConv(s)
}

func stripIntConv(s string) string {
	var out strings.Builder
	i := 0
	for i < len(s) {
		if strings.HasPrefix(s[i:], "int(") && (i == 0 || !(isWordByte(s[i-1]))) {
			// find matching paren
			depth := 0
			j := i + 3
			for ; j < len(s); j++ {
				if s[j] == '(' {
					depth++
				} else if s[j] == ')' {
					depth--
					if depth == 0 {
						break
					}
				}
			}
			inner := stripIntConv(s[i+4 : j])
			out.WriteString(inner)
			i = j + 1
			continue
		}
		out.WriteByte(s[i])
		i++
	}
	// whitespace-insensitive
	return strings.Join(strings.Fields(out.String()), " ")
}

func isWordByte(c byte) bool {
	return c == '_' || (c >= 'a' && c <= 'z') || (c >= 'A' && c <= 'Z') || (c >= '0' && c <= '9')
}

var skeletonFuncs = []string{"yyNewParser", "method:Lookahead", "yyTokname", "yyStatname", "yyErrorMessage", "yylex1", "yyParse", "method:Parse"}

// Sync decides rules tables-sync and skeleton-sync for one grammar.
func Sync(label, committed, regenerated string, g *Grammar) *report.RuleResult {
	res := report.NewResult("tables-sync")
	a, err := readGen(committed)
	if err != nil {
		res.Unknown(label+"/read", committed, "", "undecided: "+err.Error())
		return res
	}
	b, err := readGen(regenerated)
	if err != nil {
		res.Unknown(label+"/read", regenerated, "", "undecided: "+err.Error())
		return res
	}
	for _, t := range tableNames {
		res.Count("tables", 1)
		x, y := a.tables[t], b.tables[t]
		key := label + "/" + t
		if x == nil || y == nil {
			res.Bad(key, committed, "", "table "+t+" missing")
			continue
		}
		if len(x) != len(y) {
			res.Bad(key, committed, "", fmt.Sprintf("table %s has %d entries, the grammar generates %d: the compiled automaton is not the one %s describes", t, len(x), len(y), g.File))
			continue
		}
		diff := -1
		for i := range x {
			if x[i] != y[i] {
				diff = i
				break
			}
		}
		if diff >= 0 {
			res.Bad(key, committed, "", fmt.Sprintf("table %s differs from the table generated from the grammar at index %d (%d vs %d): the compiled automaton is not the one the grammar describes", t, diff, x[diff], y[diff]))
		} else {
			res.OK(key, committed, "", fmt.Sprintf("%d entries equal to the regenerated table", len(x)))
		}
	}
	for _, n := range []string{"yyToknames", "yyStatenames"} {
		x, y := a.names[n], b.names[n]
		res.Check(strings.Join(x, "\x00") == strings.Join(y, "\x00"), label+"/"+n, committed, "", fmt.Sprintf("%d names equal", len(x)), n+" differs from the regenerated list")
	}
	// constants: token numbers, yyLast, yyPrivate …
	nconst := 0
	for name, v := range b.consts {
		if name == "var yyErrorVerbose" || name == "var yyDebug" {
			continue
		}
		nconst++
		if a.consts[name] != v {
			res.Bad(label+"/const:"+name, committed, "", fmt.Sprintf("constant %s is %q in the compiled parser, the grammar generates %q", name, a.consts[name], v))
		}
	}
	res.OK(label+"/consts", committed, "", fmt.Sprintf("%d constants (token numbers, yyLast, yyPrivate, …) compared", nconst))
	// R1/R2 agree with my reader of the .y file
	r1, r2 := a.tables["yyR1"], a.tables["yyR2"]
	okNum := len(r1) == len(g.Prods) && len(r2) == len(g.Prods)
	if okNum {
		lhsNum := map[string]int64{}
		for i := 1; i < len(g.Prods); i++ {
			p := g.Prods[i]
			if int(r2[i]) != len(p.RHS) {
				okNum = false
				res.Bad(label+"/numbering", committed, "", fmt.Sprintf("production %d (%s) has %d right-hand-side symbols, yyR2 says %d", i, p, len(p.RHS), r2[i]))
				break
			}
			if n, ok := lhsNum[p.LHS]; ok && n != r1[i] {
				okNum = false
				res.Bad(label+"/numbering", committed, "", fmt.Sprintf("production %d (%s): left-hand side numbered inconsistently in yyR1", i, p))
				break
			}
			lhsNum[p.LHS] = r1[i]
		}
		if okNum {
			res.OK(label+"/numbering", committed, "", fmt.Sprintf("%d productions: numbering of the .y reader agrees with yyR1/yyR2", len(g.Prods)-1))
		}
	} else {
		res.Bad(label+"/numbering", committed, "", fmt.Sprintf("the grammar has %d productions, yyR1 has %d entries", len(g.Prods)-1, len(r1)-1))
	}
	res.Count("productions", len(g.Prods)-1)
	// skeleton
	for _, fn := range skeletonFuncs {
		res.Count("skeleton-funcs", 1)
		x, y := a.funcs[fn], b.funcs[fn]
		key := label + "/skeleton/" + strings.TrimPrefix(fn, "method:")
		if x == nil || y == nil {
			res.Bad(key, committed, "", "driver function "+fn+" missing")
			continue
		}
		sx, sy := normaliseSkeleton(x), normaliseSkeleton(y)
		if sx == sy {
			res.OK(key, committed, fn, "equal to the stock goyacc driver (modulo int conversions and the action switch)")
		} else {
			// locate first difference
			i := 0
			for i < len(sx) && i < len(sy) && sx[i] == sy[i] {
				i++
			}
			lo := i - 40
			if lo < 0 {
				lo = 0
			}
			hi := i + 60
			res.Bad(key, committed, fn, fmt.Sprintf("driver function differs from the stock goyacc skeleton near %q (stock: %q): shift/reduce/error-recovery behaviour is no longer the reference driver's", clip(sx, lo, hi), clip(sy, lo, hi)))
		}
	}
	return res
}

func clip(s string, lo, hi int) string {
	if lo > len(s) {
		lo = len(s)
	}
	if hi > len(s) {
		hi = len(s)
	}
	return s[lo:hi]
}
