// Package load type-checks the repository under analysis with go/packages and
// builds SSA on demand. Nothing is executed.
package load

import (
	"time"
	"fmt"
	"go/ast"
	"go/token"
	"go/types"
	"os"
	"path/filepath"
	"sort"
	"strings"

	"golang.org/x/tools/go/packages"
	"golang.org/x/tools/go/ssa"
	"golang.org/x/tools/go/ssa/ssautil"
)

const ModPath = "github.com/z7zmey/php-parser"

type Program struct {
	Dir   string
	Fset  *token.FileSet
	All   []*packages.Package          // module packages, sorted
	ByRel map[string]*packages.Package // "pkg/ast" -> package

	SSA     *ssa.Program
	SSAPkgs map[string]*ssa.Package
	deep    bool
}

func env() []string {
	e := []string{}
	for _, kv := range os.Environ() {
		if strings.HasPrefix(kv, "GOWORK=") || strings.HasPrefix(kv, "GOFLAGS=") || strings.HasPrefix(kv, "GOPROXY=") ||
			strings.HasPrefix(kv, "GOSUMDB=") || strings.HasPrefix(kv, "GOTOOLCHAIN=") {
			continue
		}
		e = append(e, kv)
	}
	return append(e, "GOWORK=off", "GOFLAGS=-mod=mod", "GOPROXY=off", "GOSUMDB=off", "GOTOOLCHAIN=local")
}

// Load type-checks every package of the module in dir. deep also loads the
// syntax of all dependencies (needed for SSA).
func Load(dir string, deep bool) (*Program, error) {
	// go list hands out files of the build cache (cgo-processed sources of the standard library); a concurrent
	// `go clean -cache` or cache trim by another process makes them vanish under the loader. That is not a fact
	// about the repository: load again (go list refills the cache).
	var p *Program
	var err error
	for attempt := 0; attempt < 4; attempt++ {
		p, err = loadOnce(dir, deep)
		if err == nil {
			return p, nil
		}
		msg := err.Error()
		transient := strings.Contains(msg, "cache entry not found") || strings.Contains(msg, "from cache") ||
			strings.Contains(msg, "ill-typed: internal/") || strings.Contains(msg, "ill-typed: runtime") || strings.Contains(msg, "ill-typed: syscall")
		if !transient {
			return nil, err
		}
		time.Sleep(time.Duration(2+3*attempt) * time.Second)
	}
	return nil, err
}

func loadOnce(dir string, deep bool) (*Program, error) {
	mode := packages.NeedName | packages.NeedFiles | packages.NeedCompiledGoFiles | packages.NeedImports |
		packages.NeedTypes | packages.NeedSyntax | packages.NeedTypesInfo | packages.NeedTypesSizes | packages.NeedModule
	if deep {
		mode |= packages.NeedDeps
	}
	fset := token.NewFileSet()
	cfg := &packages.Config{Mode: mode, Dir: dir, Fset: fset, Env: env(), Tests: false}
	pkgs, err := packages.Load(cfg, "./...")
	if err != nil {
		return nil, err
	}
	p := &Program{Dir: dir, Fset: fset, ByRel: map[string]*packages.Package{}, deep: deep}
	var errs []string
	for _, pk := range pkgs {
		for _, e := range pk.Errors {
			errs = append(errs, e.Error())
		}
		if !strings.HasPrefix(pk.PkgPath, ModPath) {
			continue
		}
		rel := strings.TrimPrefix(strings.TrimPrefix(pk.PkgPath, ModPath), "/")
		p.ByRel[rel] = pk
		p.All = append(p.All, pk)
	}
	if deep {
		packages.Visit(pkgs, nil, func(pk *packages.Package) {
			if pk.IllTyped {
				errs = append(errs, "ill-typed: "+pk.PkgPath)
			}
		})
	}
	if len(errs) > 0 {
		if len(errs) > 8 {
			errs = errs[:8]
		}
		return nil, fmt.Errorf("type-check errors: %s", strings.Join(errs, "; "))
	}
	sort.Slice(p.All, func(i, j int) bool { return p.All[i].PkgPath < p.All[j].PkgPath })
	if len(p.All) == 0 {
		return nil, fmt.Errorf("no packages of %s found under %s", ModPath, dir)
	}
	return p, nil
}

// BuildSSA builds SSA for the whole program (requires deep load).
func (p *Program) BuildSSA() error {
	if p.SSA != nil {
		return nil
	}
	if !p.deep {
		return fmt.Errorf("BuildSSA needs a deep load")
	}
	var initial []*packages.Package
	initial = append(initial, p.All...)
	prog, pkgs := ssautil.AllPackages(initial, ssa.InstantiateGenerics)
	prog.Build()
	p.SSA = prog
	p.SSAPkgs = map[string]*ssa.Package{}
	for i, pk := range initial {
		if pkgs[i] == nil {
			return fmt.Errorf("no SSA for %s", pk.PkgPath)
		}
		rel := strings.TrimPrefix(strings.TrimPrefix(pk.PkgPath, ModPath), "/")
		p.SSAPkgs[rel] = pkgs[i]
	}
	return nil
}

func (p *Program) Pkg(rel string) *packages.Package { return p.ByRel[rel] }

// Pos renders a position relative to the repository root.
func (p *Program) Pos(pos token.Pos) string {
	if !pos.IsValid() {
		return "-"
	}
	ps := p.Fset.Position(pos)
	f := ps.Filename
	if r, err := filepath.Rel(p.Dir, f); err == nil && !strings.HasPrefix(r, "..") {
		f = r
	}
	return fmt.Sprintf("%s:%d", f, ps.Line)
}

// InModule reports whether the object belongs to the analysed module.
func InModule(pkg *types.Package) bool {
	return pkg != nil && strings.HasPrefix(pkg.Path(), ModPath)
}

func Rel(pkg *types.Package) string {
	if pkg == nil {
		return ""
	}
	return strings.TrimPrefix(strings.TrimPrefix(pkg.Path(), ModPath), "/")
}

// FuncDecls returns all function declarations with bodies of a package.
func FuncDecls(pk *packages.Package) []*ast.FuncDecl {
	var out []*ast.FuncDecl
	for _, f := range pk.Syntax {
		for _, d := range f.Decls {
			if fd, ok := d.(*ast.FuncDecl); ok && fd.Body != nil {
				out = append(out, fd)
			}
		}
	}
	return out
}

// Methods returns the methods (with bodies) declared on the named type.
func Methods(pk *packages.Package, typeName string) map[string]*ast.FuncDecl {
	out := map[string]*ast.FuncDecl{}
	for _, fd := range FuncDecls(pk) {
		if fd.Recv == nil || len(fd.Recv.List) != 1 {
			continue
		}
		t := fd.Recv.List[0].Type
		if st, ok := t.(*ast.StarExpr); ok {
			t = st.X
		}
		if id, ok := t.(*ast.Ident); ok && id.Name == typeName {
			out[fd.Name.Name] = fd
		}
	}
	return out
}
