package scandfa

import (
	"encoding/json"
	"fmt"
	"os"
	"sort"
	"strconv"
	"strings"

	"verif/internal/report"
)

// ---- machine-graph ---------------------------------------------------------------------------------------
//
// The scanner is a set of ragel machines (php, property, heredoc, string_var, halt_compiller_…, …) and the
// actions move between them: after `->` the property machine, after `"` the template-string machine, after
// `__halt_compiler` the three machines that expect `(`, `)` and `;`, and a byte a machine has no rule for
// is given back and the php machine takes over. Which token leads from which machine to which is the
// large-scale structure of the scanner; it is small, and it is an oracle: the rule computes from the action
// outcomes the set of edges
//
//	machine --token or free-floating kind or "-" (nothing emitted)--> next machine | call m | return
//
// and requires it to equal the reviewed table testdata/oracle/machine_graph.json (produced from the pinned
// tree, then read against PHP's lexer states). An `fnext` that names another machine in one of the 200
// actions - the fallback of `__halt_compiler()` continuing in the machine that swallows the rest of the file
// (round 6) - changes the set.

type machGraphFile struct {
	Comment string   `json:"comment"`
	Edges   []string `json:"edges"`
}

func (a *Analysis) machineEdges() (map[string]string, []string) {
	m := a.M
	edges := map[string]string{} // edge → position of one action that has it
	var undec []string
	nameOf := func(id string) string {
		if n, err := strconv.Atoi(id); err == nil {
			if mn, ok := m.EntryOf[n]; ok {
				return mn
			}
			return "state" + id
		}
		return id
	}
	for _, mn := range machineNames(a) {
		for _, l := range a.actionBlocks(mn) {
			for _, o := range a.Outcomes(l) {
				if len(o.Undec) > 0 {
					continue
				}
				label := "-"
				if t := o.Tok(); t != "" {
					label = strings.TrimPrefix(t, "token.")
				}
				var target []string
				pos := ""
				for _, e := range o.Events {
					switch e.Kind {
					case "ff":
						if label == "-" {
							label = "ff:" + strings.TrimPrefix(e.ID, "token.")
						}
					case "error":
						if label == "-" {
							label = "error"
						}
					case "cs":
						target = []string{nameOf(e.ID)}
						pos = m.Prog.Pos(e.At)
					case "call":
						parts := strings.SplitN(e.ID, "->", 2)
						if len(parts) == 2 {
							target = []string{"call " + nameOf(parts[1]) + " (back to " + nameOf(parts[0]) + ")"}
						} else {
							target = []string{"call ?"}
						}
						pos = m.Prog.Pos(e.At)
					case "ret":
						target = []string{"return"}
						pos = m.Prog.Pos(e.At)
					}
				}
				if len(target) == 0 {
					continue // stays in the machine
				}
				if strings.HasPrefix(target[0], "state") || strings.Contains(target[0], "lex.") && !strings.HasPrefix(target[0], "call") {
					// a state that is not a machine entry, or a computed state other than a return
					if !strings.Contains(target[0], "lex.stack") {
						undec = append(undec, fmt.Sprintf("%s/%s|%s: %s continues in %s, which is not the entry of a machine", mn, l, mn, l, target[0]))
						continue
					}
					target[0] = "return"
				}
				edge := fmt.Sprintf("%s --%s--> %s", mn, label, target[0])
				if _, ok := edges[edge]; !ok {
					edges[edge] = pos
				}
			}
		}
	}
	return edges, undec
}

func (a *Analysis) MachineGraph(oracleFile string) *report.RuleResult {
	res := report.NewResult("machine-graph")
	edges, undec := a.machineEdges()
	for _, u := range undec {
		kv := strings.SplitN(u, "|", 2)
		res.Unknown("edge/"+kv[0], "-", "", "undecided:idiom: "+kv[1])
	}
	if os.Getenv("VERIF_DUMP_GRAPH") != "" {
		var es []string
		for e := range edges {
			es = append(es, e)
		}
		sort.Strings(es)
		b, _ := json.MarshalIndent(machGraphFile{Comment: "edges between the machines of the scanner: machine --token (or ff:kind, error, - for nothing emitted)--> next machine | call | return", Edges: es}, "", " ")
		os.WriteFile(os.Getenv("VERIF_DUMP_GRAPH"), append(b, '\n'), 0644)
	}
	raw, err := os.ReadFile(oracleFile)
	if err != nil {
		res.Unknown("oracle", "-", "", "undecided:anchor: "+err.Error())
		return res
	}
	var of machGraphFile
	if err := json.Unmarshal(raw, &of); err != nil {
		res.Unknown("oracle", "-", "", "undecided:anchor: "+err.Error())
		return res
	}
	want := map[string]bool{}
	for _, e := range of.Edges {
		want[e] = true
	}
	var all []string
	for e := range edges {
		all = append(all, e)
	}
	for e := range want {
		if _, ok := edges[e]; !ok {
			all = append(all, e)
		}
	}
	sort.Strings(all)
	for _, e := range all {
		res.Count("edges", 1)
		pos, have := edges[e]
		switch {
		case have && want[e]:
			res.OK(e, pos, "", "in the reviewed table")
		case have:
			res.Bad(e, pos, "", "the scanner moves between its machines in a way the reviewed table does not have: "+e)
		default:
			res.Bad(e, "-", "", "the reviewed table has an edge the scanner no longer has: "+e)
		}
	}
	return res
}
