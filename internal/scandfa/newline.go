package scandfa

import (
	"fmt"
	"go/ast"
	"go/constant"
	"go/token"
	"go/types"
)

// Scenario for the evaluation of the conditions inside an action block that runs while the
// scanner looks at one byte: the byte under the cursor is known, the byte after it is known,
// known to differ from one value, or unknown.
type byteScen struct {
	cur     byte
	next    int // a byte value, or -1: unknown
	nextNot int // when next == -1: the byte after the cursor is not this value (-1: nothing known)
	atEOF   bool
}

func (t tri) not() tri {
	switch t {
	case triFalse:
		return triTrue
	case triTrue:
		return triFalse
	}
	return triUnknown
}

// byteAt: what the scenario says about lex.data[ix], ix relative to the cursor at block entry.
// known value (>=0), or -1 with a value it is known not to be (or -1).
func (sc byteScen) byteAt(ix Lin) (val, not int) {
	switch ix {
	case Lin{P: 1}:
		return int(sc.cur), -1
	case Lin{P: 1, K: 1}:
		return sc.next, sc.nextNot
	}
	return -1, -1
}

func (m *Machine) condByte(e ast.Expr, rec CondRec) (Lin, bool) {
	e = unparen(e)
	if id, ok := e.(*ast.Ident); ok {
		if obj := m.info().ObjectOf(id); obj != nil {
			if ix, ok := rec.Bytes[obj]; ok {
				return ix, true
			}
		}
		return Lin{}, false
	}
	if c, ok := e.(*ast.CallExpr); ok && len(c.Args) == 1 { // byte(x) / rune(x) conversions
		if tv, ok := m.info().Types[c.Fun]; ok && tv.IsType() {
			return m.condByte(c.Args[0], rec)
		}
	}
	tmp := &Outcome{P: rec.P, TS: Lin{TS: 1}, TE: Lin{TE: 1}, ints: rec.Ints}
	return m.dataIndex(e, tmp)
}

func (m *Machine) constByte(e ast.Expr) (int, bool) {
	if tv := m.info().Types[unparen(e)]; tv.Value != nil {
		if v, ok := constant.Int64Val(constant.ToInt(tv.Value)); ok && v >= 0 && v < 256 {
			return int(v), true
		}
	}
	return 0, false
}

// evalCond evaluates a condition of the action code under a byte scenario.
func (m *Machine) evalCond(e ast.Expr, rec CondRec, sc byteScen) tri {
	e = unparen(e)
	switch x := e.(type) {
	case *ast.UnaryExpr:
		if x.Op == token.NOT {
			return m.evalCond(x.X, rec, sc).not()
		}
	case *ast.BinaryExpr:
		switch x.Op {
		case token.LAND:
			l, r := m.evalCond(x.X, rec, sc), m.evalCond(x.Y, rec, sc)
			if l == triFalse || r == triFalse {
				return triFalse
			}
			if l == triTrue && r == triTrue {
				return triTrue
			}
			return triUnknown
		case token.LOR:
			l, r := m.evalCond(x.X, rec, sc), m.evalCond(x.Y, rec, sc)
			if l == triTrue || r == triTrue {
				return triTrue
			}
			if l == triFalse && r == triFalse {
				return triFalse
			}
			return triUnknown
		case token.LSS, token.LEQ, token.GTR, token.GEQ, token.EQL, token.NEQ:
			if r, ok := m.evalLenCmp(x, rec, sc); ok {
				return r
			}
			if x.Op != token.EQL && x.Op != token.NEQ {
				return triUnknown
			}
			var ix Lin
			var c int
			ok := false
			if i, ok1 := m.condByte(x.X, rec); ok1 {
				if k, ok2 := m.constByte(x.Y); ok2 {
					ix, c, ok = i, k, true
				}
			} else if i, ok1 := m.condByte(x.Y, rec); ok1 {
				if k, ok2 := m.constByte(x.X); ok2 {
					ix, c, ok = i, k, true
				}
			}
			if !ok {
				return triUnknown
			}
			v, not := sc.byteAt(ix)
			res := triUnknown
			if v >= 0 {
				if v == c {
					res = triTrue
				} else {
					res = triFalse
				}
			} else if not >= 0 && not == c {
				res = triFalse
			}
			if x.Op == token.NEQ {
				res = res.not()
			}
			return res
		}
	}
	return triUnknown
}

// evalLenCmp: a comparison of a cursor-relative offset with the length of the input. The cursor is inside
// the input (p < len); whether p+1 is depends on the scenario.
func (m *Machine) evalLenCmp(x *ast.BinaryExpr, rec CondRec, sc byteScen) (tri, bool) {
	isLen := func(e ast.Expr) bool {
		s := types.ExprString(unparen(e))
		return s == "len(lex.data)" || s == "lex.pe"
	}
	tmp := &Outcome{P: rec.P, TS: Lin{TS: 1}, TE: Lin{TE: 1}, ints: rec.Ints}
	var a Lin
	op := x.Op
	switch {
	case isLen(x.Y):
		v, ok := m.lin(x.X, tmp)
		if !ok {
			return triUnknown, false
		}
		a = v
	case isLen(x.X):
		v, ok := m.lin(x.Y, tmp)
		if !ok {
			return triUnknown, false
		}
		a = v
		switch op { // len OP a  ==  a OP' len
		case token.LSS:
			op = token.GTR
		case token.LEQ:
			op = token.GEQ
		case token.GTR:
			op = token.LSS
		case token.GEQ:
			op = token.LEQ
		}
	default:
		return triUnknown, false
	}
	if a.P != 1 || a.TS != 0 || a.TE != 0 {
		return triUnknown, true
	}
	k := a.K // a = p + k ; len = p+1 exactly (at the end of the input), or >= p+2 (a next byte exists), or >= p+1 (unknown)
	lo, exact := 1, false
	switch {
	case sc.atEOF:
		exact = true
	case sc.next >= 0 || sc.nextNot >= 0:
		lo = 2
	}
	// compare k with L where L = lo exactly, or L >= lo
	cmp := func(f func(k, l int) bool) tri {
		if exact {
			if f(k, lo) {
				return triTrue
			}
			return triFalse
		}
		// L ranges over [lo, inf): decide when the answer is the same for all of them
		first := f(k, lo)
		for l := lo; l < lo+8 || l <= k+2; l++ {
			if f(k, l) != first {
				return triUnknown
			}
		}
		if first {
			return triTrue
		}
		return triFalse
	}
	switch op {
	case token.LSS:
		return cmp(func(k, l int) bool { return k < l }), true
	case token.LEQ:
		return cmp(func(k, l int) bool { return k <= l }), true
	case token.GTR:
		return cmp(func(k, l int) bool { return k > l }), true
	case token.GEQ:
		return cmp(func(k, l int) bool { return k >= l }), true
	case token.EQL:
		return cmp(func(k, l int) bool { return k == l }), true
	case token.NEQ:
		return cmp(func(k, l int) bool { return k != l }), true
	}
	return triUnknown, true
}

// feasible: no branch decision of the path is contradicted by the scenario.
func (m *Machine) feasible(o *Outcome, sc byteScen) bool {
	for _, c := range o.CondX {
		v := m.evalCond(c.X, c, sc)
		if c.Neg {
			v = v.not()
		}
		if v == triFalse {
			return false
		}
	}
	return true
}

// lineStarts checks the line-start records of one path that consumes the byte under the cursor:
// a LF, and a CR that is not followed by a LF, each start a line right after themselves (p+1);
// a CR that is followed by a LF records nothing (the LF will), and nothing else is recorded.
func lineStarts(o *Outcome, sc byteScen) string {
	want := 1
	if sc.cur == '\r' && sc.next == '\n' {
		want = 0
	}
	if sc.cur == '\r' && sc.atEOF {
		want = -1 // nothing follows: no token can lie on the line after it, 0 or 1 record are both right
	}
	n := 0
	for _, e := range o.Events {
		if e.Kind != "newline" {
			continue
		}
		if len(e.ID) > 0 && e.ID[0] == '?' {
			return fmt.Sprintf("records a line start at %s, which is not an offset relative to the cursor", e.ID[1:])
		}
		if e.A != (Lin{P: 1, K: 1}) {
			return fmt.Sprintf("records a line start at %s; the line after the terminator at p starts at p+1", e.A)
		}
		n++
	}
	if want == -1 && n <= 1 {
		return ""
	}
	if n != want {
		return fmt.Sprintf("records %d line start(s), expected %d", n, want)
	}
	return ""
}

