package scandfa

import (
	"fmt"
	"strconv"
	"strings"
)

// bset is a set of bytes.
type bset [4]uint64

func (s *bset) add(b byte)      { s[b>>6] |= 1 << (b & 63) }
func (s bset) has(b byte) bool  { return s[b>>6]&(1<<(b&63)) != 0 }
func (s bset) empty() bool      { return s[0]|s[1]|s[2]|s[3] == 0 }
func (s bset) bytes() []byte {
	var out []byte
	for b := 0; b < 256; b++ {
		if s.has(byte(b)) {
			out = append(out, byte(b))
		}
	}
	return out
}
func (s bset) String() string {
	bs := s.bytes()
	if len(bs) > 6 {
		return fmt.Sprintf("%q…(%d)", string(bs[:6]), len(bs))
	}
	return fmt.Sprintf("%q", string(bs))
}

func fullSet() bset { return bset{^uint64(0), ^uint64(0), ^uint64(0), ^uint64(0)} }

// classes groups the bytes of within by the set of labels state n can jump to.
func (a *Analysis) classes(n int, within bset) map[string]bset {
	out := map[string]bset{}
	for b := 0; b < 256; b++ {
		if !within.has(byte(b)) {
			continue
		}
		var ls []string
		for t := range a.Targets(n, byte(b)) {
			ls = append(ls, t)
		}
		sortStrings(ls)
		k := strings.Join(ls, ",")
		s := out[k]
		s.add(byte(b))
		out[k] = s
	}
	return out
}

func sortStrings(ss []string) {
	for i := 1; i < len(ss); i++ {
		for j := i; j > 0 && ss[j] < ss[j-1]; j-- {
			ss[j], ss[j-1] = ss[j-1], ss[j]
		}
	}
}

func stateOfLabel(l string) (int, bool) {
	if strings.HasPrefix(l, "st") && !strings.HasPrefix(l, "st_") {
		n, err := strconv.Atoi(strings.TrimPrefix(l, "st"))
		return n, err == nil
	}
	return 0, false
}

// pathsTo: the byte-class strings of length k that the scanner can have
// consumed from the entry of machine mn when it executes block (whose match is
// exactly those k bytes).
func (a *Analysis) pathsTo(mn, block string, k int) [][]bset {
	var out [][]bset
	seen := map[string]bool{}
	var dfs func(n int, prefix []bset)
	var follow func(label string, prefix []bset, depth int)
	follow = func(label string, prefix []bset, depth int) {
		if depth > 6 {
			return
		}
		if label == block {
			if len(prefix) >= k {
				key := fmt.Sprint(prefix[:k])
				if !seen[key] {
					seen[key] = true
					out = append(out, append([]bset{}, prefix[:k]...))
				}
			}
			return
		}
		if n, ok := stateOfLabel(label); ok {
			if n == 0 {
				return
			}
			if _, isEntry := a.M.EntryOf[n]; isEntry {
				return
			}
			if len(prefix) <= k {
				dfs(n, prefix)
			}
			return
		}
		if !strings.HasPrefix(label, "tr") {
			return
		}
		for _, o := range a.Outcomes(label) {
			if a.boundary(o) || o.Exit == "" {
				continue
			}
			if o.P != (Lin{P: 1}) {
				continue // blocks that move the cursor inside a match are not followed
			}
			follow(o.Exit, prefix, depth+1)
		}
	}
	dfs = func(n int, prefix []bset) {
		if len(prefix) > k {
			return
		}
		for _, cls := range a.classes(n, fullSet()) {
			rep := cls.bytes()[0]
			for t := range a.Targets(n, rep) {
				follow(t, append(append([]bset{}, prefix...), cls), 0)
			}
		}
	}
	dfs(a.M.Entries[mn], nil)
	return out
}

// flowSeeds runs the (d,e) dataflow from arbitrary seeds inside one token scan
// and returns the smallest possible length of the token step that follows.
func (a *Analysis) minStepFrom(seeds map[string]DE) (int, string) {
	m := a.M
	at := map[string]DE{}
	var work []string
	push := func(l string, de DE) {
		old, ok := at[l]
		nw := de
		if ok {
			nw = DE{D: old.D.join(de.D), E: old.E.join(de.E)}
			if nw.D.Hi > old.D.Hi && nw.D.Hi > 6 {
				nw.D.Hi = satur
			}
			if nw.E.Def && old.E.Def && nw.E.Hi > old.E.Hi && nw.E.Hi > 6 {
				nw.E.Hi = satur
			}
			if old.E.Def != de.E.Def {
				nw.E = Itv{} // te may not have been marked yet on some path
			}
		}
		if !ok || nw != old {
			at[l] = nw
			work = append(work, l)
		}
	}
	for l, de := range seeds {
		push(l, de)
	}
	min, where := satur, ""
	note := func(v int, w string) {
		if v < min {
			min, where = v, w
		}
	}
	for steps := 0; len(work) > 0 && steps < 200000; steps++ {
		l := work[0]
		work = work[1:]
		de := at[l]
		switch {
		case strings.HasPrefix(l, "st_case_"):
			n, _ := strconv.Atoi(strings.TrimPrefix(l, "st_case_"))
			seen := map[string]bool{}
			for b := 0; b < 256; b++ {
				for t := range a.Targets(n, byte(b)) {
					seen[t] = true
				}
			}
			if t := m.EOF[n]; t != "" {
				seen[t] = true
			}
			for t := range seen {
				push(t, de)
			}
		case strings.HasPrefix(l, "st") && !strings.HasPrefix(l, "st_"):
			n := strings.TrimPrefix(l, "st")
			if n == "0" {
				continue
			}
			push("st_case_"+n, DE{D: de.D.shift(1), E: de.E})
		case strings.HasPrefix(l, "tr"):
			for _, o := range a.Outcomes(l) {
				if len(o.Undec) > 0 {
					note(0, l+" (not interpreted)")
					continue
				}
				if o.Exit == "st0" {
					continue
				}
				if a.boundary(o) {
					ef := o.TE.rel(de)
					if !ef.Def {
						note(0, l+" (length unknown)")
					} else {
						note(ef.Lo, l)
					}
					continue
				}
				push(o.Exit, DE{D: o.P.rel(de), E: o.TE.rel(de)})
			}
		}
	}
	return min, where
}

// replayMin: machine mn2 is entered and the next bytes are known to be one of
// the strings (a set of bytes per position); the smallest length the next
// token step can have.
func (a *Analysis) replayMin(mn2 string, strs [][]bset) (int, string) {
	min, where := satur, ""
	note := func(v int, w string) {
		if v < min {
			min, where = v, w
		}
	}
	for _, str := range strs {
		k := len(str)
		var run func(label string, de DE, depth int)
		run = func(label string, de DE, depth int) {
			if depth > 64 {
				note(0, "replay too deep")
				return
			}
			switch {
			case strings.HasPrefix(label, "st_case_"):
				n, _ := strconv.Atoi(strings.TrimPrefix(label, "st_case_"))
				if !(de.D.Def && de.D.Lo == de.D.Hi) || de.D.Lo >= k {
					v, w := a.minStepFrom(map[string]DE{label: de})
					note(v, w)
					return
				}
				for _, cls := range a.classes(n, str[de.D.Lo]) {
					rep := cls.bytes()[0]
					for t := range a.Targets(n, rep) {
						run(t, de, depth+1)
					}
				}
			case strings.HasPrefix(label, "st") && !strings.HasPrefix(label, "st_"):
				n := strings.TrimPrefix(label, "st")
				if n == "0" {
					return
				}
				run("st_case_"+n, DE{D: de.D.shift(1), E: de.E}, depth+1)
			case strings.HasPrefix(label, "tr"):
				for _, o := range a.Outcomes(label) {
					if o.Exit == "st0" {
						continue
					}
					if len(o.Undec) > 0 {
						note(0, label+" (not interpreted)")
						continue
					}
					if a.boundary(o) {
						ef := o.TE.rel(de)
						if !ef.Def {
							note(0, label+" (length unknown)")
						} else {
							note(ef.Lo, label)
						}
						continue
					}
					run(o.Exit, DE{D: o.P.rel(de), E: o.TE.rel(de)}, depth+1)
				}
			}
		}
		run(fmt.Sprintf("st_case_%d", a.M.Entries[mn2]), DE{D: Itv{Def: true}}, 0)
	}
	if len(strs) == 0 {
		return 0, "no replay string found"
	}
	return min, where
}

// minMatchEndingWith: the length of the shortest match of machine mn that ends
// with s and is handled by block (whose outcome marks the end of the match at
// the current byte: te = p, or just after it: te = p+1). -1: no match ending with s reaches the block; -2: unknown.
func (a *Analysis) minMatchEndingWith(mn, block, s string, o *Outcome) int {
	// which bytes belong to the match when the block runs?
	incl := 0
	switch {
	case o.TE.P == 1 && o.TE.TE == 0 && o.TE.TS == 0:
		// te was set from p in this block (before the unget moved it): te = p + c - len(s)
		incl = o.TE.K + len(s) // 1: current byte included, 0: excluded
	default:
		return -2
	}
	if incl != 0 && incl != 1 {
		return -2
	}
	type node struct {
		n   int
		kmp int
	}
	// kmp automaton for s
	next := func(kmp int, b byte) int {
		cur := s[:kmp] + string([]byte{b})
		for l := len(s); l > 0; l-- {
			if l <= len(cur) && strings.HasSuffix(cur, s[:l]) {
				return l
			}
		}
		return 0
	}
	dist := map[node]int{{a.M.Entries[mn], 0}: 0}
	queue := []node{{a.M.Entries[mn], 0}}
	best := -1
	for len(queue) > 0 {
		cur := queue[0]
		queue = queue[1:]
		d := dist[cur]
		if best >= 0 && d >= best {
			continue
		}
		// end of input in this state: the eof action sees the whole consumed text as the match
		if t := a.M.EOF[cur.n]; t != "" && incl == 0 && cur.kmp == len(s) {
			var reaches func(l string, depth int) bool
			reaches = func(l string, depth int) bool {
				if l == block {
					return true
				}
				if depth > 4 || !strings.HasPrefix(l, "tr") {
					return false
				}
				for _, o2 := range a.Outcomes(l) {
					if !a.boundary(o2) && reaches(o2.Exit, depth+1) {
						return true
					}
				}
				return false
			}
			if reaches(t, 0) && (best < 0 || d < best) {
				best = d
			}
		}
		for b := 0; b < 256; b++ {
			for t := range a.Targets(cur.n, byte(b)) {
				k2 := next(cur.kmp, byte(b))
				var visit func(l string, depth int)
				visit = func(l string, depth int) {
					if depth > 5 {
						return
					}
					if l == block {
						// match = consumed bytes (+ current byte if included)
						if incl == 1 && k2 == len(s) {
							if best < 0 || d+1 < best {
								best = d + 1
							}
						}
						if incl == 0 && cur.kmp == len(s) {
							if best < 0 || d < best {
								best = d
							}
						}
						return
					}
					if n, ok := stateOfLabel(l); ok {
						if _, isEntry := a.M.EntryOf[n]; isEntry || n == 0 {
							return
						}
						nd := node{n, k2}
						if _, seen := dist[nd]; !seen {
							dist[nd] = d + 1
							queue = append(queue, nd)
						}
						return
					}
					if strings.HasPrefix(l, "tr") {
						for _, o2 := range a.Outcomes(l) {
							if a.boundary(o2) || o2.P != (Lin{P: 1}) {
								continue
							}
							visit(o2.Exit, depth+1)
						}
					}
				}
				visit(t, 0)
			}
		}
	}
	return best
}
