package scandfa

import (
	"fmt"
	"go/constant"
	"go/types"
	"os"
	"strings"
	"sort"

	"verif/internal/report"
)

// EofFinal: at the end of the input the scanner runs, for the state it is in,
// the action listed in the eof switch. An action that accepts everything
// scanned so far as one token (te = p) is only right in a state in which the
// pattern is complete. In ragel's generated code a state in which a pattern is
// complete is a state that some byte leaves through that same "the token ends
// before this byte" action; a state that no byte can leave that way (the inside
// of a comment that still needs its "*/", of a quoted string, …) must fall back
// at the end of the input to the last marked end (p = te-1, the token recorded
// by act), which makes the unterminated construct visible as an error token or
// a syntax error.
//
// Rule: for every state S whose eof action T accepts the scanned text, some
// byte b leads from S to the same action T holding b back.
func (a *Analysis) EofFinal() *report.RuleResult {
	res := report.NewResult("eof-final")
	m := a.M
	accepting := func(l string) (acc, back, other bool) {
		for _, o := range a.Outcomes(l) {
			switch {
			case o.TE.P == 1 && o.TE.TE == 0:
				acc = true
			case o.TE == (Lin{TE: 1}) && o.P.TE == 1 && o.P.P == 0:
				back = true
			default:
				other = true
			}
		}
		return
	}
	firstFinal := -1
	if c, ok := m.Pkg.Types.Scope().Lookup("lexer_first_final").(*types.Const); ok {
		if v, ok := constant.Int64Val(c.Val()); ok {
			firstFinal = int(v)
		}
	}
	var states []int
	for n := range m.EOF {
		states = append(states, n)
	}
	sort.Ints(states)
	for _, n := range states {
		label := m.EOF[n]
		if label == "" {
			continue
		}
		mn := ""
		for _, cand := range machineNames(a) {
			if _, ok := a.Witness[cand][n]; ok {
				mn = cand
				break
			}
		}
		key := a.stateKey(mn, n)
		acc, back, other := accepting(label)
		res.Count("eof-states", 1)
		pos := "-"
		if b := m.Blocks[label]; b != nil {
			pos = m.Prog.Pos(b.Pos)
		}
		if os.Getenv("VERIF_EOFDUMP") != "" {
			fmt.Printf("eofdump state=%d label=%s acc=%v back=%v other=%v\n", n, label, acc, back, other)
		}
		switch {
		case acc:
			res.Count("accepting", 1)
			// (1) the state is one of ragel's final states (numbered from lexer_first_final on)
			if firstFinal < 0 {
				res.Unknown(key, pos, label, "undecided:anchor: constant lexer_first_final not found")
				continue
			}
			if n < firstFinal {
				res.Bad(key, pos, label, fmt.Sprintf("state %d is not a final state of the scanner (lexer_first_final = %d): no pattern is complete here (the inside of a comment, string, cast, …), yet at the end of the input action %s accepts everything scanned so far as a token instead of falling back to the last complete match: an unterminated construct is accepted silently", n, firstFinal, label))
				continue
			}
			// (2) when some byte ends the token in this state (holding the byte back), the end of the input ends it the same way
			leaves := map[string]bool{}
			for b := 0; b < 256; b++ {
				for t := range a.Targets(n, byte(b)) {
					if !strings.HasPrefix(t, "tr") {
						continue
					}
					for _, o := range a.Outcomes(t) {
						if a.boundary(o) && o.TE == (Lin{P: 1}) && o.Has("ungetstr") == nil && o.Has("unget") == nil {
							leaves[t] = true
						}
					}
				}
			}
			if len(leaves) == 0 || leaves[label] {
				res.OK(key, pos, label, "a final state; the end of the input ends the token as a byte that cannot continue it does")
			} else {
				var ls []string
				for l := range leaves {
					ls = append(ls, l)
				}
				sort.Strings(ls)
				res.Bad(key, pos, label, fmt.Sprintf("state %d: a byte that cannot continue the token ends it through %s, but the end of the input ends it through %s: the last token of a file is classified differently from the same text followed by another byte", n, strings.Join(ls, ", "), label))
			}
		case back && !other:
			res.Count("backtracking", 1)
			res.OK(key, pos, label, "falls back to the last marked end")
		default:
			res.Count("other", 1)
			res.OK(key, pos, label, "neither accepts nor backtracks (error / fixed token)")
		}
	}
	return res
}
