package scandfa

import (
	"os"
	"fmt"
	"go/ast"
	"go/constant"
	"go/types"
	"sort"
	"strings"

	"verif/internal/ceval"
	"verif/internal/report"
)

// ---- comment-kind --------------------------------------------------------------------------------------
//
// Whether a block comment is recorded as a comment or as a doc comment is decided inside the action that
// records it, by a condition over the token's bytes and length - not by the path through the automaton
// (lexeme-of decides that the text is a block comment). The rule takes every action block that can record
// both kinds, evaluates its statements from source (package ceval; nothing is compiled or run) on every
// block comment `/*` body `*/` with a body of at most three bytes over {'*', '/', ' ', 'a', LF} (the
// bytes the decision can tell apart: star, slash, blank, anything else, a line terminator) and compares
// the kind recorded with the repository's rule: a doc comment starts with `/**` and is longer than `/**/`.
// The bytes and the length the decision reads lie within the first three bytes and `te - ts`; a read
// elsewhere makes the evaluation depend on more than the family varies and is reported.

func specDocComment(text string) bool { return len(text) > 4 && strings.HasPrefix(text, "/**") }

func (a *Analysis) CommentKind() *report.RuleResult {
	res := report.NewResult("comment-kind")
	m := a.M
	info := m.info()
	var lexObj types.Object
	if m.Lex != nil && m.Lex.Recv != nil && len(m.Lex.Recv.List) == 1 && len(m.Lex.Recv.List[0].Names) == 1 {
		lexObj = info.Defs[m.Lex.Recv.List[0].Names[0]]
	}
	if lexObj == nil {
		res.Unknown("Lex", "-", "", "undecided:anchor: the receiver of Lex was not found")
		return res
	}
	// the variable the token under construction is kept in: the first argument of the recording call
	kindVal := func(name string) (int64, bool) {
		for _, imp := range m.Pkg.Imports {
			if o := imp.Types.Scope().Lookup(name); o != nil {
				if c, ok := o.(*types.Const); ok {
					return constant.Int64Val(constant.ToInt(c.Val()))
				}
			}
		}
		return 0, false
	}
	vComment, ok1 := kindVal("T_COMMENT")
	vDoc, ok2 := kindVal("T_DOC_COMMENT")
	if !ok1 || !ok2 {
		res.Unknown("kinds", "-", "", "undecided:anchor: the constants T_COMMENT / T_DOC_COMMENT were not found in the imported packages")
		return res
	}
	// bodies
	alpha := []byte{'*', '/', ' ', 'a', '\n'}
	var bodies []string
	var gen func(prefix string, n int)
	gen = func(prefix string, n int) {
		bodies = append(bodies, prefix)
		if n == 0 {
			return
		}
		for _, c := range alpha {
			gen(prefix+string([]byte{c}), n-1)
		}
	}
	depth := 3
	if os.Getenv("VERIF_TIER") == "thorough" {
		depth = 5 // 3906 bodies instead of 156
	}
	gen("", depth)
	var texts []string
	for _, b := range bodies {
		t := "/*" + b + "*/"
		if strings.Index(t[2:], "*/") == len(t)-4 { // the comment ends at its first `*/`
			texts = append(texts, t)
		}
	}
	sort.Strings(texts)
	used := map[string]int{}
	for _, mn := range machineNames(a) {
		for _, l := range a.actionBlocks(mn) {
			both := map[string]bool{}
			var bEnd *Lin
			uniform := true
			for _, o := range a.Outcomes(l) {
				for _, e := range o.Events {
					if e.Kind == "ff" && (strings.HasSuffix(e.ID, "T_COMMENT") || strings.HasSuffix(e.ID, "T_DOC_COMMENT")) {
						both[e.ID] = true
						if e.A != (Lin{TS: 1}) {
							uniform = false
						}
						b := e.B
						if bEnd == nil {
							bEnd = &b
						} else if *bEnd != b {
							uniform = false
						}
					}
				}
			}
			if len(both) < 2 {
				continue
			}
			res.Count("deciding-blocks", 1)
			blk := m.Blocks[l]
			key := a.blockKey(mn, l, used)
			pos := m.Prog.Pos(blk.Pos)
			if !uniform || bEnd == nil || bEnd.TS != 0 || (bEnd.P == 1) == (bEnd.TE == 1) {
				res.Unknown(key, pos, l, "undecided:idiom: the free-floating tokens of this block are not all recorded from [ts, one end expression in p or te)")
				continue
			}
			const off = 3
			var bad []string
			undec := ""
			n := 0
			for _, text := range texts {
				data := append([]byte("<?p"), text...)
				data = append(data, '\n', 'x', ';')
				end := off + len(text)
				p, te := 0, 0
				if bEnd.P == 1 {
					p = end - bEnd.K
				} else {
					te = end - bEnd.K
					p = te
				}
				lex := &ceval.Struct{Type: "Lexer", Fields: map[string]interface{}{
					"data": ceval.Bytes{B: data}, "p": int64(p), "pe": int64(len(data)), "ts": int64(off), "te": int64(te), "cs": int64(0), "act": int64(0), "top": int64(0),
				}}
				type rec struct{ kind, a, b int64 }
				var recs []rec
				in := ceval.New(m.Pkg)
				in.Ext = func(fn *types.Func, recv interface{}, args []interface{}) ([]interface{}, bool) {
					if fn.Name() == "addFreeFloatingToken" && len(args) == 4 {
						k, _ := args[1].(int64)
						x, _ := args[2].(int64)
						y, _ := args[3].(int64)
						recs = append(recs, rec{k, x, y})
						return nil, true
					}
					return nil, false
				}
				vars := map[types.Object]interface{}{lexObj: lex}
				// locals of Lex the block only hands on (the token under construction)
				for _, st := range blk.Stmts {
					ast.Inspect(st, func(nd ast.Node) bool {
						if id, ok := nd.(*ast.Ident); ok {
							if v, ok := info.Uses[id].(*types.Var); ok && v != lexObj && !v.IsField() && v.Pkg() == m.Pkg.Types && v.Parent() != m.Pkg.Types.Scope() {
								if _, ok := vars[v]; !ok && (v.Pos() < blk.Stmts[0].Pos() || v.Pos() > blk.Stmts[len(blk.Stmts)-1].End()) {
									if _, isPtr := v.Type().Underlying().(*types.Pointer); isPtr {
										vars[v] = ceval.Opaque{What: v.Name()}
									}
								}
							}
						}
						return true
					})
				}
				_, st, why := in.Exec(blk.Stmts, info, vars)
				n++
				switch st {
				case ceval.Unsupported, ceval.Diverged:
					undec = fmt.Sprintf("on %q the action cannot be evaluated: %s", text, why)
				case ceval.Panic:
					bad = append(bad, fmt.Sprintf("on %q the action panics: %s", text, why))
				default:
					want := vComment
					wantName := "a comment"
					if specDocComment(text) {
						want, wantName = vDoc, "a doc comment"
					}
					switch {
					case len(recs) != 1:
						bad = append(bad, fmt.Sprintf("on %q the action records %d free-floating tokens", text, len(recs)))
					case recs[0].a != off || recs[0].b != int64(end):
						bad = append(bad, fmt.Sprintf("on %q the action records bytes [%d,%d) of the token's [0,%d)", text, recs[0].a-off, recs[0].b-off, len(text)))
					case recs[0].kind != want:
						got := "another kind"
						if recs[0].kind == vComment {
							got = "a comment"
						} else if recs[0].kind == vDoc {
							got = "a doc comment"
						}
						bad = append(bad, fmt.Sprintf("%q is recorded as %s, it is %s", text, got, wantName))
					}
				}
				if undec != "" || len(bad) >= 4 {
					break
				}
			}
			res.Count("scenarios", n)
			switch {
			case undec != "":
				res.Unknown(key, pos, l, "undecided:idiom: "+undec)
			case len(bad) > 0:
				res.Bad(key, pos, l, "a block comment is a doc comment exactly when it starts with `/**` and is longer than `/**/`; "+strings.Join(bad, "; "))
			default:
				res.OK(key, pos, l, fmt.Sprintf("records the kind the rule prescribes on all %d block comments with bodies of up to %d bytes", n, depth))
			}
		}
	}
	return res
}
