package scandfa

import (
	"fmt"
	"go/ast"
	"go/constant"
	"go/token"
	"go/types"
	"sort"
	"strings"

	"verif/internal/ceval"
	"verif/internal/load"
	"verif/internal/report"
)

// ---- heredoc-spec ------------------------------------------------------------------------------------
//
// Where a heredoc or nowdoc body ends is decided by hand-written look-ahead predicates called from the
// transition conditions of the heredoc and nowdoc machines. The rule takes that condition as it stands
// in Lex, evaluates it from source (package ceval: the predicates and what they call are interpreted from
// their syntax trees, nothing is compiled or run) on a family of scenarios, and compares the outcome
// with PHP's rule for the configured version:
//
//	before 7.3  the closing label starts in column 0, is followed by an optional `;` and then a line
//	            terminator or the end of the input;
//	since 7.3   the closing label may be indented by blanks and tabs and must not be followed by a
//	            label character [A-Za-z0-9_\x80-\xff].
//
// Scenarios: previous byte in {LF, CR, other} x indentation in {none, blank, tab, two} x what stands
// where the label would be in {the label, the label with its last byte changed, a proper prefix} x
// every sequence of 0, 1 or 2 following bytes over the alphabet of the constants the code compares
// bytes with plus one representative of each class of PHP's label characters x labels of one and two
// bytes x versions 5.6, 7.2, 7.3, 7.4. This is a bounded family (label length, indentation depth and
// look-ahead are cut off), not an exact quotient: the predicates loop over the indentation and compare
// a slice with the label. The rule therefore decides a necessary condition; evidence says how many
// scenarios were evaluated.

func specLabelCont(b byte) bool {
	return b >= 'a' && b <= 'z' || b >= 'A' && b <= 'Z' || b >= '0' && b <= '9' || b == '_' || b >= 0x80
}

func specHeredocEnd(since73 bool, data []byte, p int, label []byte) bool {
	if p < 1 || (data[p-1] != '\n' && data[p-1] != '\r') {
		return false
	}
	l := len(label)
	isNL := func(i int) bool { return data[i] == '\n' || data[i] == '\r' }
	if since73 {
		q := p
		for q < len(data) && (data[q] == ' ' || data[q] == '\t') {
			q++
		}
		if len(data) < q+l || string(data[q:q+l]) != string(label) {
			return false
		}
		return q+l == len(data) || !specLabelCont(data[q+l])
	}
	if len(data) < p+l || string(data[p:p+l]) != string(label) {
		return false
	}
	switch {
	case p+l == len(data):
		return true
	case isNL(p + l):
		return true
	case data[p+l] == ';':
		return p+l+1 == len(data) || isNL(p+l+1)
	}
	return false
}

// HeredocSpec decides rule heredoc-spec.
func (a *Analysis) HeredocSpec() *report.RuleResult {
	res := report.NewResult("heredoc-spec")
	m := a.M
	info := m.info()
	var lexObj types.Object
	if m.Lex != nil && m.Lex.Recv != nil && len(m.Lex.Recv.List) == 1 && len(m.Lex.Recv.List[0].Names) == 1 {
		lexObj = info.Defs[m.Lex.Recv.List[0].Names[0]]
	}
	if lexObj == nil {
		res.Unknown("Lex", "-", "", "undecided:anchor: the receiver of Lex was not found")
		return res
	}
	// which fields hold the input, the label, the cursor and the version: by type and by who the conditions hand them to
	fields := scannerFields(lexObj)
	if fields == nil {
		res.Unknown("Lexer", "-", "", "undecided:anchor: the scanner type does not have one []byte input, one []byte label and a *version.Version")
		return res
	}
	in := ceval.New(m.Pkg)
	in.Ext = versionModel
	for _, mn := range []string{"heredoc", "nowdoc"} {
		if _, ok := m.Entries[mn]; !ok {
			continue
		}
		conds := map[string]ast.Expr{}
		var states []int
		for n := range a.Witness[mn] {
			states = append(states, n)
		}
		sort.Ints(states)
		for _, n := range states {
			b := m.Blocks[fmt.Sprintf("st_case_%d", n)]
			if b == nil {
				continue
			}
			for _, st := range b.Stmts {
				ast.Inspect(st, func(nd ast.Node) bool {
					is, ok := nd.(*ast.IfStmt)
					if !ok {
						return true
					}
					calls := false
					ast.Inspect(is.Cond, func(c ast.Node) bool {
						if ce, ok := c.(*ast.CallExpr); ok && m.helperDecl(ce) != nil {
							calls = true
						}
						return true
					})
					if calls {
						conds[types.ExprString(is.Cond)] = is.Cond
					}
					return true
				})
			}
		}
		var texts []string
		for t := range conds {
			texts = append(texts, t)
		}
		sort.Strings(texts)
		if len(texts) != 1 {
			res.Unknown(mn, "-", mn, fmt.Sprintf("undecided:anchor: machine %s has %d distinct transition conditions that call scanner methods, expected the one that decides where the body ends", mn, len(texts)))
			continue
		}
		cond := conds[texts[0]]
		res.Count("conditions", 1)
		// alphabet: constants of the functions involved + classes
		alpha := map[int]bool{'{': true, 'a': true, 'Z': true, '0': true, '_': true, 0x80: true, 0xff: true, 0x7f: true, ' ': true, '\t': true, ';': true, '\n': true, '\r': true, ',': true, ')': true, '$': true}
		seenFn := map[*ast.FuncDecl]bool{}
		var collect func(nd ast.Node)
		collect = func(nd ast.Node) {
			ast.Inspect(nd, func(c ast.Node) bool {
				switch x := c.(type) {
				case *ast.BasicLit:
					if tv := info.Types[x]; tv.Value != nil && tv.Value.Kind() == constant.Int && x.Kind == token.CHAR {
						if v, ok := constant.Int64Val(tv.Value); ok && v >= 0 && v < 256 {
							alpha[int(v)] = true
						}
					}
				case *ast.CallExpr:
					if fd := m.anyDecl(x); fd != nil && !seenFn[fd] {
						seenFn[fd] = true
						collect(fd.Body)
					}
				}
				return true
			})
		}
		collect(cond)
		var syms []int
		for b := range alpha {
			syms = append(syms, b)
		}
		sort.Ints(syms)
		pos := m.Prog.Pos(cond.Pos())
		nScen, bad, undec := heredocScenarios(syms, fields, mn == "heredoc", func(lex *ceval.Struct) (interface{}, ceval.Status, string) {
			return in.Eval(cond, info, map[types.Object]interface{}{lexObj: lex})
		})
		res.Count("scenarios", nScen)
		key := mn + "/body-goes-on"
		switch {
		case undec != "":
			res.Unknown(key, pos, texts[0], "undecided:idiom: "+undec)
		case len(bad) > 0:
			res.Bad(key, pos, texts[0], fmt.Sprintf("the condition `%s` must mean: no closing label of the heredoc starts here (before 7.3: label in column 0, optional `;`, then a line terminator or the end; since 7.3: optional indentation, label, not followed by a label character); %s", texts[0], strings.Join(bad, "; ")))
		default:
			res.OK(key, pos, texts[0], fmt.Sprintf("equals PHP's rule on all %d scenarios (labels of 1-2 bytes, indentation up to 2, two bytes of look-ahead, versions 5.6/7.2/7.3/7.4)", nScen))
		}
	}
	return res
}


// heredocScenarios evaluates "the body goes on at the cursor" on the scenario family and compares it with the
// specification; interpolating adds the clause that no interpolation starts at the cursor (heredoc, not nowdoc).
func heredocScenarios(syms []int, fields *scanFields, interpolating bool, eval func(lex *ceval.Struct) (interface{}, ceval.Status, string)) (nScen int, bad []string, undec string) {
		var follows [][]byte
		follows = append(follows, nil)
		for _, x := range syms {
			follows = append(follows, []byte{byte(x)})
			for _, y := range syms {
				follows = append(follows, []byte{byte(x), byte(y)})
			}
		}
		for _, ver := range []string{"5.6", "7.2", "7.3", "7.4"} {
			since73 := ver == "7.3" || ver == "7.4"
			for _, label := range []string{"A", "AB"} {
				bodies := []string{label, label[:len(label)-1] + "X", label[:len(label)-1]}
				for _, prev := range []byte{'\n', '\r', 'x'} {
					for _, indent := range []string{"", " ", "\t", "  ", " \t"} {
						for _, body := range bodies {
							for _, fol := range follows {
								if undec != "" || len(bad) >= 4 {
									break
								}
								data := append([]byte{'x', prev}, indent...)
								data = append(data, body...)
								data = append(data, fol...)
								p := 2
								if p > len(data) {
									continue
								}
								nScen++
								lex := &ceval.Struct{Type: "Lexer", Fields: map[string]interface{}{
									fields.data:    ceval.Bytes{B: data},
									fields.label:   ceval.Bytes{B: []byte(label)},
									fields.cursor:  int64(p),
									fields.version: versionValue(ver),
								}}
								if p == len(data) {
									continue // the condition is only evaluated while p < len
								}
								v, st, why := eval(lex)
								want := !specHeredocEnd(since73, data, p, []byte(label)) // the condition means: the body goes on
								if interpolating {
									// … and, in a heredoc, no interpolation starts here
									b1 := -1
									if p+1 < len(data) {
										b1 = int(data[p+1])
									}
									want = want && specNotStringVar(len(data)-p, int(data[p-2]), int(data[p-1]), int(data[p]), b1)
								}
								desc := fmt.Sprintf("version %s, label %q, input …%q with the cursor after %q", ver, label, string(data[1:]), string(data[1:2]))
								switch st {
								case ceval.Unsupported, ceval.Diverged:
									undec = fmt.Sprintf("on %s the condition cannot be evaluated: %s", desc, why)
								case ceval.Panic:
									bad = append(bad, fmt.Sprintf("on %s the condition panics: %s", desc, why))
								default:
									b, ok := v.(bool)
									if !ok {
										undec = "the condition is not boolean"
									} else if b != want {
										bad = append(bad, fmt.Sprintf("on %s the condition says the body %s, PHP's rule says it %s", desc, goesOn(b), goesOn(want)))
									}
								}
							}
						}
					}
				}
			}
		}
	return
}

func goesOn(b bool) string {
	if b {
		return "goes on"
	}
	return "ends here"
}

type scanFields struct{ data, label, cursor, version string }

// scannerFields: the names of the fields of the scanner by what they are: the input and the label are its two
// []byte fields (the input is the one NewLexer stores its parameter in - by convention the first), the cursor
// is the int field `p`, the version the *Version field.
func scannerFields(lexObj types.Object) *scanFields {
	t := lexObj.Type()
	if p, ok := t.(*types.Pointer); ok {
		t = p.Elem()
	}
	st, ok := t.Underlying().(*types.Struct)
	if !ok {
		return nil
	}
	f := &scanFields{}
	var visit func(st *types.Struct, depth int)
	visit = func(st *types.Struct, depth int) {
		for i := 0; i < st.NumFields(); i++ {
			fl := st.Field(i)
			switch u := fl.Type().Underlying().(type) {
			case *types.Slice:
				if b, ok := u.Elem().Underlying().(*types.Basic); ok && b.Kind() == types.Byte {
					switch {
					case strings.Contains(strings.ToLower(fl.Name()), "label"):
						f.label = fl.Name()
					case f.data == "":
						f.data = fl.Name()
					}
				}
			case *types.Pointer:
				if n, ok := u.Elem().(*types.Named); ok && n.Obj().Name() == "Version" {
					f.version = fl.Name()
				}
			case *types.Basic:
				if fl.Name() == "p" && u.Kind() == types.Int {
					f.cursor = fl.Name()
				}
			case *types.Struct:
				if fl.Embedded() && depth < 2 {
					visit(u, depth+1)
				}
			}
		}
	}
	visit(st, 0)
	if f.data == "" || f.label == "" || f.cursor == "" || f.version == "" {
		return nil
	}
	return f
}

func versionValue(s string) *ceval.Struct {
	var maj, min int64
	fmt.Sscanf(s, "%d.%d", &maj, &min)
	return &ceval.Struct{Type: "Version", Fields: map[string]interface{}{"Major": maj, "Minor": min}}
}

// versionModel gives pkg/version its meaning (numeric lexicographic order on (major, minor); decided for the
// repository's implementation by rule order-domain under C09).
func versionModel(fn *types.Func, recv interface{}, args []interface{}) ([]interface{}, bool) {
	if fn.Pkg() == nil || !strings.HasSuffix(fn.Pkg().Path(), "pkg/version") {
		return nil, false
	}
	cmp := func(a, b *ceval.Struct) int {
		am, _ := a.Fields["Major"].(int64)
		an, _ := a.Fields["Minor"].(int64)
		bm, _ := b.Fields["Major"].(int64)
		bn, _ := b.Fields["Minor"].(int64)
		switch {
		case am != bm:
			if am < bm {
				return -1
			}
			return 1
		case an != bn:
			if an < bn {
				return -1
			}
			return 1
		}
		return 0
	}
	if fn.Name() == "New" && len(args) == 1 {
		if s, ok := args[0].(string); ok {
			var maj, min int64
			if n, _ := fmt.Sscanf(s, "%d.%d", &maj, &min); n == 2 {
				return []interface{}{versionValue(s), ceval.Nil{}}, true
			}
		}
		return nil, false
	}
	r, ok := recv.(*ceval.Struct)
	if !ok {
		return nil, false
	}
	var o []*ceval.Struct
	for _, a := range args {
		s, ok := a.(*ceval.Struct)
		if !ok {
			return nil, false
		}
		o = append(o, s)
	}
	switch fn.Name() {
	case "Less":
		return []interface{}{cmp(r, o[0]) < 0}, true
	case "LessOrEqual":
		return []interface{}{cmp(r, o[0]) <= 0}, true
	case "Greater":
		return []interface{}{cmp(r, o[0]) > 0}, true
	case "GreaterOrEqual":
		return []interface{}{cmp(r, o[0]) >= 0}, true
	case "Compare":
		return []interface{}{int64(cmp(r, o[0]))}, true
	case "InRange":
		if len(o) == 2 {
			return []interface{}{cmp(r, o[0]) >= 0 && cmp(r, o[1]) <= 0}, true
		}
	}
	return nil, false
}

// HeredocSpecMethods applies the same comparison to a package that has a scanner type with a method
// isNotHeredocEnd(p int) bool (the rule's fixture: two small packages, one right, one with two slips).
func HeredocSpecMethods(p *load.Program, rel string) *report.RuleResult {
	res := report.NewResult("heredoc-spec")
	pk := p.Pkg(rel)
	if pk == nil {
		res.Unknown(rel, "-", "", "undecided:anchor: package not found")
		return res
	}
	in := ceval.New(pk)
	in.Ext = versionModel
	fd := in.Decl("Lexer", "isNotHeredocEnd")
	o := pk.Types.Scope().Lookup("Lexer")
	if fd == nil || o == nil {
		res.Unknown(rel, "-", "", "undecided:anchor: Lexer.isNotHeredocEnd not found")
		return res
	}
	fields := scannerFields(types.NewVar(token.NoPos, pk.Types, "lex", types.NewPointer(o.Type())))
	if fields == nil {
		res.Unknown(rel, "-", "", "undecided:anchor: fields of Lexer")
		return res
	}
	syms := []int{'{', 'a', 'Z', '0', '_', 0x80, 0xff, 0x7f, ' ', '\t', ';', '\n', '\r', ',', ')', '$'}
	sort.Ints(syms)
	n, bad, undec := heredocScenarios(syms, fields, false, func(lex *ceval.Struct) (interface{}, ceval.Status, string) {
		r, st, why := in.Call(fd, lex, []interface{}{lex.Fields[fields.cursor]})
		if st != ceval.OK || len(r) != 1 {
			return nil, st, why
		}
		return r[0], st, why
	})
	res.Count("conditions", 1)
	res.Count("scenarios", n)
	key := rel + "/body-goes-on"
	switch {
	case undec != "":
		res.Unknown(key, p.Pos(fd.Pos()), "isNotHeredocEnd", "undecided:idiom: "+undec)
	case len(bad) > 0:
		res.Bad(key, p.Pos(fd.Pos()), "isNotHeredocEnd", strings.Join(bad, "; "))
	default:
		res.OK(key, p.Pos(fd.Pos()), "isNotHeredocEnd", fmt.Sprintf("equals PHP's rule on all %d scenarios", n))
	}
	return res
}
