package scandfa

import (
	"fmt"
	"go/ast"
	"go/token"
	"go/types"
	"sort"

	"verif/internal/load"
	"golang.org/x/tools/go/types/typeutil"

	"verif/internal/report"
)

// NoRescan decides a structural necessary condition of "time roughly
// proportional to the input length": the code that runs once per token
// (everything the scanner package reaches from Lex) never walks, copies or
// hands out a whole file-sized collection, a prefix or a suffix of one, and a
// loop that moves an index over one starts at the cursor (not at a fixed
// offset) and has an exit that depends on the element it looks at.
//
// File-sized collections are found from the code, not by name: the Lexer field
// that NewLexer fills from its []byte parameter (the input), and every slice
// field of a struct held by value in the Lexer that one of its own methods
// grows by append (the table of line starts).
//
// What it does not decide: the amortised argument itself (that a backward scan
// over the line table is short because queries move forward) — it only rules
// out the shapes that make per-token work proportional to the file.
func (a *Analysis) NoRescan() *report.RuleResult {
	res := report.NewResult("no-rescan")
	m := a.M
	info := m.info()
	pkg := m.Pkg
	decls := map[*types.Func]*ast.FuncDecl{}
	for _, fd := range load.FuncDecls(pkg) {
		if o, ok := info.Defs[fd.Name].(*types.Func); ok {
			decls[o] = fd
		}
	}
	// ---- the file-sized fields
	fileSized := map[*types.Var]string{}
	var lexer *types.Struct
	if o := pkg.Types.Scope().Lookup("Lexer"); o != nil {
		lexer, _ = o.Type().Underlying().(*types.Struct)
	}
	if lexer == nil {
		res.Unknown("anchor/Lexer", "-", "", "undecided:anchor: type Lexer not found")
		return res
	}
	for _, fd := range load.FuncDecls(pkg) {
		if fd.Name.Name != "NewLexer" || fd.Recv != nil {
			continue
		}
		params := map[types.Object]bool{}
		for _, f := range fd.Type.Params.List {
			for _, nm := range f.Names {
				if sl, ok := info.TypeOf(f.Type).Underlying().(*types.Slice); ok {
					if b, ok := sl.Elem().Underlying().(*types.Basic); ok && b.Kind() == types.Byte {
						params[info.Defs[nm]] = true
					}
				}
			}
		}
		ast.Inspect(fd.Body, func(n ast.Node) bool {
			// lex.data = data (field assignments instead of a literal)
			if as, ok := n.(*ast.AssignStmt); ok && len(as.Lhs) == len(as.Rhs) {
				for i, l := range as.Lhs {
					se, ok := unparen(l).(*ast.SelectorExpr)
					vid, _ := unparen(as.Rhs[i]).(*ast.Ident)
					if !ok || vid == nil || !params[info.Uses[vid]] {
						continue
					}
					if sel := info.Selections[se]; sel != nil && sel.Kind() == types.FieldVal {
						if fv, ok := sel.Obj().(*types.Var); ok && fv.Pkg() == pkg.Types {
							fileSized[fv] = "the input"
						}
					}
				}
				return true
			}
			cl, ok := n.(*ast.CompositeLit)
			if !ok || info.TypeOf(cl) == nil {
				return true
			}
			// the Lexer literal, or the literal of a struct of this package it is composed of
			if nt, isNamed := info.TypeOf(cl).(*types.Named); !isNamed || nt.Obj().Pkg() != pkg.Types {
				return true
			}
			if _, isStruct := info.TypeOf(cl).Underlying().(*types.Struct); !isStruct {
				return true
			}
			for _, el := range cl.Elts {
				kv, ok := el.(*ast.KeyValueExpr)
				if !ok {
					continue
				}
				kid, _ := kv.Key.(*ast.Ident)
				vid, _ := unparen(kv.Value).(*ast.Ident)
				if kid != nil && vid != nil && params[info.Uses[vid]] {
					if fv, ok := info.Uses[kid].(*types.Var); ok {
						fileSized[fv] = "the input"
					}
				}
			}
			return true
		})
	}
	var tables func(outer *types.Struct, depth int)
	tables = func(outer *types.Struct, depth int) {
	for i := 0; i < outer.NumFields(); i++ {
		st, ok := outer.Field(i).Type().Underlying().(*types.Struct)
		if !ok {
			continue
		}
		named, _ := outer.Field(i).Type().(*types.Named)
		if named == nil || named.Obj().Pkg() != pkg.Types {
			continue
		}
		if depth < 3 {
			tables(st, depth+1) // structs grouped inside structs
		}
		for j := 0; j < st.NumFields(); j++ {
			fv := st.Field(j)
			if _, ok := fv.Type().Underlying().(*types.Slice); !ok {
				continue
			}
			// grown by append in a method of the type?
			for fn, fd := range decls {
				sig := fn.Type().(*types.Signature)
				if sig.Recv() == nil {
					continue
				}
				rt := sig.Recv().Type()
				if p, ok := rt.(*types.Pointer); ok {
					rt = p.Elem()
				}
				if rt != named {
					continue
				}
				ast.Inspect(fd.Body, func(n ast.Node) bool {
					as, ok := n.(*ast.AssignStmt)
					if !ok || len(as.Lhs) != 1 || len(as.Rhs) != 1 {
						return true
					}
					if se, ok := unparen(as.Lhs[0]).(*ast.SelectorExpr); ok {
						if sel := info.Selections[se]; sel != nil && sel.Obj() == fv {
							if c, ok := unparen(as.Rhs[0]).(*ast.CallExpr); ok {
								if id, ok := c.Fun.(*ast.Ident); ok && id.Name == "append" {
									fileSized[fv] = "the table " + named.Obj().Name() + "." + fv.Name() + " (one entry per line)"
								}
							}
						}
					}
					return true
				})
			}
		}
	}
	}
	tables(lexer, 0)
	res.Count("file-sized-fields", len(fileSized))
	if len(fileSized) == 0 {
		res.Unknown("anchor/fields", "-", "", "undecided:anchor: no file-sized field found (NewLexer no longer stores its []byte parameter in a Lexer literal?)")
		return res
	}
	// ---- per-token functions: reachable from Lex
	reach := map[*types.Func]bool{}
	var visit func(fn *types.Func)
	visit = func(fn *types.Func) {
		if reach[fn] || decls[fn] == nil {
			return
		}
		reach[fn] = true
		ast.Inspect(decls[fn].Body, func(n ast.Node) bool {
			c, ok := n.(*ast.CallExpr)
			if !ok {
				return true
			}
			switch f := unparen(c.Fun).(type) {
			case *ast.SelectorExpr:
				if o, ok := info.Uses[f.Sel].(*types.Func); ok {
					visit(o)
				}
			case *ast.Ident:
				if o, ok := info.Uses[f].(*types.Func); ok {
					visit(o)
				}
			}
			return true
		})
	}
	for fn, fd := range decls {
		if fd == m.Lex {
			visit(fn)
		}
	}
	var fns []*types.Func
	for fn := range reach {
		fns = append(fns, fn)
	}
	sort.Slice(fns, func(i, j int) bool { return fns[i].FullName() < fns[j].FullName() })
	res.Count("per-token-functions", len(fns))
	for _, fn := range fns {
		fd := decls[fn]
		fname := fd.Name.Name
		// local aliases of a file-sized collection: x := lex.data
		alias := map[types.Object]string{}
		isFS := func(e ast.Expr) (string, bool) {
			switch x := unparen(e).(type) {
			case *ast.SelectorExpr:
				if sel := info.Selections[x]; sel != nil {
					if fv, ok := sel.Obj().(*types.Var); ok {
						if what, ok := fileSized[fv]; ok {
							return what, true
						}
					}
				}
			case *ast.Ident:
				if what, ok := alias[info.Uses[x]]; ok {
					return what, true
				}
			}
			return "", false
		}
		ast.Inspect(fd.Body, func(n ast.Node) bool {
			if as, ok := n.(*ast.AssignStmt); ok && len(as.Lhs) == len(as.Rhs) {
				for i, l := range as.Lhs {
					if id, ok := l.(*ast.Ident); ok {
						if what, ok := isFS(as.Rhs[i]); ok {
							if o := info.Defs[id]; o != nil {
								alias[o] = what
							} else if o := info.Uses[id]; o != nil {
								alias[o] = what
							}
						}
					}
				}
			}
			return true
		})
		type use struct {
			node  *ast.IndexExpr
			what  string
			stack []ast.Node
		}
		var uses []use
		bad := map[string]string{}
		var badPos = map[string]token.Pos{}
		flag := func(n ast.Node, key, msg string) {
			if _, ok := bad[key]; !ok {
				bad[key] = msg
				badPos[key] = n.Pos()
			}
		}
		var stack []ast.Node
		ast.Inspect(fd.Body, func(n ast.Node) bool {
			if n == nil {
				stack = stack[:len(stack)-1]
				return true
			}
			stack = append(stack, n)
			e, ok := n.(ast.Expr)
			if !ok {
				return true
			}
			what, ok := isFS(e)
			if !ok || len(stack) < 2 {
				return true
			}
			if _, isParen := stack[len(stack)-2].(*ast.ParenExpr); isParen {
				return true // classified at the parenthesis
			}
			parent := stack[len(stack)-2]
			if pe, ok := n.(*ast.ParenExpr); ok {
				_ = pe
			}
			res.Count("uses", 1)
			txt := types.ExprString(e)
			switch p := parent.(type) {
			case *ast.IndexExpr:
				if unparen(p.X) == unparen(e) {
					uses = append(uses, use{p, what, append([]ast.Node{}, stack...)})
					return true
				}
			case *ast.SliceExpr:
				if unparen(p.X) == unparen(e) {
					lowConst := p.Low == nil || info.Types[p.Low].Value != nil
					highOpen := p.High == nil || isLenOfExpr(p.High, e)
					switch {
					case lowConst && highOpen:
						flag(p, fname+"/"+types.ExprString(p), fmt.Sprintf("%s: %s is %s as a whole: per-token code must not take it all", fname, types.ExprString(p), what))
					case lowConst:
						flag(p, fname+"/"+types.ExprString(p), fmt.Sprintf("%s: %s is a prefix of %s (everything before the cursor): work on it grows with the position in the file, once per token", fname, types.ExprString(p), what))
					case highOpen:
						flag(p, fname+"/"+types.ExprString(p), fmt.Sprintf("%s: %s is a suffix of %s (everything after the cursor): work on it grows with the rest of the file, once per token", fname, types.ExprString(p), what))
					}
					return true
				}
			case *ast.CallExpr:
				if id, ok := p.Fun.(*ast.Ident); ok && (id.Name == "len" || id.Name == "cap") && info.Uses[id] == types.Universe.Lookup(id.Name) {
					return true
				}
				if id, ok := p.Fun.(*ast.Ident); ok && id.Name == "append" && len(p.Args) > 0 && unparen(p.Args[0]) == unparen(e) && len(stack) >= 3 {
					if as, ok := stack[len(stack)-3].(*ast.AssignStmt); ok && len(as.Lhs) == 1 && types.ExprString(unparen(as.Lhs[0])) == txt {
						return true // grows in place (amortised constant)
					}
				}
				flag(p, fname+"/"+types.ExprString(p.Fun)+"("+txt+")", fmt.Sprintf("%s: %s (%s) is handed to %s as a whole: the callee's work is proportional to the file, once per token", fname, txt, what, types.ExprString(p.Fun)))
				return true
			case *ast.AssignStmt:
				for _, l := range p.Lhs {
					if unparen(l) == unparen(e) {
						return true // a write
					}
				}
				// an alias definition: fine, its uses are classified
				for i, r := range p.Rhs {
					if unparen(r) == unparen(e) && i < len(p.Lhs) {
						if _, ok := p.Lhs[i].(*ast.Ident); ok {
							return true
						}
					}
				}
			case *ast.BinaryExpr:
				if p.Op == token.EQL || p.Op == token.NEQ {
					return true
				}
			case *ast.RangeStmt:
				if unparen(p.X) == unparen(e) {
					flag(p, fname+"/range "+txt, fmt.Sprintf("%s: ranges over %s (%s) from its beginning: proportional to the file, once per token", fname, txt, what))
					return true
				}
			case *ast.SelectorExpr, *ast.KeyValueExpr:
				return true
			}
			flag(parent, fname+"/use "+txt, fmt.Sprintf("%s: %s (%s) is used as a whole (%T): per-token code may only index it, take its length, slice a window between two cursors, or grow it by append", fname, txt, what, parent))
			return true
		})
		// ---- loops that move an index over a file-sized collection
		loops := map[*ast.ForStmt][]use{}
		searches := map[*ast.CallExpr]bool{}
		var loopOrder []*ast.ForStmt
		for _, u := range uses {
			for i := len(u.stack) - 1; i >= 0; i-- {
				if _, isLit := u.stack[i].(*ast.FuncLit); isLit {
					// the predicate of a binary search of the standard library: a loop in disguise, logarithmic by contract
					if i > 0 {
						if call, ok := u.stack[i-1].(*ast.CallExpr); ok {
							if fn, _ := typeutil.Callee(info, call).(*types.Func); fn != nil && fn.Pkg() != nil && fn.Pkg().Path() == "sort" && (fn.Name() == "Search" || fn.Name() == "Find") && !searches[call] {
								searches[call] = true
								res.Count("loops", 1)
								res.OK(fmt.Sprintf("%s/search over %s", fname, types.ExprString(u.node.X)), m.Pos(call), fname, "binary search of the standard library: logarithmic in the size of the collection")
							}
						}
					}
					break
				}
				if fs, ok := u.stack[i].(*ast.ForStmt); ok {
					if _, seen := loops[fs]; !seen {
						loopOrder = append(loopOrder, fs)
					}
					loops[fs] = append(loops[fs], u)
					break
				}
			}
		}
		for li, fs := range loopOrder {
			// variables the loop changes
			changed := map[types.Object]bool{}
			note := func(e ast.Expr) {
				if id, ok := unparen(e).(*ast.Ident); ok {
					if o := info.Uses[id]; o != nil {
						changed[o] = true
					} else if o := info.Defs[id]; o != nil {
						changed[o] = true
					}
				}
			}
			scan := func(n ast.Node) {
				if n == nil {
					return
				}
				ast.Inspect(n, func(x ast.Node) bool {
					switch y := x.(type) {
					case *ast.AssignStmt:
						for _, l := range y.Lhs {
							note(l)
						}
					case *ast.IncDecStmt:
						note(y.X)
					}
					return true
				})
			}
			scan(fs.Body)
			if fs.Post != nil {
				scan(fs.Post)
			}
			var ind types.Object
			var indUse use
			for _, u := range loops[fs] {
				ast.Inspect(u.node.Index, func(x ast.Node) bool {
					if id, ok := x.(*ast.Ident); ok && changed[info.Uses[id]] && ind == nil {
						ind = info.Uses[id]
						indUse = u
					}
					return true
				})
			}
			if ind == nil {
				continue // the index does not move: not a scan
			}
			res.Count("loops", 1)
			key := fmt.Sprintf("%s/loop#%d over %s", fname, li+1, types.ExprString(indUse.node.X))
			pos := m.Pos(fs)
			if bl, ok := bisectionOf(fs, func(e ast.Expr) string { return types.ExprString(unparen(e)) }); ok && bl.mid == ind.Name() {
				res.OK(key, pos, fname, "bisection: the interval between the two bounds is halved in every iteration, so the work per call is logarithmic in the size of the collection")
				continue
			}
			// (1) where does the index start?
			var initExpr ast.Expr
			isParam := false
			if as, ok := fs.Init.(*ast.AssignStmt); ok {
				for i, l := range as.Lhs {
					if id, ok := l.(*ast.Ident); ok && (info.Defs[id] == ind || info.Uses[id] == ind) && i < len(as.Rhs) {
						initExpr = as.Rhs[i]
					}
				}
			}
			if initExpr == nil {
				// the last assignment to the variable before the loop, or a parameter
				for _, f := range fd.Type.Params.List {
					for _, nm := range f.Names {
						if info.Defs[nm] == ind {
							isParam = true
						}
					}
				}
				ast.Inspect(fd.Body, func(x ast.Node) bool {
					if x == nil || x.Pos() >= fs.Pos() {
						return x == nil || x.Pos() < fs.Pos() || false
					}
					if as, ok := x.(*ast.AssignStmt); ok && as.End() <= fs.Pos() {
						for i, l := range as.Lhs {
							if id, ok := l.(*ast.Ident); ok && (info.Defs[id] == ind || info.Uses[id] == ind) && i < len(as.Rhs) {
								initExpr = as.Rhs[i]
								isParam = false
							}
						}
					}
					return true
				})
			}
			switch {
			case initExpr != nil && info.Types[initExpr].Value != nil:
				res.Bad(key, pos, fname, fmt.Sprintf("%s: the loop moves %s over %s starting at the fixed offset %s: every call walks the collection from there, so per-token work grows with the size of the file (quadratic in total)", fname, ind.Name(), indUse.what, types.ExprString(initExpr)))
				continue
			case initExpr == nil && !isParam:
				res.Unknown(key, pos, fname, fmt.Sprintf("undecided:idiom: %s: cannot find where the loop index %s starts", fname, ind.Name()))
				continue
			}
			// (2) an exit that depends on the element
			mentionsElem := func(e ast.Expr) bool {
				found := false
				ast.Inspect(e, func(x ast.Node) bool {
					if ix, ok := x.(*ast.IndexExpr); ok {
						if _, ok := isFS(ix.X); ok {
							ast.Inspect(ix.Index, func(y ast.Node) bool {
								if id, ok := y.(*ast.Ident); ok && info.Uses[id] == ind {
									found = true
								}
								return true
							})
						}
					}
					return true
				})
				return found
			}
			exits := fs.Cond != nil && mentionsElem(fs.Cond)
			ast.Inspect(fs.Body, func(x ast.Node) bool {
				is, ok := x.(*ast.IfStmt)
				if !ok || !mentionsElem(is.Cond) {
					return true
				}
				leaves := func(n ast.Node) bool {
					l := false
					if n == nil {
						return false
					}
					ast.Inspect(n, func(y ast.Node) bool {
						switch z := y.(type) {
						case *ast.BranchStmt:
							if z.Tok == token.BREAK || z.Tok == token.GOTO {
								l = true
							}
						case *ast.ReturnStmt:
							l = true
						case *ast.ForStmt, *ast.RangeStmt, *ast.FuncLit:
							return y == n
						}
						return true
					})
					return l
				}
				if leaves(is.Body) || leaves(is.Else) {
					exits = true
				}
				return true
			})
			if !exits {
				res.Bad(key, pos, fname, fmt.Sprintf("%s: the loop moves %s over %s and no exit depends on the element it looks at: every call walks to the end of the collection, so per-token work grows with the size of the file", fname, ind.Name(), indUse.what))
				continue
			}
			res.OK(key, pos, fname, "starts at the cursor and stops at the first element that ends the scan")
		}
		var keys []string
		for k := range bad {
			keys = append(keys, k)
		}
		sort.Strings(keys)
		for _, k := range keys {
			res.Bad(k, m.Prog.Pos(badPos[k]), fname, bad[k])
		}
		if len(keys) == 0 {
			res.OK(fname+"/uses", m.Pos(fd), fname, "file-sized collections are only indexed, measured, windowed between cursors, or grown by append")
		}
	}
	return res
}

func isLenOfExpr(e, of ast.Expr) bool {
	c, ok := unparen(e).(*ast.CallExpr)
	if !ok || len(c.Args) != 1 {
		return false
	}
	id, ok := c.Fun.(*ast.Ident)
	return ok && id.Name == "len" && types.ExprString(unparen(c.Args[0])) == types.ExprString(unparen(of))
}
