package scandfa

import (
	"go/ast"
	"go/token"
	"go/types"
)

// ---- bisection ---------------------------------------------------------------------------------------
//
// A sorted table (the line starts) may be searched by bisection instead of a scan. Two facts about the idiom
// are what idx-guard and no-rescan need:
//
//	midpoint: for integers lo < hi, each of (lo+hi)/2, lo+(hi-lo)/2 and int(uint(lo+hi)>>1) lies in [lo, hi);
//	loop:     `for lo < hi { mid := <midpoint>; … }` whose only assignments to lo are `lo = mid + 1` and to hi
//	          are `hi = mid` keeps every lower bound of lo and every upper bound of hi that held on entry, and
//	          halves hi - lo per iteration (logarithmic, not proportional to the table).

// midpointOf recognises the midpoint forms and returns the two operands.
func midpointOf(e ast.Expr) (lo, hi ast.Expr, ok bool) {
	e = unparen(e)
	sumOf := func(x ast.Expr) (ast.Expr, ast.Expr, bool) {
		if b, ok := unparen(x).(*ast.BinaryExpr); ok && b.Op == token.ADD {
			return b.X, b.Y, true
		}
		return nil, nil, false
	}
	isConst := func(x ast.Expr, v string) bool {
		l, ok := unparen(x).(*ast.BasicLit)
		return ok && l.Value == v
	}
	switch x := e.(type) {
	case *ast.BinaryExpr:
		switch {
		case x.Op == token.QUO && isConst(x.Y, "2"), x.Op == token.SHR && isConst(x.Y, "1"):
			// (lo+hi)/2, (lo+hi)>>1
			if a, b, ok := sumOf(x.X); ok {
				return a, b, true
			}
		case x.Op == token.ADD:
			// lo + (hi-lo)/2
			if d, ok := unparen(x.Y).(*ast.BinaryExpr); ok && (d.Op == token.QUO && isConst(d.Y, "2") || d.Op == token.SHR && isConst(d.Y, "1")) {
				if s, ok := unparen(d.X).(*ast.BinaryExpr); ok && s.Op == token.SUB && types.ExprString(unparen(s.Y)) == types.ExprString(unparen(x.X)) {
					return x.X, s.X, true
				}
			}
		}
	case *ast.CallExpr:
		// int(uint(lo+hi) >> 1)
		if id, ok := x.Fun.(*ast.Ident); ok && id.Name == "int" && len(x.Args) == 1 {
			if sh, ok := unparen(x.Args[0]).(*ast.BinaryExpr); ok && sh.Op == token.SHR && isConst(sh.Y, "1") {
				if c, ok := unparen(sh.X).(*ast.CallExpr); ok && len(c.Args) == 1 {
					if cid, ok := c.Fun.(*ast.Ident); ok && cid.Name == "uint" {
						if a, b, ok := sumOf(c.Args[0]); ok {
							return a, b, true
						}
					}
				}
			}
		}
	}
	return nil, nil, false
}

type bisectLoop struct {
	lo, hi, mid string // terms as the prover names them
}

// bisectionOf: fs is a bisection loop in the sense above; term names through name().
func bisectionOf(fs *ast.ForStmt, name func(ast.Expr) string) (*bisectLoop, bool) {
	if fs.Init != nil || fs.Post != nil || fs.Cond == nil {
		return nil, false
	}
	c, ok := unparen(fs.Cond).(*ast.BinaryExpr)
	if !ok {
		return nil, false
	}
	var lo, hi string
	switch c.Op {
	case token.LSS:
		lo, hi = name(c.X), name(c.Y)
	case token.GTR:
		lo, hi = name(c.Y), name(c.X)
	default:
		return nil, false
	}
	mid := ""
	for _, st := range fs.Body.List {
		if as, ok := st.(*ast.AssignStmt); ok && as.Tok == token.DEFINE && len(as.Lhs) == 1 && len(as.Rhs) == 1 {
			if a, b, ok := midpointOf(as.Rhs[0]); ok && (name(a) == lo && name(b) == hi || name(a) == hi && name(b) == lo) {
				mid = name(as.Lhs[0])
				break
			}
		}
	}
	if mid == "" {
		return nil, false
	}
	good := true
	ast.Inspect(fs.Body, func(n ast.Node) bool {
		switch y := n.(type) {
		case *ast.AssignStmt:
			for i, l := range y.Lhs {
				switch name(l) {
				case lo:
					// lo = mid + 1
					ok := false
					if y.Tok == token.ASSIGN && len(y.Lhs) == len(y.Rhs) {
						if b, isB := unparen(y.Rhs[i]).(*ast.BinaryExpr); isB && b.Op == token.ADD && name(b.X) == mid {
							if lit, isL := unparen(b.Y).(*ast.BasicLit); isL && lit.Value == "1" {
								ok = true
							}
						}
					}
					good = good && ok
				case hi:
					good = good && y.Tok == token.ASSIGN && len(y.Lhs) == len(y.Rhs) && name(y.Rhs[i]) == mid
				case mid:
					good = good && y.Tok == token.DEFINE
				}
			}
		case *ast.IncDecStmt:
			if t := name(y.X); t == lo || t == hi || t == mid {
				good = false
			}
		case *ast.UnaryExpr:
			if y.Op == token.AND {
				if t := name(y.X); t == lo || t == hi || t == mid {
					good = false
				}
			}
		}
		return true
	})
	if !good {
		return nil, false
	}
	return &bisectLoop{lo: lo, hi: hi, mid: mid}, true
}
