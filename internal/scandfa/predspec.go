package scandfa

import (
	"fmt"
	"go/ast"
	"go/constant"
	"go/token"
	"go/types"
	"sort"
	"strings"

	"verif/internal/ceval"
	"verif/internal/report"
)

// ---- pred-spec ---------------------------------------------------------------------------------
//
// The transition conditions of the generated scanner that call hand-written look-ahead predicates
// decide where a one-line comment, a double-quoted string and a backquoted string end. Each of them is
// a function of a small window of bytes around the cursor and of how far the cursor is from the end
// of the input. The rule evaluates the whole condition expression, as it stands in Lex (predicates and
// what they call interpreted from their source), on every combination of
//
//	L = len(data) - p in {1, 2, 3}   and   data[p-2], data[p-1], data[p], data[p+1]
//
// over the quotient of the bytes by the constants the code compares them with (plus one
// representative of every class PHP's label characters have), and compares the result with PHP's
// rule for that place. The quotient is exact because the code only compares these bytes with
// constants or hands them to the label predicates, so the verdict holds for every input, not for a
// sample of inputs. A condition the interpreter cannot evaluate (a loop, a read outside the window,
// state other than the cursor) is undecided, which fails.

type pv struct {
	kind int // 0 int, 1 bool
	i    int64
	b    bool
}

type pstatus int

const (
	pOK pstatus = iota
	pUnknown
	pPanic
)

type pscen struct {
	L      int       // bytes available from the cursor on: len - p
	win    [8]int    // data[p-4 .. p+3]; -1 beyond the end
	cursor int64     // the value of p
}

func (sc pscen) at(i int64) (int64, pstatus) {
	off := i - sc.cursor
	if off >= int64(sc.L) || i < 0 {
		return 0, pPanic
	}
	if off < -4 || off > 3 {
		return 0, pUnknown
	}
	return int64(sc.win[off+4]), pOK
}

type pinterp struct {
	m     *Machine
	sc    pscen
	depth int
	why   string
	steps int
	minOff, maxOff int64 // the window offsets read so far
}

type pframe struct {
	vars map[types.Object]pv
	recv string // the receiver's name in this frame
}

func (pi *pinterp) unknown(why string) (pv, pstatus) {
	if pi.why == "" {
		pi.why = why
	}
	return pv{}, pUnknown
}

func (pi *pinterp) isRecvField(e ast.Expr, fr *pframe, field string) bool {
	se, ok := unparen(e).(*ast.SelectorExpr)
	if !ok || se.Sel.Name != field {
		return false
	}
	id, ok := unparen(se.X).(*ast.Ident)
	if ok && id.Name == fr.recv {
		return true
	}
	// promoted through an embedded struct: lex.machine.p
	if inner, ok := unparen(se.X).(*ast.SelectorExpr); ok {
		if id, ok := unparen(inner.X).(*ast.Ident); ok && id.Name == fr.recv {
			if sel := pi.m.info().Selections[inner]; sel != nil && sel.Kind() == types.FieldVal {
				if v, ok := sel.Obj().(*types.Var); ok && v.Embedded() {
					return true
				}
			}
		}
	}
	return false
}

func (pi *pinterp) expr(e ast.Expr, fr *pframe) (pv, pstatus) {
	e = unparen(e)
	info := pi.m.info()
	if tv, ok := info.Types[e]; ok && tv.Value != nil {
		switch tv.Value.Kind() {
		case constant.Bool:
			return pv{kind: 1, b: constant.BoolVal(tv.Value)}, pOK
		case constant.Int:
			if v, ok := constant.Int64Val(tv.Value); ok {
				return pv{i: v}, pOK
			}
		}
	}
	switch x := e.(type) {
	case *ast.Ident:
		if o := info.ObjectOf(x); o != nil {
			if v, ok := fr.vars[o]; ok {
				return v, pOK
			}
		}
		return pi.unknown("value of " + x.Name)
	case *ast.SelectorExpr:
		if pi.isRecvField(x, fr, "p") {
			return pv{i: pi.sc.cursor}, pOK
		}
		if pi.isRecvField(x, fr, "pe") {
			return pv{i: pi.sc.cursor + int64(pi.sc.L)}, pOK
		}
		return pi.unknown("scanner state " + types.ExprString(x))
	case *ast.IndexExpr:
		if !pi.isRecvField(x.X, fr, "data") {
			return pi.unknown("index of " + types.ExprString(x.X))
		}
		iv, st := pi.expr(x.Index, fr)
		if st != pOK {
			return iv, st
		}
		v, st := pi.sc.at(iv.i)
		if off := iv.i - pi.sc.cursor; st == pOK {
			if off < pi.minOff {
				pi.minOff = off
			}
			if off > pi.maxOff {
				pi.maxOff = off
			}
		}
		if st == pUnknown {
			return pi.unknown(fmt.Sprintf("a byte %d positions from the cursor", iv.i-pi.sc.cursor))
		}
		return pv{i: v}, st
	case *ast.UnaryExpr:
		v, st := pi.expr(x.X, fr)
		if st != pOK {
			return v, st
		}
		switch x.Op {
		case token.NOT:
			return pv{kind: 1, b: !v.b}, pOK
		case token.SUB:
			return pv{i: -v.i}, pOK
		}
	case *ast.BinaryExpr:
		l, st := pi.expr(x.X, fr)
		if st != pOK {
			return l, st
		}
		switch x.Op {
		case token.LAND:
			if !l.b {
				return pv{kind: 1, b: false}, pOK
			}
			return pi.expr(x.Y, fr)
		case token.LOR:
			if l.b {
				return pv{kind: 1, b: true}, pOK
			}
			return pi.expr(x.Y, fr)
		}
		r, st := pi.expr(x.Y, fr)
		if st != pOK {
			return r, st
		}
		switch x.Op {
		case token.ADD:
			return pv{i: l.i + r.i}, pOK
		case token.SUB:
			return pv{i: l.i - r.i}, pOK
		case token.MUL:
			return pv{i: l.i * r.i}, pOK
		case token.REM:
			if r.i == 0 {
				return pv{}, pPanic
			}
			return pv{i: l.i % r.i}, pOK
		case token.AND:
			return pv{i: l.i & r.i}, pOK
		case token.OR:
			return pv{i: l.i | r.i}, pOK
		case token.SHL:
			return pv{i: l.i << uint(r.i&63)}, pOK
		case token.SHR:
			return pv{i: l.i >> uint(r.i&63)}, pOK
		case token.EQL:
			if l.kind == 1 {
				return pv{kind: 1, b: l.b == r.b}, pOK
			}
			return pv{kind: 1, b: l.i == r.i}, pOK
		case token.NEQ:
			if l.kind == 1 {
				return pv{kind: 1, b: l.b != r.b}, pOK
			}
			return pv{kind: 1, b: l.i != r.i}, pOK
		case token.LSS:
			return pv{kind: 1, b: l.i < r.i}, pOK
		case token.LEQ:
			return pv{kind: 1, b: l.i <= r.i}, pOK
		case token.GTR:
			return pv{kind: 1, b: l.i > r.i}, pOK
		case token.GEQ:
			return pv{kind: 1, b: l.i >= r.i}, pOK
		}
	case *ast.CallExpr:
		// len(lex.data)
		if id, ok := x.Fun.(*ast.Ident); ok && id.Name == "len" && len(x.Args) == 1 {
			if _, isBuiltin := info.Uses[id].(*types.Builtin); isBuiltin {
				if pi.isRecvField(x.Args[0], fr, "data") {
					return pv{i: pi.sc.cursor + int64(pi.sc.L)}, pOK
				}
				return pi.unknown("len of " + types.ExprString(x.Args[0]))
			}
		}
		// conversions: byte(x), int(x), rune(x)
		if tv, ok := info.Types[x.Fun]; ok && tv.IsType() && len(x.Args) == 1 {
			v, st := pi.expr(x.Args[0], fr)
			if st != pOK {
				return v, st
			}
			if b, ok := tv.Type.Underlying().(*types.Basic); ok && (b.Kind() == types.Byte || b.Kind() == types.Uint8) {
				v.i &= 0xff
			}
			return v, pOK
		}
		return pi.call(x, fr)
	}
	return pi.unknown("expression " + types.ExprString(e))
}

// a table indexed by a byte: package-level [256]T / []T composite literals and strings are not interpreted
func (pi *pinterp) call(c *ast.CallExpr, fr *pframe) (pv, pstatus) {
	info := pi.m.info()
	var fn *types.Func
	recvIsLex := false
	switch f := unparen(c.Fun).(type) {
	case *ast.Ident:
		fn, _ = info.Uses[f].(*types.Func)
	case *ast.SelectorExpr:
		fn, _ = info.Uses[f.Sel].(*types.Func)
		if id, ok := unparen(f.X).(*ast.Ident); ok && id.Name == fr.recv {
			recvIsLex = true
		}
	}
	if fn == nil || fn.Pkg() != pi.m.Pkg.Types {
		return pi.unknown("call of " + types.ExprString(c.Fun))
	}
	var fd *ast.FuncDecl
	for _, f := range pi.m.Pkg.Syntax {
		for _, d := range f.Decls {
			if x, ok := d.(*ast.FuncDecl); ok && x.Body != nil && info.Defs[x.Name] == fn {
				fd = x
			}
		}
	}
	if fd == nil || pi.depth > 5 {
		return pi.unknown("call of " + types.ExprString(c.Fun))
	}
	nf := &pframe{vars: map[types.Object]pv{}}
	if fd.Recv != nil {
		if !recvIsLex || len(fd.Recv.List) != 1 || len(fd.Recv.List[0].Names) != 1 {
			return pi.unknown("method call on something other than the scanner: " + types.ExprString(c.Fun))
		}
		nf.recv = fd.Recv.List[0].Names[0].Name
	}
	i := 0
	for _, f := range fd.Type.Params.List {
		for _, nm := range f.Names {
			if i >= len(c.Args) {
				return pi.unknown("variadic call")
			}
			v, st := pi.expr(c.Args[i], fr)
			if st != pOK {
				return v, st
			}
			nf.vars[info.Defs[nm]] = v
			i++
		}
	}
	pi.depth++
	v, st, returned := pi.block(fd.Body.List, nf)
	pi.depth--
	if st != pOK {
		return v, st
	}
	if !returned {
		return pi.unknown("function " + fd.Name.Name + " does not return on this path")
	}
	return v, pOK
}

func (pi *pinterp) block(stmts []ast.Stmt, fr *pframe) (pv, pstatus, bool) {
	info := pi.m.info()
	for _, st := range stmts {
		pi.steps++
		if pi.steps > 4000 {
			v, s := pi.unknown("evaluation does not end within the step budget")
			return v, s, false
		}
		switch x := st.(type) {
		case *ast.ReturnStmt:
			if len(x.Results) != 1 {
				v, s := pi.unknown("return of several values")
				return v, s, false
			}
			v, s := pi.expr(x.Results[0], fr)
			return v, s, true
		case *ast.BlockStmt:
			if v, s, r := pi.block(x.List, fr); s != pOK || r {
				return v, s, r
			}
		case *ast.EmptyStmt:
		case *ast.DeclStmt:
			gd, ok := x.Decl.(*ast.GenDecl)
			if !ok || gd.Tok != token.VAR {
				continue
			}
			for _, sp := range gd.Specs {
				vs := sp.(*ast.ValueSpec)
				for i, nm := range vs.Names {
					o := info.Defs[nm]
					if i < len(vs.Values) {
						v, s := pi.expr(vs.Values[i], fr)
						if s != pOK {
							return v, s, false
						}
						fr.vars[o] = v
					} else if b, ok := o.Type().Underlying().(*types.Basic); ok && b.Info()&types.IsBoolean != 0 {
						fr.vars[o] = pv{kind: 1}
					} else {
						fr.vars[o] = pv{}
					}
				}
			}
		case *ast.AssignStmt:
			if len(x.Lhs) != len(x.Rhs) {
				v, s := pi.unknown("assignment " + types.ExprString(x.Lhs[0]))
				return v, s, false
			}
			vals := make([]pv, len(x.Rhs))
			for i, r := range x.Rhs {
				v, s := pi.expr(r, fr)
				if s != pOK {
					// a value that is never used (a, b := string(…), string(…); _, _ = a, b) may stay unknown
					if id, ok := x.Lhs[i].(*ast.Ident); ok && s == pUnknown {
						if o := info.ObjectOf(id); o != nil {
							delete(fr.vars, o)
						}
						pi.why = ""
						vals[i] = pv{kind: -1}
						continue
					}
					return v, s, false
				}
				vals[i] = v
			}
			for i, l := range x.Lhs {
				id, ok := unparen(l).(*ast.Ident)
				if !ok {
					v, s := pi.unknown("assignment to " + types.ExprString(l) + " (a predicate must not change the scanner)")
					return v, s, false
				}
				if id.Name == "_" || vals[i].kind == -1 {
					continue
				}
				o := info.ObjectOf(id)
				switch x.Tok {
				case token.ASSIGN, token.DEFINE:
					fr.vars[o] = vals[i]
				case token.ADD_ASSIGN:
					fr.vars[o] = pv{i: fr.vars[o].i + vals[i].i}
				case token.SUB_ASSIGN:
					fr.vars[o] = pv{i: fr.vars[o].i - vals[i].i}
				default:
					v, s := pi.unknown("assignment operator " + x.Tok.String())
					return v, s, false
				}
			}
		case *ast.IncDecStmt:
			id, ok := unparen(x.X).(*ast.Ident)
			if !ok {
				v, s := pi.unknown("increment of " + types.ExprString(x.X))
				return v, s, false
			}
			o := info.ObjectOf(id)
			d := int64(1)
			if x.Tok == token.DEC {
				d = -1
			}
			fr.vars[o] = pv{i: fr.vars[o].i + d}
		case *ast.IfStmt:
			if x.Init != nil {
				if v, s, r := pi.block([]ast.Stmt{x.Init}, fr); s != pOK || r {
					return v, s, r
				}
			}
			c, s := pi.expr(x.Cond, fr)
			if s != pOK {
				return c, s, false
			}
			if c.b {
				if v, s, r := pi.block(x.Body.List, fr); s != pOK || r {
					return v, s, r
				}
			} else if x.Else != nil {
				if v, s, r := pi.block([]ast.Stmt{x.Else}, fr); s != pOK || r {
					return v, s, r
				}
			}
		case *ast.SwitchStmt:
			if x.Init != nil {
				if v, s, r := pi.block([]ast.Stmt{x.Init}, fr); s != pOK || r {
					return v, s, r
				}
			}
			var tag pv
			hasTag := x.Tag != nil
			if hasTag {
				v, s := pi.expr(x.Tag, fr)
				if s != pOK {
					return v, s, false
				}
				tag = v
			}
			var chosen, deflt *ast.CaseClause
			for _, c := range x.Body.List {
				cc := c.(*ast.CaseClause)
				if cc.List == nil {
					deflt = cc
					continue
				}
				if chosen != nil {
					continue
				}
				for _, ce := range cc.List {
					v, s := pi.expr(ce, fr)
					if s != pOK {
						return v, s, false
					}
					if (hasTag && ((tag.kind == 1 && v.b == tag.b) || (tag.kind == 0 && v.i == tag.i))) || (!hasTag && v.b) {
						chosen = cc
						break
					}
				}
			}
			if chosen == nil {
				chosen = deflt
			}
			if chosen != nil {
				for _, s := range chosen.Body {
					if b, ok := s.(*ast.BranchStmt); ok && b.Tok == token.FALLTHROUGH {
						v, st := pi.unknown("fallthrough")
						return v, st, false
					}
				}
				if v, s, r := pi.block(chosen.Body, fr); s != pOK || r {
					return v, s, r
				}
			}
		case *ast.ForStmt:
			if x.Init != nil {
				if v, s, r := pi.block([]ast.Stmt{x.Init}, fr); s != pOK || r {
					return v, s, r
				}
			}
			for n := 0; ; n++ {
				if n > 64 {
					v, s := pi.unknown("a loop that does not end within the window")
					return v, s, false
				}
				if x.Cond != nil {
					c, s := pi.expr(x.Cond, fr)
					if s != pOK {
						return c, s, false
					}
					if !c.b {
						break
					}
				}
				v, s, r := pi.block(x.Body.List, fr)
				if s != pOK || r {
					return v, s, r
				}
				if x.Post != nil {
					if v, s, r := pi.block([]ast.Stmt{x.Post}, fr); s != pOK || r {
						return v, s, r
					}
				}
			}
		default:
			v, s := pi.unknown(fmt.Sprintf("statement %T", st))
			return v, s, false
		}
	}
	return pv{}, pOK, false
}

// ---- the specifications ----------------------------------------------------------------------------

func phpLabelStart(b int) bool {
	return b == '_' || (b >= 'a' && b <= 'z') || (b >= 'A' && b <= 'Z') || b >= 0x80
}

// escaped: the byte at the cursor is taken literally because a single backslash precedes it (the
// scanner's convention: one backslash that is not itself preceded by a backslash)
func specEscaped(bm2, bm1 int) bool { return bm1 == '\\' && bm2 != '\\' }

// notStringVar: no variable interpolation starts at the cursor
func specNotStringVar(L, bm2, bm1, b0, b1 int) bool {
	if specEscaped(bm2, bm1) {
		return true
	}
	if L < 2 {
		return true
	}
	if b0 == '$' && (b1 == '{' || phpLabelStart(b1)) {
		return false
	}
	if b0 == '{' && b1 == '$' {
		return false
	}
	return true
}

func specNotStringEnd(q int) func(L, bm2, bm1, b0, b1 int) bool {
	return func(L, bm2, bm1, b0, b1 int) bool { return specEscaped(bm2, bm1) || b0 != q }
}

// a one-line comment goes on while the cursor is not at `?>` and no line terminator has just been passed
// (after CR the LF of a CR LF pair still belongs to the terminator)
func specCommentGoesOn(L, bm2, bm1, b0, b1 int) bool {
	notClose := !(L >= 2 && b0 == '?' && b1 == '>')
	notNewLine := (b0 == '\n' && bm1 == '\r') || (bm1 != '\n' && bm1 != '\r')
	return notClose && notNewLine
}

type condSpec struct {
	what string
	fn   func(L, bm2, bm1, b0, b1 int) bool
}

// by machine: the place decides what the condition has to mean
var condSpecs = map[string]condSpec{
	"php":             {"a `#` or `//` comment goes on: not at `?>`, and no line terminator passed", specCommentGoesOn},
	"template_string": {"the double-quoted string goes on: not at an unescaped `\"` and no interpolation starts here", func(L, a, b, c, d int) bool { return specNotStringEnd('"')(L, a, b, c, d) && specNotStringVar(L, a, b, c, d) }},
	"backqote":        {"the backquoted string goes on: not at an unescaped '`' and no interpolation starts here", func(L, a, b, c, d int) bool { return specNotStringEnd('`')(L, a, b, c, d) && specNotStringVar(L, a, b, c, d) }},
}

// PredSpec decides rule pred-spec.
func (a *Analysis) PredSpec() *report.RuleResult {
	res := report.NewResult("pred-spec")
	m := a.M
	info := m.info()
	var lexObj types.Object
	if m.Lex != nil && m.Lex.Recv != nil && len(m.Lex.Recv.List) == 1 && len(m.Lex.Recv.List[0].Names) == 1 {
		lexObj = info.Defs[m.Lex.Recv.List[0].Names[0]]
	}
	var cev *ceval.Interp
	for _, mn := range machineNames(a) {
		spec, ok := condSpecs[mn]
		if !ok {
			continue
		}
		// distinct condition expressions that call scanner methods, in this machine's states
		conds := map[string]ast.Expr{}
		var states []int
		for n := range a.Witness[mn] {
			states = append(states, n)
		}
		sort.Ints(states)
		for _, n := range states {
			b := m.Blocks[fmt.Sprintf("st_case_%d", n)]
			if b == nil {
				continue
			}
			for _, st := range b.Stmts {
				ast.Inspect(st, func(nd ast.Node) bool {
					is, ok := nd.(*ast.IfStmt)
					if !ok {
						return true
					}
					calls := false
					ast.Inspect(is.Cond, func(c ast.Node) bool {
						if ce, ok := c.(*ast.CallExpr); ok && m.helperDecl(ce) != nil {
							calls = true
						}
						return true
					})
					if calls {
						conds[types.ExprString(is.Cond)] = is.Cond
					}
					return true
				})
			}
		}
		var texts []string
		for t := range conds {
			texts = append(texts, t)
		}
		sort.Strings(texts)
		if len(texts) != 1 {
			res.Unknown(mn, "-", mn, fmt.Sprintf("undecided:anchor: machine %s has %d distinct transition conditions that call scanner methods, expected the one that decides where the token ends", mn, len(texts)))
			continue
		}
		cond := conds[texts[0]]
		// the byte alphabet: every constant a byte is compared with in the functions involved, plus label classes
		alpha := map[int]bool{'a': true, 'Z': true, '0': true, '_': true, 0x80: true, ' ': true, 0x7f: true, 'x': true,
			// the bytes PHP's rules mention
			'\\': true, '$': true, '{': true, '?': true, '>': true, '\n': true, '\r': true, '"': true, '`': true}
		seenFn := map[*ast.FuncDecl]bool{}
		var collect func(nd ast.Node)
		collect = func(nd ast.Node) {
			ast.Inspect(nd, func(c ast.Node) bool {
				switch x := c.(type) {
				case *ast.BasicLit:
					if tv := info.Types[x]; tv.Value != nil && tv.Value.Kind() == constant.Int {
						if v, ok := constant.Int64Val(tv.Value); ok && v >= 0 && v < 256 && x.Kind == token.CHAR {
							alpha[int(v)] = true
						}
					}
				case *ast.CallExpr:
					if fd := m.anyDecl(x); fd != nil && !seenFn[fd] {
						seenFn[fd] = true
						collect(fd.Body)
					}
				}
				return true
			})
		}
		collect(cond)
		var syms []int
		for b := range alpha {
			syms = append(syms, b)
		}
		sort.Ints(syms)
		res.Count("conditions", 1)
		pos := m.Prog.Pos(cond.Pos())
		nScen := 0
		var bad []string
		undec := ""
		for L := 1; L <= 3 && undec == "" && len(bad) < 4; L++ {
			for _, bm2 := range syms {
				for _, bm1 := range syms {
					for _, b0 := range syms {
						b1s := syms
						if L < 2 {
							b1s = []int{-1}
						}
						for _, b1 := range b1s {
							sc := pscen{L: L, cursor: 10}
							sc.win = [8]int{'x', 'x', bm2, bm1, b0, b1, 'x', 'x'}
							for k := 0; k < 8; k++ {
								if k-4 >= L {
									sc.win[k] = -1
								}
							}
							pi := &pinterp{m: m, sc: sc}
							v, st := pi.expr(cond, &pframe{vars: map[types.Object]pv{}, recv: "lex"})
							if st == pUnknown && lexObj != nil {
								// the window interpreter knows one spelling of the predicates (the receiver's fields read in
								// place); anything else - local aliases of the input, switches, helper results - is evaluated by
								// the general evaluator on the same scenario written out as an input
								data := make([]byte, int(sc.cursor)+L)
								for i := range data {
									data[i] = 'x'
								}
								for k := 0; k < 8; k++ {
									if sc.win[k] >= 0 && int(sc.cursor)+k-4 < len(data) {
										data[int(sc.cursor)+k-4] = byte(sc.win[k])
									}
								}
								if cev == nil {
									cev = ceval.New(m.Pkg)
								}
								minOff, maxOff := int64(0), int64(0)
								cev.Reads = func(base string, index int) {
									if base != "data" && !strings.HasSuffix(base, ".data") {
										return // a lookup table, not the input
									}
									off := int64(index) - sc.cursor
									if off < minOff {
										minOff = off
									}
									if off > maxOff {
										maxOff = off
									}
								}
								lex := &ceval.Struct{Type: "Lexer", Fields: map[string]interface{}{"data": ceval.Bytes{B: data}, "p": sc.cursor, "pe": int64(len(data))}}
								r, cst, why := cev.Eval(cond, info, map[types.Object]interface{}{lexObj: lex})
								switch cst {
								case ceval.OK:
									if b, ok := r.(bool); ok {
										v, st = pv{kind: 1, b: b}, pOK
										pi.minOff, pi.maxOff = minOff, maxOff
									}
								case ceval.Panic:
									st = pPanic
								default:
									pi.why = why
								}
							}
							nScen++
							want := spec.fn(L, bm2, bm1, b0, b1)
							desc := func() string {
								nx := "end of input"
								if b1 >= 0 {
									nx = fmt.Sprintf("%q", rune(b1))
								}
								return fmt.Sprintf("…%q %q [%q] %s (%d byte(s) left)", rune(bm2), rune(bm1), rune(b0), nx, L)
							}
							switch st {
							case pUnknown:
								if undec == "" {
									undec = fmt.Sprintf("on %s the condition cannot be evaluated: %s", desc(), pi.why)
								}
							case pPanic:
								if len(bad) < 4 {
									bad = append(bad, fmt.Sprintf("on %s the condition reads outside the input", desc()))
								}
							default:
								if v.b != want && len(bad) < 4 {
									bad = append(bad, fmt.Sprintf("on %s the condition is %v, PHP's rule gives %v", desc(), v.b, want))
								}
								// PHP's rule for these places depends on data[p-2..p+1] only: a condition that reads further back or
								// further ahead depends on bytes the rule does not mention (and re-reads input on every byte)
								if (pi.minOff < -2 || pi.maxOff > 1) && len(bad) < 4 {
									off := pi.minOff
									if pi.maxOff > 1 {
										off = pi.maxOff
									}
									bad = append(bad, fmt.Sprintf("on %s the condition reads data[p%+d]; PHP's rule depends on data[p-2..p+1] only", desc(), off))
								}
							}
							if undec != "" {
								break
							}
						}
					}
				}
			}
		}
		res.Count("scenarios", nScen)
		key := mn + "/token-goes-on"
		switch {
		case undec != "":
			res.Unknown(key, pos, texts[0], "undecided:idiom: "+undec)
		case len(bad) > 0:
			res.Bad(key, pos, texts[0], fmt.Sprintf("the condition `%s` must mean: %s; %s", texts[0], spec.what, strings.Join(bad, "; ")))
		default:
			res.OK(key, pos, texts[0], fmt.Sprintf("equals PHP's rule (%s) on all %d combinations of window bytes and distance to the end of the input", spec.what, nScen))
		}
	}
	return res
}

// anyDecl: the declaration of a function or method of the scanner package that a call invokes.
func (m *Machine) anyDecl(call *ast.CallExpr) *ast.FuncDecl {
	var id *ast.Ident
	switch f := unparen(call.Fun).(type) {
	case *ast.Ident:
		id = f
	case *ast.SelectorExpr:
		id = f.Sel
	}
	if id == nil {
		return nil
	}
	fn, _ := m.info().Uses[id].(*types.Func)
	if fn == nil || fn.Pkg() != m.Pkg.Types {
		return nil
	}
	for _, f := range m.Pkg.Syntax {
		for _, d := range f.Decls {
			if fd, ok := d.(*ast.FuncDecl); ok && fd.Body != nil && m.info().Defs[fd.Name] == fn {
				return fd
			}
		}
	}
	return nil
}
