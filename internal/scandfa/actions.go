package scandfa

import (
	"fmt"
	"go/ast"
	"go/constant"
	"go/token"
	"go/types"
	"sort"
	"strconv"
	"strings"
)

// Lin is a linear expression a*P + b*TS + c*TE + k over the values the cursor
// variables had when the block was entered.
type Lin struct{ P, TS, TE, K int }

func (l Lin) add(o Lin) Lin { return Lin{l.P + o.P, l.TS + o.TS, l.TE + o.TE, l.K + o.K} }
func (l Lin) sub(o Lin) Lin { return Lin{l.P - o.P, l.TS - o.TS, l.TE - o.TE, l.K - o.K} }
func (l Lin) String() string {
	var parts []string
	add := func(c int, n string) {
		switch {
		case c == 1:
			parts = append(parts, n)
		case c == -1:
			parts = append(parts, "-"+n)
		case c != 0:
			parts = append(parts, fmt.Sprintf("%d*%s", c, n))
		}
	}
	add(l.P, "p")
	add(l.TS, "ts")
	add(l.TE, "te")
	if l.K != 0 || len(parts) == 0 {
		parts = append(parts, strconv.Itoa(l.K))
	}
	return strings.Join(parts, "+")
}

type Event struct {
	Kind   string // setpos | ff | error | newline | tok | cs | call | ret | push | unget | ungetstr | pred
	ID     string // token / free-floating id, state number …
	A, B   Lin    // ff: the (a,b) arguments
	TS, TE Lin    // cursor values when the event happened
	P      Lin    // the cursor when the event happened
	At     token.Pos
}

// CondRec is one branch decision of a path: the condition, the way it went, and the cursor at that moment.
type CondRec struct {
	X     ast.Expr
	Neg   bool
	P     Lin
	Bytes map[types.Object]Lin // locals that hold lex.data[<index>] at that moment
	Ints  map[types.Object]Lin // integer locals that hold a linear expression of the cursor variables
}

// Outcome is one path through an action block.
type Outcome struct {
	P, TS, TE Lin
	Events    []Event
	Exit      string // goto target: stN, _again, _out
	Conds     []string
	CondX     []CondRec
	Undec     []string
	bytes     map[types.Object]Lin
	ints      map[types.Object]Lin // integer locals that hold a linear expression of the cursor variables (p := lex.p)
	consts    map[types.Object]string // locals that hold a named constant on this path (id := token.T_COMMENT)
	isDefault bool
	defaultAt int
}

func (o *Outcome) clone() *Outcome {
	n := *o
	n.Events = append([]Event(nil), o.Events...)
	n.Conds = append([]string(nil), o.Conds...)
	n.Undec = append([]string(nil), o.Undec...)
	n.CondX = append([]CondRec(nil), o.CondX...)
	if o.ints != nil {
		n.ints = map[types.Object]Lin{}
		for k, v := range o.ints {
			n.ints[k] = v
		}
	}
	if o.bytes != nil {
		n.bytes = map[types.Object]Lin{}
		for k, v := range o.bytes {
			n.bytes[k] = v
		}
	}
	if o.consts != nil {
		n.consts = map[types.Object]string{}
		for k, v := range o.consts {
			n.consts[k] = v
		}
	}
	return &n
}

func (o *Outcome) Has(kind string) *Event {
	for i := range o.Events {
		if o.Events[i].Kind == kind {
			return &o.Events[i]
		}
	}
	return nil
}

// Tok returns the token id set on this path ("" if none or zero).
func (o *Outcome) Tok() string {
	t := ""
	for _, e := range o.Events {
		if e.Kind == "tok" {
			t = e.ID
		}
	}
	return t
}

// NextScan is the position (as Lin) at which scanning resumes after this path.
func (o *Outcome) NextScan() Lin {
	if o.Exit == "_out" {
		return o.P // the explicit p++ was executed
	}
	return o.P.add(Lin{K: 1}) // stN / _again increment before looking at the byte
}

// Interpret executes block label symbolically; ungetStr and if/switch fork.
func (m *Machine) Interpret(label string) []*Outcome {
	b := m.Blocks[label]
	if b == nil {
		return nil
	}
	start := &Outcome{P: Lin{P: 1}, TS: Lin{TS: 1}, TE: Lin{TE: 1}}
	outs := m.execList(b.Stmts, []*Outcome{start})
	for _, o := range outs {
		if o.Exit == "" {
			o.Exit = b.Next
		}
	}
	return outs
}

func (m *Machine) execList(stmts []ast.Stmt, in []*Outcome) []*Outcome {
	cur := in
	for _, st := range stmts {
		var next []*Outcome
		for _, o := range cur {
			if o.Exit != "" {
				next = append(next, o)
				continue
			}
			next = append(next, m.exec(st, o)...)
		}
		cur = next
	}
	return cur
}

func (m *Machine) lin(e ast.Expr, o *Outcome) (Lin, bool) {
	e = unparen(e)
	if tv := m.info().Types[e]; tv.Value != nil {
		if v, ok := constant.Int64Val(constant.ToInt(tv.Value)); ok {
			return Lin{K: int(v)}, true
		}
	}
	switch x := e.(type) {
	case *ast.Ident:
		if o.ints != nil {
			if obj := m.info().ObjectOf(x); obj != nil {
				if v, ok := o.ints[obj]; ok {
					return v, true
				}
			}
		}
	case *ast.SelectorExpr:
		if id, ok := x.X.(*ast.Ident); ok && id.Name == "lex" {
			switch x.Sel.Name {
			case "p":
				return o.P, true
			case "ts":
				return o.TS, true
			case "te":
				return o.TE, true
			}
		}
	case *ast.BinaryExpr:
		l, ok1 := m.lin(x.X, o)
		r, ok2 := m.lin(x.Y, o)
		if ok1 && ok2 {
			switch x.Op {
			case token.ADD:
				return l.add(r), true
			case token.SUB:
				return l.sub(r), true
			}
		}
	}
	return Lin{}, false
}

// namedConst: e names a declared constant (token.T_COMMENT); its spelling.
func (m *Machine) namedConst(e ast.Expr) (string, bool) {
	e = unparen(e)
	var id *ast.Ident
	switch x := e.(type) {
	case *ast.Ident:
		id = x
	case *ast.SelectorExpr:
		id = x.Sel
	default:
		return "", false
	}
	if _, ok := m.info().Uses[id].(*types.Const); ok {
		return types.ExprString(e), true
	}
	return "", false
}

// constName: the spelling of e, or, when e is a local that holds a named constant on this path, that
// constant's spelling.
func (m *Machine) constName(e ast.Expr, o *Outcome) string {
	if id, ok := unparen(e).(*ast.Ident); ok && o.consts != nil {
		if obj := m.info().ObjectOf(id); obj != nil {
			if n, ok := o.consts[obj]; ok {
				return n
			}
		}
	}
	return types.ExprString(e)
}

func copyBytes(m map[types.Object]Lin) map[types.Object]Lin {
	if len(m) == 0 {
		return nil
	}
	r := map[types.Object]Lin{}
	for k, v := range m {
		r[k] = v
	}
	return r
}

// dataIndex: e is lex.data[<linear expression>]; the index as a Lin.
func (m *Machine) dataIndex(e ast.Expr, o *Outcome) (Lin, bool) {
	ix, ok := unparen(e).(*ast.IndexExpr)
	if !ok || types.ExprString(unparen(ix.X)) != "lex.data" {
		return Lin{}, false
	}
	return m.lin(ix.Index, o)
}

func unparen(e ast.Expr) ast.Expr {
	for {
		p, ok := e.(*ast.ParenExpr)
		if !ok {
			return e
		}
		e = p.X
	}
}

func (m *Machine) exec(st ast.Stmt, o *Outcome) []*Outcome {
	m.noteMarkUses(st, o)
	undec := func(why string) []*Outcome {
		o.Undec = append(o.Undec, fmt.Sprintf("%s (%s)", why, m.Pos(st)))
		return []*Outcome{o}
	}
	ev := func(kind, id string) {
		o.Events = append(o.Events, Event{Kind: kind, ID: id, TS: o.TS, TE: o.TE, P: o.P, At: st.Pos()})
	}
	switch x := st.(type) {
	case *ast.EmptyStmt:
		return []*Outcome{o}
	case *ast.BlockStmt:
		return m.execList(x.List, []*Outcome{o})
	case *ast.BranchStmt:
		if x.Tok == token.GOTO {
			o.Exit = x.Label.Name
			return []*Outcome{o}
		}
		return undec("branch " + x.Tok.String())
	case *ast.IncDecStmt:
		s := types.ExprString(unparen(x.X))
		d := 1
		if x.Tok == token.DEC {
			d = -1
		}
		switch s {
		case "lex.p":
			o.P = o.P.add(Lin{K: d})
		case "lex.top":
			if d > 0 {
				ev("push-top", "")
			} else {
				ev("pop-top", "")
			}
		default:
			return undec("inc/dec of " + s)
		}
		return []*Outcome{o}
	case *ast.DeclStmt:
		return []*Outcome{o}
	case *ast.ReturnStmt:
		if m.inlineDepth > 0 && len(x.Results) == 0 {
			o.Exit = "return"
			return []*Outcome{o}
		}
		if m.inlineDepth > 0 && m.retTok > 0 && len(x.Results) == 1 {
			// the helper computes the token id: tok = lex.helper(…)
			ev("tok", types.ExprString(x.Results[0]))
			o.Exit = "return"
			return []*Outcome{o}
		}
		return undec("return")
	case *ast.AssignStmt:
		if len(x.Lhs) == 2 { // s, err := …
			return []*Outcome{o}
		}
		lhs := types.ExprString(unparen(x.Lhs[0]))
		switch lhs {
		case "lex.p", "lex.te", "lex.ts":
			v, ok := m.lin(x.Rhs[0], o)
			if !ok {
				return undec("assignment " + lhs + " = " + types.ExprString(x.Rhs[0]))
			}
			switch lhs {
			case "lex.p":
				o.P = v
			case "lex.te":
				o.TE = v
			case "lex.ts":
				o.TS = v
			}
			return []*Outcome{o}
		case "lex.cs":
			ev("cs", types.ExprString(x.Rhs[0]))
			return []*Outcome{o}
		case "lex.act":
			ev("act", types.ExprString(x.Rhs[0]))
			return []*Outcome{o}
		case "tok":
			if call, ok := unparen(x.Rhs[0]).(*ast.CallExpr); ok {
				if fd := m.helperDecl(call); fd != nil && m.inlineDepth < 3 && len(fd.Recv.List) == 1 && len(fd.Recv.List[0].Names) == 1 && fd.Recv.List[0].Names[0].Name == "lex" {
					// a method of the scanner that returns the token id: its returns are the assignments
					m.inlineDepth++
					m.retTok++
					outs := m.execList(fd.Body.List, []*Outcome{o})
					m.retTok--
					m.inlineDepth--
					for _, r := range outs {
						if r.Exit == "return" {
							r.Exit = ""
						}
					}
					return outs
				}
			}
			ev("tok", m.constName(x.Rhs[0], o))
			return []*Outcome{o}
		case "lex.stack[lex.top]":
			ev("push", types.ExprString(x.Rhs[0]))
			return []*Outcome{o}
		case "lex.heredocLabel":
			ev("label", "")
			return []*Outcome{o}
		}
		if id, ok := unparen(x.Lhs[0]).(*ast.Ident); ok {
			// locals: s, base, c, isDocComment, lblStart, lblEnd, _ ; a local that holds a byte of the input is remembered
			obj := m.info().ObjectOf(id)
			if obj != nil && m.markSet()[obj] && len(x.Rhs) == 1 {
				if v, ok := m.lin(x.Rhs[0], o); ok {
					o.Events = append(o.Events, Event{Kind: "mark", ID: id.Name, P: v, TS: o.TS, TE: o.TE, At: st.Pos()})
				} else {
					o.Events = append(o.Events, Event{Kind: "mark-unknown", ID: id.Name, At: st.Pos()})
				}
			}
			if obj != nil {
				if o.ints != nil {
					delete(o.ints, obj)
				}
				if o.consts != nil {
					delete(o.consts, obj)
				}
				if len(x.Rhs) == 1 {
					if name, ok := m.namedConst(x.Rhs[0]); ok {
						if o.consts == nil {
							o.consts = map[types.Object]string{}
						}
						o.consts[obj] = name
					}
				}
				if len(x.Rhs) == 1 && !m.markSet()[obj] {
					if b, isInt := obj.Type().Underlying().(*types.Basic); isInt && b.Kind() == types.Int {
						if v, ok := m.lin(x.Rhs[0], o); ok {
							if o.ints == nil {
								o.ints = map[types.Object]Lin{}
							}
							o.ints[obj] = v
						}
					}
				}
				if o.bytes != nil {
					delete(o.bytes, obj)
				}
				if len(x.Rhs) == 1 {
					if ix, ok := m.dataIndex(x.Rhs[0], o); ok {
						if o.bytes == nil {
							o.bytes = map[types.Object]Lin{}
						}
						o.bytes[obj] = ix
					}
				}
			}
			return []*Outcome{o}
		}
		return undec("assignment to " + lhs)
	case *ast.ExprStmt:
		call, ok := x.X.(*ast.CallExpr)
		if !ok {
			return undec("expression statement")
		}
		fn := types.ExprString(call.Fun)
		switch fn {
		case "lex.setTokenPosition":
			ev("setpos", "")
		case "lex.addFreeFloatingToken":
			a, ok1 := m.lin(call.Args[2], o)
			b, ok2 := m.lin(call.Args[3], o)
			if !ok1 || !ok2 {
				return undec("free-floating bounds " + types.ExprString(call.Args[2]) + ", " + types.ExprString(call.Args[3]))
			}
			o.Events = append(o.Events, Event{Kind: "ff", ID: m.constName(call.Args[1], o), A: a, B: b, TS: o.TS, TE: o.TE, At: st.Pos()})
		case "lex.ungetCnt":
			k, ok := m.lin(call.Args[0], o)
			if !ok {
				return undec("ungetCnt(" + types.ExprString(call.Args[0]) + ")")
			}
			o.P = o.P.sub(k)
			o.TE = o.TE.sub(k)
			ev("unget", k.String())
			o.Events[len(o.Events)-1].A = k
		case "lex.ungetStr":
			s := ""
			if tv := m.info().Types[call.Args[0]]; tv.Value != nil {
				s = constant.StringVal(tv.Value)
			} else {
				return undec("ungetStr of a non-constant")
			}
			// either the match ends with s (give it back) or not
			o2 := o.clone()
			o2.Conds = append(o2.Conds, fmt.Sprintf("match ends with %q", s))
			o2.P = o2.P.sub(Lin{K: len(s)})
			o2.TE = o2.TE.sub(Lin{K: len(s)})
			o2.Events = append(o2.Events, Event{Kind: "ungetstr", ID: s, TS: o2.TS, TE: o2.TE, At: st.Pos()})
			o.Conds = append(o.Conds, fmt.Sprintf("match does not end with %q", s))
			return []*Outcome{o, o2}
		case "lex.call":
			ev("call", types.ExprString(call.Args[0])+"->"+types.ExprString(call.Args[1]))
			o.P = o.P.add(Lin{K: 1})
		case "lex.ret":
			ev("ret", types.ExprString(call.Args[0]))
			o.P = o.P.add(Lin{K: 1})
		case "lex.growCallStack":
		case "lex.error":
			ev("error", "")
		case "lex.newLines.Append":
			ev("newline", types.ExprString(call.Args[0]))
			if v, ok := m.lin(call.Args[0], o); ok {
				o.Events[len(o.Events)-1].A = v
			} else {
				o.Events[len(o.Events)-1].ID = "?" + types.ExprString(call.Args[0])
			}
		default:
			// a method of the scanner that is not part of the vocabulary: interpret its body in place
			// (a helper extracted from the action code). Its statements must themselves be in the
			// vocabulary, with the receiver called as in the action code.
			if fd := m.helperDecl(call); fd != nil && m.inlineDepth < 3 {
				ok := len(fd.Recv.List) == 1 && len(fd.Recv.List[0].Names) == 1 && fd.Recv.List[0].Names[0].Name == "lex"
				if ok {
					// parameters that stand for cursor expressions are not substituted: a helper that moves the
					// cursor by a parameter is outside the vocabulary (lin fails on the parameter) and stays undecided
					m.inlineDepth++
					outs := m.execList(fd.Body.List, []*Outcome{o})
					m.inlineDepth--
					var res []*Outcome
					for _, r := range outs {
						if r.Exit == "return" {
							r.Exit = ""
						}
						res = append(res, r)
					}
					return res
				}
			}
			return undec("call of " + fn)
		}
		return []*Outcome{o}
	case *ast.IfStmt:
		var outs []*Outcome
		if x.Init != nil {
			m.exec(x.Init, o)
		}
		cond := types.ExprString(x.Cond)
		t := o.clone()
		t.Conds = append(t.Conds, cond)
		t.CondX = append(t.CondX, CondRec{X: x.Cond, P: o.P, Bytes: copyBytes(o.bytes), Ints: copyBytes(o.ints)})
		o.CondX = append(o.CondX, CondRec{X: x.Cond, Neg: true, P: o.P, Bytes: copyBytes(o.bytes), Ints: copyBytes(o.ints)})
		if strings.Contains(cond, "lex.is") {
			t.Events = append(t.Events, Event{Kind: "pred", ID: cond, TS: t.TS, TE: t.TE, At: st.Pos()})
		}
		outs = append(outs, m.execList(x.Body.List, []*Outcome{t})...)
		f := o
		f.Conds = append(f.Conds, "!("+cond+")")
		if x.Else != nil {
			outs = append(outs, m.exec(x.Else, f)...)
		} else {
			outs = append(outs, f)
		}
		return outs
	case *ast.SwitchStmt:
		tag := ""
		if x.Tag != nil {
			tag = types.ExprString(x.Tag)
		}
		var outs []*Outcome
		hasDefault := false
		var before []CondRec // the negated conditions of the clauses above
		mk := func(e ast.Expr) ast.Expr {
			if x.Tag == nil {
				return e
			}
			return &ast.BinaryExpr{X: x.Tag, Op: token.EQL, Y: e}
		}
		for _, c := range x.Body.List {
			cc := c.(*ast.CaseClause)
			if cc.List == nil {
				hasDefault = true
			}
			var labels []string
			var disj ast.Expr
			for _, e := range cc.List {
				labels = append(labels, types.ExprString(e))
				if disj == nil {
					disj = mk(e)
				} else {
					disj = &ast.BinaryExpr{X: disj, Op: token.LOR, Y: mk(e)}
				}
			}
			t := o.clone()
			t.Conds = append(t.Conds, tag+"=="+strings.Join(labels, "|"))
			if disj != nil {
				t.CondX = append(t.CondX, before...)
				t.CondX = append(t.CondX, CondRec{X: disj, P: o.P, Bytes: copyBytes(o.bytes), Ints: copyBytes(o.ints)})
				before = append(before, CondRec{X: disj, Neg: true, P: o.P, Bytes: copyBytes(o.bytes), Ints: copyBytes(o.ints)})
			} else {
				t.defaultAt = len(t.CondX) // the default clause: every other clause's condition is false (filled in below)
				t.isDefault = true
			}
			outs = append(outs, m.execList(cc.Body, []*Outcome{t})...)
		}
		for _, r := range outs {
			if r.isDefault {
				r.isDefault = false
				ins := append([]CondRec(nil), r.CondX[:r.defaultAt]...)
				ins = append(ins, before...)
				r.CondX = append(ins, r.CondX[r.defaultAt:]...)
			}
		}
		if !hasDefault && tag != "lex.act" {
			o.Conds = append(o.Conds, tag+" matches no case")
			o.CondX = append(o.CondX, before...)
			outs = append(outs, o)
		}
		return outs
	}
	return undec(fmt.Sprintf("statement %T", st))
}

// ---- (d, e) dataflow: d = p - ts, e = te - ts at block entry -------------------------

const satur = 12

// Itv is an interval of small integers; Hi == satur means "or more".
type Itv struct {
	Lo, Hi int
	Def    bool
}

func (a Itv) join(b Itv) Itv {
	if !a.Def {
		return b
	}
	if !b.Def {
		return a
	}
	r := Itv{Def: true, Lo: a.Lo, Hi: a.Hi}
	if b.Lo < r.Lo {
		r.Lo = b.Lo
	}
	if b.Hi > r.Hi {
		r.Hi = b.Hi
	}
	return r
}

func (a Itv) shift(k int) Itv {
	if !a.Def {
		return a
	}
	r := Itv{Def: true, Lo: a.Lo + k, Hi: a.Hi + k}
	if a.Hi >= satur {
		r.Hi = satur
	}
	if r.Lo > satur {
		r.Lo = satur
	}
	if r.Hi > satur {
		r.Hi = satur
	}
	return r
}

func (a Itv) String() string {
	if !a.Def {
		return "?"
	}
	hi := strconv.Itoa(a.Hi)
	if a.Hi >= satur {
		hi = "∞"
	}
	return fmt.Sprintf("[%d,%s]", a.Lo, hi)
}

type DE struct{ D, E Itv }

// eval a Lin in terms of (d,e): value - ts.
func (l Lin) rel(de DE) Itv {
	// value = P*p + TS*ts + TE*te + K ; relative to ts this is only meaningful when P+TS+TE == 1
	if l.P+l.TS+l.TE != 1 {
		return Itv{}
	}
	r := Itv{Def: true, Lo: l.K, Hi: l.K}
	addScaled := func(c int, v Itv) {
		if c == 0 {
			return
		}
		if !v.Def {
			r.Def = false
			return
		}
		lo, hi := c*v.Lo, c*v.Hi
		if c < 0 {
			lo, hi = hi, lo
		}
		if v.Hi >= satur {
			if c > 0 {
				hi = satur
			} else {
				lo = -satur
			}
		}
		r.Lo += lo
		r.Hi += hi
		if r.Hi > satur {
			r.Hi = satur
		}
	}
	addScaled(l.P, de.D)
	addScaled(l.TE, de.E)
	return r
}

// Flow computes for every label of machine `entry` the interval of d = p - ts
// and e = te - ts at block entry, following gotos between states of one token
// scan (edges that start a new token are not followed).
type Flow struct {
	At    map[string]DE
	Reach []string
}

func (m *Machine) FlowFrom(entry int) *Flow {
	f := &Flow{At: map[string]DE{}}
	start := fmt.Sprintf("st_case_%d", entry)
	f.At[start] = DE{D: Itv{Def: true}, E: Itv{}}
	work := []string{start}
	inWork := map[string]bool{start: true}
	push := func(l string, de DE) {
		old, ok := f.At[l]
		nw := DE{D: old.D.join(de.D), E: old.E.join(de.E)}
		if !ok {
			nw = de
		}
		if !ok || nw != old {
			// widening: after a few growths jump to ∞
			if ok && nw.D.Hi > old.D.Hi && nw.D.Hi > 6 {
				nw.D.Hi = satur
			}
			if ok && nw.E.Def && old.E.Def && nw.E.Hi > old.E.Hi && nw.E.Hi > 6 {
				nw.E.Hi = satur
			}
			f.At[l] = nw
			if !inWork[l] {
				work = append(work, l)
				inWork[l] = true
			}
		}
	}
	for len(work) > 0 {
		l := work[0]
		work = work[1:]
		inWork[l] = false
		de := f.At[l]
		switch {
		case strings.HasPrefix(l, "st_case_"):
			n, _ := strconv.Atoi(strings.TrimPrefix(l, "st_case_"))
			// all 256 bytes and the eof action
			seen := map[string]bool{}
			for b := 0; b < 256; b++ {
				ts, err := m.Targets(n, byte(b))
				if err != nil {
					continue
				}
				for t := range ts {
					seen[t] = true
				}
			}
			if t := m.EOF[n]; t != "" {
				seen[t] = true
			}
			for t := range seen {
				push(t, de)
			}
		case strings.HasPrefix(l, "st") && !strings.HasPrefix(l, "st_"):
			// stN: p++ then st_case_N (entry states also reset ts, but those are token boundaries: not followed here)
			n := strings.TrimPrefix(l, "st")
			push("st_case_"+n, DE{D: de.D.shift(1), E: de.E})
		default:
			for _, o := range m.Interpret(l) {
				if len(o.Undec) > 0 {
					continue
				}
				nd := DE{D: o.P.rel(de), E: o.TE.rel(de)}
				tgt := o.Exit
				if tgt == "_again" || tgt == "_out" || tgt == "" {
					continue // token boundary or machine switch
				}
				if strings.HasPrefix(tgt, "st") && !strings.HasPrefix(tgt, "st_") {
					n, _ := strconv.Atoi(strings.TrimPrefix(tgt, "st"))
					if _, isEntry := m.EntryOf[n]; isEntry {
						continue // next token
					}
				}
				push(tgt, nd)
			}
		}
	}
	for l := range f.At {
		f.Reach = append(f.Reach, l)
	}
	sort.Strings(f.Reach)
	return f
}


// helperDecl: the declaration of the scanner method a call statement of the action code invokes.
func (m *Machine) helperDecl(call *ast.CallExpr) *ast.FuncDecl {
	se, ok := call.Fun.(*ast.SelectorExpr)
	if !ok {
		return nil
	}
	fn, _ := m.info().Uses[se.Sel].(*types.Func)
	if fn == nil || fn.Pkg() != m.Pkg.Types {
		return nil
	}
	for _, f := range m.Pkg.Syntax {
		for _, d := range f.Decls {
			if fd, ok := d.(*ast.FuncDecl); ok && fd.Body != nil && fd.Recv != nil && m.info().Defs[fd.Name] == fn {
				return fd
			}
		}
	}
	return nil
}


// ---- marks: locals of Lex that remember a cursor position between transitions ---------------------

// markSet: the int locals of Lex that some statement assigns a linear expression of the cursor to
// (lblStart, lblEnd of the heredoc opener).
func (m *Machine) markSet() map[types.Object]bool {
	if m.marks != nil {
		return m.marks
	}
	m.marks = map[types.Object]bool{}
	if m.Lex == nil {
		return m.marks
	}
	info := m.info()
	ast.Inspect(m.Lex.Body, func(n ast.Node) bool {
		as, ok := n.(*ast.AssignStmt)
		if !ok || len(as.Lhs) != 1 || len(as.Rhs) != 1 || as.Tok != token.ASSIGN {
			return true
		}
		id, ok := unparen(as.Lhs[0]).(*ast.Ident)
		if !ok {
			return true
		}
		obj := info.ObjectOf(id)
		if obj == nil {
			return true
		}
		if b, ok := obj.Type().Underlying().(*types.Basic); !ok || b.Kind() != types.Int {
			return true
		}
		mentionsCursor := false
		ast.Inspect(as.Rhs[0], func(y ast.Node) bool {
			if se, ok := y.(*ast.SelectorExpr); ok {
				if x, ok := se.X.(*ast.Ident); ok && x.Name == "lex" && se.Sel.Name == "p" {
					mentionsCursor = true
				}
			}
			return true
		})
		if mentionsCursor {
			m.marks[obj] = true
		}
		return true
	})
	return m.marks
}

// noteMarkUses records, for a simple statement or the condition of a compound one, every read of a mark:
// "usemark" (ID name; K of A = the constant added to it when it indexes lex.data, e.g. -1 for data[lblStart-1])
// and "useslice" (ID "lo:hi") for lex.data[lo:hi] between two marks.
func (m *Machine) noteMarkUses(st ast.Stmt, o *Outcome) {
	marks := m.markSet()
	if len(marks) == 0 {
		return
	}
	info := m.info()
	var exprs []ast.Expr
	switch x := st.(type) {
	case *ast.AssignStmt:
		exprs = append(exprs, x.Rhs...)
		for _, l := range x.Lhs {
			if _, isId := unparen(l).(*ast.Ident); !isId {
				exprs = append(exprs, l)
			}
		}
	case *ast.ExprStmt:
		exprs = append(exprs, x.X)
	case *ast.IfStmt:
		exprs = append(exprs, x.Cond)
	case *ast.SwitchStmt:
		if x.Tag != nil {
			exprs = append(exprs, x.Tag)
		}
	case *ast.ReturnStmt:
		exprs = append(exprs, x.Results...)
	case *ast.IncDecStmt:
		exprs = append(exprs, x.X)
	default:
		return
	}
	isMark := func(e ast.Expr) (string, bool) {
		id, ok := unparen(e).(*ast.Ident)
		if !ok {
			return "", false
		}
		if obj := info.ObjectOf(id); obj != nil && marks[obj] {
			return id.Name, true
		}
		return "", false
	}
	for _, e := range exprs {
		handled := map[ast.Node]bool{}
		ast.Inspect(e, func(n ast.Node) bool {
			switch y := n.(type) {
			case *ast.SliceExpr:
				if types.ExprString(unparen(y.X)) == "lex.data" && y.Low != nil && y.High != nil {
					lo, ok1 := isMark(y.Low)
					hi, ok2 := isMark(y.High)
					if ok1 && ok2 {
						o.Events = append(o.Events, Event{Kind: "useslice", ID: lo + ":" + hi, At: y.Pos()})
						handled[unparen(y.Low)] = true
						handled[unparen(y.High)] = true
					}
				}
			case *ast.IndexExpr:
				if types.ExprString(unparen(y.X)) == "lex.data" {
					ix := unparen(y.Index)
					if nm, ok := isMark(ix); ok {
						o.Events = append(o.Events, Event{Kind: "useidx", ID: nm, A: Lin{}, At: y.Pos()})
						handled[ix] = true
					} else if be, ok := ix.(*ast.BinaryExpr); ok && (be.Op == token.ADD || be.Op == token.SUB) {
						if nm, ok := isMark(be.X); ok {
							if tv := info.Types[be.Y]; tv.Value != nil {
								if k, ok := constant.Int64Val(constant.ToInt(tv.Value)); ok {
									if be.Op == token.SUB {
										k = -k
									}
									o.Events = append(o.Events, Event{Kind: "useidx", ID: nm, A: Lin{K: int(k)}, At: y.Pos()})
									handled[unparen(be.X)] = true
								}
							}
						}
					}
				}
			case *ast.Ident:
				if handled[y] {
					return true
				}
				if nm, ok := isMark(y); ok {
					o.Events = append(o.Events, Event{Kind: "usemark", ID: nm, At: y.Pos()})
				}
			}
			return true
		})
	}
}
