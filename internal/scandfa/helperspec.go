package scandfa

import (
	"fmt"
	"go/ast"
	"go/constant"
	"go/types"
	"sort"
	"strconv"
	"strings"

	"verif/internal/ceval"
	"verif/internal/report"
)

func (a *Analysis) lexObj() types.Object {
	m := a.M
	if m.Lex != nil && m.Lex.Recv != nil && len(m.Lex.Recv.List) == 1 && len(m.Lex.Recv.List[0].Names) == 1 {
		return m.info().Defs[m.Lex.Recv.List[0].Names[0]]
	}
	return nil
}

// ---- unget-spec ------------------------------------------------------------------------------------------
//
// The action interpreter of this package gives `lex.ungetStr(s)` its meaning by name: if the token ends with s,
// the last len(s) bytes are given back (cursor and token end move back by len(s)), otherwise nothing happens.
// The rule makes that an obligation on the body: ungetStr (and ungetCnt, which it calls) is evaluated from
// source (package ceval) for every token text of up to three bytes over the bytes of s plus one other byte,
// for every constant s the scanner passes, and the cursor and token end afterwards must be the specified ones
// (round 6 seed C03-16: `strings.TrimRight(tokenStr, s)` treats s as a set of bytes and gives back every
// trailing `?` and `>` of a comment).
func (a *Analysis) UngetSpec() *report.RuleResult {
	res := report.NewResult("unget-spec")
	m := a.M
	info := m.info()
	lexObj := a.lexObj()
	in := ceval.New(m.Pkg)
	fd := in.Decl("Lexer", "ungetStr")
	if fd == nil || lexObj == nil {
		res.Unknown("ungetStr", "-", "", "undecided:anchor: Lexer.ungetStr not found")
		return res
	}
	// the constants the scanner passes
	consts := map[string]bool{}
	ast.Inspect(m.Lex.Body, func(n ast.Node) bool {
		if c, ok := n.(*ast.CallExpr); ok && len(c.Args) == 1 && types.ExprString(c.Fun) == "lex.ungetStr" {
			if tv := info.Types[c.Args[0]]; tv.Value != nil {
				consts[constant.StringVal(tv.Value)] = true
			}
		}
		return true
	})
	var cs []string
	for c := range consts {
		cs = append(cs, c)
	}
	sort.Strings(cs)
	pos := m.Prog.Pos(fd.Pos())
	for _, s := range cs {
		res.Count("constants", 1)
		alpha := []byte(s)
		alpha = append(alpha, 'a')
		var texts []string
		var gen func(p string, n int)
		gen = func(p string, n int) {
			if p != "" {
				texts = append(texts, p)
			}
			if n == 0 {
				return
			}
			for _, c := range alpha {
				gen(p+string([]byte{c}), n-1)
			}
		}
		gen("", 3)
		var bad []string
		undec := ""
		n := 0
		for _, t := range texts {
			data := append([]byte("xx"), t...)
			data = append(data, 'y')
			ts, te := 2, 2+len(t)
			lex := &ceval.Struct{Type: "Lexer", Fields: map[string]interface{}{"data": ceval.Bytes{B: data}, "ts": int64(ts), "te": int64(te), "p": int64(te - 1), "pe": int64(len(data))}}
			_, st, why := in.Call(fd, lex, []interface{}{s})
			n++
			if st == ceval.Unsupported || st == ceval.Diverged {
				undec = fmt.Sprintf("on token %q: %s", t, why)
				break
			}
			if st == ceval.Panic {
				bad = append(bad, fmt.Sprintf("panics on token %q: %s", t, why))
				continue
			}
			back := 0
			if strings.HasSuffix(t, s) {
				back = len(s)
			}
			gte, _ := lex.Fields["te"].(int64)
			gp, _ := lex.Fields["p"].(int64)
			if int(gte) != te-back || int(gp) != te-1-back {
				bad = append(bad, fmt.Sprintf("token %q: gives back %d byte(s), want %d", t, te-int(gte), back))
			}
			if len(bad) >= 4 {
				break
			}
		}
		res.Count("scenarios", n)
		key := "ungetStr/" + strconv.Quote(s)
		switch {
		case undec != "":
			res.Unknown(key, pos, "Lexer.ungetStr", "undecided:idiom: "+undec)
		case len(bad) > 0:
			res.Bad(key, pos, "Lexer.ungetStr", fmt.Sprintf("ungetStr(%q) must give back exactly len(s) bytes when the token ends with s and nothing otherwise; %s", s, strings.Join(bad, "; ")))
		default:
			res.OK(key, pos, "Lexer.ungetStr", fmt.Sprintf("gives back the suffix, and only it, on all %d token texts", n))
		}
	}
	return res
}

// ---- num-spec ------------------------------------------------------------------------------------------------
//
// An integer-shaped literal is T_LNUMBER exactly when its value fits the platform's signed integer, otherwise
// T_DNUMBER. num-classify decides that T_LNUMBER is only returned after a successful integer parse; whether the
// right digits were parsed in the right base is decided here: every action block that can return T_LNUMBER is
// evaluated from source (package ceval; strconv and strings are modelled) on decimal, octal, hexadecimal and
// binary literals around the boundaries - zero, all-zero digits, separators, the largest integer and one
// more - and the token id it assigns must be the specified one (round 6 seed C03-18:
// `strings.TrimLeft(text, "0x")` instead of cutting the two-byte prefix makes `0x0` a float).
func (a *Analysis) NumSpec() *report.RuleResult {
	res := report.NewResult("num-spec")
	m := a.M
	info := m.info()
	lexObj := a.lexObj()
	if lexObj == nil {
		res.Unknown("Lex", "-", "", "undecided:anchor: the receiver of Lex was not found")
		return res
	}
	kindVal := func(name string) (int64, bool) {
		for _, imp := range m.Pkg.Imports {
			if o := imp.Types.Scope().Lookup(name); o != nil {
				if c, ok := o.(*types.Const); ok {
					return constant.Int64Val(constant.ToInt(c.Val()))
				}
			}
		}
		return 0, false
	}
	vL, ok1 := kindVal("T_LNUMBER")
	vD, ok2 := kindVal("T_DNUMBER")
	if !ok1 || !ok2 {
		res.Unknown("kinds", "-", "", "undecided:anchor: T_LNUMBER / T_DNUMBER not found")
		return res
	}
	// the `tok` local of Lex
	var tokObj types.Object
	ast.Inspect(m.Lex.Body, func(n ast.Node) bool {
		if id, ok := n.(*ast.Ident); ok && id.Name == "tok" && tokObj == nil {
			if o := info.ObjectOf(id); o != nil {
				tokObj = o
			}
		}
		return tokObj == nil
	})
	if tokObj == nil {
		res.Unknown("tok", "-", "", "undecided:anchor: the token id variable of Lex was not found")
		return res
	}
	families := map[string][]string{
		"dec": {"0", "7", "9", "10", "1_000", "9223372036854775807", "9223372036854775808", "99999999999999999999", "1_0_0"},
		"oct": {"00", "017", "0777", "0_7", "0777777777777777777777", "01000000000000000000000", "08", "019"},
		"hex": {"0x0", "0x00", "0x1f", "0xFF", "0x7fffffffffffffff", "0x8000000000000000", "0xffffffffffffffffff", "0x1_0", "0x0_0"},
		"bin": {"0b0", "0b00", "0b1", "0b101", "0b1_0", "0b0_0", "0b" + strings.Repeat("1", 63), "0b" + strings.Repeat("1", 64)},
	}
	spec := func(t string) int64 {
		clean := strings.ReplaceAll(t, "_", "")
		base := 10
		switch {
		case strings.HasPrefix(clean, "0x"):
			base, clean = 16, clean[2:]
		case strings.HasPrefix(clean, "0b"):
			base, clean = 2, clean[2:]
		case len(clean) > 1 && clean[0] == '0':
			base = 8
		}
		if _, err := strconv.ParseInt(clean, base, 64); err == nil {
			return vL
		}
		return vD
	}
	used := map[string]int{}
	for _, mn := range machineNames(a) {
		for _, l := range a.actionBlocks(mn) {
			isNum := false
			var teLin *Lin
			for _, o := range a.Outcomes(l) {
				if strings.HasSuffix(o.Tok(), "T_LNUMBER") {
					isNum = true
					for _, e := range o.Events {
						if e.Kind == "setpos" {
							x := e.TE
							teLin = &x
						}
					}
				}
			}
			if !isNum {
				continue
			}
			blk := m.Blocks[l]
			key := a.blockKey(mn, l, used)
			pos := m.Prog.Pos(blk.Pos)
			if _, isSwitch := firstSwitchOnAct(blk.Stmts); isSwitch {
				continue // the deferred-action dispatcher: its number cases are the same statements as the direct blocks
			}
			if teLin == nil || teLin.TS != 0 || (teLin.P == 1) == (teLin.TE == 1) {
				res.Unknown(key, pos, l, "undecided:idiom: the end of the number token is not an expression in p or te")
				continue
			}
			// which literals reach this block: from the automaton (the shortest input that leads to a state with a
			// transition into the block), not from the action's own code
			radix := map[string]bool{}
			for _, st := range m.States {
				w, ok := a.Witness[mn][st]
				if !ok {
					continue
				}
				into := m.EOF[st] == l
				for b := 0; b < 256 && !into; b++ {
					for t := range a.Targets(st, byte(b)) {
						if t == l {
							into = true
						}
					}
				}
				if !into {
					continue
				}
				switch {
				case strings.HasPrefix(w, "0x"):
					radix["hex"] = true
				case strings.HasPrefix(w, "0b"):
					radix["bin"] = true
				default:
					radix["dec"], radix["oct"] = true, true
				}
			}
			if len(radix) == 0 {
				res.Unknown(key, pos, l, "undecided:idiom: no state of the automaton leads into this block")
				continue
			}
			res.Count("number-blocks", 1)
			var bad []string
			undec := ""
			n := 0
			famOK := map[string]bool{}
			for fam, texts := range families {
				if !radix[fam] {
					continue
				}
				for _, t := range texts {
					data := append([]byte("<?p"), t...)
					data = append(data, ';', ' ')
					ts := 3
					end := ts + len(t)
					p, te := 0, 0
					if teLin.P == 1 {
						p = end - teLin.K
					} else {
						te = end - teLin.K
						p = te
					}
					lex := &ceval.Struct{Type: "Lexer", Fields: map[string]interface{}{"data": ceval.Bytes{B: data}, "p": int64(p), "pe": int64(len(data)), "ts": int64(ts), "te": int64(te), "cs": int64(0), "act": int64(0), "top": int64(0)}}
					in := ceval.New(m.Pkg)
					in.Ext = func(fn *types.Func, recv interface{}, args []interface{}) ([]interface{}, bool) {
						if fn.Name() == "setTokenPosition" || fn.Name() == "addFreeFloatingToken" {
							return nil, true
						}
						return nil, false
					}
					vars := map[types.Object]interface{}{lexObj: lex, tokObj: int64(0)}
					for _, st := range blk.Stmts {
						ast.Inspect(st, func(nd ast.Node) bool {
							if id, ok := nd.(*ast.Ident); ok {
								if v, ok := info.Uses[id].(*types.Var); ok && v != lexObj && v != tokObj && !v.IsField() && v.Pkg() == m.Pkg.Types && v.Parent() != m.Pkg.Types.Scope() {
									if _, ok := vars[v]; !ok && (v.Pos() < blk.Stmts[0].Pos() || v.Pos() > blk.Stmts[len(blk.Stmts)-1].End()) {
										if _, isPtr := v.Type().Underlying().(*types.Pointer); isPtr {
											vars[v] = ceval.Opaque{What: v.Name()}
										}
									}
								}
							}
							return true
						})
					}
					_, st, why := in.Exec(blk.Stmts, info, vars)
					n++
					switch st {
					case ceval.Unsupported, ceval.Diverged:
						undec = fmt.Sprintf("on %q: %s", t, why)
					case ceval.Panic:
						// a block for one radix cuts a prefix the other literals do not have: not its input
						continue
					default:
						got, _ := vars[tokObj].(int64)
						gts, _ := lex.Fields["ts"].(int64)
						gte, _ := lex.Fields["te"].(int64)
						if int(gts) != ts || int(gte) != end {
							continue // not a literal this block is reached with
						}
						if got == spec(t) {
							famOK[fam] = true
						} else if famOK[fam] || true {
							bad = append(bad, fmt.Sprintf("%s literal %q is returned as %s, it is %s", fam, t, numName(got, vL, vD), numName(spec(t), vL, vD)))
						}
					}
					if undec != "" {
						break
					}
				}
				if undec != "" {
					break
				}
			}
			// a block handles one radix: keep the complaints of the families it classifies correctly somewhere
			real := bad
			res.Count("scenarios", n)
			switch {
			case undec != "":
				res.Unknown(key, pos, l, "undecided:idiom: "+undec)
			case len(real) > 0:
				sort.Strings(real)
				if len(real) > 4 {
					real = real[:4]
				}
				res.Bad(key, pos, l, "an integer literal is T_LNUMBER exactly when its digits, in its radix, fit a signed 64-bit integer; "+strings.Join(real, "; "))
			default:
				var fs []string
				for f := range famOK {
					fs = append(fs, f)
				}
				sort.Strings(fs)
				res.OK(key, pos, l, "classifies the "+strings.Join(fs, "/")+" literals of the boundary family as specified")
			}
		}
	}
	return res
}

func numName(v, vL, vD int64) string {
	switch v {
	case vL:
		return "T_LNUMBER"
	case vD:
		return "T_DNUMBER"
	}
	return fmt.Sprintf("token %d", v)
}

func firstSwitchOnAct(stmts []ast.Stmt) (*ast.SwitchStmt, bool) {
	for _, st := range stmts {
		if sw, ok := st.(*ast.SwitchStmt); ok && sw.Tag != nil && types.ExprString(sw.Tag) == "lex.act" {
			return sw, true
		}
	}
	return nil, false
}
