package scandfa

import (
	"fmt"
	"sort"
	"strconv"
	"strings"

	"verif/internal/report"
)

// ---- mark-flow -------------------------------------------------------------------------------------
//
// The generated scanner keeps cursor positions in locals of Lex between transitions (lblStart and
// lblEnd of the heredoc opener: recorded by transition actions, used by the token action that cuts the
// label out of the input). Whether a use is safe is a property of the paths through the automaton, not
// of the action that contains it. A forward must-analysis over the transition system of each machine
// (the same graph the (d,e) dataflow walks: states, transition blocks, actions; edges that start a new
// token are not followed) computes at every block
//
//	set[v]     v was assigned on every path since the token began
//	dmin[v]    a lower bound of v - ts at that assignment (from the interval of p - ts there)
//	keeps[v]   the cursor has not moved back since v was assigned (p >= v)
//	le[u,v]    u <= v: v was assigned from the cursor (plus k >= 0) while keeps[u] held
//
// and every read of a mark is an obligation:
//
//	usemark / useidx / useslice: the mark is set (a stale value of an earlier token, or the initial 0,
//	                             selects bytes that have nothing to do with this token);
//	useidx with offset k:        dmin[v] + k >= 0 (the index is not before the token; ts >= 0);
//	useslice lo:hi:              le[lo,hi] (lo <= hi), dmin[lo] >= 0.
//
// The upper bound needs no flow fact: a mark is a value the cursor had inside Lex, where p < len(data).

type markState struct {
	set   map[string]bool
	dmin  map[string]int
	keeps map[string]bool
	le    map[[2]string]bool
}

func newMarkState() *markState {
	return &markState{set: map[string]bool{}, dmin: map[string]int{}, keeps: map[string]bool{}, le: map[[2]string]bool{}}
}

func (s *markState) clone() *markState {
	n := newMarkState()
	for k, v := range s.set {
		n.set[k] = v
	}
	for k, v := range s.dmin {
		n.dmin[k] = v
	}
	for k, v := range s.keeps {
		n.keeps[k] = v
	}
	for k, v := range s.le {
		n.le[k] = v
	}
	return n
}

// meet: what holds on both paths. Returns true when s changed.
func (s *markState) meet(o *markState) bool {
	ch := false
	for k := range s.set {
		if !o.set[k] {
			delete(s.set, k)
			delete(s.dmin, k)
			delete(s.keeps, k)
			ch = true
			continue
		}
		if o.dmin[k] < s.dmin[k] {
			s.dmin[k] = o.dmin[k]
			ch = true
		}
		if s.keeps[k] && !o.keeps[k] {
			delete(s.keeps, k)
			ch = true
		}
	}
	for k := range s.le {
		if !o.le[k] || !s.set[k[0]] || !s.set[k[1]] {
			delete(s.le, k)
			ch = true
		}
	}
	return ch
}

type markUse struct {
	key, pos, what, why string
	ok                  bool
}

// MarkFlow decides rule mark-flow; the proved uses are also returned by expression text so that
// idx-guard can discharge the index and slice sites that rest on them.
func (a *Analysis) MarkFlow() (*report.RuleResult, map[string]bool) {
	res := report.NewResult("mark-flow")
	m := a.M
	proved := map[string]bool{} // "lex.data[lblStart:lblEnd]" → every use proved
	seenUse := map[string]bool{}
	nMarks := len(m.markSet())
	res.Count("marks", nMarks)
	for _, mn := range machineNames(a) {
		fl := a.Flows[mn]
		if fl == nil {
			continue
		}
		entry := fmt.Sprintf("st_case_%d", m.Entries[mn])
		at := map[string]*markState{entry: newMarkState()}
		work := []string{entry}
		inWork := map[string]bool{entry: true}
		push := func(l string, st *markState) {
			old, ok := at[l]
			if !ok {
				at[l] = st.clone()
			} else if !old.meet(st) {
				return
			}
			if !inWork[l] {
				work = append(work, l)
				inWork[l] = true
			}
		}
		// transfer over one outcome; uses are collected in the final pass only
		transfer := func(label string, o *Outcome, in *markState, collect func(u markUse)) *markState {
			st := in.clone()
			de := fl.At[label]
			inBlock := map[string]int{} // marks assigned in this block from the entry cursor plus k
			for _, e := range o.Events {
				switch e.Kind {
				case "mark":
					v := e.P
					name := e.ID
					// cursor movements inside the block before this point: P of the event is the value stored, not the cursor;
					// a value of the form p+k (k >= 0 relative to the entry cursor) is at or beyond every mark that still `keeps`
					delete(st.set, name)
					for k := range st.le {
						if k[0] == name || k[1] == name {
							delete(st.le, k)
						}
					}
					d := v.rel(de)
					if !d.Def {
						delete(st.dmin, name)
						delete(st.keeps, name)
						continue // not a position of this token: stays unset
					}
					st.set[name] = true
					st.dmin[name] = d.Lo
					delete(st.keeps, name)
					delete(inBlock, name)
					if v.P == 1 && v.TS == 0 && v.TE == 0 && v.K >= 0 {
						// the entry cursor is at or beyond every mark that still `keeps`; the new mark is at or beyond it
						for u := range st.set {
							if u == name {
								continue
							}
							if k, here := inBlock[u]; here {
								if k <= v.K {
									st.le[[2]string{u, name}] = true
								}
							} else if st.keeps[u] {
								st.le[[2]string{u, name}] = true
							}
						}
						inBlock[name] = v.K
					}
				case "mark-unknown":
					delete(st.set, e.ID)
					delete(st.dmin, e.ID)
					delete(st.keeps, e.ID)
				case "usemark", "useidx", "useslice":
					if collect == nil {
						continue
					}
					names := strings.Split(e.ID, ":")
					u := markUse{pos: m.Prog.Pos(e.At), ok: true}
					switch e.Kind {
					case "usemark":
						u.what = names[0]
					case "useidx":
						switch {
						case e.A.K == 0:
							u.what = fmt.Sprintf("lex.data[%s]", names[0])
						case e.A.K < 0:
							u.what = fmt.Sprintf("lex.data[%s - %d]", names[0], -e.A.K)
						default:
							u.what = fmt.Sprintf("lex.data[%s + %d]", names[0], e.A.K)
						}
					case "useslice":
						u.what = fmt.Sprintf("lex.data[%s:%s]", names[0], names[1])
					}
					for _, n := range names {
						if !st.set[n] {
							u.ok = false
							u.why = fmt.Sprintf("%s is not recorded on every path of the automaton that reaches this action since the token began: the value read is the initial 0 or a position left by an earlier token", n)
						}
					}
					if u.ok && e.Kind == "useidx" && st.dmin[names[0]]+e.A.K < 0 {
						u.ok = false
						u.why = fmt.Sprintf("%s is recorded at least %d byte(s) after the token start, so %s can lie before it (and before the input when the token starts at 0)", names[0], st.dmin[names[0]], u.what)
					}
					if u.ok && e.Kind == "useslice" {
						if st.dmin[names[0]] < 0 {
							u.ok = false
							u.why = names[0] + " can lie before the token start"
						} else if !st.le[[2]string{names[0], names[1]}] && names[0] != names[1] {
							u.ok = false
							u.why = fmt.Sprintf("%s <= %s is not established: %s is not always recorded after %s with the cursor moving forward in between", names[0], names[1], names[1], names[0])
						}
					}
					u.key = mn + "/" + u.what
					collect(u)
				}
			}
			// where the cursor is when the block is left
			forward := o.P.P == 1 && o.P.TS == 0 && o.P.TE == 0 && o.P.K >= 0
			if !forward {
				st.keeps = map[string]bool{}
			} else {
				for name, k := range inBlock {
					if st.set[name] && k <= o.P.K {
						st.keeps[name] = true
					}
				}
			}
			return st
		}
		step := func(l string, collect func(u markUse)) {
			st := at[l]
			switch {
			case strings.HasPrefix(l, "st_case_"):
				n, _ := strconv.Atoi(strings.TrimPrefix(l, "st_case_"))
				seen := map[string]bool{}
				for b := 0; b < 256; b++ {
					for t := range a.Targets(n, byte(b)) {
						if !strings.HasPrefix(t, "!error") {
							seen[t] = true
						}
					}
				}
				if t := m.EOF[n]; t != "" {
					seen[t] = true
				}
				if collect == nil {
					for t := range seen {
						push(t, st)
					}
				}
			case strings.HasPrefix(l, "st") && !strings.HasPrefix(l, "st_"):
				if collect == nil {
					push("st_case_"+strings.TrimPrefix(l, "st"), st) // p++: forward
				}
			default:
				for _, o := range a.Outcomes(l) {
					if len(o.Undec) > 0 {
						continue
					}
					out := transfer(l, o, st, collect)
					if collect != nil {
						continue
					}
					tgt := o.Exit
					if tgt == "_again" || tgt == "_out" || tgt == "" {
						continue
					}
					if strings.HasPrefix(tgt, "st") && !strings.HasPrefix(tgt, "st_") {
						n, _ := strconv.Atoi(strings.TrimPrefix(tgt, "st"))
						if _, isEntry := m.EntryOf[n]; isEntry {
							continue
						}
					}
					push(tgt, out)
				}
			}
		}
		for len(work) > 0 {
			l := work[0]
			work = work[1:]
			inWork[l] = false
			step(l, nil)
		}
		// final pass: obligations
		var labels []string
		for l := range at {
			labels = append(labels, l)
		}
		sort.Strings(labels)
		uses := map[string]*markUse{}
		for _, l := range labels {
			step(l, func(u markUse) {
				res.Count("uses", 1)
				seenUse[u.what] = true
				old := uses[u.key]
				if old == nil {
					c := u
					uses[u.key] = &c
				} else if old.ok && !u.ok {
					*old = u
				}
			})
		}
		var keys []string
		for k := range uses {
			keys = append(keys, k)
		}
		sort.Strings(keys)
		for _, k := range keys {
			u := uses[k]
			if u.ok {
				res.OK(k, u.pos, mn, "recorded on every path since the token began, in order and inside the token")
				if _, seen := proved[u.what]; !seen {
					proved[u.what] = true
				}
			} else {
				res.Bad(k, u.pos, mn, u.what+": "+u.why)
				proved[u.what] = false
			}
		}
	}
	return res, proved
}
