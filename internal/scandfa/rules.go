package scandfa

import (
	"fmt"
	"os"
	"sort"
	"strconv"
	"strings"

	"verif/internal/report"
)

// Analysis caches what the rules share.
type Analysis struct {
	M       *Machine
	Flows   map[string]*Flow            // machine → flow
	Home    map[string]string           // label → machine it is reachable from (first in name order)
	targets map[[2]int]map[string][]string
	Witness map[string]map[int]string   // machine → state → shortest input (from the entry) reaching it
	outs    map[string][]*Outcome
	acts    map[string]map[string]Itv
}

func Analyse(m *Machine) *Analysis {
	a := &Analysis{M: m, Flows: map[string]*Flow{}, Home: map[string]string{}, targets: map[[2]int]map[string][]string{}, Witness: map[string]map[int]string{}, outs: map[string][]*Outcome{}}
	var names []string
	for n := range m.Entries {
		names = append(names, n)
	}
	sort.Strings(names)
	for _, mn := range names {
		f := m.FlowFrom(m.Entries[mn])
		a.Flows[mn] = f
		for _, l := range f.Reach {
			if _, ok := a.Home[l]; !ok {
				a.Home[l] = mn
			}
		}
		a.Witness[mn] = a.witnesses(m.Entries[mn])
	}
	return a
}

func (a *Analysis) Outcomes(label string) []*Outcome {
	if o, ok := a.outs[label]; ok {
		return o
	}
	o := a.M.Interpret(label)
	a.outs[label] = o
	return o
}

func (a *Analysis) Targets(n int, b byte) map[string][]string {
	k := [2]int{n, int(b)}
	if t, ok := a.targets[k]; ok {
		return t
	}
	t, err := a.M.Targets(n, b)
	if err != nil {
		t = map[string][]string{"!error: " + err.Error(): nil}
	}
	a.targets[k] = t
	return t
}

// witnesses: BFS over consumed bytes from the entry; a printable shortest string per state.
func (a *Analysis) witnesses(entry int) map[int]string {
	w := map[int]string{entry: ""}
	queue := []int{entry}
	order := []byte{}
	for _, c := range []byte("abcdefghijklmnopqrstuvwxyzABCDEFGHIJKLMNOPQRSTUVWXYZ0123456789 \t\n\r") {
		order = append(order, c)
	}
	for b := 0; b < 256; b++ {
		order = append(order, byte(b))
	}
	for len(queue) > 0 {
		n := queue[0]
		queue = queue[1:]
		for _, b := range order {
			for t := range a.Targets(n, b) {
				for _, s := range a.statesAfter(t, 4) {
					if _, ok := w[s]; !ok {
						w[s] = w[n] + string([]byte{b})
						queue = append(queue, s)
					}
				}
			}
		}
	}
	return w
}

// statesAfter: the states reached from label l while the current byte is consumed (through tr blocks that continue the scan).
func (a *Analysis) statesAfter(l string, depth int) []int {
	if depth == 0 {
		return nil
	}
	if strings.HasPrefix(l, "st") && !strings.HasPrefix(l, "st_") {
		n, err := strconv.Atoi(strings.TrimPrefix(l, "st"))
		if err == nil {
			if _, isEntry := a.M.EntryOf[n]; isEntry {
				return nil
			}
			return []int{n}
		}
		return nil
	}
	var out []int
	for _, o := range a.Outcomes(l) {
		if o.Exit == "_again" || o.Exit == "_out" || o.Exit == "" {
			continue
		}
		if o.P != (Lin{P: 1}) {
			continue // the byte is held back or more is given back
		}
		out = append(out, a.statesAfter(o.Exit, depth-1)...)
	}
	return out
}

func quoteW(s string) string { return strconv.QuoteToASCII(s) }

func (a *Analysis) stateKey(mn string, n int) string {
	w, ok := a.Witness[mn][n]
	if !ok {
		return fmt.Sprintf("%s:state%d", mn, n)
	}
	return mn + ":" + quoteW(w)
}

// boundary: the outcome ends a token step (returns, re-dispatches on cs, or jumps to a machine entry).
func (a *Analysis) boundary(o *Outcome) bool {
	if o.Exit == "_out" || o.Exit == "_again" {
		return true
	}
	if strings.HasPrefix(o.Exit, "st") && !strings.HasPrefix(o.Exit, "st_") {
		n, err := strconv.Atoi(strings.TrimPrefix(o.Exit, "st"))
		if err == nil {
			_, isEntry := a.M.EntryOf[n]
			return isEntry
		}
	}
	return false
}

// actE: for every value K of lex.act, the length te-ts of the match that was
// marked when act was set to K (act and te are set together at the final
// state of alternative K).
func (a *Analysis) actE(mn string) map[string]Itv {
	if a.acts == nil {
		a.acts = map[string]map[string]Itv{}
	}
	if m, ok := a.acts[mn]; ok {
		return m
	}
	out := map[string]Itv{}
	f := a.Flows[mn]
	for _, l := range f.Reach {
		if !strings.HasPrefix(l, "tr") {
			continue
		}
		for _, o := range a.Outcomes(l) {
			if act := o.Has("act"); act != nil {
				e := o.TE.rel(f.At[l])
				out[act.ID] = out[act.ID].join(e)
			}
		}
	}
	a.acts[mn] = out
	return out
}

// action blocks of machine mn, in order
func (a *Analysis) actionBlocks(mn string) []string {
	var out []string
	for _, l := range a.Flows[mn].Reach {
		if strings.HasPrefix(l, "tr") && a.Home[l] == mn {
			out = append(out, l)
		}
	}
	return out
}

func (a *Analysis) blockKey(mn, l string, used map[string]int) string {
	// a stable, line-free key: machine + what the block does
	var what []string
	for _, o := range a.Outcomes(l) {
		for _, e := range o.Events {
			switch e.Kind {
			case "tok", "ff":
				what = append(what, e.Kind+"="+strings.TrimPrefix(e.ID, "token."))
			case "error", "call", "ret", "cs", "unget", "ungetstr":
				what = append(what, e.Kind+":"+e.ID)
			}
		}
	}
	what = dedupeS(what)
	k := mn + "/" + strings.Join(what, ",")
	if len(what) == 0 {
		k = mn + "/mark"
	}
	used[k]++
	if used[k] > 1 {
		k += fmt.Sprintf("#%d", used[k])
	}
	return k
}

func dedupeS(ss []string) []string {
	var out []string
	seen := map[string]bool{}
	for _, s := range ss {
		if !seen[s] {
			seen[s] = true
			out = append(out, s)
		}
	}
	return out
}

func machineNames(a *Analysis) []string {
	var ns []string
	for n := range a.Flows {
		ns = append(ns, n)
	}
	sort.Strings(ns)
	return ns
}

// ---- pos-pairing, ff-span, resume-at-te, no-drop -----------------------------------------

func (a *Analysis) TokenRules() (posPairing, ffSpan, resume, noDrop *report.RuleResult) {
	posPairing = report.NewResult("pos-pairing")
	ffSpan = report.NewResult("ff-span")
	resume = report.NewResult("resume-at-te")
	noDrop = report.NewResult("no-drop")
	for _, mn := range machineNames(a) {
		used := map[string]int{}
		for _, l := range a.actionBlocks(mn) {
			key := a.blockKey(mn, l, used)
			blk := a.M.Blocks[l]
			pos := a.M.Prog.Pos(blk.Pos)
			de := a.Flows[mn].At[l]
			outs := a.Outcomes(l)
			var pp, ff, rs, nd []string
			undec := false
			hasTok, hasFF, isBoundary := false, false, false
			for _, o := range outs {
				if len(o.Undec) > 0 {
					undec = true
					posPairing.Unknown(key, pos, l, "undecided:idiom: "+strings.Join(o.Undec, "; "))
					break
				}
				tok := o.Tok()
				if tok != "" {
					hasTok = true
					sp := o.Has("setpos")
					switch {
					case sp == nil:
						pp = append(pp, "token "+tok+" is returned without setTokenPosition: its position is that of an earlier token")
					case sp.TS != o.TS || sp.TE != o.TE:
						pp = append(pp, fmt.Sprintf("token %s: position recorded for [%s,%s) but the value is data[%s:%s] (cursor moved after setTokenPosition)", tok, sp.TS, sp.TE, o.TS, o.TE))
					case o.Exit != "_out":
						pp = append(pp, "token "+tok+" is set but the block does not return it (exit "+o.Exit+")")
					}
				} else if o.Exit == "_out" {
					pp = append(pp, "the block returns without setting a token id")
				}
				for _, e := range o.Events {
					if e.Kind != "ff" {
						continue
					}
					hasFF = true
					if e.A != e.TS || e.B != e.TE {
						ff = append(ff, fmt.Sprintf("free-floating %s takes its value from data[%s:%s] but its position from [%s,%s)", e.ID, e.A, e.B, e.TS, e.TE))
					}
				}
				if a.boundary(o) {
					isBoundary = true
					if ns := o.NextScan(); ns != o.TE {
						rs = append(rs, fmt.Sprintf("scanning resumes at %s but the token ends at %s (path %s): bytes are skipped or scanned twice", ns, o.TE, strings.Join(o.Conds, " && ")))
					}
					// what happens to [ts, te)?
					recorded := tok != "" || o.Has("error") != nil
					for _, e := range o.Events {
						if e.Kind == "ff" && e.A == o.TS && e.B == o.TE {
							recorded = true
						}
					}
					if !recorded {
						de2 := de
						for _, c := range o.Conds {
							if strings.HasPrefix(c, "lex.act==") {
								if e, ok := a.actE(mn)[strings.TrimPrefix(c, "lex.act==")]; ok {
									de2.E = e
								}
							}
						}
						ef := o.TE.rel(de2)
						if !(ef.Def && ef.Lo == 0 && ef.Hi == 0) {
							nd = append(nd, fmt.Sprintf("the bytes [ts, %s) (length %s) are consumed but neither returned as a token, nor recorded as free-floating, nor reported (path %s)", o.TE, ef, strings.Join(o.Conds, " && ")))
						}
					}
				}
			}
			if undec {
				continue
			}
			if hasTok || len(pp) > 0 {
				posPairing.Count("token-blocks", 1)
				if len(pp) == 0 {
					posPairing.OK(key, pos, l, "setTokenPosition precedes the return and the cursor is not moved afterwards")
				} else {
					posPairing.Bad(key, pos, l, strings.Join(dedupeS(pp), "; "))
				}
			}
			if hasFF {
				ffSpan.Count("ff-blocks", 1)
				if len(ff) == 0 {
					ffSpan.OK(key, pos, l, "value bounds equal [ts,te) at the call")
				} else {
					ffSpan.Bad(key, pos, l, strings.Join(dedupeS(ff), "; "))
				}
			}
			if isBoundary {
				resume.Count("boundary-blocks", 1)
				noDrop.Count("boundary-blocks", 1)
				if len(rs) == 0 {
					resume.OK(key, pos, l, "next scan position = te")
				} else {
					resume.Bad(key, pos, l, strings.Join(dedupeS(rs), "; "))
				}
				if len(nd) == 0 {
					noDrop.OK(key, pos, l, "[ts,te) is returned, recorded as free-floating, reported, or empty")
				} else {
					noDrop.Bad(key, pos, l, strings.Join(dedupeS(nd), "; "))
				}
			}
		}
	}
	return
}

// ---- newline rules ---------------------------------------------------------------------------

// consumption of byte b in state n: for each target, is the byte consumed (scan continues past it
// or the token includes it) or held (the token ends before it)?
type edgeClass struct {
	consumed, held bool
	newline        bool // a consuming target carries the new_line action
	noNewline      []string
	nlProblems     []string // line-start records that do not fit the byte consumed
}

func (a *Analysis) classify(n int, b byte) edgeClass {
	var ec edgeClass
	for t := range a.Targets(n, b) {
		if strings.HasPrefix(t, "!error") || t == "st0" {
			continue // st0 is ragel's error state: the scanner stops
		}
		if strings.HasPrefix(t, "st") && !strings.HasPrefix(t, "st_") {
			ec.consumed = true
			ec.noNewline = append(ec.noNewline, t)
			continue
		}
		hasNL, cons := false, false
		for _, o := range a.Outcomes(t) {
			if o.Exit == "st0" {
				continue // error state
			}
			// the byte is consumed iff scanning resumes beyond it
			ns := o.NextScan().sub(Lin{P: 1})
			consumed := ns.P == 0 && ns.TS == 0 && ns.TE == 0 && ns.K >= 1
			if consumed {
				cons = true
				ec.consumed = true
			} else {
				ec.held = true
			}
			if o.Has("newline") != nil {
				hasNL = true
			}
			if consumed && (b == '\n' || b == '\r') {
				scens := []byteScen{{cur: b, next: -1, nextNot: -1}}
				if b == '\r' {
					scens = []byteScen{{cur: b, next: '\n', nextNot: -1}, {cur: b, next: -1, nextNot: '\n'}, {cur: b, next: -1, nextNot: -1, atEOF: true}}
				}
				for _, sc := range scens {
					if !a.M.feasible(o, sc) {
						continue
					}
					if why := lineStarts(o, sc); why != "" {
						what := "LF"
						if b == '\r' && sc.next == '\n' {
							what = "CR followed by LF"
						} else if b == '\r' && sc.atEOF {
							what = "CR at the end of the input"
						} else if b == '\r' {
							what = "CR not followed by LF"
						}
						ec.nlProblems = append(ec.nlProblems, fmt.Sprintf("%s: on %s the path [%s] %s", t, what, strings.Join(o.Conds, " && "), why))
					}
				}
			}
		}
		if cons && hasNL {
			ec.newline = true
		}
		if cons && !hasNL {
			ec.noNewline = append(ec.noNewline, t)
		}
	}
	return ec
}

// NewlineAction: every transition that consumes LF or CR runs the action that records the line start.
func (a *Analysis) NewlineAction() *report.RuleResult {
	res := report.NewResult("newline-action")
	for _, mn := range machineNames(a) {
		var states []int
		for n := range a.Witness[mn] {
			states = append(states, n)
		}
		sort.Ints(states)
		for _, n := range states {
			for _, b := range []byte{10, 13} {
				ec := a.classify(n, b)
				if !ec.consumed {
					continue
				}
				res.Count("consuming-edges", 1)
				name := map[byte]string{10: "LF", 13: "CR"}[b]
				key := fmt.Sprintf("%s/%s", a.stateKey(mn, n), name)
				pos := a.M.Prog.Pos(a.M.Blocks[fmt.Sprintf("st_case_%d", n)].Pos)
				if len(ec.noNewline) == 0 && len(ec.nlProblems) > 0 {
					res.Bad(key, pos, fmt.Sprintf("state %d", n), fmt.Sprintf("after input %s: %s", quoteW(a.Witness[mn][n]), strings.Join(dedupeS(ec.nlProblems), "; ")))
				} else if len(ec.noNewline) == 0 {
					res.OK(key, pos, fmt.Sprintf("state %d", n), name+" is consumed through the new_line action, which records the line start p+1 exactly once (a CR before a LF records nothing)")
				} else {
					sort.Strings(ec.noNewline)
					res.Bad(key, pos, fmt.Sprintf("state %d", n), fmt.Sprintf("after input %s a %s is consumed (→ %s) without the action that records the line start: every later token gets a line number that is one too small", quoteW(a.Witness[mn][n]), name, strings.Join(ec.noNewline, ",")))
				}
			}
		}
	}
	return res
}

// NewlineSiblings: in every state LF and CR are both accepted or both end the token;
// blank and tab likewise; and where a blank is skipped a line terminator is too, except in the reviewed states.
func (a *Analysis) NewlineSiblings() *report.RuleResult {
	res := report.NewResult("newline-siblings")
	cls := func(ec edgeClass) string {
		switch {
		case ec.consumed && ec.held:
			return "both"
		case ec.consumed:
			return "consumed"
		case ec.held:
			return "held"
		}
		return "none"
	}
	for _, mn := range machineNames(a) {
		var states []int
		for n := range a.Witness[mn] {
			states = append(states, n)
		}
		sort.Ints(states)
		for _, n := range states {
			lf, cr, sp, tab := cls(a.classify(n, 10)), cls(a.classify(n, 13)), cls(a.classify(n, 32)), cls(a.classify(n, 9))
			res.Count("states", 1)
			key := a.stateKey(mn, n)
			pos := a.M.Prog.Pos(a.M.Blocks[fmt.Sprintf("st_case_%d", n)].Pos)
			var bad []string
			w := a.Witness[mn][n]
			afterCR := strings.HasSuffix(w, "\r") // the state that looks for the LF of a CR LF pair: LF completes the terminator, a second CR starts a new one
			if lf != cr && !afterCR {
				bad = append(bad, fmt.Sprintf("LF is %s but CR is %s", lf, cr))
			}
			if sp != tab {
				bad = append(bad, fmt.Sprintf("blank is %s but tab is %s", sp, tab))
			} else if !sameKeys(a.Targets(n, 32), a.Targets(n, 9)) {
				// the same class is not enough: after `<?php` both a blank and a tab are given back, but only one of
				// them may complete the long open tag (seed C03-10)
				bad = append(bad, fmt.Sprintf("a blank and a tab take different transitions (%s / %s): the token that ends here depends on which of the two follows", keysOf(a.Targets(n, 32)), keysOf(a.Targets(n, 9))))
			}
			if sp == "consumed" && lf == "held" {
				if why, ok := blankOnly(mn, w); ok {
					res.OK(key+"/blank-only", pos, fmt.Sprintf("state %d", n), "reviewed: "+why)
				} else {
					bad = append(bad, "a blank continues the token here but a line terminator ends it: replacing the blank by a newline changes the token stream")
				}
			}
			if len(bad) == 0 {
				res.OK(key, pos, fmt.Sprintf("state %d", n), fmt.Sprintf("LF/CR %s, blank/tab %s", lf, sp))
			} else {
				res.Bad(key, pos, fmt.Sprintf("state %d", n), fmt.Sprintf("after input %s: %s", quoteW(a.Witness[mn][n]), strings.Join(bad, "; ")))
			}
		}
	}
	return res
}

// blankOnly: places where PHP's own lexer allows blanks and tabs but no line
// terminator (TABS_AND_SPACES in zend_language_scanner.l): inside a cast and
// between `<<<` and the heredoc label.
func blankOnly(mn, witness string) (string, bool) {
	if mn != "php" {
		return "", false
	}
	if strings.HasPrefix(witness, "(") {
		inside := true
		for _, c := range witness[1:] {
			if !(c == ' ' || c == '\t' || (c >= 'a' && c <= 'z') || (c >= 'A' && c <= 'Z')) {
				inside = false
			}
		}
		if inside {
			return "inside a cast PHP allows blanks and tabs only", true
		}
	}
	if strings.HasPrefix(witness, "<<<") && !strings.ContainsAny(witness[3:], "\r\n") {
		return "between <<< and the heredoc label PHP allows blanks and tabs only", true
	}
	return "", false
}

// CaseFold: in the php machine upper- and lower-case letters lead to the same place.
func (a *Analysis) CaseFold(machines ...string) *report.RuleResult {
	res := report.NewResult("case-fold")
	for _, mn := range machines {
		var states []int
		for n := range a.Witness[mn] {
			states = append(states, n)
		}
		sort.Ints(states)
		for _, n := range states {
			res.Count("states", 1)
			var diff []string
			for c := byte('a'); c <= 'z'; c++ {
				lo, up := a.Targets(n, c), a.Targets(n, c-32)
				if !sameKeys(lo, up) {
					diff = append(diff, string([]byte{c}))
				}
			}
			key := a.stateKey(mn, n)
			pos := a.M.Prog.Pos(a.M.Blocks[fmt.Sprintf("st_case_%d", n)].Pos)
			if len(diff) == 0 {
				res.OK(key, pos, fmt.Sprintf("state %d", n), "all 26 letters: same transition in both cases")
			} else if why, ok := caseSensitiveStates[key]; ok {
				res.OK(key, pos, fmt.Sprintf("state %d", n), "reviewed: "+why)
			} else {
				res.Bad(key, pos, fmt.Sprintf("state %d", n), fmt.Sprintf("after input %s the letters %s are treated differently in upper and lower case: a keyword or cast is not recognised case-insensitively", quoteW(a.Witness[mn][n]), strings.Join(diff, "")))
			}
		}
	}
	return res
}

var caseSensitiveStates = map[string]string{
	`php:"0"`: "the radix prefixes 0x / 0b are matched in lower case only; they are neither keywords nor casts (PHP itself also accepts 0X / 0B: a lexical difference outside this property)",
}

func keysOf(a map[string][]string) string {
	var ks []string
	for k := range a {
		ks = append(ks, k)
	}
	sort.Strings(ks)
	return strings.Join(ks, ",")
}

func sameKeys(a, b map[string][]string) bool {
	if len(a) != len(b) {
		return false
	}
	for k := range a {
		if _, ok := b[k]; !ok {
			return false
		}
	}
	return true
}

// TriviaStay: recording whitespace or a comment as free-floating never changes the scanner state.
func (a *Analysis) TriviaStay() *report.RuleResult {
	res := report.NewResult("trivia-stay")
	trivia := map[string]bool{"token.T_WHITESPACE": true, "token.T_COMMENT": true, "token.T_DOC_COMMENT": true}
	for _, mn := range machineNames(a) {
		used := map[string]int{}
		for _, l := range a.actionBlocks(mn) {
			key := a.blockKey(mn, l, used)
			isTrivia := false
			var bad []string
			for _, o := range a.Outcomes(l) {
				for _, e := range o.Events {
					if e.Kind == "ff" && trivia[e.ID] {
						isTrivia = true
					}
				}
			}
			if !isTrivia {
				continue
			}
			res.Count("trivia-blocks", 1)
			for _, o := range a.Outcomes(l) {
				if o.Tok() != "" || o.Has("call") != nil || o.Has("ret") != nil {
					bad = append(bad, "whitespace/comment action also returns a token or changes the call stack")
				}
				if cs := o.Has("cs"); cs != nil && cs.ID != strconv.Itoa(a.M.Entries[mn]) {
					bad = append(bad, "whitespace/comment action switches the scanner to state "+cs.ID)
				}
				if o.Exit != fmt.Sprintf("st%d", a.M.Entries[mn]) && o.Exit != "_again" {
					bad = append(bad, "after whitespace/comment scanning does not continue at the entry of "+mn+" (exit "+o.Exit+")")
				}
			}
			pos := a.M.Prog.Pos(a.M.Blocks[l].Pos)
			if len(bad) == 0 {
				res.OK(key, pos, l, "records the run and continues in the same machine")
			} else {
				res.Bad(key, pos, l, strings.Join(dedupeS(bad), "; "))
			}
		}
	}
	return res
}

// ---- progress --------------------------------------------------------------------------------

type zeroStep struct {
	from, to string
	block    string
	what     string
	pos      string
}

// machineOfState: the machine whose entry is state n ("" if n is not an entry).
func (a *Analysis) machineOfState(s string) string {
	n, err := strconv.Atoi(strings.TrimSpace(s))
	if err != nil {
		return ""
	}
	return a.M.EntryOf[n]
}

// Progress: the graph of token steps that may consume nothing must be acyclic.
//
// A token step is one execution of an action block that ends a match. Its
// length is te - ts after the action (what the caller receives or what is
// recorded). Steps of length >= 1 advance the input. The others are edges
// between machines; two refinements remove edges that cannot repeat:
//   - ungetStr(s) only gives bytes back when the match ends with s: the
//     shortest such match that reaches the block bounds the length from below;
//   - a step that gives its whole match back to another machine is followed by
//     a step of that machine on exactly those bytes: if every such step
//     consumes at least one byte, the edge cannot lie on a cycle of empty steps.
func (a *Analysis) Progress() *report.RuleResult {
	res := report.NewResult("progress")
	var steps []zeroStep
	// callers[Y] = machines that fcall machine Y (where a fret in Y returns to)
	callers := map[string]map[string]bool{}
	addCall := func(from, to string) {
		if from == "" || to == "" {
			return
		}
		if callers[to] == nil {
			callers[to] = map[string]bool{}
		}
		callers[to][from] = true
	}
	for _, mn := range machineNames(a) {
		for _, l := range a.actionBlocks(mn) {
			for _, o := range a.Outcomes(l) {
				for _, e := range o.Events {
					if e.Kind == "call" {
						parts := strings.SplitN(e.ID, "->", 2)
						addCall(a.machineOfState(parts[0]), a.machineOfState(parts[1]))
					}
					if e.Kind == "push" {
						if n, ok := stateOfLabel(o.Exit); ok {
							addCall(a.machineOfState(e.ID), a.M.EntryOf[n])
						}
					}
				}
			}
		}
	}
	for _, mn := range machineNames(a) {
		used := map[string]int{}
		for _, l := range a.actionBlocks(mn) {
			key := a.blockKey(mn, l, used)
			de := a.Flows[mn].At[l]
			for _, o := range a.Outcomes(l) {
				if !a.boundary(o) || len(o.Undec) > 0 || o.Exit == "st0" {
					continue
				}
				res.Count("token-steps", 1)
				de2 := de
				for _, c := range o.Conds {
					if strings.HasPrefix(c, "lex.act==") {
						if e, ok := a.actE(mn)[strings.TrimPrefix(c, "lex.act==")]; ok {
							de2.E = e
						}
					}
				}
				ef := o.TE.rel(de2)
				if ef.Def && ef.Lo >= 1 {
					continue // at least one byte is consumed
				}
				note := ""
				if us := o.Has("ungetstr"); us != nil {
					L := a.minMatchEndingWith(mn, l, us.ID, o)
					if os.Getenv("VERIF_DUMP") != "" {
						fmt.Printf("    suffix: %s %s %q shortest match %d\n", mn, l, us.ID, L)
					}
					if L == -1 {
						res.Count("refined-by-suffix", 1)
						continue // no match that reaches this block ends with the string: nothing is given back here
					}
					if L >= 0 && L-len(us.ID) >= 1 {
						res.Count("refined-by-suffix", 1)
						continue // the shortest match ending with the string leaves at least one byte
					}
				}
				// where does the scanner go?
				var tos []string
				isRet := false
				switch {
				case o.Has("ret") != nil || o.Has("pop-top") != nil:
					isRet = true
					for t := range callers[mn] {
						tos = append(tos, t)
					}
				case o.Has("call") != nil:
					tos = append(tos, a.machineOfState(strings.SplitN(o.Has("call").ID, "->", 2)[1]))
				default:
					to := mn
					for _, e := range o.Events {
						if e.Kind == "cs" {
							if m2 := a.machineOfState(e.ID); m2 != "" {
								to = m2
							}
						}
					}
					if n, ok := stateOfLabel(o.Exit); ok && n != 0 {
						if m2 := a.M.EntryOf[n]; m2 != "" {
							to = m2
						}
					}
					tos = append(tos, to)
				}
				sort.Strings(tos)
				// whole match handed to another machine: what does that machine do with it?
				before := Lin{TE: 1}.rel(de2) // length of the match before the action
				if o.TE.P == 1 {
					before = o.TE.add(Lin{K: ungot(o)}).rel(de2)
				}
				for _, to := range tos {
					if to == "" {
						continue
					}
					if !isRet && to != mn && ef.Def && ef.Lo == 0 && ef.Hi == 0 && before.Def && before.Lo == before.Hi && before.Lo >= 1 && before.Lo <= 3 {
						src := l
						for _, c := range o.Conds {
							if strings.HasPrefix(c, "lex.act==") {
								if mb := a.markBlock(mn, strings.TrimPrefix(c, "lex.act==")); mb != "" {
									src = mb
								}
							}
						}
						strs := a.pathsTo(mn, src, before.Lo)
						if v, w := a.replayMin(to, strs); v >= 1 {
							res.Count("refined-by-replay", 1)
							_ = w
							continue // the machine that receives the bytes consumes at least one of them
						} else {
							note = fmt.Sprintf("; %s can answer the %d replayed byte(s) with an empty step (%s)", to, before.Lo, w)
						}
					}
					steps = append(steps, zeroStep{mn, to, key, fmt.Sprintf("length %s, path [%s]%s", ef, strings.Join(o.Conds, " && "), note), a.M.Prog.Pos(a.M.Blocks[l].Pos)})
				}
			}
		}
	}
	// cycles among zero steps
	adj := map[string]map[string]bool{}
	for _, s := range steps {
		if adj[s.from] == nil {
			adj[s.from] = map[string]bool{}
		}
		adj[s.from][s.to] = true
	}
	reach := func(from string) map[string]bool {
		seen := map[string]bool{}
		var dfs func(n string)
		dfs = func(n string) {
			for to := range adj[n] {
				if !seen[to] {
					seen[to] = true
					dfs(to)
				}
			}
		}
		dfs(from)
		return seen
	}
	res.Count("zero-steps", len(steps))
	reported := map[string]bool{}
	for _, s := range steps {
		if s.to != s.from && !reach(s.to)[s.from] {
			continue
		}
		k := fmt.Sprintf("%s->%s/%s", s.from, s.to, s.block)
		if reported[k] {
			continue
		}
		reported[k] = true
		if why, ok := progressReviewed[k]; ok {
			res.OK(k, s.pos, s.block, "reviewed: "+why)
			res.Count("reviewed-exceptions", 1)
			continue
		}
		res.Bad(k, s.pos, s.block, fmt.Sprintf("this step may consume nothing (%s) and lies on a cycle of such steps between scanner machines (%s -> %s): the scanner can loop forever without advancing", s.what, s.from, s.to))
	}
	if len(reported) == 0 {
		res.OK("acyclic", "-", "", fmt.Sprintf("%d possibly-empty token steps, none on a cycle", len(steps)))
	}
	return res
}

// markBlock: the block of machine mn that sets lex.act = id (and te) when alternative id has matched.
func (a *Analysis) markBlock(mn, id string) string {
	found := ""
	for _, l := range a.Flows[mn].Reach {
		if !strings.HasPrefix(l, "tr") {
			continue
		}
		for _, o := range a.Outcomes(l) {
			if e := o.Has("act"); e != nil && e.ID == id {
				if found != "" && found != l {
					return "" // several: not handled
				}
				found = l
			}
		}
	}
	return found
}

// ungot: bytes given back by the outcome's unget events (constant ones).
func ungot(o *Outcome) int {
	n := 0
	for _, e := range o.Events {
		switch e.Kind {
		case "unget":
			if v, err := strconv.Atoi(e.ID); err == nil {
				n += v
			}
		case "ungetstr":
			n += len(e.ID)
		}
	}
	return n
}

// zero-length steps that cannot repeat, each confirmed by reading the rule
var progressReviewed = map[string]string{}

// TriviaSiblings: a machine that skips whitespace as free-floating also skips
// comments; otherwise replacing a blank by a comment changes the token stream.
func (a *Analysis) TriviaSiblings() *report.RuleResult {
	res := report.NewResult("trivia-siblings")
	for _, mn := range machineNames(a) {
		kinds := map[string]bool{}
		pos := ""
		for _, l := range a.actionBlocks(mn) {
			for _, o := range a.Outcomes(l) {
				for _, e := range o.Events {
					if e.Kind == "ff" {
						kinds[strings.TrimPrefix(e.ID, "token.")] = true
						if pos == "" {
							pos = a.M.Prog.Pos(a.M.Blocks[l].Pos)
						}
					}
				}
			}
		}
		if !kinds["T_WHITESPACE"] {
			continue
		}
		res.Count("whitespace-skipping-machines", 1)
		if kinds["T_COMMENT"] {
			res.OK(mn, pos, mn, "skips whitespace and comments alike")
		} else {
			res.Bad(mn, pos, mn, "machine "+mn+" records whitespace as free-floating but has no rule for comments: a comment where a blank is allowed is an unexpected character here")
		}
	}
	return res
}
