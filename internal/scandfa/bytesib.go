package scandfa

import (
	"fmt"
	"sort"
	"strings"

	"verif/internal/report"
)

// ---- byte-siblings -----------------------------------------------------------------------------------
//
// PHP's lexical grammar never tells apart two bytes of certain classes: the bytes 0x80-0xFF (all of them label
// characters, and ordinary text everywhere else), the control bytes that are neither whitespace nor line
// terminators, and the digits 2-9 (only 0 and 1 are special: radix prefixes and binary digits; octal validity
// is not a lexical matter). In every state of every machine of the scanner all bytes of one class must
// therefore take the same transitions. An off-by-one in one of the range tests the generated code makes on the
// (widened) current byte separates a boundary byte - 0xFF, 0x80, 0x7F, '9' - from its class: a `//` comment
// that ends in front of the first 0xFF byte (seed C08-15), a label that cannot contain 0x80.

type byteClassSpec struct {
	name  string
	bytes []byte
}

func byteSiblingClasses() []byteClassSpec {
	var high, ctrl, digits []byte
	for b := 0x80; b <= 0xff; b++ {
		high = append(high, byte(b))
	}
	for b := 0; b <= 0x1f; b++ {
		switch b {
		case '\t', '\n', '\v', '\f', '\r':
		default:
			ctrl = append(ctrl, byte(b))
		}
	}
	ctrl = append(ctrl, 0x7f)
	for b := '2'; b <= '9'; b++ {
		digits = append(digits, byte(b))
	}
	return []byteClassSpec{{"the bytes 0x80-0xFF", high}, {"the control bytes that are not whitespace", ctrl}, {"the digits 2-9", digits}}
}

func (a *Analysis) ByteSiblings() *report.RuleResult {
	res := report.NewResult("byte-siblings")
	classes := byteSiblingClasses()
	for _, mn := range machineNames(a) {
		var states []int
		for n := range a.Witness[mn] {
			states = append(states, n)
		}
		sort.Ints(states)
		for _, n := range states {
			res.Count("states", 1)
			key := a.stateKey(mn, n)
			pos := a.M.Prog.Pos(a.M.Blocks[fmt.Sprintf("st_case_%d", n)].Pos)
			var bad []string
			for _, c := range classes {
				ref := keysOf(a.Targets(n, c.bytes[0]))
				var odd []string
				for _, b := range c.bytes[1:] {
					if k := keysOf(a.Targets(n, b)); k != ref {
						odd = append(odd, fmt.Sprintf("0x%02X", b))
					}
				}
				if len(odd) > 0 {
					if len(odd) > 4 {
						odd = append(odd[:4], "…")
					}
					bad = append(bad, fmt.Sprintf("%s are not treated alike: %s take(s) another transition than 0x%02X", c.name, strings.Join(odd, ", "), c.bytes[0]))
				}
			}
			if len(bad) == 0 {
				res.OK(key, pos, fmt.Sprintf("state %d", n), "high bytes, control bytes and the digits 2-9 each take one transition")
			} else {
				res.Bad(key, pos, fmt.Sprintf("state %d", n), fmt.Sprintf("after input %s: %s", quoteW(a.Witness[mn][n]), strings.Join(bad, "; ")))
			}
		}
	}
	return res
}

// ---- crlf-unit -------------------------------------------------------------------------------------------
//
// CR LF is one line terminator. Wherever a state consumes a LF and a CR inside the same token, the LF that
// follows the CR must be consumed too and lead where the lone LF led: state --LF--> A and state --CR--> B imply
// B --LF--> A' with A' = A or a state that behaves like A (same transitions on every byte). Otherwise the LF of
// a CR LF pair is scanned as the start of something else - after `; ?>` followed by CR LF it became inline
// HTML (seed C08-13) - and a file converted to CR LF endings yields another tree.
func (a *Analysis) CrlfUnit() *report.RuleResult {
	res := report.NewResult("crlf-unit")
	sig := func(n int) string {
		var b strings.Builder
		for c := 0; c < 256; c++ {
			b.WriteString(keysOf(a.Targets(n, byte(c))))
			b.WriteByte('|')
		}
		b.WriteString(a.M.EOF[n])
		return b.String()
	}
	after := func(n int, c byte) []int {
		seen := map[int]bool{}
		var out []int
		for t := range a.Targets(n, c) {
			if strings.HasPrefix(t, "!error") {
				continue
			}
			for _, s := range a.statesAfter(t, 4) {
				if !seen[s] && s != 0 { // state 0 is ragel's error state (a condition predicate said the token ends here)
					seen[s] = true
					out = append(out, s)
				}
			}
		}
		sort.Ints(out)
		return out
	}
	for _, mn := range machineNames(a) {
		var states []int
		for n := range a.Witness[mn] {
			states = append(states, n)
		}
		sort.Ints(states)
		for _, n := range states {
			as, bs := after(n, '\n'), after(n, '\r')
			if len(as) == 0 || len(bs) == 0 {
				continue // one of them ends the token or is not accepted: newline-siblings decides that they agree
			}
			if strings.HasSuffix(a.Witness[mn][n], "\r") {
				continue // the state that looks for the LF of a pair: a second CR starts a new terminator
			}
			res.Count("states", 1)
			key := a.stateKey(mn, n)
			pos := a.M.Prog.Pos(a.M.Blocks[fmt.Sprintf("st_case_%d", n)].Pos)
			want := map[string]bool{}
			for _, s := range as {
				want[sig(s)] = true
			}
			var bad []string
			for _, b := range bs {
				cs := after(b, '\n')
				if len(cs) == 0 {
					bad = append(bad, fmt.Sprintf("after the CR (state %d) a LF is not consumed as part of the token: the LF of a CR LF pair starts something else", b))
					continue
				}
				for _, c := range cs {
					if !want[sig(c)] {
						bad = append(bad, fmt.Sprintf("CR LF leads to state %d, which does not behave like the state a lone LF leads to (%v)", c, as))
					}
				}
			}
			if len(bad) == 0 {
				res.OK(key, pos, fmt.Sprintf("state %d", n), "CR LF leads where LF leads")
			} else {
				res.Bad(key, pos, fmt.Sprintf("state %d", n), fmt.Sprintf("after input %s: %s", quoteW(a.Witness[mn][n]), strings.Join(dedupeS(bad), "; ")))
			}
		}
	}
	return res
}
