package scandfa

import (
	"fmt"
	"go/ast"
	"go/constant"
	"go/token"
	"regexp/syntax"
	"sort"
	"strconv"
	"strings"

	"verif/internal/report"
)

// ---- lexeme-of ---------------------------------------------------------------------------------------
//
// Which token id a step of the scanner returns is written in the action blocks; which text the token has
// is decided by the path the automaton took from the token start to that action. The rule checks that
// the two agree: for every action outcome that emits a token (or a free-floating token) with id X, every
// path of the automaton that can reach that outcome spells a text in the language PHP gives X
// (`abstract` in any case for T_ABSTRACT, `<=>` for T_SPACESHIP, `(` blanks `int`|`integer` blanks `)` for
// T_INT_CAST, a label for T_STRING, …).
//
// It is a language-inclusion check on a product: the scanner's transition system (states, transition
// blocks, action blocks, as reconstructed by this package) x the deterministic automaton of the union of
// the specification languages (subset construction over the programs regexp/syntax compiles; a byte is
// a rune below 256). A product node carries the specification state of the text consumed so far, of the
// text up to the recorded token end `te`, the value of `act` (ragel's deferred-action selector), and for
// every cursor mark kept in a local of Lex the set of bytes that can stand just before it. Conditions of
// an action that test `lex.act` or `lex.data[mark-1]` are evaluated on those facts, so that an outcome is
// only charged to the paths that can take it; every other condition is taken both ways. Nothing is
// executed: the rule explores a finite graph.
//
// The same product decides **heredoc-kind**: the opener of a heredoc continues in the nowdoc machine
// exactly on the paths that consumed a single quote.

type lexSpec struct {
	id string // as written in the action: token.T_X or token.ID(int('c'))
	re string
}

const lblRe = `[a-zA-Z_\x{80}-\x{ff}][a-zA-Z0-9_\x{80}-\x{ff}]*`
const wsRe = `[ \t\v\f]*`
const nlRe = `(?:\r\n|\n|\r)`

func keyword(id string, words ...string) lexSpec {
	return lexSpec{"token." + id, "(?i:" + strings.Join(words, "|") + ")"}
}
func fixed(id string, lexemes ...string) lexSpec {
	var q []string
	for _, l := range lexemes {
		q = append(q, syntaxQuote(l))
	}
	return lexSpec{"token." + id, strings.Join(q, "|")}
}
func cast(id string, words ...string) lexSpec {
	return lexSpec{"token." + id, `\(` + wsRe + "(?i:" + strings.Join(words, "|") + ")" + wsRe + `\)`}
}
func syntaxQuote(s string) string {
	var b strings.Builder
	for i := 0; i < len(s); i++ {
		c := s[i]
		if c >= 'a' && c <= 'z' || c >= 'A' && c <= 'Z' || c >= '0' && c <= '9' || c == '_' {
			b.WriteByte(c)
		} else {
			fmt.Fprintf(&b, `\x{%02x}`, c)
		}
	}
	return b.String()
}

// lexemeTable: PHP's lexemes per token id (zend_language_scanner.l), with the repository's documented
// extensions marked.
func lexemeTable() []lexSpec {
	t := []lexSpec{
		keyword("T_EXIT", "exit", "die"),
		keyword("T_FUNCTION", "function", "cfunction"), // cfunction: PHP 4's alias, kept by the repository
		keyword("T_LOGICAL_AND", "and"), keyword("T_LOGICAL_OR", "or"), keyword("T_LOGICAL_XOR", "xor"),
		keyword("T_CLASS_C", "__class__"), keyword("T_DIR", "__dir__"), keyword("T_FILE", "__file__"),
		keyword("T_FUNC_C", "__function__"), keyword("T_LINE", "__line__"), keyword("T_NS_C", "__namespace__"),
		keyword("T_METHOD_C", "__method__"), keyword("T_TRAIT_C", "__trait__"),
		{"token.T_ECHO", `(?i:echo)|<\?=`},
		{"token.T_YIELD_FROM", `(?i:yield)[ \t\v\f\r\n]+(?i:from)`},
		fixed("T_NS_SEPARATOR", `\`), fixed("T_ELLIPSIS", "..."), fixed("T_PAAMAYIM_NEKUDOTAYIM", "::"),
		fixed("T_BOOLEAN_AND", "&&"), fixed("T_BOOLEAN_OR", "||"), fixed("T_AND_EQUAL", "&="), fixed("T_OR_EQUAL", "|="),
		fixed("T_CONCAT_EQUAL", ".="), fixed("T_MUL_EQUAL", "*="), fixed("T_POW_EQUAL", "**="), fixed("T_DIV_EQUAL", "/="),
		fixed("T_PLUS_EQUAL", "+="), fixed("T_MINUS_EQUAL", "-="), fixed("T_XOR_EQUAL", "^="), fixed("T_MOD_EQUAL", "%="),
		fixed("T_DEC", "--"), fixed("T_INC", "++"), fixed("T_DOUBLE_ARROW", "=>"), fixed("T_SPACESHIP", "<=>"),
		fixed("T_IS_NOT_EQUAL", "!=", "<>"), fixed("T_IS_NOT_IDENTICAL", "!=="), fixed("T_IS_EQUAL", "=="),
		fixed("T_IS_IDENTICAL", "==="), fixed("T_SL_EQUAL", "<<="), fixed("T_SR_EQUAL", ">>="),
		fixed("T_IS_GREATER_OR_EQUAL", ">="), fixed("T_IS_SMALLER_OR_EQUAL", "<="), fixed("T_POW", "**"),
		fixed("T_SL", "<<"), fixed("T_SR", ">>"), fixed("T_COALESCE", "??"), fixed("T_COALESCE_EQUAL", "??="),
		fixed("T_OBJECT_OPERATOR", "->"), fixed("T_CURLY_OPEN", "{"), fixed("T_DOLLAR_OPEN_CURLY_BRACES", "${"),
		cast("T_ARRAY_CAST", "array"), cast("T_BOOL_CAST", "bool", "boolean"), cast("T_DOUBLE_CAST", "real", "double", "float"),
		cast("T_INT_CAST", "int", "integer"), cast("T_OBJECT_CAST", "object"), cast("T_STRING_CAST", "string", "binary"),
		cast("T_UNSET_CAST", "unset"),
		{"token.T_VARIABLE", `\$` + lblRe},
		{"token.T_STRING", lblRe},
		{"token.T_STRING_VARNAME", lblRe},
		{"token.T_NUM_STRING", `[0-9]+(?:_[0-9]+)*|0x[0-9a-fA-F]+(?:_[0-9a-fA-F]+)*|0b[01]+(?:_[01]+)*`},
		{"token.T_END_HEREDOC", lblRe},
		// what follows `__halt_compiler();` is kept as one free-floating token of this kind
		{"ff:token.T_HALT_COMPILER", `(?s).+`},
		{"token.T_LNUMBER", `[0-9]+(?:_[0-9]+)*|0x[0-9a-fA-F]+(?:_[0-9a-fA-F]+)*|0b[01]+(?:_[01]+)*`},
		// an integer literal too large for the platform is a float
		{"token.T_DNUMBER", `[0-9]+(?:_[0-9]+)*|0x[0-9a-fA-F]+(?:_[0-9a-fA-F]+)*|0b[01]+(?:_[01]+)*|(?:[0-9]+(?:_[0-9]+)*)?\.[0-9]+(?:_[0-9]+)*(?:[eE][+-]?[0-9]+(?:_[0-9]+)*)?|[0-9]+(?:_[0-9]+)*\.(?:[eE][+-]?[0-9]+(?:_[0-9]+)*)?|[0-9]+(?:_[0-9]+)*[eE][+-]?[0-9]+(?:_[0-9]+)*`},
		{"token.T_CONSTANT_ENCAPSED_STRING", `(?s)'(?:[^'\\]|\\.)*'|[bB]?"(?:[^"\\]|\\.)*"`},
		{"token.T_START_HEREDOC", `[bB]?<<<[ \t]*(?:` + lblRe + `|'` + lblRe + `'|"` + lblRe + `")` + nlRe},
		{"token.T_INLINE_HTML", `(?s).+`},
		{"token.T_ENCAPSED_AND_WHITESPACE", `(?s).+`},
		{"token.T_WHITESPACE", `[ \t\v\f\r\n]+`},
		{"token.T_COMMENT", `(?s)#.*|//.*|/\*.*\*/`},
		// which block comments are doc comments is decided by the action, not by the path: rule comment-kind
		{"token.T_DOC_COMMENT", `(?s)/\*.*\*/`},
		{"token.T_OPEN_TAG", `(?s)<\?|<\?(?i:php)(?:[ \t]|\r\n|\n|\r)?`},
		// a close tag stands for the `;` that ends the statement; so does `;` followed by blanks and a close tag
		{"token.ID(int(';'))", `;|\?>` + nlRe + `?|;[ \t\v\f\r\n]*\?>` + nlRe + `?`},
		{"token.ID(int(lex.data[lex.ts]))", `(?s).`},
	}
	for _, c := range []byte("\"`()[]{}") {
		t = append(t, lexSpec{fmt.Sprintf("token.ID(int(%s))", strconv.QuoteRune(rune(c))), syntaxQuote(string([]byte{c}))})
	}
	for _, k := range strings.Fields("ABSTRACT ARRAY AS BREAK CALLABLE CASE CATCH CLASS CLONE CONST CONTINUE DECLARE DEFAULT DO ELSE ELSEIF EMPTY ENDDECLARE ENDFOR ENDFOREACH ENDIF ENDSWITCH ENDWHILE EVAL EXTENDS FINAL FINALLY FOR FOREACH FN GLOBAL GOTO IF ISSET IMPLEMENTS INSTANCEOF INSTEADOF INTERFACE LIST NAMESPACE PRIVATE PUBLIC PRINT PROTECTED RETURN STATIC SWITCH THROW TRAIT TRY UNSET USE VAR WHILE YIELD INCLUDE INCLUDE_ONCE REQUIRE REQUIRE_ONCE NEW") {
		t = append(t, keyword("T_"+k, strings.ToLower(k)))
	}
	t = append(t, keyword("T_HALT_COMPILER", "__halt_compiler"))
	return t
}

// fixtureLexemes: the lexemes of the miniature scanner under testdata/fixture/mini (its token ids are arbitrary).
func fixtureLexemes() []lexSpec {
	return []lexSpec{
		{"token.T_STRING", "[aA][bB]|`[^`]*`?"},
		{"token.T_LNUMBER", `[aA]`},
		{"token.T_DNUMBER", `[aA]`},
		{"token.T_WHITESPACE", `[ \t\r\n]+`},
		{"token.T_COMMENT", `(?s)#.*|/`},
		{"token.T_DOC_COMMENT", `/`},
	}
}

// ---- the specification automaton ----------------------------------------------------------------------

type nfaPos struct{ tok, pc int }

type specDFA struct {
	ids    []string
	progs  []*syntax.Prog
	states [][]nfaPos
	index  map[string]int
	trans  map[[2]int]int
	accept []map[string]bool
}

func newSpecDFA(specs []lexSpec) (*specDFA, error) {
	d := &specDFA{index: map[string]int{}, trans: map[[2]int]int{}}
	for _, s := range specs {
		re, err := syntax.Parse(s.re, syntax.Perl)
		if err != nil {
			return nil, fmt.Errorf("%s: %v", s.id, err)
		}
		p, err := syntax.Compile(re.Simplify())
		if err != nil {
			return nil, fmt.Errorf("%s: %v", s.id, err)
		}
		d.ids = append(d.ids, s.id)
		d.progs = append(d.progs, p)
	}
	var start []nfaPos
	for i, p := range d.progs {
		start = d.closure(start, i, p.Start, map[nfaPos]bool{})
	}
	d.intern(start) // state 0
	return d, nil
}

func (d *specDFA) closure(acc []nfaPos, tok, pc int, seen map[nfaPos]bool) []nfaPos {
	k := nfaPos{tok, pc}
	if seen[k] {
		return acc
	}
	seen[k] = true
	in := &d.progs[tok].Inst[pc]
	switch in.Op {
	case syntax.InstAlt, syntax.InstAltMatch:
		acc = d.closure(acc, tok, int(in.Out), seen)
		acc = d.closure(acc, tok, int(in.Arg), seen)
	case syntax.InstCapture, syntax.InstNop:
		acc = d.closure(acc, tok, int(in.Out), seen)
	case syntax.InstEmptyWidth:
		// anchors are not used by the table
	case syntax.InstFail:
	default:
		acc = append(acc, k)
	}
	return acc
}

func (d *specDFA) intern(set []nfaPos) int {
	sort.Slice(set, func(i, j int) bool {
		if set[i].tok != set[j].tok {
			return set[i].tok < set[j].tok
		}
		return set[i].pc < set[j].pc
	})
	var b strings.Builder
	for _, p := range set {
		fmt.Fprintf(&b, "%d.%d,", p.tok, p.pc)
	}
	k := b.String()
	if i, ok := d.index[k]; ok {
		return i
	}
	i := len(d.states)
	d.index[k] = i
	d.states = append(d.states, set)
	acc := map[string]bool{}
	for _, p := range set {
		if d.progs[p.tok].Inst[p.pc].Op == syntax.InstMatch {
			acc[d.ids[p.tok]] = true
		}
	}
	d.accept = append(d.accept, acc)
	return i
}

// step: -1 is "unknown" and stays unknown.
func (d *specDFA) step(s int, b byte) int {
	if s < 0 {
		return s
	}
	k := [2]int{s, int(b)}
	if t, ok := d.trans[k]; ok {
		return t
	}
	var next []nfaPos
	seen := map[nfaPos]bool{}
	for _, p := range d.states[s] {
		in := &d.progs[p.tok].Inst[p.pc]
		switch in.Op {
		case syntax.InstRune, syntax.InstRune1, syntax.InstRuneAny, syntax.InstRuneAnyNotNL:
			if in.MatchRune(rune(b)) {
				next = d.closure(next, p.tok, int(in.Out), seen)
			}
		}
	}
	t := d.intern(next)
	d.trans[k] = t
	return t
}

// ---- the product -----------------------------------------------------------------------------------------

type byteSet [4]uint64

func (s *byteSet) add(b byte)      { s[b>>6] |= 1 << (b & 63) }
func (s byteSet) has(b byte) bool  { return s[b>>6]&(1<<(b&63)) != 0 }
func (s byteSet) only(b byte) bool { var o byteSet; o.add(b); return s == o }
func (s byteSet) empty() bool      { return s == byteSet{} }
func (s byteSet) String() string {
	var parts []string
	for b := 0; b < 256; b++ {
		if s.has(byte(b)) {
			parts = append(parts, strconv.QuoteRune(rune(b)))
			if len(parts) > 6 {
				parts = append(parts, "…")
				break
			}
		}
	}
	return "{" + strings.Join(parts, ",") + "}"
}

var anyByte = byteSet{^uint64(0), ^uint64(0), ^uint64(0), ^uint64(0)}

const lxPfx = 6

type lxNode struct {
	label        string
	cur, nxt, te int
	d            int            // bytes consumed since the token start; -1: not known (the cursor went back) or more than lxPfx
	known        int            // pfx[1..known] are set
	pfx          [lxPfx + 1]int // specification state after the first i bytes of the token
	act          string
	marks        string // "name=setid;…" (interned byte sets before each mark), sorted
	pb           int    // interned: bytes that can stand before the current byte (transition and action blocks)
	eof          bool
}

type lxWalk struct {
	a      *Analysis
	d      *specDFA
	sets   []byteSet
	setIdx map[byteSet]int
	inB    map[int]byteSet // state → bytes of the transitions that enter it
}

func (w *lxWalk) setID(s byteSet) int {
	if i, ok := w.setIdx[s]; ok {
		return i
	}
	i := len(w.sets)
	w.sets = append(w.sets, s)
	w.setIdx[s] = i
	return i
}

func parseMarks(s string) map[string]int {
	m := map[string]int{}
	for _, p := range strings.Split(s, ";") {
		if kv := strings.SplitN(p, "=", 2); len(kv) == 2 {
			n, _ := strconv.Atoi(kv[1])
			m[kv[0]] = n
		}
	}
	return m
}
func fmtMarks(m map[string]int) string {
	var ks []string
	for k := range m {
		ks = append(ks, k)
	}
	sort.Strings(ks)
	var parts []string
	for _, k := range ks {
		parts = append(parts, fmt.Sprintf("%s=%d", k, m[k]))
	}
	return strings.Join(parts, ";")
}

// specAt: the specification state of data[ts:x] for a cursor expression x of the block.
func (n *lxNode) specAt(x Lin) int {
	switch x {
	case Lin{TE: 1}:
		return n.te
	case Lin{P: 1, K: 1}:
		if n.eof {
			return -1
		}
		return n.nxt
	case Lin{P: 1}:
		return n.cur
	}
	if x.P == 0 && x.TE == 0 && x.TS == 1 && x.K >= 0 && x.K <= lxPfx && x.K <= n.known && x.K > 0 {
		return n.pfx[x.K]
	}
	return -1
}

// consumed: the node after one more byte was consumed with specification state s.
func (n *lxNode) consumed(s int, need *[lxPfx + 1]bool, maxNeed int) (int, int, [lxPfx + 1]int) {
	d, k, p := n.d, n.known, n.pfx
	switch {
	case d < 0:
	case d < maxNeed:
		d++
		if d > k {
			if need[d] {
				p[d] = s // only the lengths some action asks for are kept apart
			}
			k = d
		}
	default:
		d = -1
	}
	return d, k, p
}

// condTri evaluates a recorded branch decision on the facts of the node: 1 holds, 0 does not, -1 unknown.
func (w *lxWalk) condTri(e ast.Expr, n *lxNode, marks map[string]int) int {
	m := w.a.M
	info := m.info()
	e = unparen(e)
	switch x := e.(type) {
	case *ast.UnaryExpr:
		if x.Op == token.NOT {
			if v := w.condTri(x.X, n, marks); v >= 0 {
				return 1 - v
			}
		}
	case *ast.BinaryExpr:
		switch x.Op {
		case token.LAND, token.LOR:
			l, r := w.condTri(x.X, n, marks), w.condTri(x.Y, n, marks)
			if x.Op == token.LAND {
				if l == 0 || r == 0 {
					return 0
				}
				if l == 1 && r == 1 {
					return 1
				}
			} else {
				if l == 1 || r == 1 {
					return 1
				}
				if l == 0 && r == 0 {
					return 0
				}
			}
			return -1
		case token.EQL, token.NEQ:
			val := func(y ast.Expr) (int64, bool) {
				if tv := info.Types[y]; tv.Value != nil {
					return constant.Int64Val(constant.ToInt(tv.Value))
				}
				return 0, false
			}
			lhs, rhs := unparen(x.X), unparen(x.Y)
			c, ok := val(rhs)
			if !ok {
				if c, ok = val(lhs); ok {
					lhs = rhs
				}
			}
			if !ok {
				return -1
			}
			res := -1
			if types := exprText(lhs); types == "lex.act" {
				if n.act != "" {
					if a, err := strconv.ParseInt(n.act, 10, 64); err == nil {
						res = b2i(a == c)
					}
				}
			} else if ix, ok := lhs.(*ast.IndexExpr); ok && exprText(ix.X) == "lex.data" && c >= 0 && c < 256 {
				// lex.data[mark-1]
				if be, ok := unparen(ix.Index).(*ast.BinaryExpr); ok && be.Op == token.SUB {
					if id, ok := unparen(be.X).(*ast.Ident); ok {
						if k, ok := val(be.Y); ok && k == 1 && m.markSet()[info.ObjectOf(id)] {
							if sid, ok := marks[id.Name]; ok {
								set := w.sets[sid]
								switch {
								case set.only(byte(c)):
									res = 1
								case !set.has(byte(c)):
									res = 0
								}
							}
						}
					}
				}
			}
			if res >= 0 && x.Op == token.NEQ {
				res = 1 - res
			}
			return res
		}
	}
	return -1
}

func exprText(e ast.Expr) string {
	switch x := unparen(e).(type) {
	case *ast.Ident:
		return x.Name
	case *ast.SelectorExpr:
		return exprText(x.X) + "." + x.Sel.Name
	}
	return "?"
}

func b2i(b bool) int {
	if b {
		return 1
	}
	return 0
}

type lxKey struct{ mn, id string }

type lexFinding struct {
	mn, id, pos, witness, why string
}

// LexemeOf decides rules lexeme-of and heredoc-kind.
func (a *Analysis) LexemeOf(fixture bool) (*report.RuleResult, *report.RuleResult) {
	res := report.NewResult("lexeme-of")
	kind := report.NewResult("heredoc-kind")
	m := a.M
	specs := lexemeTable()
	if fixture {
		specs = fixtureLexemes()
	}
	// two more languages for heredoc-kind
	specs = append(specs, lexSpec{"#quoted", `(?s).*'.*`}, lexSpec{"#unquoted", `(?s)[^']*`})
	d, err := newSpecDFA(specs)
	if err != nil {
		res.Unknown("table", "-", "lexeme table", "undecided:internal: "+err.Error())
		return res, kind
	}
	inTable := map[string]bool{}
	for _, s := range specs {
		inTable[s.id] = true
	}
	w := &lxWalk{a: a, d: d, setIdx: map[byteSet]int{}, inB: map[int]byteSet{}}
	w.setID(anyByte) // id 0
	for _, n := range m.States {
		for b := 0; b < 256; b++ {
			for t := range a.Targets(n, byte(b)) {
				if strings.HasPrefix(t, "!error") {
					continue
				}
				for _, s := range a.statesAfter(t, 4) {
					set := w.inB[s]
					set.add(byte(b))
					w.inB[s] = set
				}
			}
		}
	}
	// token ends of the form ts+k that some action uses: the specification state after k bytes is kept for those k
	var need [lxPfx + 1]bool
	maxNeed := 0
	for _, mn := range machineNames(a) {
		for _, l := range a.actionBlocks(mn) {
			for _, o := range a.Outcomes(l) {
				for _, e := range o.Events {
					for _, x := range []Lin{e.TE, e.B} {
						if (e.Kind == "setpos" || e.Kind == "ff") && x.P == 0 && x.TE == 0 && x.TS == 1 && x.K > 0 && x.K <= lxPfx {
							need[x.K] = true
							if x.K > maxNeed {
								maxNeed = x.K
							}
						}
					}
				}
			}
		}
	}
	nowdocEntry, hasNow := m.Entries["nowdoc"]
	heredocEntry, hasHere := m.Entries["heredoc"]
	emitted := map[lxKey]int{}       // outcomes checked
	firstPos := map[lxKey]string{}   // position of the first emission
	bad := map[lxKey]*lexFinding{}   // first violation per machine and id
	unspec := map[string]int{}      // ids outside the table
	unknownTE := map[lxKey]string{}  // emissions whose text is not an expression the product knows
	kindSites := map[string]string{} // heredoc-kind: site → "" ok / finding
	kindPos := map[string]string{}
	nodes := 0
	for _, mn := range machineNames(a) {
		entry := fmt.Sprintf("st_case_%d", m.Entries[mn])
		start := lxNode{label: entry, cur: 0, nxt: 0, te: -1}
		seen := map[lxNode]string{start: ""}
		queue := []lxNode{start}
		for len(queue) > 0 {
			n := queue[0]
			queue = queue[1:]
			wit := seen[n]
			nodes++
			if nodes > 4000000 {
				res.Unknown("budget", "-", mn, "undecided:internal: more than 4,000,000 product nodes")
				return res, kind
			}
			push := func(x lxNode, via string) {
				if _, ok := seen[x]; !ok {
					seen[x] = via
					queue = append(queue, x)
				}
			}
			switch {
			case strings.HasPrefix(n.label, "st_case_"):
				st, _ := strconv.Atoi(strings.TrimPrefix(n.label, "st_case_"))
				pb := w.setID(w.inB[st])
				order := byteOrder()
				for _, b := range order {
					for t := range a.Targets(st, b) {
						if strings.HasPrefix(t, "!error") {
							continue
						}
						x := lxNode{label: t, cur: n.cur, nxt: d.step(n.cur, b), te: n.te, act: n.act, marks: n.marks, pb: pb, d: n.d, known: n.known, pfx: n.pfx}
						push(x, wit+string([]byte{b}))
					}
				}
				if t := m.EOF[st]; t != "" {
					push(lxNode{label: t, cur: n.cur, nxt: n.cur, te: n.te, act: n.act, marks: n.marks, pb: pb, eof: true, d: n.d, known: n.known, pfx: n.pfx}, wit)
				}
			case strings.HasPrefix(n.label, "st") && !strings.HasPrefix(n.label, "st_"):
				// reached by a jump from a block that is not an outcome exit (not expected): the byte is consumed
				dd, kk, pp := n.consumed(n.nxt, &need, maxNeed)
				push(lxNode{label: "st_case_" + strings.TrimPrefix(n.label, "st"), cur: n.nxt, nxt: n.nxt, te: n.te, act: n.act, marks: n.marks, d: dd, known: kk, pfx: pp}, wit)
			default:
				marks0 := parseMarks(n.marks)
				for _, o := range a.Outcomes(n.label) {
					if len(o.Undec) > 0 {
						continue // reported by pos-pairing
					}
					marks := map[string]int{}
					for k, v := range marks0 {
						marks[k] = v
					}
					// feasibility on the facts of the node (marks as they were when the block was entered:
					// conditions that read a mark come after the transition that recorded it)
					feasible := true
					for _, c := range o.CondX {
						v := w.condTri(c.X, &n, marks)
						if v >= 0 && (v == 1) == c.Neg {
							feasible = false
							break
						}
					}
					if !feasible {
						continue
					}
					act := n.act
					var tokID string
					var tokAt token.Pos
					var setTS, setTE Lin
					hasSet := false
					nextCS := ""
					for _, e := range o.Events {
						switch e.Kind {
						case "act":
							act = e.ID
						case "mark":
							switch e.P {
							case Lin{P: 1}:
								marks[e.ID] = n.pb
							default:
								marks[e.ID] = 0 // any byte
							}
						case "mark-unknown":
							delete(marks, e.ID)
						case "setpos":
							setTS, setTE, hasSet = e.TS, e.TE, true
						case "tok":
							tokID, tokAt = e.ID, e.At
						case "cs":
							nextCS = e.ID
						case "ff":
							id := e.ID
							if inTable["ff:"+id] {
								id = "ff:" + id
							}
							w.checkEmission(&n, mn, id, e.A, e.B, m.Prog.Pos(e.At), wit, inTable, emitted, firstPos, bad, unspec, unknownTE)
						}
					}
					if tokID != "" && hasSet {
						w.checkEmission(&n, mn, tokID, setTS, setTE, m.Prog.Pos(tokAt), wit, inTable, emitted, firstPos, bad, unspec, unknownTE)
						if strings.HasSuffix(tokID, "T_START_HEREDOC") && hasNow && hasHere {
							site := mn + "/" + tokID
							kindPos[site] = m.Prog.Pos(tokAt)
							if _, ok := kindSites[site]; !ok {
								kindSites[site] = ""
							}
							s := n.specAt(setTE)
							cs, err := strconv.Atoi(nextCS)
							switch {
							case s < 0 || err != nil:
								kindSites[site] = fmt.Sprintf("undecided:idiom: after %s the text of the opener or the next machine (%q) is not known to the analysis", quoteW(wit), nextCS)
							case cs == nowdocEntry && !d.accept[s]["#quoted"]:
								if kindSites[site] == "" {
									kindSites[site] = fmt.Sprintf("after %s the opener (no single quote in it) continues in the nowdoc machine: the body of a heredoc would not be interpolated", quoteW(wit))
								}
							case cs == heredocEntry && !d.accept[s]["#unquoted"]:
								if kindSites[site] == "" {
									kindSites[site] = fmt.Sprintf("after %s the opener (label in single quotes) continues in the heredoc machine: the body of a nowdoc would be interpolated", quoteW(wit))
								}
							}
						}
					}
					// where the scan goes on
					tgt := o.Exit
					if tgt == "_again" || tgt == "_out" || tgt == "" {
						continue
					}
					x := lxNode{act: act, marks: fmtMarks(marks), d: n.d, known: n.known, pfx: n.pfx}
					x.te = n.specAt(o.TE)
					if o.TE == (Lin{TE: 1}) {
						x.te = n.te
					}
					if strings.HasPrefix(tgt, "st") && !strings.HasPrefix(tgt, "st_") {
						st, _ := strconv.Atoi(strings.TrimPrefix(tgt, "st"))
						if _, isEntry := m.EntryOf[st]; isEntry {
							continue
						}
						// stN: p++ and dispatch
						switch o.P {
						case Lin{P: 1}:
							x.cur = n.nxt
							if n.eof {
								x.cur = -1
							}
							x.d, x.known, x.pfx = n.consumed(n.nxt, &need, maxNeed)
						case Lin{P: 1, K: -1}:
							x.cur = n.cur
						default:
							// the cursor goes back to the recorded end (or elsewhere): the prefix states stay valid up to
							// the shorter length, which is not tracked: forget the length
							if o.P == (Lin{TE: 1, K: -1}) {
								x.cur = x.te
							} else {
								x.cur = -1
							}
							x.d = -1 // the prefix states recorded so far stay true (the input does not change), the length is forgotten
						}
						x.nxt = x.cur
						x.label = "st_case_" + strings.TrimPrefix(tgt, "st")
						push(x, wit)
						continue
					}
					// another block with the same current byte
					x.label, x.cur, x.nxt, x.pb, x.eof = tgt, n.cur, n.nxt, n.pb, n.eof
					if o.P != (Lin{P: 1}) {
						x.cur, x.nxt = -1, -1
					}
					push(x, wit)
				}
			}
		}
	}
	res.Count("product-nodes", nodes)
	res.Count("spec-states", len(d.states))
	var keys []lxKey
	for k := range emitted {
		keys = append(keys, k)
	}
	sort.Slice(keys, func(i, j int) bool {
		if keys[i].mn != keys[j].mn {
			return keys[i].mn < keys[j].mn
		}
		return keys[i].id < keys[j].id
	})
	for _, k := range keys {
		res.Count("emissions", emitted[k])
		res.Count("token-ids", 1)
		key := k.mn + "/" + strings.TrimPrefix(k.id, "token.")
		if f := bad[k]; f != nil {
			res.Bad(key, f.pos, k.id, f.why)
		} else if why, ok := unknownTE[k]; ok {
			res.Unknown(key, firstPos[k], k.id, why)
		} else {
			res.OK(key, firstPos[k], k.id, fmt.Sprintf("every path of the automaton to the %d outcome(s) that emit it spells one of its lexemes", emitted[k]))
		}
	}
	var us []string
	for id := range unspec {
		us = append(us, id)
	}
	sort.Strings(us)
	for _, id := range us {
		res.Unknown("unspecified/"+id, "-", id, "undecided:anchor: the scanner emits "+id+", for which the lexeme table has no language")
	}
	var ss []string
	for s := range kindSites {
		ss = append(ss, s)
	}
	sort.Strings(ss)
	for _, s := range ss {
		kind.Count("openers", 1)
		switch why := kindSites[s]; {
		case why == "":
			kind.OK(s, kindPos[s], s, "the nowdoc machine is entered exactly on the paths that consumed a single quote")
		case strings.HasPrefix(why, "undecided:"):
			kind.Unknown(s, kindPos[s], s, why)
		default:
			kind.Bad(s, kindPos[s], s, why)
		}
	}
	return res, kind
}

func (w *lxWalk) checkEmission(n *lxNode, mn, id string, ts, te Lin, pos, wit string, inTable map[string]bool,
	emitted map[lxKey]int, firstPos map[lxKey]string, bad map[lxKey]*lexFinding,
	unspec map[string]int, unknownTE map[lxKey]string) {
	k := lxKey{mn, id}
	if !inTable[id] {
		unspec[id]++
		return
	}
	emitted[k]++
	if _, ok := firstPos[k]; !ok {
		firstPos[k] = pos
	}
	if ts != (Lin{TS: 1}) {
		return // a part of the token (the open tag without the line feed it swallowed): decided by ff-span
	}
	s := n.specAt(te)
	if s < 0 {
		if te.P == 0 && te.TS == 0 && te.TE == 1 && te.K < 0 || te.P == 1 && te.K <= 0 {
			return // bytes were given back: the text is a prefix of what was consumed (ff-span / resume-at-te decide the bounds)
		}
		if _, ok := unknownTE[k]; !ok {
			unknownTE[k] = fmt.Sprintf("undecided:idiom: after %s the end of the token is %s, which the product does not follow", quoteW(wit), te)
		}
		return
	}
	if !w.d.accept[s][id] {
		if bad[k] == nil {
			what := "a text consumed as " + quoteW(wit)
			bad[k] = &lexFinding{mn: mn, id: id, pos: pos, witness: wit, why: fmt.Sprintf("%s is emitted for %s (token text: the part up to the recorded end), which is not a lexeme of %s", id, what, id)}
		}
	}
}

func byteOrder() []byte {
	var order []byte
	seen := map[byte]bool{}
	for _, c := range []byte("abcdefghijklmnopqrstuvwxyz0123456789 _ABCDEFGHIJKLMNOPQRSTUVWXYZ\t\n\r") {
		order = append(order, c)
		seen[c] = true
	}
	for b := 0; b < 256; b++ {
		if !seen[byte(b)] {
			order = append(order, byte(b))
		}
	}
	return order
}
