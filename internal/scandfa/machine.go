// Package scandfa implements engine B: the ragel-generated scanner
// (internal/scanner/scanner.go, function Lexer.Lex) rebuilt as a transition
// system from its type-checked syntax tree. ragel is not available offline, so
// the compiled Go is the only truth there is.
package scandfa

import (
	"fmt"
	"go/ast"
	"go/constant"
	"go/token"
	"go/types"
	"sort"
	"strconv"
	"strings"

	"golang.org/x/tools/go/packages"

	"verif/internal/load"
)

type Block struct {
	Label string
	Stmts []ast.Stmt
	Next  string // label reached by falling off the end ("" if the block ends in a jump)
	Pos   token.Pos
}

type Machine struct {
	Prog    *load.Program
	Pkg     *packages.Package
	Lex     *ast.FuncDecl
	Blocks  map[string]*Block
	Order   []string
	Entries map[string]int // machine name → entry state (lexer_en_*)
	EntryOf map[int]string
	States  []int          // all N with a st_case_N block
	EOF     map[int]string // state → label run at end of input (from the eof switch), "" none
	Tail    []ast.Stmt     // statements after _out (the end of Lex)
	Problems []string
	predCache map[string]tri
	inlineDepth int
	retTok      int
	marks       map[types.Object]bool
}

func (m *Machine) info() *types.Info { return m.Pkg.TypesInfo }
func (m *Machine) Pos(n ast.Node) string { return m.Prog.Pos(n.Pos()) }

// Build extracts the labelled blocks of Lexer.Lex.
func Build(p *load.Program, rel string) (*Machine, error) {
	pk := p.Pkg(rel)
	if pk == nil {
		return nil, fmt.Errorf("package %s not found", rel)
	}
	m := &Machine{Prog: p, Pkg: pk, Blocks: map[string]*Block{}, Entries: map[string]int{}, EntryOf: map[int]string{}, EOF: map[int]string{}}
	for _, fd := range load.FuncDecls(pk) {
		if fd.Name.Name == "Lex" && fd.Recv != nil {
			m.Lex = fd
		}
	}
	if m.Lex == nil {
		return nil, fmt.Errorf("%s: method Lex not found", rel)
	}
	// machine entries: constants lexer_en_*
	sc := pk.Types.Scope()
	for _, name := range sc.Names() {
		if c, ok := sc.Lookup(name).(*types.Const); ok && strings.HasPrefix(name, "lexer_en_") {
			if v, ok := constant.Int64Val(c.Val()); ok {
				mn := strings.TrimPrefix(name, "lexer_en_")
				m.Entries[mn] = int(v)
				m.EntryOf[int(v)] = mn
			}
		}
	}
	// the generated block: the BlockStmt that contains label _again
	var body *ast.BlockStmt
	var rest []ast.Stmt
	for i, st := range m.Lex.Body.List {
		if bs, ok := st.(*ast.BlockStmt); ok {
			for _, s := range bs.List {
				if ls, ok := s.(*ast.LabeledStmt); ok && ls.Label.Name == "_again" {
					body = bs
					rest = m.Lex.Body.List[i+1:]
				}
			}
		}
	}
	if body == nil {
		return nil, fmt.Errorf("%s: generated block of Lex not found", rel)
	}
	m.Tail = rest
	var cur *Block
	flush := func(next string) {
		if cur != nil {
			if len(cur.Stmts) > 0 {
				if endsInJump(cur.Stmts[len(cur.Stmts)-1]) {
					next = ""
				}
			}
			cur.Next = next
		}
	}
	for _, st := range body.List {
		if ls, ok := st.(*ast.LabeledStmt); ok {
			flush(ls.Label.Name)
			cur = &Block{Label: ls.Label.Name, Pos: ls.Pos()}
			m.Blocks[cur.Label] = cur
			m.Order = append(m.Order, cur.Label)
			if _, isEmpty := ls.Stmt.(*ast.EmptyStmt); !isEmpty {
				cur.Stmts = append(cur.Stmts, ls.Stmt)
			}
			continue
		}
		if cur != nil {
			cur.Stmts = append(cur.Stmts, st)
		}
	}
	flush("")
	for l := range m.Blocks {
		if strings.HasPrefix(l, "st_case_") {
			n, err := strconv.Atoi(strings.TrimPrefix(l, "st_case_"))
			if err == nil {
				m.States = append(m.States, n)
			}
		}
	}
	sort.Ints(m.States)
	// eof actions: in block _test_eof: if p == eof { switch lex.cs { case N: goto trX } }
	if b := m.Blocks["_test_eof"]; b != nil {
		for _, st := range b.Stmts {
			ast.Inspect(st, func(n ast.Node) bool {
				sw, ok := n.(*ast.SwitchStmt)
				if !ok {
					return true
				}
				for _, c := range sw.Body.List {
					cc := c.(*ast.CaseClause)
					for _, e := range cc.List {
						if tv := m.info().Types[e]; tv.Value != nil {
							if v, ok := constant.Int64Val(tv.Value); ok && len(cc.Body) == 1 {
								if br, ok := cc.Body[0].(*ast.BranchStmt); ok && br.Tok == token.GOTO {
									m.EOF[int(v)] = br.Label.Name
								}
							}
						}
					}
				}
				return false
			})
		}
	}
	if len(m.States) == 0 {
		return nil, fmt.Errorf("%s: no st_case_N blocks found", rel)
	}
	return m, nil
}

func endsInJump(st ast.Stmt) bool {
	switch x := st.(type) {
	case *ast.BranchStmt:
		return x.Tok == token.GOTO
	case *ast.BlockStmt:
		if len(x.List) > 0 {
			return endsInJump(x.List[len(x.List)-1])
		}
	}
	return false
}

// ---- decision code ----------------------------------------------------------------

type evalErr struct{ msg string }

// Step evaluates the decision code of state n for byte b under the given
// predicate outcomes and returns the label jumped to. preds maps the source
// text of a predicate call to its outcome; predicates met are recorded in seen.
func (m *Machine) Step(n int, b byte, preds map[string]bool, seen map[string]bool) (label string, err error) {
	blk := m.Blocks[fmt.Sprintf("st_case_%d", n)]
	if blk == nil {
		return "", fmt.Errorf("no state %d", n)
	}
	defer func() {
		if r := recover(); r != nil {
			if e, ok := r.(evalErr); ok {
				err = fmt.Errorf("state %d: %s", n, e.msg)
				return
			}
			panic(r)
		}
	}()
	ev := &stepEval{m: m, b: int64(b), preds: preds, seen: seen}
	if l := ev.run(blk.Stmts); l != "" {
		return l, nil
	}
	if blk.Next != "" {
		return blk.Next, nil
	}
	return "", fmt.Errorf("state %d: decision code falls through", n)
}

type stepEval struct {
	m     *Machine
	b     int64
	widec int64
	preds map[string]bool
	seen  map[string]bool
}

func (ev *stepEval) fail(format string, a ...interface{}) { panic(evalErr{fmt.Sprintf(format, a...)}) }

// run executes statements; returns the goto target or "" when falling through.
func (ev *stepEval) run(stmts []ast.Stmt) string {
	for _, st := range stmts {
		if l := ev.stmt(st); l != "" {
			return l
		}
	}
	return ""
}

func (ev *stepEval) stmt(st ast.Stmt) string {
	switch x := st.(type) {
	case *ast.BranchStmt:
		if x.Tok == token.GOTO {
			return x.Label.Name
		}
		ev.fail("branch %s", x.Tok)
	case *ast.BlockStmt:
		return ev.run(x.List)
	case *ast.EmptyStmt:
		return ""
	case *ast.IfStmt:
		if x.Init != nil {
			ev.fail("if with init in decision code")
		}
		if ev.cond(x.Cond) {
			return ev.run(x.Body.List)
		} else if x.Else != nil {
			return ev.stmt(x.Else)
		}
		return ""
	case *ast.SwitchStmt:
		if x.Tag == nil {
			for _, c := range x.Body.List {
				cc := c.(*ast.CaseClause)
				if cc.List == nil {
					continue
				}
				for _, e := range cc.List {
					if ev.cond(e) {
						return ev.run(cc.Body)
					}
				}
			}
			for _, c := range x.Body.List {
				cc := c.(*ast.CaseClause)
				if cc.List == nil {
					return ev.run(cc.Body)
				}
			}
			return ""
		}
		tag := ev.num(x.Tag)
		for _, c := range x.Body.List {
			cc := c.(*ast.CaseClause)
			for _, e := range cc.List {
				if ev.num(e) == tag {
					return ev.run(cc.Body)
				}
			}
		}
		for _, c := range x.Body.List {
			cc := c.(*ast.CaseClause)
			if cc.List == nil {
				return ev.run(cc.Body)
			}
		}
		return ""
	case *ast.AssignStmt:
		if len(x.Lhs) == 1 {
			if id, ok := x.Lhs[0].(*ast.Ident); ok && id.Name == "_widec" {
				switch x.Tok {
				case token.ASSIGN:
					ev.widec = ev.num(x.Rhs[0])
				case token.ADD_ASSIGN:
					ev.widec += ev.num(x.Rhs[0])
				default:
					ev.fail("assignment operator %s", x.Tok)
				}
				return ""
			}
			// lex.ts = (lex.p) at machine entries, lex.te = … : not part of the decision
			if se, ok := x.Lhs[0].(*ast.SelectorExpr); ok {
				if id, ok := se.X.(*ast.Ident); ok && id.Name == "lex" && (se.Sel.Name == "ts" || se.Sel.Name == "te" || se.Sel.Name == "act") {
					return ""
				}
			}
		}
		ev.fail("assignment %s in decision code", types.ExprString(x.Lhs[0]))
	}
	ev.fail("statement %T in decision code", st)
	return ""
}

func (ev *stepEval) isByte(e ast.Expr) bool {
	s := types.ExprString(e)
	return s == "lex.data[(lex.p)]" || s == "lex.data[lex.p]"
}

func (ev *stepEval) num(e ast.Expr) int64 {
	if pe, ok := e.(*ast.ParenExpr); ok {
		return ev.num(pe.X)
	}
	if tv := ev.m.info().Types[e]; tv.Value != nil {
		if v, ok := constant.Int64Val(constant.ToInt(tv.Value)); ok {
			return v
		}
	}
	if ev.isByte(e) {
		return ev.b
	}
	switch x := e.(type) {
	case *ast.Ident:
		if x.Name == "_widec" {
			return ev.widec
		}
	case *ast.CallExpr:
		// int16(x)
		if len(x.Args) == 1 {
			if tv := ev.m.info().Types[x.Fun]; tv.IsType() {
				return ev.num(x.Args[0])
			}
		}
	case *ast.BinaryExpr:
		l, r := ev.num(x.X), ev.num(x.Y)
		switch x.Op {
		case token.ADD:
			return l + r
		case token.SUB:
			return l - r
		}
	}
	ev.fail("number %s", types.ExprString(e))
	return 0
}

func (ev *stepEval) cond(e ast.Expr) bool {
	switch x := e.(type) {
	case *ast.ParenExpr:
		return ev.cond(x.X)
	case *ast.UnaryExpr:
		if x.Op == token.NOT {
			return !ev.cond(x.X)
		}
	case *ast.BinaryExpr:
		switch x.Op {
		case token.LAND:
			return ev.cond(x.X) && ev.cond(x.Y)
		case token.LOR:
			return ev.cond(x.X) || ev.cond(x.Y)
		case token.LSS, token.LEQ, token.GTR, token.GEQ, token.EQL, token.NEQ:
			l, r := ev.num(x.X), ev.num(x.Y)
			switch x.Op {
			case token.LSS:
				return l < r
			case token.LEQ:
				return l <= r
			case token.GTR:
				return l > r
			case token.GEQ:
				return l >= r
			case token.EQL:
				return l == r
			case token.NEQ:
				return l != r
			}
		}
	case *ast.CallExpr:
		key := types.ExprString(x)
		if strings.HasPrefix(key, "lex.is") {
			// what the predicate's own code says for this byte, whatever the bytes around it are
			if v, known := ev.m.predFor(x, byte(ev.b)); known {
				return v
			}
			if ev.seen != nil {
				ev.seen[key] = true
			}
			v, ok := ev.preds[key]
			if !ok {
				// unknown so far: the caller enumerates; default true and record
				return true
			}
			return v
		}
	}
	ev.fail("condition %s", types.ExprString(e))
	return false
}

// Targets returns, for state n and byte b, every label reachable under some
// outcome of the predicates in the decision code, keyed by label with the
// predicate assignments that lead there.
func (m *Machine) Targets(n int, b byte) (map[string][]string, error) {
	seen := map[string]bool{}
	if _, err := m.Step(n, b, map[string]bool{}, seen); err != nil {
		return nil, err
	}
	// discover all predicates (some only appear under other outcomes)
	var names []string
	for changed := true; changed; {
		changed = false
		names = names[:0]
		for k := range seen {
			names = append(names, k)
		}
		sort.Strings(names)
		for mask := 0; mask < 1<<len(names); mask++ {
			preds := map[string]bool{}
			for i, nm := range names {
				preds[nm] = mask&(1<<i) != 0
			}
			before := len(seen)
			if _, err := m.Step(n, b, preds, seen); err != nil {
				return nil, err
			}
			if len(seen) != before {
				changed = true
			}
		}
		if len(names) > 6 {
			return nil, fmt.Errorf("state %d: more than 6 predicates", n)
		}
	}
	out := map[string][]string{}
	for mask := 0; mask < 1<<len(names); mask++ {
		preds := map[string]bool{}
		var desc []string
		for i, nm := range names {
			preds[nm] = mask&(1<<i) != 0
			desc = append(desc, fmt.Sprintf("%s=%v", nm, preds[nm]))
		}
		l, err := m.Step(n, b, preds, nil)
		if err != nil {
			return nil, err
		}
		out[l] = append(out[l], strings.Join(desc, ","))
	}
	return out, nil
}

// ---- predicates: three-valued evaluation for a known current byte --------------------------

type tri int

const (
	triUnknown tri = iota
	triTrue
	triFalse
)

func triOf(b bool) tri {
	if b {
		return triTrue
	}
	return triFalse
}

// predFor evaluates the predicate call (lex.isX(args)) for current byte b; the
// bytes before and after the cursor, the heredoc label and the version are unknown.
func (m *Machine) predFor(call *ast.CallExpr, b byte) (bool, bool) {
	se, ok := call.Fun.(*ast.SelectorExpr)
	if !ok {
		return false, false
	}
	key := fmt.Sprintf("%s|%d", types.ExprString(call), b)
	if m.predCache == nil {
		m.predCache = map[string]tri{}
	}
	if v, ok := m.predCache[key]; ok {
		return v == triTrue, v != triUnknown
	}
	var fd *ast.FuncDecl
	for _, d := range load.FuncDecls(m.Pkg) {
		if d.Name.Name == se.Sel.Name && d.Recv != nil {
			fd = d
		}
	}
	res := triUnknown
	if fd != nil {
		env := map[string]int64{}
		i := 0
		for _, f := range fd.Type.Params.List {
			for _, nm := range f.Names {
				if i < len(call.Args) {
					if tv := m.info().Types[call.Args[i]]; tv.Value != nil {
						if v, ok := constant.Int64Val(constant.ToInt(tv.Value)); ok {
							env[nm.Name] = v
						}
					}
					// an argument `lex.p` makes the parameter an alias of the cursor
					if types.ExprString(call.Args[i]) == "lex.p" {
						env["@cursor:"+nm.Name] = 1
					}
				}
				i++
			}
		}
		pe := &predEval{m: m, b: int64(b), consts: env, cursor: map[string]bool{"lex.p": true}}
		for k := range env {
			if strings.HasPrefix(k, "@cursor:") {
				pe.cursor[strings.TrimPrefix(k, "@cursor:")] = true
			}
		}
		res = pe.block(fd.Body.List)
	}
	m.predCache[key] = res
	return res == triTrue, res != triUnknown
}

type predEval struct {
	m      *Machine
	b      int64
	consts map[string]int64
	cursor map[string]bool // expressions equal to the cursor position
}

// block returns the function's result if the statements return on every path with the same known value.
func (pe *predEval) block(stmts []ast.Stmt) tri {
	for i, st := range stmts {
		switch x := st.(type) {
		case *ast.ReturnStmt:
			if len(x.Results) != 1 {
				return triUnknown
			}
			return pe.cond(x.Results[0])
		case *ast.AssignStmt:
			// p := lex.p
			if len(x.Lhs) == 1 && len(x.Rhs) == 1 {
				if id, ok := x.Lhs[0].(*ast.Ident); ok {
					if pe.cursor[types.ExprString(x.Rhs[0])] {
						pe.cursor[id.Name] = true
						continue
					}
					delete(pe.cursor, id.Name)
					continue
				}
			}
			return triUnknown
		case *ast.IfStmt:
			if x.Init != nil || x.Else != nil {
				return triUnknown
			}
			c := pe.cond(x.Cond)
			rest := stmts[i+1:]
			switch c {
			case triTrue:
				return pe.block(x.Body.List)
			case triFalse:
				continue
			default:
				// both branches must agree
				t := (&predEval{pe.m, pe.b, pe.consts, copyBoolMap(pe.cursor)}).block(x.Body.List)
				f := (&predEval{pe.m, pe.b, pe.consts, copyBoolMap(pe.cursor)}).block(rest)
				if t == f {
					return t
				}
				return triUnknown
			}
		case *ast.ForStmt, *ast.RangeStmt:
			return triUnknown
		default:
			return triUnknown
		}
	}
	return triUnknown
}

func copyBoolMap(m map[string]bool) map[string]bool {
	n := map[string]bool{}
	for k, v := range m {
		n[k] = v
	}
	return n
}

func (pe *predEval) num(e ast.Expr) (int64, bool) {
	e = unparenE(e)
	if tv := pe.m.info().Types[e]; tv.Value != nil {
		if v, ok := constant.Int64Val(constant.ToInt(tv.Value)); ok {
			return v, true
		}
	}
	switch x := e.(type) {
	case *ast.Ident:
		if v, ok := pe.consts[x.Name]; ok {
			return v, true
		}
	case *ast.IndexExpr:
		if types.ExprString(x.X) == "lex.data" && pe.cursor[types.ExprString(unparenE(x.Index))] {
			return pe.b, true
		}
	}
	return 0, false
}

func unparenE(e ast.Expr) ast.Expr {
	for {
		p, ok := e.(*ast.ParenExpr)
		if !ok {
			return e
		}
		e = p.X
	}
}

func (pe *predEval) cond(e ast.Expr) tri {
	e = unparenE(e)
	switch x := e.(type) {
	case *ast.UnaryExpr:
		if x.Op == token.NOT {
			switch pe.cond(x.X) {
			case triTrue:
				return triFalse
			case triFalse:
				return triTrue
			}
			return triUnknown
		}
	case *ast.BinaryExpr:
		switch x.Op {
		case token.LAND:
			l, r := pe.cond(x.X), pe.cond(x.Y)
			if l == triFalse || r == triFalse {
				return triFalse
			}
			if l == triTrue && r == triTrue {
				return triTrue
			}
			return triUnknown
		case token.LOR:
			l, r := pe.cond(x.X), pe.cond(x.Y)
			if l == triTrue || r == triTrue {
				return triTrue
			}
			if l == triFalse && r == triFalse {
				return triFalse
			}
			return triUnknown
		case token.EQL, token.NEQ:
			l, ok1 := pe.num(x.X)
			r, ok2 := pe.num(x.Y)
			if ok1 && ok2 {
				return triOf((l == r) == (x.Op == token.EQL))
			}
			return triUnknown
		}
	}
	return triUnknown
}
