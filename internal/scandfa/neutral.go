package scandfa

import (
	"fmt"
	"sort"
	"strings"

	"verif/internal/report"
)

// ---- newline-neutral ---------------------------------------------------------------------------------
//
// Inside a token in which a line terminator is just another byte of the body (block comments, quoted
// strings, inline HTML, the text after __halt_compiler), the state the automaton is in after a line
// terminator must behave like the state it is in after an ordinary body byte: where they differ, what
// follows a line break is scanned differently from what follows any other byte (a `*/` in column 0
// that does not close its comment, seed C08-12). The body state of a state s is the state most bytes
// lead to from s (ragel's default transition). The rule compares the two states transition by
// transition: for every byte the same successor states within the token and the same possibility of
// ending it. It applies where the line terminator stays in the body: the body state loops on most bytes
// and the state after the line feed falls back to it on most bytes (so not where a line feed ends a
// label, a shebang line or a one-line comment).

// stateSig: for every byte, the states the automaton can be in afterwards within the same token, and
// whether the byte can end the token. (How a token end is brought about - directly, or through ragel's
// act dispatch when several patterns are still possible - legitimately differs between states that are
// equivalent for the language, so it is not part of the signature.)
func (a *Analysis) stateSig(n int) string {
	var parts []string
	run := ""
	runStart := 0
	flush := func(end int) {
		if run != "" {
			parts = append(parts, fmt.Sprintf("%d-%d:%s", runStart, end, run))
		}
	}
	for b := 0; b < 256; b++ {
		seen := map[int]bool{}
		ends := false
		for t := range a.Targets(n, byte(b)) {
			for _, s := range a.statesAfter(t, 4) {
				seen[s] = true
			}
			if strings.HasPrefix(t, "st") && !strings.HasPrefix(t, "st_") {
				continue
			}
			for _, o := range a.Outcomes(t) {
				if a.boundary(o) {
					ends = true
				}
			}
		}
		var ss []string
		for s2 := range seen {
			ss = append(ss, fmt.Sprint(s2))
		}
		sort.Strings(ss)
		s := strings.Join(ss, ",")
		if ends {
			s += "$"
		}
		if s != run {
			flush(b - 1)
			run, runStart = s, b
		}
	}
	flush(255)
	return strings.Join(parts, " ")
}

func (a *Analysis) NewlineNeutral() *report.RuleResult {
	res := report.NewResult("newline-neutral")
	for _, mn := range machineNames(a) {
		var states []int
		for n := range a.Witness[mn] {
			states = append(states, n)
		}
		sort.Ints(states)
		for _, n := range states {
			succ := func(b byte) []int {
				seen := map[int]bool{}
				for t := range a.Targets(n, b) {
					for _, s := range a.statesAfter(t, 4) {
						seen[s] = true
					}
				}
				var out []int
				for s := range seen {
					out = append(out, s)
				}
				sort.Ints(out)
				return out
			}
			after := succ('\n')
			if len(after) != 1 {
				continue // the line terminator ends the token here, or is not accepted
			}
			// the body state: where most bytes lead
			count := map[int]int{}
			for b := 0; b < 256; b++ {
				if b == '\n' || b == '\r' {
					continue
				}
				if ss := succ(byte(b)); len(ss) == 1 {
					count[ss[0]]++
				}
			}
			body, best := -1, 0
			for s, c := range count {
				if c > best || (c == best && s < body) {
					body, best = s, c
				}
			}
			if body < 0 || best < 128 {
				continue // no body: most bytes end the token here
			}
			bodyOf := func(s int) int {
				cnt := map[int]int{}
				for b := 0; b < 256; b++ {
					if b == '\n' || b == '\r' {
						continue
					}
					seen := map[int]bool{}
					for t := range a.Targets(s, byte(b)) {
						for _, x := range a.statesAfter(t, 4) {
							seen[x] = true
						}
					}
					if len(seen) == 1 {
						for x := range seen {
							cnt[x]++
						}
					}
				}
				bs, bc := -1, 0
				for x, c := range cnt {
					if c > bc || (c == bc && x < bs) {
						bs, bc = x, c
					}
				}
				if bc < 128 {
					return -1
				}
				return bs
			}
			if bodyOf(body) != body || bodyOf(after[0]) != body {
				continue // the line terminator leaves the body (it ends a label, a shebang line, …): another context begins
			}
			res.Count("states", 1)
			key := a.stateKey(mn, n)
			pos := a.M.Prog.Pos(a.M.Blocks[fmt.Sprintf("st_case_%d", n)].Pos)
			t := after[0]
			if t == body || a.stateSig(t) == a.stateSig(body) {
				res.OK(key, pos, fmt.Sprintf("state %d", n), fmt.Sprintf("after a line feed the automaton is in state %d, which takes the same transitions as the body state %d", t, body))
				continue
			}
			res.Bad(key, pos, fmt.Sprintf("state %d", n), fmt.Sprintf("after input %s a line feed leads to state %d and an ordinary byte to state %d, and the two take different transitions: what follows a line break inside this token is scanned differently from what follows any other byte", quoteW(a.Witness[mn][n]), t, body))
		}
	}
	return res
}

