package scandfa

import (
	"fmt"
	"os"
	"go/ast"
	"go/constant"
	"go/token"
	"go/types"
	"sort"
	"strings"

	"verif/internal/load"
	"verif/internal/report"
)

// ---- a tiny linear prover -------------------------------------------------------------------

// lexpr: Σ coef·term + K
type lexpr struct {
	T map[string]int
	K int
}

func (a lexpr) clone() lexpr {
	n := lexpr{T: map[string]int{}, K: a.K}
	for k, v := range a.T {
		n.T[k] = v
	}
	return n
}

func (a lexpr) plus(b lexpr, sign int) lexpr {
	n := a.clone()
	for k, v := range b.T {
		n.T[k] += sign * v
		if n.T[k] == 0 {
			delete(n.T, k)
		}
	}
	n.K += sign * b.K
	return n
}

func (a lexpr) isConst() bool { return len(a.T) == 0 }

func (a lexpr) String() string {
	var ks []string
	for k := range a.T {
		ks = append(ks, k)
	}
	sort.Strings(ks)
	var parts []string
	for _, k := range ks {
		c := a.T[k]
		switch c {
		case 1:
			parts = append(parts, k)
		case -1:
			parts = append(parts, "-"+k)
		default:
			parts = append(parts, fmt.Sprintf("%d*%s", c, k))
		}
	}
	if a.K != 0 || len(parts) == 0 {
		parts = append(parts, fmt.Sprint(a.K))
	}
	return strings.Join(parts, " + ")
}

// fact: E >= 0, or E != 0
type fact struct {
	E  lexpr
	Ne bool
}

type prover struct {
	info  *types.Info
	alias map[string]string // local name → canonical term (p → lex.p)
}

func (pr *prover) term(e ast.Expr) string {
	s := types.ExprString(unparen(e))
	s = strings.ReplaceAll(s, "(lex.p)", "lex.p")
	if a, ok := pr.alias[s]; ok {
		return a
	}
	return s
}

func (pr *prover) lin(e ast.Expr) (lexpr, bool) {
	e = unparen(e)
	if tv := pr.info.Types[e]; tv.Value != nil {
		if v, ok := constant.Int64Val(constant.ToInt(tv.Value)); ok {
			return lexpr{T: map[string]int{}, K: int(v)}, true
		}
	}
	switch x := e.(type) {
	case *ast.BinaryExpr:
		l, ok1 := pr.lin(x.X)
		r, ok2 := pr.lin(x.Y)
		if ok1 && ok2 {
			switch x.Op {
			case token.ADD:
				return l.plus(r, 1), true
			case token.SUB:
				return l.plus(r, -1), true
			}
		}
		return lexpr{}, false
	case *ast.CallExpr:
		if id, ok := x.Fun.(*ast.Ident); ok && (id.Name == "len" || id.Name == "cap") && len(x.Args) == 1 {
			return lexpr{T: map[string]int{id.Name + "(" + pr.term(x.Args[0]) + ")": 1}}, true
		}
		// a conversion between integer types of a linear expression (int(x), ID(n))
		if tv, ok := pr.info.Types[x.Fun]; ok && tv.IsType() && len(x.Args) == 1 {
			if b, ok := tv.Type.Underlying().(*types.Basic); ok && b.Info()&types.IsInteger != 0 {
				if at := pr.info.Types[x.Args[0]].Type; at != nil {
					if ab, ok := at.Underlying().(*types.Basic); ok && ab.Info()&types.IsInteger != 0 && !narrower(b, ab) {
						return pr.lin(x.Args[0])
					}
				}
			}
		}
		return lexpr{}, false
	case *ast.Ident, *ast.SelectorExpr:
		if t := pr.info.Types[e].Type; t != nil {
			if b, ok := t.Underlying().(*types.Basic); ok && b.Info()&types.IsInteger != 0 {
				return lexpr{T: map[string]int{pr.term(e): 1}}, true
			}
		}
	case *ast.IndexExpr:
		// a[k] with a an array held by value in a plain variable and k a constant: a value like any other
		// variable (an array has no aliases unless its address is taken, which kills the term by its name)
		if id, ok := unparen(x.X).(*ast.Ident); ok {
			if at := pr.info.Types[id].Type; at != nil {
				if _, isArr := at.Underlying().(*types.Array); isArr {
					if tv := pr.info.Types[x.Index]; tv.Value != nil {
						if t := pr.info.Types[e].Type; t != nil {
							if b, ok := t.Underlying().(*types.Basic); ok && b.Info()&types.IsInteger != 0 {
								return lexpr{T: map[string]int{pr.term(e): 1}}, true
							}
						}
					}
				}
			}
		}
	}
	return lexpr{}, false
}

// initFacts: what `x := e` (the init statement of an if or for) establishes: x = e for a linear e.
func initFacts(pr *prover, init ast.Stmt, facts []fact) []fact {
	as, ok := init.(*ast.AssignStmt)
	if !ok || len(as.Lhs) != 1 || len(as.Rhs) != 1 || (as.Tok != token.DEFINE && as.Tok != token.ASSIGN) {
		return facts
	}
	lt := pr.term(as.Lhs[0])
	r, ok := pr.lin(as.Rhs[0])
	if !ok {
		return facts
	}
	if _, self := r.T[lt]; self {
		return facts
	}
	out := append([]fact{}, facts...)
	l := lexpr{T: map[string]int{lt: 1}}
	out = append(out, fact{E: l.plus(r, -1)}, fact{E: r.plus(l, -1)})
	nonNeg := r.K >= 0
	for t, c := range r.T {
		if strings.HasPrefix(t, "len(") {
			out = append(out, fact{E: lexpr{T: map[string]int{t: 1}}})
			if c < 0 {
				nonNeg = false
			}
		} else {
			nonNeg = false
		}
	}
	if nonNeg {
		out = append(out, fact{E: l}) // a sum of lengths and a non-negative constant
	}
	return out
}

// loopMoves: how the loop (body and post statement) changes term t.
func loopMoves(pr *prover, loop *ast.ForStmt, t string) (inc, dec, other bool) {
	base := t
	if strings.HasPrefix(t, "len(") && strings.HasSuffix(t, ")") {
		base = t[4 : len(t)-1]
	}
	visit := func(n ast.Node) {
		if n == nil {
			return
		}
		ast.Inspect(n, func(y ast.Node) bool {
			switch z := y.(type) {
			case *ast.AssignStmt:
				for _, l := range z.Lhs {
					lt := pr.term(l)
					if lt == base && base != t {
						other = true // the collection itself is assigned: its length is unknown afterwards
					}
					if lt != t {
						continue
					}
					switch z.Tok {
					case token.ADD_ASSIGN, token.SUB_ASSIGN:
						if tv := pr.info.Types[z.Rhs[0]]; tv.Value != nil && tv.Value.String() != "" && !strings.HasPrefix(tv.Value.String(), "-") {
							if z.Tok == token.ADD_ASSIGN {
								inc = true
							} else {
								dec = true
							}
						} else {
							other = true
						}
					default:
						other = true
					}
				}
			case *ast.IncDecStmt:
				if pr.term(z.X) == t {
					if z.Tok == token.INC {
						inc = true
					} else {
						dec = true
					}
				}
			case *ast.UnaryExpr:
				if z.Op == token.AND && pr.term(z.X) == t {
					other = true
				}
			}
			return true
		})
	}
	visit(loop.Body)
	visit(loop.Post)
	return
}

// narrower: converting from `from` to `to` can change the value (fewer bits, or signed → unsigned).
func narrower(to, from *types.Basic) bool {
	size := func(b *types.Basic) int {
		switch b.Kind() {
		case types.Int8, types.Uint8:
			return 8
		case types.Int16, types.Uint16:
			return 16
		case types.Int32, types.Uint32:
			return 32
		}
		return 64
	}
	if size(to) < size(from) {
		return true
	}
	if to.Info()&types.IsUnsigned != 0 && from.Info()&types.IsUnsigned == 0 {
		return true
	}
	return false
}

// factsOf: what holds when cond == truth (conjunctions only; anything else yields nothing).
func (pr *prover) factsOf(cond ast.Expr, truth bool) []fact {
	cond = unparen(cond)
	switch x := cond.(type) {
	case *ast.UnaryExpr:
		if x.Op == token.NOT {
			return pr.factsOf(x.X, !truth)
		}
	case *ast.BinaryExpr:
		switch x.Op {
		case token.LAND:
			if truth {
				return append(pr.factsOf(x.X, true), pr.factsOf(x.Y, true)...)
			}
			return nil
		case token.LOR:
			if !truth {
				return append(pr.factsOf(x.X, false), pr.factsOf(x.Y, false)...)
			}
			return nil
		case token.LSS, token.LEQ, token.GTR, token.GEQ, token.EQL, token.NEQ:
			l, ok1 := pr.lin(x.X)
			r, ok2 := pr.lin(x.Y)
			if !ok1 || !ok2 {
				return nil
			}
			op := x.Op
			if !truth {
				op = map[token.Token]token.Token{token.LSS: token.GEQ, token.LEQ: token.GTR, token.GTR: token.LEQ, token.GEQ: token.LSS, token.EQL: token.NEQ, token.NEQ: token.EQL}[op]
			}
			one := lexpr{T: map[string]int{}, K: 1}
			switch op {
			case token.LSS: // l < r  ⇔ r - l - 1 >= 0
				return []fact{{E: r.plus(l, -1).plus(one, -1)}}
			case token.LEQ:
				return []fact{{E: r.plus(l, -1)}}
			case token.GTR:
				return []fact{{E: l.plus(r, -1).plus(one, -1)}}
			case token.GEQ:
				return []fact{{E: l.plus(r, -1)}}
			case token.EQL:
				return []fact{{E: l.plus(r, -1)}, {E: r.plus(l, -1)}}
			case token.NEQ:
				return []fact{{E: l.plus(r, -1), Ne: true}}
			}
		}
	}
	return nil
}

// entails: goal >= 0 follows from the facts.
func entails(goal lexpr, facts []fact) bool {
	if goal.isConst() {
		return goal.K >= 0
	}
	var ge []lexpr
	for _, f := range facts {
		if !f.Ne {
			ge = append(ge, f.E)
		}
	}
	// integer tightening: E >= 0 and E != 0  ⇒  E - 1 >= 0
	for _, f := range facts {
		if !f.Ne {
			continue
		}
		for _, g := range ge {
			d := g.plus(f.E, -1)
			if d.isConst() && d.K == 0 {
				ge = append(ge, g.plus(lexpr{T: map[string]int{}, K: 1}, -1))
			}
			d2 := g.plus(f.E, 1)
			if d2.isConst() && d2.K == 0 { // g = -f.E
				ge = append(ge, g.plus(lexpr{T: map[string]int{}, K: 1}, -1))
			}
		}
	}
	for _, f := range ge {
		d := goal.plus(f, -1)
		if d.isConst() && d.K >= 0 {
			return true
		}
	}
	for i := range ge {
		for j := i; j < len(ge); j++ {
			d := goal.plus(ge[i], -1).plus(ge[j], -1)
			if d.isConst() && d.K >= 0 {
				return true
			}
		}
	}
	if len(ge) <= 40 {
		for i := range ge {
			for j := i; j < len(ge); j++ {
				for k := j; k < len(ge); k++ {
					d := goal.plus(ge[i], -1).plus(ge[j], -1).plus(ge[k], -1)
					if d.isConst() && d.K >= 0 {
						return true
					}
				}
			}
		}
	}
	return false
}

// ---- the rule ---------------------------------------------------------------------------------

type localBuf struct {
	base   string
	lo, hi lexpr // the local is base[lo:hi]
}

const topAtEntry = "top@entry"

type idxSite struct {
	local *localBuf
	fn    string
	expr  string
	node  ast.Expr
	facts []fact
	pos   token.Pos
	inLoopCond bool
	fnObj *types.Func
	liveRead bool // a read of the call stack outside Lex: the slot must be one a push wrote (below the top on entry)
}

// idxCall: one call of a function of the package, with what is known there.
type idxCall struct {
	caller *types.Func
	args   []lexpr
	argOK  []bool
	facts  []fact
}

// idxFn: what the transfer of an obligation to the callers of a function needs.
type idxFn struct {
	params   map[string]int  // integer parameter → position
	assigned map[string]bool // parameters the body assigns
	writes   map[string]bool // fields of the scanner the body assigns directly
	callees  map[*types.Func]bool
}

// IdxGuard decides rule idx-guard for the scanner package.
func (a *Analysis) IdxGuard() *report.RuleResult {
	res := report.NewResult("idx-guard")
	m := a.M
	info := m.info()
	isBuf := func(e ast.Expr) (string, bool) {
		s := types.ExprString(unparen(e))
		switch s {
		case "lex.data", "lex.stack", "nl.data":
			return s, true
		}
		return "", false
	}
	// invariants available everywhere in the package (stated in the evidence):
	//   0 <= lex.ts <= lex.te <= len(lex.data) = lex.pe   (token bounds: rules resume-at-te / pos-pairing; who-writes for pe)
	//   inside Lex action and decision code: 0 <= lex.p < len(lex.data)   (ragel: code runs only while p != pe)
	//   PHPMODE: predicates are evaluated in machines entered after an open tag, so lex.p >= 2 there
	mk := func(terms map[string]int, k int) fact { return fact{E: lexpr{T: terms, K: k}} }
	base := []fact{
		mk(map[string]int{"lex.ts": 1}, 0),
		mk(map[string]int{"lex.te": 1, "lex.ts": -1}, 0),
		mk(map[string]int{"len(lex.data)": 1, "lex.te": -1}, 0),
		mk(map[string]int{"len(lex.stack)": 1, "lex.top": -1}, 0), // top <= len(stack): call/ret only
		mk(map[string]int{"lex.top": 1}, 0),
	}
	cursorIn := []fact{
		mk(map[string]int{"lex.p": 1}, 0),
		mk(map[string]int{"len(lex.data)": 1, "lex.p": -1}, -1),
	}
	phpMode := []fact{mk(map[string]int{"lex.p": 1}, -2)}
	growOK := a.stackInvariant(res)

	constParam := map[string][2]int{}
	{
		seen := map[string]map[int]bool{}
		params := map[string][]string{}
		for _, fd := range load.FuncDecls(m.Pkg) {
			for _, f := range fd.Type.Params.List {
				for _, nm := range f.Names {
					params[fd.Name.Name] = append(params[fd.Name.Name], nm.Name)
				}
			}
		}
		for _, f := range m.Pkg.Syntax {
			ast.Inspect(f, func(n ast.Node) bool {
				c, ok := n.(*ast.CallExpr)
				if !ok {
					return true
				}
				se, ok := c.Fun.(*ast.SelectorExpr)
				if !ok {
					return true
				}
				ps := params[se.Sel.Name]
				for i, arg := range c.Args {
					if i >= len(ps) {
						break
					}
					k := se.Sel.Name + "." + ps[i]
					if seen[k] == nil {
						seen[k] = map[int]bool{}
					}
					if tv := info.Types[arg]; tv.Value != nil {
						if v, ok := constant.Int64Val(constant.ToInt(tv.Value)); ok {
							seen[k][int(v)] = true
							continue
						}
					}
					seen[k][-1<<30] = true
				}
				return true
			})
		}
		for k, vs := range seen {
			if vs[-1<<30] || len(vs) == 0 {
				continue
			}
			lo, hi := 1<<30, -1<<30
			for v := range vs {
				if v < lo {
					lo = v
				}
				if v > hi {
					hi = v
				}
			}
			constParam[k] = [2]int{lo, hi}
		}
	}
	var sites []idxSite
	// the struct types that hold scanner state: the receiver type of Lex and what it embeds
	stateTypes := map[*types.Named]bool{}
	if m.Lex != nil && m.Lex.Recv != nil && len(m.Lex.Recv.List) == 1 {
		var add func(t types.Type, depth int)
		add = func(t types.Type, depth int) {
			if p, ok := t.Underlying().(*types.Pointer); ok {
				t = p.Elem()
			}
			n, ok := t.(*types.Named)
			if !ok || stateTypes[n] || depth > 3 {
				return
			}
			st, ok := n.Underlying().(*types.Struct)
			if !ok {
				return
			}
			stateTypes[n] = true
			for i := 0; i < st.NumFields(); i++ {
				if st.Field(i).Embedded() {
					add(st.Field(i).Type(), depth+1)
				}
			}
		}
		if t := info.TypeOf(m.Lex.Recv.List[0].Type); t != nil {
			add(t, 0)
		}
	}
	finfo := map[*types.Func]*idxFn{}
	callsTo := map[*types.Func][]idxCall{}
	calleeOf := func(c *ast.CallExpr) *types.Func {
		switch f := unparen(c.Fun).(type) {
		case *ast.SelectorExpr:
			o, _ := info.Uses[f.Sel].(*types.Func)
			return o
		case *ast.Ident:
			o, _ := info.Uses[f].(*types.Func)
			return o
		}
		return nil
	}
	for _, fd := range load.FuncDecls(m.Pkg) {
		obj, _ := info.Defs[fd.Name].(*types.Func)
		if obj == nil {
			continue
		}
		fi := &idxFn{params: map[string]int{}, assigned: map[string]bool{}, writes: map[string]bool{}, callees: map[*types.Func]bool{}}
		i := 0
		for _, f := range fd.Type.Params.List {
			for _, nm := range f.Names {
				fi.params[nm.Name] = i
				i++
			}
			if len(f.Names) == 0 {
				i++
			}
		}
		note := func(l ast.Expr) {
			switch y := unparen(l).(type) {
			case *ast.Ident:
				if _, ok := fi.params[y.Name]; ok {
					fi.assigned[y.Name] = true
				}
			case *ast.SelectorExpr:
				// a field of another type that happens to have the same name (NewLines.data) is not the scanner's
				if t := info.TypeOf(y.X); t != nil && len(stateTypes) > 0 {
					if p, ok := t.Underlying().(*types.Pointer); ok {
						t = p.Elem()
					}
					if n, ok := t.(*types.Named); ok {
						if _, isStruct := n.Underlying().(*types.Struct); isStruct && !stateTypes[n] {
							return
						}
					}
				}
				fi.writes[y.Sel.Name] = true
			}
		}
		ast.Inspect(fd.Body, func(n ast.Node) bool {
			switch y := n.(type) {
			case *ast.AssignStmt:
				for _, l := range y.Lhs {
					note(l)
				}
			case *ast.IncDecStmt:
				note(y.X)
			case *ast.UnaryExpr:
				if y.Op == token.AND {
					note(y.X)
				}
			case *ast.CallExpr:
				if o := calleeOf(y); o != nil {
					fi.callees[o] = true
				}
			}
			return true
		})
		finfo[obj] = fi
	}
	// mayWrite: fn or a function of the package it calls assigns the scanner field
	var mayWrite func(fn *types.Func, field string, seen map[*types.Func]bool) bool
	mayWrite = func(fn *types.Func, field string, seen map[*types.Func]bool) bool {
		fi := finfo[fn]
		if fi == nil {
			return fn.Pkg() == m.Pkg.Types // a function of the package without a body we saw: assume it writes
		}
		if seen[fn] {
			return false
		}
		seen[fn] = true
		if fi.writes[field] {
			return true
		}
		for c := range fi.callees {
			if mayWrite(c, field, seen) {
				return true
			}
		}
		return false
	}
	for _, fd := range load.FuncDecls(m.Pkg) {
		fname := fd.Name.Name
		fnObj, _ := info.Defs[fd.Name].(*types.Func)
		pr := &prover{info: info, alias: map[string]string{}}
		var facts []fact
		facts = append(facts, base...)
		isPred := strings.HasPrefix(fname, "is")
		if fname == "Lex" {
			facts = append(facts, cursorIn...)
		}
		if isPred {
			facts = append(facts, phpMode...)
			// parameters p are called with lex.p or lex.p+1 (checked below); a bare cursor is < len
			hasP := false
			for _, f := range fd.Type.Params.List {
				for _, nm := range f.Names {
					if nm.Name == "p" {
						hasP = true
					}
				}
			}
			if hasP {
				// 2 <= p <= len(data)
				facts = append(facts, mk(map[string]int{"p": 1}, -2), mk(map[string]int{"len(lex.data)": 1, "p": -1}, 0))
			} else {
				facts = append(facts, cursorIn...)
			}
		}
		if fname != "Lex" {
			// ghost: the top of the call stack when the function is entered
			facts = append(facts, mk(map[string]int{"lex.top": 1, topAtEntry: -1}, 0), mk(map[string]int{topAtEntry: 1, "lex.top": -1}, 0))
		}
		stores := map[ast.Expr]bool{} // index expressions that are assigned to
		ast.Inspect(fd.Body, func(n ast.Node) bool {
			if as, ok := n.(*ast.AssignStmt); ok {
				for _, l := range as.Lhs {
					stores[unparen(l)] = true
				}
			}
			return true
		})
		curMachine := ""
		locals := map[string]*localBuf{} // locals that are slices of a scanner buffer
		// integer parameters that every call site in the package passes the same constant for
		for _, f := range fd.Type.Params.List {
			for _, nm := range f.Names {
				if v, ok := constParam[fname+"."+nm.Name]; ok {
					facts = append(facts, mk(map[string]int{nm.Name: 1}, -v[0]), mk(map[string]int{nm.Name: -1}, v[1]))
				}
			}
		}
		var walk func(stmts []ast.Stmt, facts []fact)
		var visitExpr func(e ast.Expr, facts []fact, loopCond bool)
		visitExpr = func(e ast.Expr, facts []fact, loopCond bool) {
			if e == nil {
				return
			}
			switch x := unparen(e).(type) {
			case *ast.BinaryExpr:
				if x.Op == token.LAND {
					visitExpr(x.X, facts, loopCond)
					visitExpr(x.Y, append(append([]fact{}, facts...), pr.factsOf(x.X, true)...), loopCond)
					return
				}
				if x.Op == token.LOR {
					visitExpr(x.X, facts, loopCond)
					visitExpr(x.Y, append(append([]fact{}, facts...), pr.factsOf(x.X, false)...), loopCond)
					return
				}
				visitExpr(x.X, facts, loopCond)
				visitExpr(x.Y, facts, loopCond)
			case *ast.IndexExpr:
				if bn, ok := isBuf(x.X); ok {
					sites = append(sites, idxSite{fnObj: fnObj, fn: fname, expr: types.ExprString(x), node: x, facts: append([]fact{}, facts...), pos: x.Pos(), inLoopCond: loopCond})
					if bn == "lex.stack" && fname != "Lex" && !stores[x] {
						sites = append(sites, idxSite{fnObj: fnObj, fn: fname, expr: types.ExprString(x), node: x, facts: append([]fact{}, facts...), pos: x.Pos(), liveRead: true})
					}
				} else if id, ok := unparen(x.X).(*ast.Ident); ok {
					if lb, ok := locals[id.Name]; ok {
						sites = append(sites, idxSite{fnObj: fnObj, local: lb, fn: fname, expr: types.ExprString(x), node: x, facts: append([]fact{}, facts...), pos: x.Pos()})
					}
				}
				visitExpr(x.X, facts, loopCond)
				visitExpr(x.Index, facts, loopCond)
			case *ast.SliceExpr:
				if _, ok := isBuf(x.X); ok {
					sites = append(sites, idxSite{fnObj: fnObj, fn: fname, expr: types.ExprString(x), node: x, facts: append([]fact{}, facts...), pos: x.Pos()})
				}
				visitExpr(x.Low, facts, loopCond)
				visitExpr(x.High, facts, loopCond)
			case *ast.CallExpr:
				for _, arg := range x.Args {
					visitExpr(arg, facts, loopCond)
				}
				visitExpr(x.Fun, facts, loopCond)
				if o := calleeOf(x); o != nil && finfo[o] != nil {
					c := idxCall{caller: fnObj, facts: append([]fact{}, facts...)}
					for _, arg := range x.Args {
						l, ok := pr.lin(arg)
						c.args = append(c.args, l)
						c.argOK = append(c.argOK, ok)
					}
					callsTo[o] = append(callsTo[o], c)
				}
			case *ast.UnaryExpr:
				visitExpr(x.X, facts, loopCond)
			case *ast.SelectorExpr:
				visitExpr(x.X, facts, loopCond)
			case *ast.CompositeLit:
				for _, el := range x.Elts {
					if kv, ok := el.(*ast.KeyValueExpr); ok {
						visitExpr(kv.Value, facts, loopCond)
					} else {
						visitExpr(el, facts, loopCond)
					}
				}
			case *ast.TypeAssertExpr:
				visitExpr(x.X, facts, loopCond)
			case *ast.StarExpr:
				visitExpr(x.X, facts, loopCond)
			}
		}
		kill := func(facts []fact, term string) []fact {
			var out []fact
			for _, f := range facts {
				if _, uses := f.E.T[term]; !uses {
					out = append(out, f)
				}
			}
			return out
		}
		// modifiedBy: the terms a statement (and what it calls in the package) may assign
		termOfField := map[string]string{"ts": "lex.ts", "te": "lex.te", "p": "lex.p", "top": "lex.top"}
		modifiedBy := func(n ast.Node) map[string]bool {
			out := map[string]bool{}
			if n == nil {
				return out
			}
			ast.Inspect(n, func(y ast.Node) bool {
				switch z := y.(type) {
				case *ast.AssignStmt:
					for _, l := range z.Lhs {
						out[pr.term(l)] = true
					}
				case *ast.IncDecStmt:
					out[pr.term(z.X)] = true
				case *ast.RangeStmt:
					if z.Key != nil {
						out[pr.term(z.Key)] = true
					}
					if z.Value != nil {
						out[pr.term(z.Value)] = true
					}
				case *ast.CallExpr:
					if o := calleeOf(z); o != nil {
						for f, t := range termOfField {
							if mayWrite(o, f, map[*types.Func]bool{}) {
								out[t] = true
							}
						}
					}
				}
				return true
			})
			return out
		}
		killAll := func(facts []fact, terms map[string]bool) []fact {
			if len(terms) == 0 {
				return facts
			}
			var out []fact
			for _, f := range facts {
				keep := true
				for t := range f.E.T {
					if terms[t] {
						keep = false
					}
				}
				if keep {
					out = append(out, f)
				}
			}
			return out
		}
		returns := func(b *ast.BlockStmt) bool {
			if len(b.List) == 0 {
				return false
			}
			switch x := b.List[len(b.List)-1].(type) {
			case *ast.ReturnStmt:
				return true
			case *ast.BranchStmt:
				return x.Tok == token.GOTO || x.Tok == token.BREAK || x.Tok == token.CONTINUE
			case *ast.ExprStmt:
				if c, ok := x.X.(*ast.CallExpr); ok {
					if id, ok := c.Fun.(*ast.Ident); ok && id.Name == "panic" {
						return true
					}
				}
			}
			return false
		}
		walk = func(stmts []ast.Stmt, facts []fact) {
			for _, st := range stmts {
				switch x := st.(type) {
				case *ast.LabeledStmt:
					// generated code: facts do not survive a label (jump target)
					facts = append([]fact{}, base...)
					if fname == "Lex" {
						facts = append(facts, cursorIn...)
						curMachine = a.Home[x.Label.Name]
						// what the (d,e) dataflow knows at this block: d = p - ts, e = te - ts
						if mn, ok := a.Home[x.Label.Name]; ok {
							de := a.Flows[mn].At[x.Label.Name]
							if de.D.Def {
								facts = append(facts, mk(map[string]int{"lex.p": 1, "lex.ts": -1}, -de.D.Lo))
								if de.D.Hi < satur {
									facts = append(facts, mk(map[string]int{"lex.ts": 1, "lex.p": -1}, de.D.Hi))
								}
							}
							if de.E.Def {
								facts = append(facts, mk(map[string]int{"lex.te": 1, "lex.ts": -1}, -de.E.Lo))
							}
						}
					}
					walk([]ast.Stmt{x.Stmt}, facts)
				case *ast.AssignStmt:
					for _, r := range x.Rhs {
						visitExpr(r, facts, false)
					}
					for _, l := range x.Lhs {
						if ix, ok := l.(*ast.IndexExpr); ok {
							visitExpr(ix, facts, false)
						}
					}
					if len(x.Lhs) > 1 && len(x.Lhs) == len(x.Rhs) && x.Tok == token.DEFINE {
						// a, b := e1, e2 with new variables on the left and none of them on the right: two definitions
						names := map[string]bool{}
						for _, l := range x.Lhs {
							names[pr.term(l)] = true
						}
						indep := true
						var rs []lexpr
						for _, r := range x.Rhs {
							e, ok := pr.lin(r)
							if !ok {
								indep = false
								break
							}
							for t := range e.T {
								if names[t] {
									indep = false
								}
							}
							rs = append(rs, e)
						}
						for _, l := range x.Lhs {
							facts = kill(facts, pr.term(l))
						}
						if indep {
							for i, l := range x.Lhs {
								lt := lexpr{T: map[string]int{pr.term(l): 1}}
								facts = append(facts, fact{E: lt.plus(rs[i], -1)}, fact{E: rs[i].plus(lt, -1)})
								for t := range rs[i].T {
									if strings.HasPrefix(t, "len(") {
										facts = append(facts, mk(map[string]int{t: 1}, 0))
									}
								}
							}
						}
						continue
					}
					if len(x.Lhs) == 1 && len(x.Rhs) == 1 && x.Tok == token.DEFINE {
						// mid := (lo+hi)/2 and its spellings: lo <= mid < hi wherever lo < hi is known
						if a, b, ok := midpointOf(x.Rhs[0]); ok {
							la, ok1 := pr.lin(a)
							lb, ok2 := pr.lin(b)
							if ok1 && ok2 {
								gap := lb.plus(la, -1)
								gap.K--
								if entails(gap, facts) {
									mt := lexpr{T: map[string]int{pr.term(x.Lhs[0]): 1}}
									facts = kill(facts, pr.term(x.Lhs[0]))
									up := lb.plus(mt, -1)
									up.K--
									facts = append(facts, fact{E: mt.plus(la, -1)}, fact{E: up})
									continue
								}
							}
						}
					}
					if len(x.Lhs) == 1 && len(x.Rhs) == 1 {
						if id, ok := x.Lhs[0].(*ast.Ident); ok {
							delete(locals, id.Name)
							if se, ok := unparen(x.Rhs[0]).(*ast.SliceExpr); ok {
								if bn, ok := isBuf(se.X); ok {
									lb := &localBuf{base: bn, lo: lexpr{T: map[string]int{}}, hi: lexpr{T: map[string]int{"len(" + bn + ")": 1}}}
									okb := true
									if se.Low != nil {
										lb.lo, okb = pr.lin(se.Low)
									}
									if se.High != nil && okb {
										lb.hi, okb = pr.lin(se.High)
									}
									if okb {
										locals[id.Name] = lb
									}
								}
							}
						}
						lt := pr.term(x.Lhs[0])
						if x.Tok == token.ADD_ASSIGN || x.Tok == token.SUB_ASSIGN {
							// x += e / x -= e: the same as x = x ± e
							if e, ok := pr.lin(x.Rhs[0]); ok {
								if _, self := e.T[lt]; !self {
									sign := 1
									if x.Tok == token.SUB_ASSIGN {
										sign = -1
									}
									var nf []fact
									for _, f := range facts {
										if c, ok := f.E.T[lt]; ok {
											g := f.E.clone()
											for t, ct := range e.T {
												g.T[t] -= sign * c * ct
												if g.T[t] == 0 {
													delete(g.T, t)
												}
											}
											g.K -= sign * c * e.K
											nf = append(nf, fact{E: g, Ne: f.Ne})
										} else {
											nf = append(nf, f)
										}
									}
									facts = nf
									continue
								}
							}
							facts = kill(facts, lt)
							continue
						}
						if x.Tok == token.DEFINE || x.Tok == token.ASSIGN {
							// p := lex.p makes p an alias as long as neither changes
							if id, ok := x.Lhs[0].(*ast.Ident); ok && types.ExprString(x.Rhs[0]) == "lex.p" && x.Tok == token.DEFINE {
								pr.alias[id.Name] = "lex.p"
								continue
							}
							if r, ok := pr.lin(x.Rhs[0]); ok && r.T[lt] == 1 {
								// x = x + e: every fact about the old x becomes one about (x - e)
								e := r.clone()
								delete(e.T, lt)
								var nf []fact
								for _, f := range facts {
									if c, ok := f.E.T[lt]; ok {
										g := f.E.clone()
										for t, ct := range e.T {
											g.T[t] -= c * ct
											if g.T[t] == 0 {
												delete(g.T, t)
											}
										}
										g.K -= c * e.K
										nf = append(nf, fact{E: g, Ne: f.Ne})
									} else {
										nf = append(nf, f)
									}
								}
								facts = nf
								continue
							}
							facts = kill(facts, lt)
							// l := len(x): l = len(x)
							if r, ok := pr.lin(x.Rhs[0]); ok {
								l := lexpr{T: map[string]int{lt: 1}}
								if _, self := r.T[lt]; !self {
									facts = append(facts, fact{E: l.plus(r, -1)}, fact{E: r.plus(l, -1)})
								}
							}
							if c, ok := x.Rhs[0].(*ast.CallExpr); ok {
								if id, ok := c.Fun.(*ast.Ident); ok && id.Name == "len" {
									facts = append(facts, mk(map[string]int{lt: 1}, 0))
								}
							}
						}
					}
				case *ast.IncDecStmt:
					t := pr.term(x.X)
					// shift facts: new = old ± 1
					var nf []fact
					d := 1
					if x.Tok == token.DEC {
						d = -1
					}
					for _, f := range facts {
						if c, ok := f.E.T[t]; ok {
							g := f.E.clone()
							g.K -= c * d
							nf = append(nf, fact{E: g, Ne: f.Ne})
						} else {
							nf = append(nf, f)
						}
					}
					facts = nf
					if a, ok := pr.alias[types.ExprString(x.X)]; ok && a == "lex.p" {
						delete(pr.alias, types.ExprString(x.X))
						facts = kill(facts, "lex.p") // the alias diverges: forget cursor facts for it
					}
				case *ast.ExprStmt:
					visitExpr(x.X, facts, false)
					facts = killAll(facts, modifiedBy(x)) // what the callee (and what it calls) may assign is unknown afterwards
					if c, ok := x.X.(*ast.CallExpr); ok {
						switch types.ExprString(c.Fun) {
						case "lex.growCallStack":
							// afterwards top < len(stack) (given top <= len(stack)): proved from the body of growCallStack (stackInvariant)
							if !growOK {
								break
							}
							facts = append(facts, mk(map[string]int{"len(lex.stack)": 1, "lex.top": -1}, -1))
						}
					}
				case *ast.ReturnStmt:
					for _, r := range x.Results {
						visitExpr(r, facts, false)
					}
				case *ast.IfStmt:
					if x.Init != nil {
						walk([]ast.Stmt{x.Init}, facts)
						facts = initFacts(pr, x.Init, facts)
					}
					visitExpr(x.Cond, facts, false)
					tf := append(append([]fact{}, facts...), pr.factsOf(x.Cond, true)...)
					walk(x.Body.List, tf)
					ff := append(append([]fact{}, facts...), pr.factsOf(x.Cond, false)...)
					if x.Else != nil {
						walk([]ast.Stmt{x.Else}, ff)
					}
					// what holds afterwards: the facts of the branches that fall through, without what those branches assign
					bodyFalls := !returns(x.Body)
					var elseBlock *ast.BlockStmt
					elseFalls := true
					if x.Else != nil {
						if eb, ok := x.Else.(*ast.BlockStmt); ok {
							elseBlock = eb
							elseFalls = !returns(eb)
						}
					}
					switch {
					case !bodyFalls && x.Else == nil:
						facts = ff
					case !bodyFalls && elseBlock != nil && elseFalls:
						facts = killAll(ff, modifiedBy(elseBlock))
					case bodyFalls && !elseFalls:
						facts = killAll(tf, modifiedBy(x.Body))
					default:
						m := modifiedBy(x.Body)
						for t := range modifiedBy(x.Else) {
							m[t] = true
						}
						facts = killAll(facts, m)
					}
				case *ast.BlockStmt:
					walk(x.List, facts)
				case *ast.ForStmt:
					if x.Init != nil {
						walk([]ast.Stmt{x.Init}, facts)
					}
					// loop facts: only what the condition itself establishes plus loop-invariant base facts
					lf := append([]fact{}, base...)
					if as, ok := x.Init.(*ast.AssignStmt); ok && len(as.Lhs) == 1 {
						// for i := len(x)-1; i >= 0; i-- : i <= len-1 is invariant for a decreasing counter
						if r, ok := pr.lin(as.Rhs[0]); ok {
							if post, ok := x.Post.(*ast.IncDecStmt); ok && post.Tok == token.DEC && pr.term(post.X) == pr.term(as.Lhs[0]) {
								l := lexpr{T: map[string]int{pr.term(as.Lhs[0]): 1}}
								lf = append(lf, fact{E: r.plus(l, -1)})
							}
							// for i := a; …; i++ with i changed by nothing else: i >= a is invariant for an increasing counter
							if post, ok := x.Post.(*ast.IncDecStmt); ok && post.Tok == token.INC && pr.term(post.X) == pr.term(as.Lhs[0]) {
								t := pr.term(as.Lhs[0])
								other := false
								ast.Inspect(x.Body, func(n ast.Node) bool {
									switch y := n.(type) {
									case *ast.AssignStmt:
										for _, l := range y.Lhs {
											if pr.term(l) == t {
												other = true
											}
										}
										for tt := range r.T {
											for _, l := range y.Lhs {
												if pr.term(l) == tt {
													other = true
												}
											}
										}
									case *ast.IncDecStmt:
										if pr.term(y.X) == t {
											other = true
										}
									}
									return true
								})
								if !other {
									l := lexpr{T: map[string]int{t: 1}}
									lf = append(lf, fact{E: l.plus(r, -1)})
								}
							}
						}
					}
					// a fact stays valid in the loop if every term in it is either untouched by the loop, or only
					// moves in the direction that keeps the fact (coefficient > 0: only incremented; < 0: only decremented)
					for _, f := range initFacts(pr, x.Init, facts) {
						if f.Ne || len(f.E.T) == 1 {
							continue // single-term facts: the rule below
						}
						keep := true
						for t, c := range f.E.T {
							inc, dec, other := loopMoves(pr, x, t)
							switch {
							case other:
								keep = false
							case c > 0 && dec, c < 0 && inc:
								keep = false
							}
						}
						if keep {
							lf = append(lf, f)
						}
					}
					// lower bounds of variables that the loop only increments stay valid
					for _, f := range facts {
						if f.Ne || len(f.E.T) != 1 {
							continue
						}
						for t, c := range f.E.T {
							if c != 1 {
								continue
							}
							onlyInc := true
							ast.Inspect(x, func(n ast.Node) bool {
								switch y := n.(type) {
								case *ast.AssignStmt:
									for _, l := range y.Lhs {
										if pr.term(l) == t && y != x.Init {
											onlyInc = false
										}
									}
								case *ast.IncDecStmt:
									if pr.term(y.X) == t && y.Tok == token.DEC {
										onlyInc = false
									}
								}
								return true
							})
							if onlyInc {
								lf = append(lf, f)
							}
						}
					}
					if bl, ok := bisectionOf(x, func(e ast.Expr) string { return pr.term(e) }); ok {
						// lo only grows and hi only shrinks: lower bounds of lo and upper bounds of hi that hold on entry are invariant
						for _, f := range facts {
							if f.Ne {
								continue
							}
							keep := len(f.E.T) > 0
							for t, c := range f.E.T {
								switch {
								case t == bl.lo && c > 0, t == bl.hi && c < 0:
								case t == bl.lo, t == bl.hi, t == bl.mid:
									keep = false
								default:
									if inc, dec, other := loopMoves(pr, x, t); inc || dec || other {
										keep = false
									}
								}
							}
							if keep {
								lf = append(lf, f)
							}
						}
					}
					visitExpr(x.Cond, lf, true)
					if x.Cond != nil {
						lf = append(lf, pr.factsOf(x.Cond, true)...)
					}
					walk(x.Body.List, lf)
					// after the loop: a fact survives if the loop leaves its terms alone or moves them only in the
					// direction that keeps it (a lower bound of a counter that is only incremented)
					{
						mod := modifiedBy(x)
						if x.Init != nil {
							facts = killAll(facts, modifiedBy(x.Init))
						}
						var keepF []fact
						for _, f := range facts {
							keep := true
							for t, c := range f.E.T {
								if !mod[t] {
									continue
								}
								inc, dec, other := loopMoves(pr, x, t)
								if f.Ne || other || (c > 0 && dec) || (c < 0 && inc) {
									keep = false
								}
							}
							if keep {
								keepF = append(keepF, f)
							}
						}
						facts = keepF
					}
				case *ast.RangeStmt:
					rf := append([]fact{}, base...)
					// for k := range xs: 0 <= k < len(xs) while the body assigns neither
					if x.Key != nil {
						if kid, ok := x.Key.(*ast.Ident); ok && kid.Name != "_" {
							if t := info.TypeOf(x.X); t != nil {
								switch t.Underlying().(type) {
								case *types.Slice, *types.Array, *types.Basic:
									k, xs := kid.Name, pr.term(x.X)
									touched := false
									ast.Inspect(x.Body, func(n ast.Node) bool {
										switch y := n.(type) {
										case *ast.AssignStmt:
											for _, l := range y.Lhs {
												if lt := pr.term(l); lt == k || lt == xs {
													touched = true
												}
											}
										case *ast.IncDecStmt:
											if pr.term(y.X) == k {
												touched = true
											}
										}
										return true
									})
									if !touched {
										rf = append(rf, mk(map[string]int{k: 1}, 0), mk(map[string]int{"len(" + xs + ")": 1, k: -1}, -1))
									}
								}
							}
						}
					}
					walk(x.Body.List, rf)
					facts = killAll(facts, modifiedBy(x))
				case *ast.SwitchStmt:
					for _, c := range x.Body.List {
						cc := c.(*ast.CaseClause)
						cf := facts
						if x.Tag != nil && types.ExprString(x.Tag) == "lex.act" && len(cc.List) == 1 && curMachine != "" {
							if e, ok := a.actE(curMachine)[types.ExprString(cc.List[0])]; ok && e.Def {
								cf = append(append([]fact{}, kill(facts, "lex.te")...), mk(map[string]int{"lex.te": 1, "lex.ts": -1}, -e.Lo),
									mk(map[string]int{"len(lex.data)": 1, "lex.te": -1}, 0))
							}
						}
						walk(cc.Body, cf)
					}
					facts = killAll(facts, modifiedBy(x.Body))
				case *ast.DeclStmt, *ast.BranchStmt, *ast.EmptyStmt:
				}
			}
		}
		walk(fd.Body.List, facts)
	}
	// decide each site; identical expressions in the same function with the same verdict are merged
	type verdict struct {
		ok    bool
		why   string
		count int
		pos   token.Pos
	}
	out := map[string]*verdict{}
	fieldOfTerm := map[string]string{"lex.ts": "ts", "lex.te": "te", "lex.p": "p", "lex.top": "top", "len(lex.data)": "data", "len(lex.stack)": "stack"}
	// viaCallers: goal >= 0 at a point of fn follows from what every call of fn in
	// the package establishes for the arguments (parameters the body does not
	// assign; scanner fields the body does not write).
	var viaCallers func(fn *types.Func, g lexpr, depth int) bool
	viaCallers = func(fn *types.Func, g lexpr, depth int) bool {
		fi := finfo[fn]
		if fi == nil || depth > 3 || len(callsTo[fn]) == 0 || fn.Exported() {
			return false
		}
		for t := range g.T {
			if _, isParam := fi.params[t]; isParam {
				if fi.assigned[t] {
					return false
				}
				continue
			}
			if f, ok := fieldOfTerm[t]; ok && !mayWrite(fn, f, map[*types.Func]bool{}) {
				continue
			}
			return false
		}
		for _, c := range callsTo[fn] {
			g2 := lexpr{T: map[string]int{}, K: g.K}
			for t, cf := range g.T {
				if i, isParam := fi.params[t]; isParam {
					if i >= len(c.args) || !c.argOK[i] {
						return false
					}
					for n := 0; n < cf; n++ {
						g2 = g2.plus(c.args[i], 1)
					}
					for n := 0; n > cf; n-- {
						g2 = g2.plus(c.args[i], -1)
					}
				} else {
					g2 = g2.plus(lexpr{T: map[string]int{t: cf}}, 1)
				}
			}
			facts := append([]fact{}, c.facts...)
			for t := range g2.T {
				if strings.HasPrefix(t, "len(") {
					facts = append(facts, fact{E: lexpr{T: map[string]int{t: 1}}})
				}
			}
			if entails(g2, facts) {
				continue
			}
			if c.caller != nil && viaCallers(c.caller, g2, depth+1) {
				continue
			}
			return false
		}
		return true
	}
	for _, s := range sites {
		pr := &prover{info: info, alias: map[string]string{}}
		var goals []lexpr
		var descr []string
		bufLen := func(e ast.Expr) lexpr { n, _ := isBuf(e); return lexpr{T: map[string]int{"len(" + n + ")": 1}} }
		switch x := s.node.(type) {
		case *ast.IndexExpr:
			i, ok := pr.lin(x.Index)
			if !ok {
				out[s.fn+"/"+s.expr] = &verdict{false, "index is not a linear expression", 1, s.pos}
				continue
			}
			if s.liveRead {
				goals = append(goals, lexpr{T: map[string]int{topAtEntry: 1}, K: -1}.plus(i, -1))
				descr = append(descr, "slot below the top of the stack on entry")
				break
			}
			if s.local != nil {
				// element i of base[lo:hi] is base[lo+i] and must lie below hi
				goals = append(goals, i, s.local.hi.plus(s.local.lo, -1).plus(i, -1).plus(lexpr{T: map[string]int{}, K: 1}, -1))
				descr = append(descr, "index >= 0", "index < len of the sub-slice")
				break
			}
			// aliases were resolved while walking: re-resolve here through the site's own expression text
			goals = append(goals, i, bufLen(x.X).plus(i, -1).plus(lexpr{T: map[string]int{}, K: 1}, -1))
			descr = append(descr, "index >= 0", "index < len")
		case *ast.SliceExpr:
			lo := lexpr{T: map[string]int{}}
			hi := bufLen(x.X)
			ok1, ok2 := true, true
			if x.Low != nil {
				lo, ok1 = pr.lin(x.Low)
			}
			if x.High != nil {
				hi, ok2 = pr.lin(x.High)
			}
			if !ok1 || !ok2 {
				out[s.fn+"/"+s.expr] = &verdict{false, "slice bounds are not linear expressions", 1, s.pos}
				continue
			}
			goals = append(goals, lo, hi.plus(lo, -1), bufLen(x.X).plus(hi, -1))
			descr = append(descr, "low >= 0", "low <= high", "high <= len")
		}
		okAll := true
		var failed []string
		// every length is non-negative
		sf := append([]fact{}, s.facts...)
		lens := map[string]bool{}
		for _, g := range goals {
			for t := range g.T {
				lens[t] = strings.HasPrefix(t, "len(")
			}
		}
		for _, f := range s.facts {
			for t := range f.E.T {
				lens[t] = strings.HasPrefix(t, "len(")
			}
		}
		for t, isLen := range lens {
			if isLen {
				sf = append(sf, fact{E: lexpr{T: map[string]int{t: 1}}})
			}
		}
		s.facts = sf
		for gi, g := range goals {
			// p (alias of lex.p) inside predicates
			g2 := g.clone()
			if c, ok := g2.T["p"]; ok && !hasTerm(s.facts, "p") {
				delete(g2.T, "p")
				g2.T["lex.p"] += c
			}
			proved := entails(g2, s.facts) || (s.local == nil && s.fnObj != nil && viaCallers(s.fnObj, g2, 0))
			if !proved {
				// e != 0 is known here (the other side of `x == len(…) ||`): then e >= 0, which the callers may
				// establish, gives e >= 1, i.e. the goal e - 1 >= 0
				weaker := g2.clone()
				weaker.K++
				neg := lexpr{T: map[string]int{}, K: -weaker.K}
				for t, c := range weaker.T {
					neg.T[t] = -c
				}
				same := func(a, b lexpr) bool {
					if a.K != b.K || len(a.T) != len(b.T) {
						return false
					}
					for t, c := range a.T {
						if b.T[t] != c {
							return false
						}
					}
					return true
				}
				for _, f := range s.facts {
					if f.Ne && (same(f.E, weaker) || same(f.E, neg)) {
						if entails(weaker, s.facts) || (s.local == nil && s.fnObj != nil && viaCallers(s.fnObj, weaker, 0)) {
							proved = true
						}
						break
					}
				}
			}
			if !proved {
				okAll = false
				failed = append(failed, descr[gi]+" ("+g2.String()+" >= 0)")
			}
		}
		key := s.fn + "/" + s.expr
		if s.liveRead {
			key = "stack-live/" + key
		}
		if !okAll && os.Getenv("VERIF_DUMP") != "" {
			for _, f := range s.facts {
				fmt.Printf("    fact[%s %s] %s >= 0 (ne=%v)\n", s.fn, s.expr, f.E, f.Ne)
			}
		}
		if !okAll {
			var short []string
			for _, f := range failed {
				short = append(short, strings.SplitN(f, " (", 2)[0])
			}
			key += " !" + strings.Join(short, ",")
		}
		v := out[key]
		if v == nil {
			v = &verdict{ok: okAll, pos: s.pos}
			out[key] = v
		}
		v.count++
		if !okAll {
			v.why = "not implied by the conditions that dominate it: " + strings.Join(failed, ", ")
		}
	}
	tbState := 0
	tokenBoundsOK := func() bool {
		if tbState == 0 {
			tbState = 1
			for _, ob := range a.TokenBounds().Obls {
				if ob.Status != report.Discharged {
					tbState = 2
				}
			}
		}
		return tbState == 1
	}
	// ffWindow: the site cuts lex.data[a:b] with a and b two parameters its function does not assign, and every
	// call of that function either is an action of Lex (whose free-floating bounds ff-span and token-bounds decide)
	// or hands its own unassigned parameters on in the same roles - however the recording helper is split or its
	// parameters are called
	byName := map[string]*types.Func{}
	for fn := range finfo {
		byName[fn.Name()] = fn
	}
	var ffLike func(fn *types.Func, lo, hi string, depth int) bool
	ffLike = func(fn *types.Func, lo, hi string, depth int) bool {
		fi := finfo[fn]
		if fi == nil || depth > 3 {
			return false
		}
		li, ok1 := fi.params[lo]
		hi2, ok2 := fi.params[hi]
		if !ok1 || !ok2 || fi.assigned[lo] || fi.assigned[hi] || len(callsTo[fn]) == 0 {
			return false
		}
		for _, c := range callsTo[fn] {
			if c.caller == nil || c.caller.Name() == "Lex" {
				continue // an action of the automaton
			}
			if li >= len(c.args) || hi2 >= len(c.args) || !c.argOK[li] || !c.argOK[hi2] {
				return false
			}
			one := func(e lexpr) (string, bool) {
				if e.K != 0 || len(e.T) != 1 {
					return "", false
				}
				for t, cf := range e.T {
					if cf == 1 {
						return t, true
					}
				}
				return "", false
			}
			a, okA := one(c.args[li])
			b, okB := one(c.args[hi2])
			if !okA || !okB || !ffLike(c.caller, a, b, depth+1) {
				return false
			}
		}
		return true
	}
	ffWindow := func(k string) bool {
		parts := strings.SplitN(k, "/", 2)
		if len(parts) != 2 {
			return false
		}
		expr := strings.SplitN(parts[1], " !", 2)[0]
		if !strings.HasPrefix(expr, "lex.data[") || !strings.HasSuffix(expr, "]") {
			return false
		}
		b := strings.SplitN(expr[len("lex.data["):len(expr)-1], ":", 2)
		fn := byName[parts[0]]
		if len(b) != 2 || fn == nil {
			return false
		}
		return ffLike(fn, strings.TrimSpace(b[0]), strings.TrimSpace(b[1]), 0)
	}
	var mproved map[string]bool
	markProved := func() map[string]bool {
		if mproved == nil {
			_, mproved = a.MarkFlow()
		}
		return mproved
	}
	var keys []string
	for k := range out {
		keys = append(keys, k)
	}
	sort.Strings(keys)
	for _, k := range keys {
		v := out[k]
		res.Count("sites", v.count)
		fn := strings.SplitN(k, "/", 2)[0]
		if v.ok {
			res.OK(k, m.Prog.Pos(v.pos), fn, fmt.Sprintf("%d site(s): bounds follow from the dominating conditions and the scanner invariants", v.count))
		} else if expr := strings.SplitN(strings.TrimPrefix(k, "Lex/"), " !", 2)[0]; strings.HasPrefix(k, "Lex/") && markProved()[expr] {
			res.OK(k, m.Prog.Pos(v.pos), fn, "the bounds rest on cursor positions kept in locals of Lex: proved by mark-flow (recorded on every path since the token began, in order, inside the token; a recorded cursor is < len)")
			res.Count("by-mark-flow", 1)
		} else if ffWindow(k) && tokenBoundsOK() {
			res.OK(k, m.Prog.Pos(v.pos), fn, "every call is an action of Lex that passes the token bounds at that moment (ff-span), and token-bounds shows 0 <= start <= end for each of them; te never exceeds len (token-bounds/writes)")
			res.Count("by-token-bounds", 1)
		} else if why, ok := idxReviewed[k]; ok {
			res.OK(k, m.Prog.Pos(v.pos), fn, "reviewed: "+why)
			res.Count("reviewed-exceptions", 1)
		} else if strings.HasPrefix(k, "stack-live/") {
			res.Bad(k, m.Prog.Pos(v.pos), fn, fmt.Sprintf("%s reads a slot of the scanner's call stack that no pending call wrote (at or above the top of the stack when the function was entered): the state it restores is a stale one left by an earlier, already finished call - after an unmatched closing brace the scanner would continue in the wrong machine; %s", strings.SplitN(strings.TrimPrefix(k, "stack-live/"), " !", 2)[0], v.why))
		} else {
			res.Bad(k, m.Prog.Pos(v.pos), fn, fmt.Sprintf("%s (%d site(s)) can be out of range: %s", strings.SplitN(strings.SplitN(k, "/", 2)[1], " !", 2)[0], v.count, v.why))
		}
	}
	return res
}

func hasTerm(fs []fact, t string) bool {
	for _, f := range fs {
		if _, ok := f.E.T[t]; ok {
			return true
		}
	}
	return false
}

// idxReviewed: accesses whose safety rests on an invariant the prover does not derive, each confirmed by reading.
var idxReviewed = map[string]string{
	"Lex/lex.stack[lex.top] !index >= 0":                               "inlined fret of the string_var machines, which are entered only through fcall (a push), so top >= 1 before the decrement",
}

// NewlineSymmetry: in the scanner's hand-written code a byte that is compared
// with one line terminator is compared with the other one in the same way in
// the same function, unless the comparison is the CR LF pair idiom (x is CR and
// its neighbour is / is not LF). A helper that tests only '\n' (or only '\r')
// treats the two line endings differently.
func (a *Analysis) NewlineSymmetry() *report.RuleResult {
	res := report.NewResult("newline-symmetry")
	m := a.M
	info := m.info()
	for _, fd := range load.FuncDecls(m.Pkg) {
		fname := fd.Name.Name
		type cmp struct {
			expr   string
			eq     bool
			c      byte
			pos    token.Pos
			anchor ast.Node          // the whole condition (or case clause) the comparison is part of
			ctx    map[ast.Node]bool // anchor, plus the conditions of the enclosing ifs (then side) and the enclosing case clauses
		}
		var cmps []cmp
		// parents, to place every comparison in its condition and under the conditions that guard it
		parent := map[ast.Node]ast.Node{}
		{
			var stack []ast.Node
			ast.Inspect(fd.Body, func(n ast.Node) bool {
				if n == nil {
					stack = stack[:len(stack)-1]
					return true
				}
				if len(stack) > 0 {
					parent[n] = stack[len(stack)-1]
				}
				stack = append(stack, n)
				return true
			})
		}
		place := func(n ast.Node) (ast.Node, map[ast.Node]bool) {
			// anchor: the outermost expression that contains n; for a case label the clause
			var anchor ast.Node = n
			cur := n
			for {
				p := parent[cur]
				if _, isExpr := p.(ast.Expr); !isExpr {
					if cc, ok := p.(*ast.CaseClause); ok {
						for _, e := range cc.List {
							if e == cur {
								anchor = cc
							}
						}
					}
					break
				}
				cur = p
				anchor = p
			}
			ctx := map[ast.Node]bool{anchor: true}
			child := ast.Node(n)
			for q := parent[n]; q != nil; child, q = q, parent[q] {
				switch x := q.(type) {
				case *ast.IfStmt:
					if child == ast.Node(x.Body) {
						ctx[x.Cond] = true
					}
				case *ast.CaseClause:
					inList := false
					for _, e := range x.List {
						if ast.Node(e) == child {
							inList = true
						}
					}
					if !inList {
						ctx[x] = true
					}
				}
			}
			return anchor, ctx
		}
		// locals that name one byte of the input: c := lex.data[p-1]
		byteLocal := map[types.Object]ast.Expr{}
		assignedTwice := map[types.Object]bool{}
		ast.Inspect(fd.Body, func(n ast.Node) bool {
			as, ok := n.(*ast.AssignStmt)
			if !ok || len(as.Lhs) != len(as.Rhs) {
				return true
			}
			for i, l := range as.Lhs {
				id, ok := l.(*ast.Ident)
				if !ok {
					continue
				}
				o := info.Defs[id]
				if o == nil {
					o = info.Uses[id]
				}
				if o == nil {
					continue
				}
				if _, seen := byteLocal[o]; seen || as.Tok != token.DEFINE {
					assignedTwice[o] = true
					continue
				}
				if ix, isIdx := unparen(as.Rhs[i]).(*ast.IndexExpr); isIdx {
					byteLocal[o] = ix
				}
			}
			return true
		})
		resolve := func(x ast.Expr) (string, bool) {
			x = unparen(x)
			if id, ok := x.(*ast.Ident); ok {
				if d, ok := byteLocal[info.Uses[id]]; ok && !assignedTwice[info.Uses[id]] {
					x = d
				}
			}
			if _, isIdx := x.(*ast.IndexExpr); !isIdx {
				return "", false
			}
			return strings.ReplaceAll(types.ExprString(x), "(lex.p)", "lex.p"), true
		}
		nlConst := func(y ast.Expr) (byte, bool) {
			tv := info.Types[y]
			if tv.Value == nil {
				return 0, false
			}
			v, ok := constant.Int64Val(constant.ToInt(tv.Value))
			if !ok || (v != 10 && v != 13) {
				return 0, false
			}
			return byte(v), true
		}
		ast.Inspect(fd.Body, func(n ast.Node) bool {
			switch be := n.(type) {
			case *ast.BinaryExpr:
				if be.Op != token.EQL && be.Op != token.NEQ {
					return true
				}
				side := func(x, y ast.Expr) {
					v, ok := nlConst(y)
					if !ok {
						return
					}
					if e, ok := resolve(x); ok {
						an, ctx := place(be)
						cmps = append(cmps, cmp{e, be.Op == token.EQL, v, be.Pos(), an, ctx})
					}
				}
				side(be.X, be.Y)
				side(be.Y, be.X)
			case *ast.SwitchStmt:
				// switch b { case '\n', '\r': … }: the switch form of the same comparisons
				if be.Tag == nil {
					return true
				}
				e, ok := resolve(be.Tag)
				if !ok {
					return true
				}
				for _, c := range be.Body.List {
					for _, ce := range c.(*ast.CaseClause).List {
						if v, ok := nlConst(ce); ok {
							an, ctx := place(ce)
							cmps = append(cmps, cmp{e, true, v, ce.Pos(), an, ctx})
						}
					}
				}
			}
			return true
		})
		if len(cmps) == 0 {
			continue
		}
		res.Count("functions", 1)
		type key struct {
			expr string
			c    byte
		}
		have := map[key]bool{}
		for _, c := range cmps {
			have[key{c.expr, c.c}] = true
		}
		neighbour := func(e string, d int) []string {
			// data[X] -> data[X+1] / data[X-1], textually for the index forms the scanner uses
			i := strings.LastIndex(e, "]")
			if i < 0 {
				return nil
			}
			open := strings.Index(e, "[")
			idx := e[open+1 : i]
			var out []string
			if d > 0 {
				out = append(out, e[:open+1]+idx+" + 1"+e[i:], e[:open+1]+idx+"+1"+e[i:])
				if strings.HasSuffix(idx, " - 1") {
					out = append(out, e[:open+1]+strings.TrimSuffix(idx, " - 1")+e[i:])
				}
			} else {
				out = append(out, e[:open+1]+idx+" - 1"+e[i:], e[:open+1]+idx+"-1"+e[i:])
				if strings.HasSuffix(idx, " + 1") {
					out = append(out, e[:open+1]+strings.TrimSuffix(idx, " + 1")+e[i:])
				}
			}
			return out
		}
		bad := map[string]token.Pos{}
		for _, c := range cmps {
			other := byte(23 - c.c) // 10 <-> 13
			if have[key{c.expr, other}] {
				continue
			}
			// CR LF pair idiom: this byte is tested for LF and its left neighbour for CR, or for CR and its right
			// neighbour for LF — in the same condition, or one test guarding the other (nested ifs, case clauses)
			together := func(d cmp) bool { return c.ctx[d.anchor] || d.ctx[c.anchor] }
			pair := false
			if c.c == 10 {
				// … and the byte before it *is* a CR
				for _, nb := range neighbour(c.expr, -1) {
					for _, d := range cmps {
						if d.expr == nb && d.c == 13 && d.eq && together(d) {
							pair = true
						}
					}
				}
			} else if c.eq {
				// this byte *is* a CR and the next one is tested for LF
				for _, nb := range neighbour(c.expr, +1) {
					for _, d := range cmps {
						if d.expr == nb && d.c == 10 && together(d) {
							pair = true
						}
					}
				}
			}
			if !pair {
				bad[c.expr] = c.pos
			}
		}
		if len(bad) == 0 {
			res.OK(fname, m.Prog.Pos(fd.Pos()), fname, fmt.Sprintf("%d comparisons with line terminators: LF and CR are treated alike (or as a CR LF pair)", len(cmps)))
			continue
		}
		var ks []string
		for e := range bad {
			ks = append(ks, e)
		}
		sort.Strings(ks)
		for _, e := range ks {
			res.Bad(fname+"/"+e, m.Prog.Pos(bad[e]), fname, e+" is compared with one line terminator but not with the other: LF and CR endings take different paths here")
		}
	}
	return res
}
