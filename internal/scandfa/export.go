package scandfa

import (
	"go/ast"
	"go/types"
)

// The linear prover is shared with rule idx-safe (internal/small).

type LExpr = lexpr
type Fact = fact
type Prover = prover

func NewProver(info *types.Info) *Prover { return &prover{info: info, alias: map[string]string{}} }

func (pr *prover) Lin(e ast.Expr) (LExpr, bool)             { return pr.lin(e) }
func (pr *prover) FactsOf(cond ast.Expr, truth bool) []Fact { return pr.factsOf(cond, truth) }
func (pr *prover) Term(e ast.Expr) string                   { return pr.term(e) }

func Entails(goal LExpr, facts []Fact) bool { return entails(goal, facts) }

func Const(k int) LExpr                { return lexpr{T: map[string]int{}, K: k} }
func TermExpr(t string) LExpr          { return lexpr{T: map[string]int{t: 1}} }
func (a lexpr) Plus(b lexpr) lexpr     { return a.plus(b, 1) }
func (a lexpr) Minus(b lexpr) lexpr    { return a.plus(b, -1) }
func (a lexpr) Mentions(t string) bool { _, ok := a.T[t]; return ok }
