package scandfa

import (
	"go/ast"
	"go/token"
	"go/types"

	"verif/internal/load"
	"verif/internal/report"
)

// stackInvariant discharges what idx-guard assumes about the scanner's call
// stack instead of trusting it:
//
//	I1  0 <= top <= len(stack) is inductive: every write of the two fields in
//	    the package keeps it (top++ only right after a store at stack[top], which
//	    is itself an idx-guard site; top only decreases otherwise or is reset to
//	    0; stack only grows by append, or is created where top is still zero);
//	I2  growCallStack establishes top < len(stack) on every path, given I1
//	    (paths of its body evaluated by the linear prover).
//
// It returns whether I2 holds (the caller adds the post-condition as a fact
// after each call only then).
func (a *Analysis) stackInvariant(res *report.RuleResult) (growOK bool) {
	m := a.M
	info := m.info()
	var lexer *types.Struct
	if o := m.Pkg.Types.Scope().Lookup("Lexer"); o != nil {
		lexer, _ = o.Type().Underlying().(*types.Struct)
	}
	if lexer == nil {
		res.Unknown("stack-invariant/Lexer", "-", "", "undecided:anchor: type Lexer not found")
		return false
	}
	var topF, stackF *types.Var
	var find func(st *types.Struct, depth int)
	find = func(st *types.Struct, depth int) {
		for i := 0; i < st.NumFields(); i++ {
			f := st.Field(i)
			switch f.Name() {
			case "top":
				topF = f
			case "stack":
				stackF = f
			}
			if f.Embedded() && depth < 3 { // the scanner's registers grouped in an embedded struct
				t := f.Type()
				if p, ok := t.Underlying().(*types.Pointer); ok {
					t = p.Elem()
				}
				if inner, ok := t.Underlying().(*types.Struct); ok {
					find(inner, depth+1)
				}
			}
		}
	}
	find(lexer, 0)
	if topF == nil || stackF == nil {
		res.Unknown("stack-invariant/fields", "-", "", "undecided:anchor: fields top/stack of Lexer not found")
		return false
	}
	fieldOf := func(e ast.Expr) *types.Var {
		if se, ok := unparen(e).(*ast.SelectorExpr); ok {
			if sel := info.Selections[se]; sel != nil {
				if v, ok := sel.Obj().(*types.Var); ok && (v == topF || v == stackF) {
					return v
				}
			}
		}
		return nil
	}
	isStackAtTop := func(e ast.Expr) bool {
		ix, ok := unparen(e).(*ast.IndexExpr)
		return ok && fieldOf(ix.X) == stackF && fieldOf(ix.Index) == topF
	}
	writes := 0
	var grow *ast.FuncDecl
	// functions reachable from Lex (they run while tokens are produced)
	perToken := map[*ast.FuncDecl]bool{}
	{
		decls := map[*types.Func]*ast.FuncDecl{}
		for _, fd := range load.FuncDecls(m.Pkg) {
			if o, ok := info.Defs[fd.Name].(*types.Func); ok {
				decls[o] = fd
			}
		}
		var visit func(fd *ast.FuncDecl)
		visit = func(fd *ast.FuncDecl) {
			if fd == nil || perToken[fd] {
				return
			}
			perToken[fd] = true
			ast.Inspect(fd.Body, func(n ast.Node) bool {
				if c, ok := n.(*ast.CallExpr); ok {
					switch f := unparen(c.Fun).(type) {
					case *ast.SelectorExpr:
						if o, ok := info.Uses[f.Sel].(*types.Func); ok {
							visit(decls[o])
						}
					case *ast.Ident:
						if o, ok := info.Uses[f].(*types.Func); ok {
							visit(decls[o])
						}
					}
				}
				return true
			})
		}
		visit(m.Lex)
	}
	for _, fd := range load.FuncDecls(m.Pkg) {
		fname := fd.Name.Name
		if fname == "growCallStack" && fd.Recv != nil {
			grow = fd
		}
		bad := func(n ast.Node, what string) {
			res.Bad("stack-invariant/"+fname+"/"+what, m.Pos(n), fname, fname+": "+what+" is not one of the forms that keep 0 <= top <= len(stack) (top++ right after stack[top] = x; top--, top = top - n, top = 0; stack = append(stack, …); stack created in a constructor)")
		}
		var blocks func(list []ast.Stmt)
		visit := func(st ast.Stmt, prev ast.Stmt) {
			switch x := st.(type) {
			case *ast.IncDecStmt:
				switch fieldOf(x.X) {
				case topF:
					writes++
					if x.Tok == token.INC {
						ok := false
						if as, isAs := prev.(*ast.AssignStmt); isAs && len(as.Lhs) == 1 && isStackAtTop(as.Lhs[0]) {
							ok = true
						}
						if !ok {
							bad(x, "top++ not preceded by a store to stack[top]")
						}
					}
				case stackF:
					bad(x, "inc/dec of stack")
				}
			case *ast.AssignStmt:
				for i, l := range x.Lhs {
					switch fieldOf(l) {
					case topF:
						writes++
						ok := false
						if len(x.Lhs) == len(x.Rhs) {
							r := unparen(x.Rhs[i])
							if tv := info.Types[r]; tv.Value != nil && tv.Value.String() == "0" && x.Tok == token.ASSIGN {
								ok = true
							}
							if be, isBin := r.(*ast.BinaryExpr); isBin && be.Op == token.SUB && fieldOf(be.X) == topF && x.Tok == token.ASSIGN {
								ok = true // decreases (non-negativity is the index site that follows)
							}
						}
						if x.Tok == token.SUB_ASSIGN {
							ok = true
						}
						if !ok {
							bad(x, "assignment to top ("+types.ExprString(x.Rhs[len(x.Rhs)-1])+")")
						}
					case stackF:
						writes++
						ok := false
						if len(x.Lhs) == len(x.Rhs) && x.Tok == token.ASSIGN {
							if c, isCall := unparen(x.Rhs[i]).(*ast.CallExpr); isCall {
								if id, isId := c.Fun.(*ast.Ident); isId && id.Name == "append" && len(c.Args) >= 1 && fieldOf(c.Args[0]) == stackF && !c.Ellipsis.IsValid() {
									ok = true
								}
							}
						}
						if !ok && len(x.Lhs) == len(x.Rhs) && x.Tok == token.ASSIGN && !perToken[fd] {
							// a fresh make in code that runs before scanning starts (the constructor and what only it
							// calls): top is still zero there
							if c, isCall := unparen(x.Rhs[i]).(*ast.CallExpr); isCall {
								if id, isId := c.Fun.(*ast.Ident); isId && id.Name == "make" {
									ok = true
								}
							}
						}
						if !ok {
							bad(x, "assignment to stack ("+types.ExprString(x.Rhs[len(x.Rhs)-1])+")")
						}
					}
				}
			}
		}
		blocks = func(list []ast.Stmt) {
			var prev ast.Stmt
			for _, st := range list {
				visit(st, prev)
				prev = st
				switch x := st.(type) {
				case *ast.BlockStmt:
					blocks(x.List)
				case *ast.LabeledStmt:
					blocks([]ast.Stmt{x.Stmt})
				case *ast.IfStmt:
					blocks(x.Body.List)
					if x.Else != nil {
						blocks([]ast.Stmt{x.Else})
					}
				case *ast.ForStmt:
					blocks(x.Body.List)
				case *ast.RangeStmt:
					blocks(x.Body.List)
				case *ast.SwitchStmt:
					for _, c := range x.Body.List {
						blocks(c.(*ast.CaseClause).Body)
					}
				case *ast.TypeSwitchStmt:
					for _, c := range x.Body.List {
						blocks(c.(*ast.CaseClause).Body)
					}
				}
			}
		}
		blocks(fd.Body.List)
		// composite literals of the scanner type: top absent or 0 (the stack may then have any length)
		ast.Inspect(fd.Body, func(n ast.Node) bool {
			switch x := n.(type) {
			case *ast.CompositeLit:
				if t := info.Types[x].Type; t != nil && t.Underlying() == lexer {
					for _, el := range x.Elts {
						if kv, ok := el.(*ast.KeyValueExpr); ok {
							if id, ok := kv.Key.(*ast.Ident); ok && id.Name == "top" {
								writes++
								if tv := info.Types[kv.Value]; tv.Value == nil || tv.Value.String() != "0" {
									bad(kv, "initial value of top")
								}
							}
						}
					}
				}
			case *ast.UnaryExpr:
				if x.Op == token.AND && fieldOf(x.X) != nil {
					bad(x, "address of "+types.ExprString(x.X)+" taken")
				}
			case *ast.FuncLit:
				ast.Inspect(x.Body, func(n2 ast.Node) bool {
					switch y := n2.(type) {
					case *ast.AssignStmt:
						for _, l := range y.Lhs {
							if fieldOf(l) != nil {
								bad(y, "write inside a function literal")
							}
						}
					case *ast.IncDecStmt:
						if fieldOf(y.X) != nil {
							bad(y, "write inside a function literal")
						}
					}
					return true
				})
				return false
			}
			return true
		})
	}
	res.Count("stack-writes", writes)
	if len(res.Obls) == 0 || !hasBadPrefix(res, "idx-guard/stack-invariant/") {
		res.OK("stack-invariant/I1", "-", "", "every write of Lexer.top / Lexer.stack keeps 0 <= top <= len(stack)")
	}
	// I2: the post-condition of growCallStack
	if grow == nil {
		return false // nothing to trust; call sites get no extra fact
	}
	pr := &prover{info: info, alias: map[string]string{}}
	recv := ""
	if len(grow.Recv.List) == 1 && len(grow.Recv.List[0].Names) == 1 {
		recv = grow.Recv.List[0].Names[0].Name
	}
	topT, lenT := recv+".top", "len("+recv+".stack)"
	mk := func(terms map[string]int, k int) fact { return fact{E: lexpr{T: terms, K: k}} }
	goal := lexpr{T: map[string]int{lenT: 1, topT: -1}, K: -1}
	okAll, undec := true, ""
	var run func(list []ast.Stmt, facts []fact) (fall [][]fact)
	run = func(list []ast.Stmt, facts []fact) [][]fact {
		cur := [][]fact{facts}
		for _, st := range list {
			var next [][]fact
			for _, fs := range cur {
				switch x := st.(type) {
				case *ast.IfStmt:
					if x.Init != nil {
						undec = "if with an init statement"
					}
					t := append(append([]fact{}, fs...), pr.factsOf(x.Cond, true)...)
					f := append(append([]fact{}, fs...), pr.factsOf(x.Cond, false)...)
					next = append(next, run(x.Body.List, t)...)
					if x.Else != nil {
						next = append(next, run([]ast.Stmt{x.Else}, f)...)
					} else {
						next = append(next, f)
					}
				case *ast.BlockStmt:
					next = append(next, run(x.List, fs)...)
				case *ast.ReturnStmt:
					if !entails(goal, fs) {
						okAll = false
					}
				case *ast.AssignStmt:
					handled := false
					if len(x.Lhs) == 1 && len(x.Rhs) == 1 && fieldOf(x.Lhs[0]) == stackF && x.Tok == token.ASSIGN {
						if c, isCall := unparen(x.Rhs[0]).(*ast.CallExpr); isCall {
							if id, isId := c.Fun.(*ast.Ident); isId && id.Name == "append" && len(c.Args) >= 2 && fieldOf(c.Args[0]) == stackF && !c.Ellipsis.IsValid() {
								k := len(c.Args) - 1
								var nf []fact
								for _, f := range fs {
									g := f.E.clone()
									if cf, has := g.T[lenT]; has {
										g.K -= cf * k // new len = old len + k
									}
									nf = append(nf, fact{E: g, Ne: f.Ne})
								}
								next = append(next, nf)
								handled = true
							}
						}
					}
					if !handled {
						undec = "statement " + types.ExprString(x.Lhs[0]) + " " + x.Tok.String() + " …"
						next = append(next, fs)
					}
				default:
					undec = "statement outside the vocabulary of the path evaluation"
					next = append(next, fs)
				}
			}
			cur = next
		}
		return cur
	}
	start := []fact{mk(map[string]int{lenT: 1, topT: -1}, 0), mk(map[string]int{topT: 1}, 0)}
	for _, fs := range run(grow.Body.List, start) {
		if !entails(goal, fs) {
			okAll = false
		}
	}
	key := "stack-invariant/growCallStack/post"
	switch {
	case undec != "":
		res.Unknown(key, m.Pos(grow), "growCallStack", "undecided:idiom: growCallStack: "+undec)
		return false
	case !okAll:
		res.Bad(key, m.Pos(grow), "growCallStack", "growCallStack: some path returns without top < len(stack) (given 0 <= top <= len(stack) on entry): the store at stack[top] that follows every call can be out of range")
		return false
	}
	res.OK(key, m.Pos(grow), "growCallStack", "every path of growCallStack ends with top < len(stack)")
	return true
}

func hasBadPrefix(res *report.RuleResult, prefix string) bool {
	for _, o := range res.Obls {
		if o.Status != report.Discharged && len(o.Key) >= len(prefix) && o.Key[:len(prefix)] == prefix {
			return true
		}
	}
	return false
}
