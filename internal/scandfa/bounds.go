package scandfa

import (
	"fmt"
	"go/ast"
	"go/token"
	"go/types"
	"strings"

	"verif/internal/load"
	"verif/internal/report"
)

// ---- token-bounds ------------------------------------------------------------------------------------
//
// idx-guard takes 0 <= ts <= te <= len(data) for granted wherever a token's bytes are cut out of the
// input (the tail of Lex, setTokenPosition, the free-floating tokens). This rule discharges it from the
// transition system instead of from a comment:
//
//	ends   at every outcome of every action block that ends a token step, te - ts >= 0, evaluated
//	       over the intervals the (d,e) dataflow has for p - ts and te - ts at the block (refined by the
//	       value of lex.act the path tested and by the suffix a successful ungetStr implies);
//	unget  every amount given back is >= 0 under the same intervals (ungetCnt(te - ts - 5) needs a
//	       match of at least five bytes);
//	writes te is only ever written as p + 1 or p (p < len inside Lex) or moved back by an unget; ts only
//	       as p or 0; nothing else in the package assigns them.

// relDiff evaluates a difference of cursor values (coefficients summing to 0) over the (d,e) intervals.
func (l Lin) relDiff(de DE) Itv {
	if l.P+l.TS+l.TE != 0 {
		return Itv{}
	}
	r := Itv{Def: true, Lo: l.K, Hi: l.K}
	add := func(c int, v Itv) {
		if c == 0 || !r.Def {
			return
		}
		if !v.Def {
			r.Def = false
			return
		}
		lo, hi := c*v.Lo, c*v.Hi
		if v.Hi >= satur {
			hi = c * satur
		}
		if c < 0 {
			lo, hi = hi, lo
		}
		r.Lo += lo
		r.Hi += hi
		if r.Hi > satur {
			r.Hi = satur
		}
		if r.Lo < -satur {
			r.Lo = -satur
		}
	}
	add(l.P, de.D)
	add(l.TE, de.E)
	return r
}

func (a *Analysis) TokenBounds() *report.RuleResult {
	res := report.NewResult("token-bounds")
	m := a.M
	for _, mn := range machineNames(a) {
		used := map[string]int{}
		for _, l := range a.actionBlocks(mn) {
			key := a.blockKey(mn, l, used)
			pos := m.Prog.Pos(m.Blocks[l].Pos)
			de := a.Flows[mn].At[l]
			var bad []string
			undec := false
			nEnds, nUnget, nFF := 0, 0, 0
			for _, o := range a.Outcomes(l) {
				if len(o.Undec) > 0 {
					undec = true
					break
				}
				de2 := de
				for _, c := range o.Conds {
					if strings.HasPrefix(c, "lex.act==") {
						if e, ok := a.actE(mn)[strings.TrimPrefix(c, "lex.act==")]; ok {
							de2.E = e
						}
					}
				}
				for _, e := range o.Events {
					if e.Kind != "unget" {
						continue
					}
					nUnget++
					amt := e.A
					v := amt.relDiff(de2)
					if amt.P+amt.TS+amt.TE == 0 && amt.P == 0 && amt.TS == 0 && amt.TE == 0 {
						v = Itv{Def: true, Lo: amt.K, Hi: amt.K}
					}
					if !v.Def || v.Lo < 0 {
						bad = append(bad, fmt.Sprintf("ungetCnt(%s) can give back a negative number of bytes (the amount lies in %s): the cursor and te move forward past what was matched", e.ID, v))
					}
				}
				for _, e := range o.Events {
					// the bounds handed to addFreeFloatingToken / seen by setTokenPosition inside the block
					var lo, hi Lin
					switch e.Kind {
					case "ff":
						lo, hi = e.A, e.B
					case "setpos":
						lo, hi = e.TS, e.TE
					default:
						continue
					}
					nFF++
					d := hi.sub(lo).relDiff(de2)
					for _, e2 := range o.Events {
						if e2.Kind == "ungetstr" && e2.TE == hi && e2.TS == lo && (!d.Def || d.Lo < 0) {
							d = Itv{Def: true, Lo: 0, Hi: satur}
						}
					}
					if !d.Def || d.Lo < 0 {
						bad = append(bad, fmt.Sprintf("%s sees the bounds [%s, %s) whose length lies in %s: the end can lie before the start", map[string]string{"ff": "addFreeFloatingToken", "setpos": "setTokenPosition"}[e.Kind], lo, hi, d))
					}
				}
				if !a.boundary(o) {
					continue
				}
				nEnds++
				d := o.TE.sub(o.TS).relDiff(de2)
				for _, e := range o.Events {
					// a successful ungetStr(s) found s at the end of data[ts:te]: afterwards te - ts >= 0 whatever the intervals say
					if e.Kind == "ungetstr" && e.TE == o.TE && e.TS == o.TS && (!d.Def || d.Lo < 0) {
						d = Itv{Def: true, Lo: 0, Hi: satur}
					}
				}
				if !d.Def || d.Lo < 0 {
					bad = append(bad, fmt.Sprintf("the token step can end with te < ts (te - ts lies in %s on path [%s]): more bytes are given back than were matched, and data[ts:te] at the end of Lex is out of range", d, strings.Join(o.Conds, " && ")))
				}
			}
			if undec || (nEnds == 0 && nUnget == 0 && nFF == 0) {
				continue
			}
			res.Count("blocks", 1)
			if len(bad) == 0 {
				res.OK(key, pos, l, "te - ts >= 0 at every end of the token step; amounts given back are >= 0")
			} else {
				res.Bad(key, pos, l, strings.Join(dedupeS(bad), "; "))
			}
		}
	}
	// writes of ts / te anywhere in the package
	info := m.info()
	for _, fd := range load.FuncDecls(m.Pkg) {
		fname := fd.Name.Name
		isLex := fd == m.Lex
		ast.Inspect(fd.Body, func(n ast.Node) bool {
			var lhs, rhs ast.Expr
			tok := token.ASSIGN
			switch x := n.(type) {
			case *ast.AssignStmt:
				if len(x.Lhs) != 1 || len(x.Rhs) != 1 {
					for _, l := range x.Lhs {
						if f := cursorField(info, l); f == "ts" || f == "te" {
							res.Bad("writes/"+fname+"/"+f, m.Pos(x), fname, "lex."+f+" is assigned in a multiple assignment")
						}
					}
					return true
				}
				lhs, rhs, tok = x.Lhs[0], x.Rhs[0], x.Tok
			case *ast.IncDecStmt:
				if f := cursorField(info, x.X); f == "ts" || f == "te" {
					res.Count("writes", 1)
					res.Check(x.Tok == token.DEC && f == "te", "writes/"+fname+"/"+f+x.Tok.String(), m.Pos(x), fname, "te moved back by one", "lex."+f+x.Tok.String()+": the token bounds are only set from the cursor or moved back by an unget")
				}
				return true
			default:
				return true
			}
			f := cursorField(info, lhs)
			if f != "ts" && f != "te" {
				return true
			}
			res.Count("writes", 1)
			key := "writes/" + fname + "/" + f + " " + tok.String() + " " + types.ExprString(rhs)
			start := &Outcome{P: Lin{P: 1}, TS: Lin{TS: 1}, TE: Lin{TE: 1}}
			v, ok := m.lin(rhs, start)
			switch {
			case tok == token.SUB_ASSIGN && f == "te":
				res.OK(key, m.Pos(n), fname, "te moved back (the amount is checked where the helper is called)")
			case tok != token.ASSIGN:
				res.Bad(key, m.Pos(n), fname, "lex."+f+" "+tok.String()+" …: the token bounds are only set from the cursor or moved back by an unget")
			case ok && f == "te" && v.P == 1 && v.TS == 0 && v.TE == 0 && (v.K == 0 || v.K == 1) && isLex:
				res.OK(key, m.Pos(n), fname, "te = p or p + 1, and p < len inside Lex")
			case ok && f == "ts" && ((v.P == 1 && v.TS == 0 && v.TE == 0 && v.K == 0) || (v.P == 0 && v.TS == 0 && v.TE == 0 && v.K == 0)) && isLex:
				res.OK(key, m.Pos(n), fname, "ts = p or 0")
			case f == "te" && !isLex && isSelfMinus(info, rhs, "te"):
				res.OK(key, m.Pos(n), fname, "te moved back (the amount is checked where the helper is called)")
			case !isLex && ok && v == (Lin{}) :
				res.OK(key, m.Pos(n), fname, "reset to 0 outside Lex (constructor)")
			default:
				res.Bad(key, m.Pos(n), fname, fmt.Sprintf("lex.%s is assigned %s: the token bounds are only set from the cursor (te = p or p+1, ts = p or 0 inside Lex) or moved back by an unget; anything else is outside what 0 <= ts <= te <= len rests on", f, types.ExprString(rhs)))
			}
			return true
		})
	}
	return res
}

func cursorField(info *types.Info, e ast.Expr) string {
	se, ok := unparen(e).(*ast.SelectorExpr)
	if !ok {
		return ""
	}
	if sel := info.Selections[se]; sel != nil && sel.Kind() == types.FieldVal {
		if n, ok := derefNamed(sel.Recv()); ok && n == "Lexer" {
			return se.Sel.Name
		}
		// promoted through an embedded struct
		if id, ok := unparen(se.X).(*ast.Ident); ok && id.Name == "lex" {
			return se.Sel.Name
		}
	}
	return ""
}

func derefNamed(t types.Type) (string, bool) {
	if p, ok := t.(*types.Pointer); ok {
		t = p.Elem()
	}
	if n, ok := t.(*types.Named); ok {
		return n.Obj().Name(), true
	}
	return "", false
}

// isSelfMinus: rhs is lex.<field> - e.
func isSelfMinus(info *types.Info, rhs ast.Expr, field string) bool {
	be, ok := unparen(rhs).(*ast.BinaryExpr)
	return ok && be.Op == token.SUB && cursorField(info, be.X) == field
}

