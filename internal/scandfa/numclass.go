package scandfa

import (
	"fmt"
	"go/ast"
	"go/constant"
	"go/token"
	"go/types"
	"sort"
	"strings"

	"verif/internal/report"
)

// NumClassify: an integer-shaped literal is T_LNUMBER exactly when it fits PHP's integer, and a float
// otherwise. The scanner decides this with strconv.ParseInt on the literal's digits; the rule requires,
// on every path of every action (helpers that compute the token id interpreted in place), that
// T_LNUMBER is produced only after the error result of a ParseInt/ParseUint call with bit size 0 or 64
// was found nil. A path that returns T_LNUMBER without that test classifies by something else (length,
// first digit) and is wrong for the literals between the two criteria.
func (a *Analysis) NumClassify() *report.RuleResult {
	res := report.NewResult("num-classify")
	m := a.M
	info := m.info()
	// error variables defined from an integer-parsing call
	type def struct {
		call *ast.CallExpr
		bits string
	}
	errDefs := map[types.Object]def{}
	for _, f := range m.Pkg.Syntax {
		ast.Inspect(f, func(n ast.Node) bool {
			as, ok := n.(*ast.AssignStmt)
			if !ok || len(as.Rhs) != 1 || len(as.Lhs) != 2 {
				return true
			}
			call, ok := unparen(as.Rhs[0]).(*ast.CallExpr)
			if !ok {
				return true
			}
			se, ok := call.Fun.(*ast.SelectorExpr)
			if !ok {
				return true
			}
			fn, _ := info.Uses[se.Sel].(*types.Func)
			if fn == nil || fn.Pkg() == nil || fn.Pkg().Path() != "strconv" || (fn.Name() != "ParseInt" && fn.Name() != "ParseUint") || len(call.Args) != 3 {
				return true
			}
			id, ok := as.Lhs[1].(*ast.Ident)
			if !ok {
				return true
			}
			o := info.ObjectOf(id)
			if o == nil {
				return true
			}
			bits := "?"
			if tv := info.Types[call.Args[2]]; tv.Value != nil {
				if v, ok := constant.Int64Val(constant.ToInt(tv.Value)); ok {
					bits = fmt.Sprint(v)
				}
			}
			errDefs[o] = def{call, fn.Name() + "/" + bits}
			return true
		})
	}
	// does the path establish err == nil for such a variable?
	established := func(o *Outcome) (string, bool) {
		var test func(e ast.Expr, neg bool) (string, bool)
		test = func(e ast.Expr, neg bool) (string, bool) {
			e = unparen(e)
			switch x := e.(type) {
			case *ast.CallExpr:
				// the test moved into a helper of the package: func (lex *Lexer) isInt(…) bool { _, err := strconv.ParseInt(…); return err == nil }
				if !neg {
					if fd := m.anyDecl(x); fd != nil && fd.Body != nil {
						bits, returnsErrNil := "", false
						ast.Inspect(fd.Body, func(n ast.Node) bool {
							switch y := n.(type) {
							case *ast.AssignStmt:
								if len(y.Lhs) == 2 && len(y.Rhs) == 1 {
									if id, ok := y.Lhs[1].(*ast.Ident); ok {
										if d, ok := errDefs[info.ObjectOf(id)]; ok {
											bits = d.bits
										}
									}
								}
							case *ast.ReturnStmt:
								if len(y.Results) == 1 {
									if be, ok := unparen(y.Results[0]).(*ast.BinaryExpr); ok && be.Op == token.EQL {
										if id, ok := unparen(be.X).(*ast.Ident); ok && info.Types[be.Y].IsNil() {
											if _, ok := errDefs[info.ObjectOf(id)]; ok {
												returnsErrNil = true
											}
										}
									}
								}
							}
							return true
						})
						if returnsErrNil && bits != "" {
							return bits, true
						}
					}
				}
			case *ast.UnaryExpr:
				if x.Op == token.NOT {
					return test(x.X, !neg)
				}
			case *ast.BinaryExpr:
				switch x.Op {
				case token.LAND:
					if !neg { // a && b holds: both hold
						if d, ok := test(x.X, false); ok {
							return d, true
						}
						return test(x.Y, false)
					}
				case token.LOR:
					if neg { // !(a || b): neither holds
						if d, ok := test(x.X, true); ok {
							return d, true
						}
						return test(x.Y, true)
					}
				case token.EQL, token.NEQ:
					var id *ast.Ident
					if tv := info.Types[x.Y]; tv.IsNil() {
						id, _ = unparen(x.X).(*ast.Ident)
					} else if tv := info.Types[x.X]; tv.IsNil() {
						id, _ = unparen(x.Y).(*ast.Ident)
					}
					if id == nil {
						return "", false
					}
					d, ok := errDefs[info.ObjectOf(id)]
					if !ok {
						return "", false
					}
					// err == nil taken, or err != nil not taken
					if (x.Op == token.EQL) != neg {
						return d.bits, true
					}
				}
			}
			return "", false
		}
		for _, c := range o.CondX {
			if d, ok := test(c.X, c.Neg); ok {
				return d, true
			}
		}
		return "", false
	}
	type site struct {
		pos  string
		bad  []string
		good int
	}
	sites := map[string]*site{}
	for _, mn := range machineNames(a) {
		for _, l := range a.actionBlocks(mn) {
			for _, o := range a.Outcomes(l) {
				if len(o.Undec) > 0 {
					continue // reported by pos-pairing
				}
				if !strings.HasSuffix(o.Tok(), "T_LNUMBER") {
					continue
				}
				var at token.Pos
				for _, e := range o.Events {
					if e.Kind == "tok" {
						at = e.At
					}
				}
				key := mn + "/" + l
				st := sites[key]
				if st == nil {
					st = &site{pos: m.Prog.Pos(at)}
					sites[key] = st
				}
				bits, ok := established(o)
				switch {
				case !ok:
					st.bad = append(st.bad, fmt.Sprintf("the path [%s] returns T_LNUMBER without having found the error of an integer parse nil", strings.Join(o.Conds, " && ")))
				case bits != "ParseInt/0" && bits != "ParseInt/64":
					st.bad = append(st.bad, fmt.Sprintf("the path [%s] classifies with %s: PHP's integer is the platform's signed 64-bit int (ParseInt with bit size 0 or 64)", strings.Join(o.Conds, " && "), strings.Replace(bits, "/", " and bit size ", 1)))
				default:
					st.good++
				}
			}
		}
	}
	var ks []string
	for k := range sites {
		ks = append(ks, k)
	}
	sort.Strings(ks)
	used := map[string]int{}
	for _, k := range ks {
		st := sites[k]
		res.Count("lnumber-blocks", 1)
		mn := strings.SplitN(k, "/", 2)[0]
		l := strings.SplitN(k, "/", 2)[1]
		key := a.blockKey(mn, l, used)
		if len(st.bad) == 0 {
			res.OK(key, st.pos, l, fmt.Sprintf("T_LNUMBER only where the integer parse succeeded (%d path(s))", st.good))
		} else {
			res.Bad(key, st.pos, l, strings.Join(dedupeS(st.bad), "; "))
		}
	}
	return res
}
