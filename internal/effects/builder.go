package effects

import (
	"fmt"
	"go/constant"
	"go/token"
	"go/types"
	"sort"
	"strings"

	"golang.org/x/tools/go/ssa"

	"verif/internal/report"
)

// BuilderEnds decides rule builder-ends on go/ssa, independently of how the
// position builder is split into helpers: for every exported combinator
// New…Position of the builder type
//
//   - the result is, on every path, the value of one call of the pool's Get
//     made by this call (a fresh position, never a parameter's own);
//   - what is stored into its StartLine / StartPos comes from the START of the
//     FIRST parameter, and EndLine / EndPos from the END of the LAST one, where
//     the boundary of a token t is t.Position.F, of a node n is
//     n.GetPosition().F (or -1 when absent) and of a list l is that of l[0] /
//     l[len(l)-1] (or -1 when empty); a combinator whose first parameter is an
//     optional list may fall back to the start of the second;
//   - line and offset of one boundary come from the same source.
//
// Values are followed through locals, struct values, phi nodes and calls of
// functions of the same package (evaluated in the context of the call), so a
// refactoring into helpers does not change the verdict; anything the evaluation
// cannot follow is undecided.
func BuilderEnds(w *World, rel string) *report.RuleResult {
	res := report.NewResult("builder-ends")
	var fns []*ssa.Function
	for _, fn := range w.InPkgs(rel) {
		if fn.Signature.Recv() == nil || !token.IsExported(fn.Name()) {
			continue
		}
		if !strings.HasPrefix(fn.Name(), "New") || !strings.HasSuffix(fn.Name(), "Position") {
			continue
		}
		fns = append(fns, fn)
	}
	sort.Slice(fns, func(i, j int) bool { return fns[i].Name() < fns[j].Name() })
	for _, fn := range fns {
		res.Count("combinators", 1)
		key := rel + "/" + fn.Name()
		pos := w.Pos(fn.Pos())
		be := &builderEval{w: w, pkg: fn.Pkg, stores: map[string]map[string]bool{}}
		params := fn.Params[1:] // without the receiver
		if len(params) == 0 {
			res.Unknown(key, pos, fn.Name(), "undecided:idiom: combinator without parameters")
			continue
		}
		env := bEnv{}
		for i, p := range fn.Params {
			if i == 0 {
				env[p] = bThunk{lit: map[string]bool{"$recv": true}}
			} else {
				env[p] = bThunk{lit: map[string]bool{fmt.Sprintf("$%d", i): true}}
			}
		}
		be.collect(fn, env, 0)
		// the result
		rets := map[string]bool{}
		for _, b := range fn.Blocks {
			for _, in := range b.Instrs {
				if r, ok := in.(*ssa.Return); ok && len(r.Results) == 1 {
					for o := range be.eval(r.Results[0], nil, env, 0) {
						rets[o] = true
					}
				}
			}
		}
		var bad []string
		fresh := ""
		var freshes []string // one per path when the combinator delegates to different combinators on different paths
		for o := range rets {
			if strings.HasPrefix(o, "fresh#") {
				freshes = append(freshes, o)
				fresh = o
			} else {
				bad = append(bad, "returns "+o+" instead of a position obtained from the pool by this call (two nodes would share one Position object)")
			}
		}
		if fresh == "" && len(bad) == 0 {
			bad = append(bad, "no returned position found")
		}
		if be.undec != "" {
			res.Unknown(key, pos, fn.Name(), "undecided:idiom: "+be.undec)
			continue
		}
		kind := func(p *ssa.Parameter) string {
			switch t := p.Type().Underlying().(type) {
			case *types.Slice:
				return "list"
			case *types.Pointer:
				_ = t
				return "token"
			case *types.Interface:
				return "node"
			}
			return "?"
		}
		boundary := func(idx int, p *ssa.Parameter, end bool, f string) (main string) {
			pre := map[bool]string{false: "Start", true: "End"}[end]
			base := fmt.Sprintf("$%d", idx)
			switch kind(p) {
			case "token":
				return base + ".Position." + pre + f
			case "node":
				return base + ".GetPosition()." + pre + f
			case "list":
				el := map[bool]string{false: "[0]", true: "[last]"}[end]
				return base + el + ".GetPosition()." + pre + f
			}
			return "?"
		}
		sort.Strings(freshes)
		if len(freshes) == 0 {
			freshes = []string{""}
		}
		for _, fresh := range freshes {
			for _, fld := range []struct {
				name string
				end  bool
				f    string
			}{{"StartLine", false, "Line"}, {"StartPos", false, "Pos"}, {"EndLine", true, "Line"}, {"EndPos", true, "Pos"}} {
				got := be.stores[fresh+"."+fld.name]
				if len(got) == 0 {
					bad = append(bad, fld.name+" of the new position is never assigned")
					continue
				}
				allowed := map[string]bool{"const:-1": true}
				var mains []string
				if fld.end {
					m := boundary(len(params), params[len(params)-1], true, fld.f)
					allowed[m] = true
					mains = append(mains, m)
				} else {
					m := boundary(1, params[0], false, fld.f)
					allowed[m] = true
					mains = append(mains, m)
					if kind(params[0]) == "list" && len(params) > 2 {
						// an optional list in front: the start may be that of the next parameter
						m2 := boundary(2, params[1], false, fld.f)
						allowed[m2] = true
						mains = append(mains, m2)
					}
				}
				var gl []string
				for o := range got {
					gl = append(gl, o)
				}
				sort.Strings(gl)
				hasMain := false
				for _, o := range gl {
					if !allowed[o] {
						bad = append(bad, fmt.Sprintf("%s is assigned %s; the %s boundary is %s", fld.name, o, map[bool]string{false: "start", true: "end"}[fld.end], strings.Join(mains, " or ")))
					}
					for _, m := range mains {
						if o == m {
							hasMain = true
						}
					}
				}
				if !hasMain {
					bad = append(bad, fmt.Sprintf("%s is never taken from %s (only %s)", fld.name, strings.Join(mains, " / "), strings.Join(gl, ", ")))
				}
			}
		}
		if len(bad) == 0 {
			res.OK(key, pos, fn.Name(), "fresh position; start from the first parameter, end from the last, line and offset from the same source")
		} else {
			sort.Strings(bad)
			res.Bad(key, pos, fn.Name(), strings.Join(dedupe(bad), "; "))
		}
	}
	return res
}

func dedupe(ss []string) []string {
	var out []string
	for i, s := range ss {
		if i == 0 || s != ss[i-1] {
			out = append(out, s)
		}
	}
	return out
}

type builderEval struct {
	w      *World
	pkg    *ssa.Package
	stores map[string]map[string]bool // "fresh#k.Field" → origins of the stored values
	undec  string
	nfresh int
	fresh  map[*ssa.Call]string
}

// bThunk: what a parameter stands for — a literal origin (the combinator's own parameters), or the
// caller's argument value in the caller's environment (evaluated lazily, so that components of struct
// arguments are followed too).
type bThunk struct {
	lit map[string]bool
	val ssa.Value
	env bEnv
}

type bEnv = map[*ssa.Parameter]bThunk

const builderDepth = 16

// collect records every store into a field of a fresh position made by fn (and, through calls, by the
// same-package functions it calls) in the context env.
func (be *builderEval) collect(fn *ssa.Function, env bEnv, depth int) {
	if depth > builderDepth {
		be.undec = "helpers nest too deeply"
		return
	}
	for _, b := range fn.Blocks {
		for _, in := range b.Instrs {
			switch x := in.(type) {
			case *ssa.Store:
				fa, ok := x.Addr.(*ssa.FieldAddr)
				if !ok {
					continue
				}
				for base := range be.eval(fa.X, nil, env, depth) {
					if !strings.HasPrefix(base, "fresh#") {
						continue
					}
					k := base + "." + fieldName(fa.X.Type(), fa.Field)
					if be.stores[k] == nil {
						be.stores[k] = map[string]bool{}
					}
					for o := range be.eval(x.Val, nil, env, depth) {
						be.stores[k][o] = true
					}
				}
			case *ssa.Call:
				callee := x.Common().StaticCallee()
				if callee == nil || callee.Pkg != be.pkg || len(callee.Blocks) == 0 {
					continue
				}
				be.collect(callee, be.bind(callee, x.Common().Args, env, depth), depth+1)
			}
		}
	}
}

func (be *builderEval) bind(callee *ssa.Function, args []ssa.Value, env bEnv, depth int) bEnv {
	ne := bEnv{}
	for i, p := range callee.Params {
		if i < len(args) {
			ne[p] = bThunk{val: args[i], env: env}
		}
	}
	return ne
}

// eval: the origins of component comp (struct field indices, outermost first) of value v.
func (be *builderEval) eval(v ssa.Value, comp []int, env bEnv, depth int) map[string]bool {
	out := map[string]bool{}
	seen := map[ssa.Value]bool{}
	var ev func(v ssa.Value, comp []int, depth int)
	add := func(s string) { out[s] = true }
	ev = func(v ssa.Value, comp []int, depth int) {
		if depth > builderDepth+16 {
			be.undec = "value nests too deeply"
			return
		}
		if len(comp) == 0 {
			if seen[v] {
				return
			}
			seen[v] = true
		}
		switch x := v.(type) {
		case *ssa.Parameter:
			if th, ok := env[x]; ok {
				if th.lit != nil {
					if len(comp) != 0 {
						add("?")
						return
					}
					for s := range th.lit {
						add(s)
					}
					return
				}
				for s := range be.eval(th.val, comp, th.env, depth+1) {
					add(s)
				}
				return
			}
			add("param:" + x.Name())
		case *ssa.Const:
			if x.Value == nil {
				add("nil")
			} else if x.Value.Kind() == constant.Int {
				add("const:" + x.Value.ExactString())
			} else {
				add("const:" + x.Value.String())
			}
		case *ssa.Phi:
			for _, e := range x.Edges {
				ev(e, comp, depth+1)
			}
		case *ssa.ChangeType:
			ev(x.X, comp, depth)
		case *ssa.MakeInterface:
			ev(x.X, comp, depth)
		case *ssa.TypeAssert:
			ev(x.X, comp, depth)
		case *ssa.Field:
			ev(x.X, append([]int{x.Field}, comp...), depth)
		case *ssa.Extract:
			if c, ok := x.Tuple.(*ssa.Call); ok {
				be.evalCall(c, x.Index, comp, env, depth, out)
				return
			}
			add("?")
		case *ssa.Call:
			be.evalCall(x, 0, comp, env, depth, out)
		case *ssa.UnOp:
			if x.Op != token.MUL {
				add("?")
				return
			}
			switch a := x.X.(type) {
			case *ssa.Alloc:
				be.evalAlloc(a, comp, env, depth, out)
			case *ssa.FieldAddr:
				if al, ok := a.X.(*ssa.Alloc); ok {
					be.evalAlloc(al, append([]int{a.Field}, comp...), env, depth, out)
					return
				}
				if len(comp) != 0 {
					add("?")
					return
				}
				for base := range be.eval(a.X, nil, env, depth+1) {
					add(base + "." + fieldName(a.X.Type(), a.Field))
				}
			case *ssa.IndexAddr:
				if len(comp) != 0 {
					add("?")
					return
				}
				idx := "?"
				if c, ok := a.Index.(*ssa.Const); ok && c.Value != nil && c.Value.ExactString() == "0" {
					idx = "0"
				} else if bo, ok := a.Index.(*ssa.BinOp); ok && bo.Op == token.SUB {
					if c, ok := bo.Y.(*ssa.Const); ok && c.Value != nil && c.Value.ExactString() == "1" {
						if l, ok := bo.X.(*ssa.Call); ok {
							if bi, ok := l.Common().Value.(*ssa.Builtin); ok && bi.Name() == "len" && sameValue(l.Common().Args[0], a.X) {
								idx = "last"
							}
						}
					}
				}
				for base := range be.eval(a.X, nil, env, depth+1) {
					add(base + "[" + idx + "]")
				}
			default:
				add("?")
			}
		case *ssa.Alloc:
			add("&local")
		case *ssa.BinOp, *ssa.Convert:
			add("?")
		default:
			add("?")
		}
	}
	ev(v, comp, depth)
	return out
}

// sameValue: two SSA values denote the same slice (same value, or loads of the same parameter spill).
func sameValue(a, b ssa.Value) bool {
	if a == b {
		return true
	}
	return Expr(a) == Expr(b)
}

func (be *builderEval) evalCall(c *ssa.Call, result int, comp []int, env bEnv, depth int, out map[string]bool) {
	com := c.Common()
	if com.IsInvoke() {
		if len(comp) != 0 {
			out["?"] = true
			return
		}
		for base := range be.eval(com.Value, nil, env, depth+1) {
			out[base+"."+com.Method.Name()+"()"] = true
		}
		return
	}
	callee := com.StaticCallee()
	if callee == nil {
		out["?"] = true
		return
	}
	if callee.Name() == "Get" && callee.Signature.Recv() != nil && len(comp) == 0 {
		// the pool's allocator: one fresh object per call instruction
		if be.fresh == nil {
			be.fresh = map[*ssa.Call]string{}
		}
		if _, ok := be.fresh[c]; !ok {
			be.nfresh++
			be.fresh[c] = fmt.Sprintf("fresh#%d", be.nfresh)
		}
		out[be.fresh[c]] = true
		return
	}
	if callee.Pkg != be.pkg || len(callee.Blocks) == 0 || depth > builderDepth {
		if len(comp) == 0 {
			out["call:"+calleeName(callee)] = true
		} else {
			out["?"] = true
		}
		return
	}
	ne := be.bind(callee, com.Args, env, depth)
	for _, b := range callee.Blocks {
		for _, in := range b.Instrs {
			if r, ok := in.(*ssa.Return); ok && result < len(r.Results) {
				for o := range be.eval(r.Results[result], comp, ne, depth+1) {
					out[o] = true
				}
			}
		}
	}
}

// evalAlloc: what a load of component comp of local a can yield (path-insensitively: every store counts).
func (be *builderEval) evalAlloc(a *ssa.Alloc, comp []int, env bEnv, depth int, out map[string]bool) {
	found := false
	for _, r := range *a.Referrers() {
		switch x := r.(type) {
		case *ssa.Store:
			if x.Addr == a {
				found = true
				for o := range be.eval(x.Val, comp, env, depth+1) {
					out[o] = true
				}
			}
		case *ssa.FieldAddr:
			if len(comp) == 0 || x.Field != comp[0] {
				continue
			}
			for _, r2 := range *x.Referrers() {
				if st, ok := r2.(*ssa.Store); ok && st.Addr == x {
					found = true
					for o := range be.eval(st.Val, comp[1:], env, depth+1) {
						out[o] = true
					}
				}
			}
		}
	}
	if !found {
		out["const:0"] = true // the zero value of a local never assigned on this component
	}
}
